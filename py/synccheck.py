"""Correspondence + oracle for the families that run whole replica histories against the
harness chain server (C01, C02, C04, C12, C14 share it)."""
import json, os, glob, time
from concurrent.futures import ThreadPoolExecutor
import corr, lib


def exec_script(ck, script, tag="x"):
    os.makedirs(lib.WORK + "/tmp", exist_ok=True)
    p = "%s/tmp/script-%s-%d.json" % (lib.WORK, tag, os.getpid())
    json.dump(script, open(p, "w"))
    rc, out, err = ck.harness([script.get("exec", "synchist-exec"), "--script", p])
    os.remove(p)
    if rc != 0 or not out.strip():
        return {"crash": True, "rc": rc, "stderr": err[-3000:], "script": script,
                "oracle": {"ok": False, "problems": ["harness process failed: rc=%d %s" % (rc, err[-800:])]},
                "coq": None, "features": {}}
    return json.loads(out.strip().splitlines()[-1])


def generate(ck, fam, count, extra_args=(), procs=8):
    """run the generator split over several processes; returns list of case dicts"""
    os.makedirs(lib.WORK + "/tmp", exist_ok=True)
    per = (count + procs - 1) // procs
    jobs = []
    for k in range(procs):
        first = k * per
        n = min(per, count - first)
        if n <= 0:
            break
        out = "%s/tmp/%s-%s-%d-%d.jsonl" % (lib.WORK, ck.prop, fam, os.getpid(), k)
        jobs.append((first, n, out))

    def one(j):
        first, n, out = j
        rc, o, e = ck.harness([fam, "--seed", ck.seed, "--first", first, "--count", n, "--out", out] + list(extra_args))
        return rc, e

    with ThreadPoolExecutor(max_workers=procs) as ex:
        res = list(ex.map(one, jobs))
    cases = []
    crashes = []
    for (first, n, out), (rc, e) in zip(jobs, res):
        got = []
        if os.path.exists(out):
            got = [json.loads(l) for l in open(out) if l.strip()]
            os.remove(out)
        cases += got
        if rc != 0 or len(got) != n:
            crashes.append({"first": first, "count": n, "produced": len(got), "rc": rc, "stderr": e[-3000:]})
    return cases, crashes


def coq_verdicts(ck, tag, cases, module="Corr.SyncCorr", ctype="scase", fn="check_scase", wf="wf_scase", per_file=60):
    vals = [c["coq"] for c in cases]
    v, e, secs = corr.eval_cases(ck.prop + "-" + tag, module, ctype, fn, vals, per_file=per_file, extra=wf)
    ck.checker_cmds.append("coqc -Q coq/theories TC work/coq-%s-%s/cases_k.v  (Eval vm_compute in map %s cases)" % (ck.prop, tag, fn))
    return v, e


def shrink(ck, script, pred, budget=120):
    """greedy removal of actions while pred(script) stays true"""
    if "actions" not in script:
        return script
    acts = list(script["actions"])
    used = 0
    changed = True
    while changed and used < budget:
        changed = False
        i = len(acts) - 1
        while i >= 0 and used < budget:
            cand = acts[:i] + acts[i + 1:]
            s2 = dict(script, actions=cand)
            used += 1
            if pred(s2):
                acts = cand
                changed = True
            i -= 1
    return dict(script, actions=acts)


def model_view(ck, case, k, module="Corr.SyncCorr", view="model_view"):
    from gallina import g
    if isinstance(case["coq"], list):
        # a group of cases: k = 1000000 * (1 + index) + verdict of that case
        idx, k = k // 1000000 - 1, k % 1000000
        if idx < 0:
            return None
        case = {"coq": case["coq"][idx]}
    return corr.eval_term(ck.prop + "-mv", module, "%s %s %d%%%s" % (view, g(case["coq"]), max(k - 1, 0), "N" if view.endswith("_N") else "nat"))


def triage(ck, fam, cases, verdicts, wfs, clause, nontrivial, oracle_ok=lambda c: c["oracle"]["ok"],
           module="Corr.SyncCorr", fn="check_scase", ctype="scase", known_match=None, view="model_view",
           spec_is_property=False):
    """Decide what the observed disagreements mean.  Returns number of violations added."""
    bad_oracle = [i for i, c in enumerate(cases) if not oracle_ok(c)]
    diffs = [i for i, v in enumerate(verdicts) if v != 0 and oracle_ok(cases[i])]
    notwf = [i for i, w in enumerate(wfs) if not w]
    ck.coverage.setdefault("families", {})[fam] = {
        "cases": len(cases), "oracle_failures": len(bad_oracle),
        "model_disagreements": len([v for v in verdicts if v != 0]),
        "histories_outside_theorem_hypotheses": len(notwf)}
    added = 0
    if bad_oracle:
        # group by known findings
        unknown = []
        for i in bad_oracle:
            k = known_match(cases[i]) if known_match else None
            if k:
                if k not in ck.known:
                    ck.known.append(k)
            else:
                unknown.append(i)
        if unknown:
            i = min(unknown, key=lambda j: len(json.dumps(cases[j]["script"])))
            c = cases[i]

            def pred(s):
                r = exec_script(ck, s, "shr")
                return not oracle_ok(r) and not (known_match and known_match(r))
            if "actions" in c["script"] or "concurrent" in c["script"]:
                small = shrink(ck, c["script"], pred)
                r = exec_script(ck, small, "shr")
                if oracle_ok(r):
                    small, r = c["script"], c
            else:
                small, r = c["script"], c
            mv = None
            if r.get("coq") is not None:
                vv, _, _ = corr.eval_cases(ck.prop + "-one", module, ctype, fn, [r["coq"]])
                mv = {"first_observation_the_model_does_not_share": vv[0],
                      "model_state_there": model_view(ck, r, vv[0], module, view) if vv[0] else None}
            path = ck.write_replay(fam + "-oracle", {
                "property": ck.prop, "kind": "failing input (direct oracle on the implementation)",
                "clause": clause, "family": fam, "script": small, "original_script": c["script"],
                "implementation_oracle": r["oracle"], "model": mv,
                "replay": "./check %s --replay <this file>" % ck.prop,
                "other_failing_cases": len(unknown) - 1})
            ck.violation(path)
            added += 1
    if diffs and not added and spec_is_property:
        # the Coq side evaluates the property's own specification on the observed results: a
        # disagreement is a failing input
        unknown = [j for j in diffs if not (known_match and known_match(cases[j]))]
        for j in diffs:
            k = known_match(cases[j]) if known_match else None
            if k and k not in ck.known:
                ck.known.append(k)
        if unknown:
            i = min(unknown, key=lambda j: len(json.dumps(cases[j]["script"])))
            c = cases[i]
            mv = model_view(ck, c, verdicts[i], module, view)
            path = ck.write_replay(fam + "-spec", {
                "property": ck.prop, "kind": "failing input (the protocol specification evaluated in Coq on the observed results)",
                "clause": clause, "script": c["script"], "first_nonconforming_call": verdicts[i],
                "specification_state_and_expected_result": mv, "implementation_oracle": c["oracle"],
                "other_failing_cases": len(unknown) - 1})
            ck.violation(path)
            added += 1
    elif diffs and not added:
        # the correspondence no longer checks; the oracle passed on every case explored
        i = min(diffs, key=lambda j: len(json.dumps(cases[j]["script"])))
        c = cases[i]

        def pred(s):
            r = exec_script(ck, s, "shr")
            if r.get("coq") is None:
                return False
            vv, _, _ = corr.eval_cases(ck.prop + "-shr", module, ctype, fn, [r["coq"]])
            return vv[0] != 0
        if "actions" in c["script"] or "concurrent" in c["script"]:
            small = shrink(ck, c["script"], pred, budget=40)
            r = exec_script(ck, small, "shr")
            vv = [0]
            if r.get("coq") is not None:
                vv, _, _ = corr.eval_cases(ck.prop + "-one", module, ctype, fn, [r["coq"]])
            if vv[0] == 0:
                small, r, vv = c["script"], c, [verdicts[i]]
        else:
            small, r, vv = c["script"], c, [verdicts[i]]
        path = ck.write_replay(fam + "-correspondence", {
            "property": ck.prop,
            "kind": "correspondence no longer checks; no input failing the property was found",
            "broken": "correspondence %s.%s between coq/theories/Model and /repo (family %s)" % (module, fn, fam),
            "clause": clause, "script": small, "original_script": c["script"],
            "first_observation_the_model_does_not_share": vv[0],
            "model_state_there": model_view(ck, r, vv[0], module, view),
            "implementation_oracle": r["oracle"],
            "disagreeing_cases": len(diffs), "cases_searched_with_oracle": len(cases),
            "replay": "./check %s --replay <this file>" % ck.prop})
        ck.violation(path, no_input=True)
        added += 1
    return added


def run_family(ck, fam, count, clause, nontrivial, extra_args=(), corpus=True, known_match=None,
               oracle_ok=lambda c: c["oracle"]["ok"], module="Corr.SyncCorr", fn="check_scase",
               ctype="scase", wf="wf_scase", per_file=60, view="model_view", tag=None, spec_is_property=False):
    fam_tag = fam if tag is None else fam + "-" + tag
    cases = []
    if corpus:
        for p in sorted(glob.glob("%s/corpus/%s/*.json" % (lib.VERIF, ck.prop))):
            doc = json.load(open(p))
            s = doc.get("script", doc)
            if "actions" in s or "concurrent" in s:
                r = exec_script(ck, s, "corpus")
                r["from_corpus"] = os.path.basename(p)
                cases.append(r)
    gen, crashes = generate(ck, fam, count, extra_args)
    cases += gen
    for c in cases:
        if not c.get("script"):
            c["script"] = {"family": fam, "note": "the case panicked before its script was recorded; re-run with the same seed"}
    if crashes:
        path = ck.write_replay(fam + "-crash", {
            "property": ck.prop, "kind": "the implementation run crashed or panicked",
            "family": fam, "seed": ck.seed, "details": crashes})
        ck.violation(path)
        ck.obligations.append(("correspondence " + fam, False, "harness process failed"))
        return cases
    evalable = [c for c in cases if c.get("coq") is not None]
    verdicts, wfs = coq_verdicts(ck, fam_tag, evalable, module, ctype, fn, wf, per_file)
    for c in evalable:
        ck.count_case(c["script"], nontrivial(c))
        ck.add_features(fam_tag, c["features"])
    if len(ck.samples) < 4 and evalable:
        ck.samples.append({"family": fam, "script": evalable[-1]["script"], "oracle": evalable[-1]["oracle"]})
    crashed = [c for c in cases if c.get("coq") is None]
    n = triage(ck, fam_tag, evalable + crashed, verdicts + [0] * len(crashed), wfs + [True] * len(crashed),
               clause, nontrivial, oracle_ok, module, fn, ctype, known_match, view, spec_is_property)
    ck.obligations.append(("correspondence %s (%d cases, model = implementation on every observation; oracle on every case)"
                           % (fam_tag, len(cases)), n == 0, "ok" if n == 0 else "see replay"))
    return cases


def replay_file(ck, path, module="Corr.SyncCorr", fn="check_scase", ctype="scase", view="model_view"):
    doc = json.load(open(path))
    s = doc.get("script", doc)
    ok, log = ck.harness_build()
    if not ok:
        print("harness build failed\n" + log)
        return 2
    ck.coq_build(["theories/" + module.replace(".", "/") + ".vo"])
    r = exec_script(ck, s, "replay")
    print("implementation oracle:", json.dumps(r["oracle"], indent=1))
    if r.get("coq") is not None:
        vv, _, _ = corr.eval_cases(ck.prop + "-replay", module, ctype, fn, [r["coq"]])
        print("model verdict (0 = agrees on every observation, k = first observation not shared):", vv[0])
        if vv[0]:
            print(model_view(ck, r, vv[0], module, view))
        bad = (not r["oracle"]["ok"]) or vv[0] != 0
    else:
        bad = True
    print("REPLAY " + ("reproduces" if bad else "does not reproduce"))
    return 1 if bad else 0
