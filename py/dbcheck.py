"""Shared driver of the TaskDb-level checks (C05, C07, C15)."""
import synccheck


def run(ck, prop_file, fam, count, maxlen, clause, nontrivial, rule, explanation):
    thm_ok = ck.theorems(prop_file, ["theories/Corr/DbCorr.vo"])
    ok, log = ck.harness_build()
    if not ok:
        raise SystemExit("harness build failed:\n" + log)
    synccheck.run_family(ck, fam, count, clause, nontrivial, extra_args=["--both", "--maxlen", maxlen],
                         module="Corr.DbCorr", fn="check_dcase", ctype="dcase", wf="wf_dcase", per_file=60,
                         view="dmodel_view")
    if not thm_ok and not ck.violations:
        path = ck.write_replay("theorem", {
            "property": ck.prop, "kind": "a theorem of coq/theories/Properties/%s.v no longer checks" % prop_file,
            "obligations": ck.obligations, "log": getattr(ck, "build_log", "")[-4000:]})
        ck.violation(path, no_input=True)
    return ck.finish("proof", rule, explanation)


def replay(ck, path):
    return synccheck.replay_file(ck, path, module="Corr.DbCorr", fn="check_dcase", ctype="dcase", view="dmodel_view")
