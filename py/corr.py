"""Evaluate model-side checks inside Coq: write cases_k.v files, run coqc in parallel."""
import os, re, subprocess, shutil, time
from concurrent.futures import ThreadPoolExecutor
from gallina import g

COQ = "/verif/coq"
WORK = "/verif/work"


def coqc(vfile, timeout=900):
    r = subprocess.run(
        ["timeout", str(timeout), "coqc", "-noglob", "-Q", COQ + "/theories", "TC",
         "-w", "-notation-overridden,-deprecated-hint-without-locality,-ambiguous-paths",
         vfile],
        capture_output=True, text=True)
    return r.returncode, r.stdout, r.stderr


def parse_N_list(text):
    return [int(x) for x in re.findall(r"(\d+)(?:%N)?", text)]


def eval_cases(tag, module, case_type, fn, cases, per_file=250, timeout=900, extra=None):
    """cases: tagged-JSON values of Coq type `case_type`; fn: case -> N.
    Returns (verdicts, secs).  A coqc failure raises."""
    d = os.path.join(WORK, "coq-" + tag)
    shutil.rmtree(d, ignore_errors=True)
    os.makedirs(d)
    files = []
    for k in range(0, len(cases), per_file):
        chunk = cases[k:k + per_file]
        path = os.path.join(d, "cases_%d.v" % (k // per_file))
        with open(path, "w") as f:
            f.write("From TC Require Import %s.\n" % module)
            f.write("Definition cases : list %s := [\n" % case_type)
            f.write(";\n".join(g(c) for c in chunk))
            f.write("].\n")
            f.write("Eval vm_compute in (map %s cases).\n" % fn)
            if extra:
                f.write("Eval vm_compute in (map %s cases).\n" % extra)
        files.append((path, len(chunk)))
    t0 = time.time()
    with ThreadPoolExecutor(max_workers=16) as ex:
        results = list(ex.map(lambda p: coqc(p[0], timeout), files))
    verdicts, extras = [], []
    for (path, cnt), (rc, out, err) in zip(files, results):
        if rc != 0:
            raise RuntimeError("coqc failed on %s (rc=%d): %s" % (path, rc, (err or out)[-2000:]))
        parts = re.split(r"\n\s*: list", out)
        first = parts[0]
        v = parse_N_list(first.split("=", 1)[1])
        if len(v) != cnt:
            raise RuntimeError("cannot parse verdicts of %s: %r" % (path, out[:500]))
        verdicts += v
        if extra:
            second = parts[1].split("=", 1)[1]
            e = re.findall(r"true|false", second)
            if len(e) != cnt:
                raise RuntimeError("cannot parse extra verdicts of %s" % path)
            extras += [x == "true" for x in e]
    shutil.rmtree(d, ignore_errors=True)
    return verdicts, extras, time.time() - t0


def eval_term(tag, module, term, timeout=300):
    """Evaluate one closed term and return Coq's printed result."""
    d = os.path.join(WORK, "coq-" + tag)
    shutil.rmtree(d, ignore_errors=True)
    os.makedirs(d)
    path = os.path.join(d, "term.v")
    with open(path, "w") as f:
        f.write("From TC Require Import %s.\nEval vm_compute in (%s).\n" % (module, term))
    rc, out, err = coqc(path, timeout)
    shutil.rmtree(d, ignore_errors=True)
    if rc != 0:
        return "coqc failed: " + (err or out)[-1500:]
    return out.strip()
