#!/bin/bash
# usage: verify_seed.sh <Cxx> [worktree]  -- confirm a seeded change in its scratch worktree:
# demo fails with the change, passes without it; the existing suite passes with it.
id=$1; wt=${2:-/tmp/wt-$id}; out=/tmp/seed-out-$id
export CARGO_TARGET_DIR=$wt/target CARGO_NET_OFFLINE=true
cd $wt || exit 2
git checkout -q -- src 2>/dev/null
git apply --check $out/patch.diff || { echo "patch does not apply"; exit 2; }
[ -f tests/seeded_demo.rs ] || cp $out/seeded_demo.rs tests/seeded_demo.rs
echo "== demo WITHOUT the change"
cargo nextest run --offline --test seeded_demo --no-fail-fast 2>&1 | grep -E "Summary|FAIL|error" | head -8
git apply $out/patch.diff
echo "== demo WITH the change"
cargo nextest run --offline --test seeded_demo --no-fail-fast 2>&1 | grep -E "Summary|FAIL \[|error" | head -8
echo "== existing suite WITH the change (demo excluded)"
cargo nextest run --workspace --no-fail-fast --offline -E 'not binary(seeded_demo)' 2>&1 | grep -E "Summary|FAIL \[" | head -8
