"""C09 — object-store server keeps one version chain under concurrent clients."""
import cloudcheck

CLAUSE = ("for every interleaving of the clients' object-store requests: at most one accepted child per parent, "
          "every version reported accepted stays on the chain, readers only receive chain versions with the "
          "submitted bytes, race losers are never served")


def run(ck):
    thm_ok = ck.theorems("C09", ["theories/Corr/CloudCorr.vo"])
    ok, log = ck.harness_build()
    if not ok:
        raise SystemExit("harness build failed:\n" + log)
    quick = ck.tier == "quick"
    cloudcheck.run_family(ck, "cloud-race", 320 if quick else 6000, CLAUSE,
                          lambda c: c["features"].get("rejections", 0) >= 1)
    # directed: a writer between its upload and its swap, a reader of the same parent between its
    # listing and its decision, a second writer committing in between (random hand-over points)
    cloudcheck.run_family(ck, "cloud-reader", 160 if quick else 3000, CLAUSE + " [reader between two racing writers]",
                          lambda c: c["features"].get("rejections", 0) >= 1)
    cloudcheck.theorem_violation(ck, "C09", thm_ok)
    return ck.finish(
        "proof",
        "2-4 clients of the object-store server over the gated in-memory store (hook), listing page size 1-3, a "
        "short sequential prefix, then 1-3 calls per client (add-version on the latest or a stale parent, "
        "get-child-version of chain versions, add-/get-snapshot) advanced one object-store request or list page at "
        "a time by a seeded scheduler; plus directed three-party schedules (two writers racing for one parent and a "
        "reader of that parent, handed over after 1-3 / 0-2 / all requests); distinct = different schedules; non-trivial = at least one add-version "
        "lost a race or was rejected",
        "Theorems C09_* (the invariant CInv of store + clients, preserved by every request, drop and lost reply; one "
        "child per parent; accepted stays on the chain; served is the chain child with the submitted bytes) hold for "
        "every schedule; the correspondence replays each schedule in the model of the "
        "request-level machines and compares every request issued (names, compare-and-swap arguments, page "
        "cursors), every result and the final store; the oracle audits accepted/served versions against the "
        "successive values of 'latest'.",
        trusted_extra=["hook MemStore/MemService (src/server/verif.rs) stands for the object store; the AWS and GCP Service implementations are not run"])


def replay(ck, path):
    import json
    doc = json.load(open(path))
    print(json.dumps(doc.get("implementation_oracle"), indent=1)[:3000])
    for s in doc.get("script", {}).get("steps", []):
        print("  ", s[:200])
    print("version ids are random: re-run ./check %s with VERIF_SEED=%s to re-explore the same schedules" % (ck.prop, doc.get("script", {}).get("seed")))
    return 1
