"""C14 — what is sent to the server is the documented operation format only."""
import json, os, re
import synccheck, lib

CLAUSE = ("every version sent is a UTF-8 JSON document listing only Create/Delete/Update with exactly the documented "
          "fields, in order, without undo points or old values; versions written in the documented format by "
          "another implementation are applied correctly")


def nontrivial(c):
    f = c["features"]
    return f.get("foreign_versions", 0) >= 1 or f.get("undo_points", 0) >= 1


def doc_examples(ck):
    """serve the documentation's own example versions to a replica"""
    md = open("/repo/docs/src/sync-protocol.md").read()
    try:
        sec = md[md.index("### Version"):md.index("### Snapshot")]
    except ValueError:
        sec = md
    ex = re.findall(r"^ \* `(.*?)`", sec, flags=re.M)
    p = lib.WORK + "/tmp/doc-examples-%d.txt" % os.getpid()
    os.makedirs(lib.WORK + "/tmp", exist_ok=True)
    open(p, "w").write("\n".join(ex) + "\n")
    rc, out, err = ck.harness(["doc-versions", "--examples", p])
    os.remove(p)
    res = json.loads(out.strip().splitlines()[-1]) if rc == 0 and out.strip() else {"ok": False, "problems": ["harness failed: " + err[-500:]]}
    ck.coverage["documentation_examples"] = {"found": len(ex), "applied": len(res.get("applied", []))}
    good = res["ok"] and len(ex) >= 1
    ck.obligations.append(("documentation examples of a version are accepted and applied as documented (%d examples)" % len(ex),
                           good, "ok" if good else "; ".join(res.get("problems", ["no example found"]))[:400]))
    if not good:
        path = ck.write_replay("doc-examples", {
            "property": ck.prop, "kind": "failing input (a version in the documented format)",
            "clause": "a replica correctly applies any version written in the documented format",
            "examples": ex, "result": res, "replay": "./check C14 --replay <this file>"})
        ck.violation(path)


def run(ck):
    thm_ok = ck.theorems("C14", ["theories/Corr/SyncCorr.vo"])
    ok, log = ck.harness_build()
    if not ok:
        raise SystemExit("harness build failed:\n" + log)
    quick = ck.tier == "quick"
    synccheck.run_family(ck, "synchist-wire", 1200 if quick else 15000, CLAUSE, nontrivial,
                         extra_args=["--maxlen", 12 if quick else 30])
    doc_examples(ck)
    if not thm_ok and not ck.violations:
        path = ck.write_replay("theorem", {
            "property": ck.prop, "kind": "a theorem of coq/theories/Properties/C14.v no longer checks",
            "obligations": ck.obligations, "log": getattr(ck, "build_log", "")[-4000:]})
        ck.violation(path, no_input=True)
    return ck.finish(
        "proof",
        "generated histories with undo points, deletes of populated tasks, property removals, sub-second "
        "timestamps, strings with quotes/controls/astral characters and values above 400 kB, interleaved with "
        "versions written by 'another implementation' (harness-written text: shuffled fields, 0/3/9-digit and "
        "shortest fractions, Z and +00:00, \\u escapes, upper-case uuids, whitespace); plus the example versions "
        "of docs/src/sync-protocol.md extracted at run time; distinct = different scripts; non-trivial = the "
        "history contains an undo point or a foreign version",
        "Theorems C14_* are unbounded at the level of JSON values; every version received by the harness server "
        "is parsed with serde_json::Value (not the crate's types), its field sets are checked for exactness and "
        "timestamps against an RFC 3339 Z grammar, and the parsed operations are compared with the model's batch; "
        "replicas pulling foreign versions are compared with the model.",
        trusted_extra=["serde_json's text layer and chrono's RFC 3339 parser/printer are contracts (section hypotheses of C14_from_to)"])


def replay(ck, path):
    doc = json.load(open(path))
    if "examples" in doc:
        ok, log = ck.harness_build()
        p = lib.WORK + "/tmp/doc-examples-replay.txt"
        open(p, "w").write("\n".join(doc["examples"]) + "\n")
        rc, out, err = ck.harness(["doc-versions", "--examples", p])
        print(out)
        res = json.loads(out.strip().splitlines()[-1])
        print("REPLAY " + ("does not reproduce" if res["ok"] else "reproduces"))
        return 0 if res["ok"] else 1
    return synccheck.replay_file(ck, path)
