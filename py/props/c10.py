"""C10 — object-store cleanup never deletes history that is still needed."""
import cloudcheck

CLAUSE = ("after any interleaving of cleanup runs with other clients' requests, and cleanups that stop after any "
          "deletion: from every retained on-chain snapshot (or from the first version) all later versions are "
          "still there; only unneeded objects are deleted")

KNOWN = ("a snapshot for an old version is stored after a cleanup has listed the snapshots; the cleanup then deletes "
         "old versions following it, and the late snapshot has no history after it (late-old-snapshot)")


def known_match(c):
    probs = c["oracle"].get("problems", [])
    if probs and all(p.startswith("[late-old-snapshot]") for p in probs):
        return KNOWN
    return None


def run(ck):
    thm_ok = ck.theorems("C10", ["theories/Corr/CloudCorr.vo"])
    ok, log = ck.harness_build()
    if not ok:
        raise SystemExit("harness build failed:\n" + log)
    quick = ck.tier == "quick"
    listed = [k for k in ck.known_findings() if k.get("match", {}).get("tag") == "late-old-snapshot"]
    cloudcheck.run_family(ck, "cloud-cleanup", 400 if quick else 8000, CLAUSE,
                          lambda c: c["features"].get("calls", 0) >= 3,
                          known_match=known_match if listed else None)
    # directed: a cleanup between its listings, a writer adding a version and its snapshot, a second cleanup
    cloudcheck.run_family(ck, "cloud-cleanup-writer", 150 if quick else 3000, CLAUSE + " [writer between a cleanup's listings]",
                          lambda c: c["features"].get("calls", 0) >= 3,
                          known_match=known_match if listed else None)
    cloudcheck.theorem_violation(ck, "C10", thm_ok)
    return ck.finish(
        "proof",
        "a sequential prefix builds a chain of 0-5 versions (60% created long ago) with snapshots at random "
        "positions; then 2-3 clients run cleanups, add-versions, get-child-versions and add-snapshots of "
        "arbitrary chain versions, interleaved at single requests / list pages; in a third of the cases a cleanup "
        "stops (its request fails) after its k-th deletion; plus directed schedules (a cleanup paused after 1-4 "
        "requests, a writer adding a version and its snapshot, optionally a second whole cleanup, then the first goes "
        "on); the audit also replays the store's request log: a snapshot of a chain version may only be deleted while "
        "a snapshot of a later chain version is stored; distinct = different schedules; non-trivial = at least "
        "three calls",
        "Theorems C10_* cover the cleanup's decisions for every listing and an inductive invariant over all "
        "schedules with cleanup machines (retained versions, the cut behind a stored snapshot, losers never on "
        "the chain); the same request-level machines are compared with the real server on every generated "
        "schedule (every request and the final store), and the retention audit is evaluated on the real store.",
        trusted_extra=["hook MemStore/MemService stands for the object store; creation times are set by the harness"])


def replay(ck, path):
    from props import c09
    return c09.replay(ck, path)
