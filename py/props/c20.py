"""C20 — expiration purges exactly the long-deleted tasks, everywhere."""
import synccheck

CLAUSE = ("expire_tasks removes precisely the tasks with status deleted and a readable modification time more "
          "than 180 days old, keeps everything else untouched, and the purge synchronises so that a concurrent "
          "edit elsewhere does not bring the task back")


def nontrivial(c):
    return c["features"].get("expired", 0) >= 1


def run(ck):
    thm_ok = ck.theorems("C20", ["theories/Corr/TaskCorr.vo"])
    ok, log = ck.harness_build()
    if not ok:
        raise SystemExit("harness build failed:\n" + log)
    quick = ck.tier == "quick"
    synccheck.run_family(ck, "task-expire", 1500 if quick else 20000, CLAUSE, nontrivial,
                         module="Corr.TaskCorr", fn="check_ecase", ctype="ecase", wf="wf_ecase",
                         per_file=60, view="emodel_view")
    if not thm_ok and not ck.violations:
        path = ck.write_replay("theorem", {
            "property": ck.prop, "kind": "a theorem of coq/theories/Properties/C20.v no longer checks",
            "obligations": ck.obligations, "log": getattr(ck, "build_log", "")[-4000:]})
        ck.violation(path, no_input=True)
    return ck.finish(
        "proof",
        "2-6 tasks with status from {deleted, pending, completed, recurring, 'Deleted', unknown, missing} and "
        "modified from {missing, empty, text, out of range either way, i64::MIN, 17-digit, far past, epoch, "
        "negative, far future, the 180-day boundary +-60 s and +-1 day, now, signed, padded}; replica A expires "
        "while replica B has concurrent edits of half of the tasks; both sync orders; distinct = different task "
        "sets; non-trivial = at least one task expired (boundary values within 5 s of the clock are not compared)",
        "Theorems C20_* are unbounded; the surviving task set after expire_tasks is compared with the model; the "
        "oracle checks that kept tasks are untouched and that after syncing both replicas hold exactly the "
        "survivors.")


def replay(ck, path):
    import json
    doc = json.load(open(path))
    print(json.dumps(doc.get("implementation_oracle"), indent=1)[:3000])
    return 1
