"""C06 — the SQLite replica store is crash-atomic and durable."""
import json
import synccheck, cloudcheck

CLAUSE = ("after a replica action on the SQLite store is abandoned at any of its storage calls, a fresh handle sees "
          "the complete state before the action (or the complete result of an earlier transaction of the same "
          "action), never a mixture; a completed action is there after close and reopen")


KNOWN = ("undo and sync are two transactions (the change, then the working-set rebuild): interrupted between them the "
         "replica has the tasks and operations of the after-state with the working set of the before-state "
         "(two-transaction-action)")


def known_match(c):
    probs = c["oracle"].get("problems", [])
    if probs and all(p.startswith("[two-transaction-action]") for p in probs):
        return KNOWN
    return None


def nontrivial(c):
    return c["features"].get("crash_points", 0) >= 5


def run(ck):
    thm_ok = ck.theorems("C06", ["theories/Corr/StorageCorr.vo"])
    ok, log = ck.harness_build()
    if not ok:
        raise SystemExit("harness build failed:\n" + log)
    quick = ck.tier == "quick"
    # every storage call of every action is a crash point; the whole trace of calls that reached
    # SQLite (through the working handle and through the fresh ones) is run against the storage
    # specification with its transaction envelope
    synccheck.run_family(ck, "sqlite-crash", 120 if quick else 2500, CLAUSE, nontrivial,
                         extra_args=["--maxlen", 6 if quick else 9], corpus=True,
                         module="Corr.StorageCorr", fn="check_stcase", ctype="(list sitem)", wf="wf_stcase",
                         per_file=8, view="st_model_view",
                         known_match=known_match if any(k.get("match", {}).get("tag") == "two-transaction-action" for k in ck.known_findings()) else None)
    kills(ck, 40 if quick else 600)
    cloudcheck.theorem_violation(ck, "C06", thm_ok)
    return ck.finish(
        "proof",
        "histories of 2-9 replica actions (commit of 1-4 operations, undo, working-set rebuild with and without "
        "renumbering, sync against the harness server) on Replica<SqliteStorage>; each action is abandoned at "
        "storage call 0, 1, 2, ... (the call returns an injected error before reaching SQLite, the action returns, "
        "its transaction is dropped) until it completes; after every abandonment a fresh handle reads tasks, "
        "operations, working set and base version; 40% of the actions are followed by close and reopen; plus child "
        "processes killed with SIGKILL while committing three-operation batches; distinct = different action "
        "scripts; non-trivial = at least five crash points",
        "Theorems C06_* prove before-or-after for the transaction envelope over any state and call alphabet; the "
        "trace of every storage call (results included) of every attempt and every fresh-handle read is checked "
        "against the storage specification under that envelope in Coq. That SQLite's journal survives a process "
        "kill or power loss is a property of SQLite: it is sampled by the kill runs, not proved.",
        trusted_extra=["injected faults are error returns inside the process; SIGKILL runs sample, and power loss is "
                       "not exhibited; SQLite (bundled, rusqlite) is a substrate"])


def kills(ck, runs):
    rc, out, err = ck.harness(["sqlite-kill", "--seed", ck.seed, "--count", runs])
    try:
        res = json.loads(out.strip().splitlines()[-1])
    except Exception:
        res = {"ok": False, "problems": ["harness failed: rc=%d %s" % (rc, err[-600:])], "runs": 0}
    ck.coverage["process_kills"] = {k: res.get(k) for k in ("runs", "kills_that_caught_a_commit_in_flight_or_unreported")}
    ck.obligations.append(("a process killed while committing leaves whole batches only, and every reported commit "
                           "(%s kills)" % res.get("runs"), res["ok"], "ok" if res["ok"] else "; ".join(res["problems"])[:400]))
    if not res["ok"]:
        path = ck.write_replay("kill", {"property": ck.prop, "kind": "failing input (process kill during commits)",
                                        "result": res, "seed": ck.seed,
                                        "replay": "harness/target/release/tcverif sqlite-kill --seed %s --count %d" % (ck.seed, runs)})
        ck.violation(path)


def replay(ck, path):
    return synccheck.replay_file(ck, path, module="Corr.StorageCorr", fn="check_stcase", ctype="(list sitem)",
                                 view="st_model_view")
