"""C12 — snapshots reproduce exactly the state of their version."""
import synccheck

CLAUSE = ("every uploaded snapshot, decoded independently, equals the replay of the chain up to its version; it is "
          "uploaded only when urgency meets the threshold; a replica started from a snapshot ends like a full replay; "
          "a replica holding data never has it replaced")


def nontrivial(c):
    return c["features"].get("snapshots", 0) >= 1


def run(ck):
    thm_ok = ck.theorems("C12", ["theories/Corr/SyncCorr.vo"])
    ok, log = ck.harness_build()
    if not ok:
        raise SystemExit("harness build failed:\n" + log)
    quick = ck.tier == "quick"
    synccheck.run_family(ck, "synchist-snap", 1200 if quick else 15000, CLAUSE, nontrivial,
                         extra_args=["--maxlen", 12 if quick else 30])
    if not thm_ok and not ck.violations:
        path = ck.write_replay("theorem", {
            "property": ck.prop, "kind": "a theorem of coq/theories/Properties/C12.v no longer checks",
            "obligations": ck.obligations, "log": getattr(ck, "build_log", "")[-4000:]})
        ck.violation(path, no_input=True)
    return ck.finish(
        "proof",
        "generated histories in which every add-version reply carries a scripted urgency (none/low/high), syncs "
        "use avoid_snapshots at random, 30% of the cases have pending changes above 1 MB (urgent replies on "
        "non-final batches), and one replica stays untouched until late so that it starts from the stored "
        "snapshot; strings include astral-plane, control and quote characters; distinct = different scripts; "
        "non-trivial = at least one snapshot was uploaded",
        "Theorems C12_* are unbounded; the snapshot bytes received by the harness server are inflated and parsed "
        "by the harness (flate2 + serde_json::Value, not the crate's decoder) and compared with the model's "
        "chain state in the add-snapshot request; replicas starting from the snapshot are compared with the model "
        "and, at quiescence, with the independent replay of the chain.",
        trusted_extra=["flate2 (zlib) and the JSON text layer of snapshots are used by the independent decoder too"])


def replay(ck, path):
    return synccheck.replay_file(ck, path)
