"""C04 — an interrupted sync loses nothing and can simply be repeated."""
import synccheck

CLAUSE = ("after an interruption (error before effect, lost reply, dropped transaction) the stored replica is "
          "unchanged; syncing again succeeds and converges to the chain replay; nothing lost, nothing twice")


def nontrivial(c):
    return c["features"].get("faults", 0) >= 1


def run(ck):
    thm_ok = ck.theorems("C04", ["theories/Corr/SyncCorr.vo"])
    ok, log = ck.harness_build()
    if not ok:
        raise SystemExit("harness build failed:\n" + log)
    quick = ck.tier == "quick"
    synccheck.run_family(ck, "synchist-fault", 1200 if quick else 20000, CLAUSE, nontrivial,
                         extra_args=["--maxlen", 10 if quick else 20])
    if not thm_ok and not ck.violations:
        path = ck.write_replay("theorem", {
            "property": ck.prop, "kind": "a theorem of coq/theories/Properties/C04.v no longer checks",
            "obligations": ck.obligations, "log": getattr(ck, "build_log", "")[-4000:]})
        ck.violation(path, no_input=True)
    return ck.finish(
        "proof",
        "generated histories in which syncs are cut after 0-6 server requests by one of {future dropped, "
        "request fails before reaching the server, server performs the request and the reply is lost}, "
        "possibly repeatedly and with another replica syncing before the retry, with multi-batch pending "
        "changes in 30% of the cases; distinct = different scripts; non-trivial = at least one fault",
        "Theorems C04_* cover every fault point and kind at request granularity (storage calls act on the "
        "transaction's private copy, so a fault at any of them is the abandon event); the correspondence "
        "injects the faults into the real sync through the gated harness server and compares the stored "
        "tasks after each interruption and the whole retry with the model.")


def replay(ck, path):
    return synccheck.replay_file(ck, path)
