"""C08 — every server backend implements the version-chain protocol exactly."""
import synccheck

CLAUSE = ("a version is accepted iff its parent is the latest (any parent when none exists), otherwise rejected "
          "naming the latest and changing nothing; an accepted version is returned byte for byte as the child of "
          "its parent to every handle; an unknown parent yields 'no such version'; a stored snapshot is returned "
          "intact with its version")

KINDS = [("local", 150, 2000), ("cloud", 60, 800), ("git", 24, 300), ("gitremote", 24, 300), ("http", 60, 800)]


def run(ck):
    thm_ok = ck.theorems("C08", ["theories/Corr/BackendCorr.vo"])
    ok, log = ck.harness_build()
    if not ok:
        raise SystemExit("harness build failed:\n" + log)
    quick = ck.tier == "quick"
    for kind, q, t in KINDS:
        synccheck.run_family(ck, "backend", q if quick else t, CLAUSE + " [%s]" % kind,
                             lambda c: c["features"].get("accepted", 0) >= 1 and c["features"].get("calls", 0) >= 3,
                             extra_args=["--kind", kind] + ([] if quick else ["--big"]),
                             module="Corr.BackendCorr", fn="check_bcase", ctype="(list (bcall * bres))",
                             wf="wf_bcase", per_file=60, view="bmodel_view", corpus=False, spec_is_property=True, tag=kind)
    if not thm_ok and not ck.violations:
        path = ck.write_replay("theorem", {"property": ck.prop, "kind": "a theorem of coq/theories/Properties/C08.v no longer checks",
                                           "obligations": ck.obligations, "log": getattr(ck, "build_log", "")[-4000:]})
        ck.violation(path, no_input=True)
    return ck.finish(
        "proof",
        "per backend (local on-disk with 1-3 handles on one directory; object store over the in-memory service "
        "with 1-3 handles; git local-only; git with a bare remote and two clones, real git processes; the HTTP client "
        "against a harness-side HTTP/1.1 server that implements docs/src/http.md over an in-memory chain, which also "
        "answers 4-10 requests per case in ways no conforming server would - status 500/410, missing or malformed "
        "id headers, wrong content type, corrupted or truncated bodies - each of which must come back as an error, "
        "and which opens every body it received under (secret, client id as salt, id in the url)): sequences "
        "of 3-12 calls (add-version with latest / stale / unknown / nil parent, get-child-version of known and "
        "unknown parents, add-/get-snapshot) with empty, non-UTF-8, 20 kB (thorough: 1 MB) and Unicode payloads; "
        "distinct = different call scripts; non-trivial = at least three calls and one accepted version",
        "Theorems C08_* are about the protocol specification; each backend's every result is compared with the "
        "specification evaluated in Coq (ids canonicalised by first appearance), returned bytes with the "
        "submitted ones, and stored git files are checked for the sealed form.",
        trusted_extra=["git 2.39 binary, SQLite, the hook's in-memory object store are substrates",
                       "the harness HTTP server (harness/src/httpsrv.rs) stands for taskchampion-sync-server; reqwest, hyper "
                       "and tokio are substrates; TLS is not used; AWS/GCP services are not exercised (no network)"])


def replay(ck, path):
    import json
    doc = json.load(open(path))
    print(json.dumps(doc.get("implementation_oracle"), indent=1)[:3000])
    for s in doc.get("script", {}).get("steps", []):
        print("  ", s)
    return 1
