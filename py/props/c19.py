"""C19 — task mutators, their recorded operations and the task model agree."""
import synccheck

CLAUSE = ("committing the operations recorded by any sequence of Task/TaskData mutators makes the stored task "
          "identical to the held one, with true old values; end/modified rules hold; reserved names are "
          "rejected; synthetic tags and the dependency map reflect the stored state")


def run(ck):
    thm_ok = ck.theorems("C19", ["theories/Corr/TaskCorr.vo"])
    ok, log = ck.harness_build()
    if not ok:
        raise SystemExit("harness build failed:\n" + log)
    quick = ck.tier == "quick"
    synccheck.run_family(ck, "task-mut", 1500 if quick else 25000, CLAUSE,
                         lambda c: c["features"].get("calls", 0) >= 2,
                         module="Corr.TaskCorr", fn="check_mcase", ctype="mcase", wf="wf_mcase",
                         per_file=50, view="mmodel_view")
    synccheck.run_family(ck, "task-depmap", 700 if quick else 10000, CLAUSE,
                         lambda c: c["features"].get("edges", 0) + c["features"].get("purged", 0) >= 1,
                         module="Corr.TaskCorr", fn="check_tcase", ctype="tcase", wf="wf_tcase",
                         per_file=40, view="tmodel_view", corpus=False)
    if not thm_ok and not ck.violations:
        path = ck.write_replay("theorem", {
            "property": ck.prop, "kind": "a theorem of coq/theories/Properties/C19.v no longer checks",
            "obligations": ck.obligations, "log": getattr(ck, "build_log", "")[-4000:]})
        ck.violation(path, no_input=True)
    return ck.finish(
        "proof",
        "(a) a task in a random stored state is loaded and 1-8 mutators are called with arguments from small "
        "pools (statuses incl. unknown, timestamps incl. negative and epoch, tags incl. synthetic and non-ASCII, "
        "annotations, UDA keys incl. reserved ones, dependencies, explicit set_modified, raw set_value), the "
        "recorded operations are committed and the task reloaded; (b) three pending tasks with random "
        "dependencies, a load that caches the dependency map, then 1-3 committed changes (done, outright delete, "
        "edits, add/remove dependency) and the un-forced dependency map and all readers; distinct = different "
        "call scripts; non-trivial = at least two calls / at least one edge or purged task",
        "Theorems C19_* are unbounded; per case the accepted/refused outcome of every call, the held task and "
        "the exact list of recorded updates (property, old value, new value; clock values canonicalised) are "
        "compared with the model, the reloaded stored task with the held one, and the dependency map and "
        "synthetic tags with the model's computed from the stored state.")


def replay(ck, path):
    import json
    doc = json.load(open(path))
    print(json.dumps(doc.get("implementation_oracle"), indent=1)[:3000])
    return 1
