"""C07 — undo restores the exact prior state and withdraws the changes from sync."""
import dbcheck


def nontrivial(c):
    f = c["features"]
    return f.get("undo_faithful", 0) >= 1


def run(ck):
    quick = ck.tier == "quick"
    return dbcheck.run(
        ck, "C07", "db-undo", 1200 if quick else 20000, 12 if quick else 30,
        "undoing the most recent unsynchronised operations restores every task to its exact earlier content, "
        "removes exactly those operations and reports success; anything else is refused and changes nothing; "
        "after a sync nothing can be undone",
        nontrivial,
        "generated single-replica histories (in-memory and SQLite alternating) of valid commits with undo "
        "points, deletes of populated tasks and property removals, mixed with undo calls using the fetched list "
        "(65%), a list made stale by a later commit, a list with its first element dropped, or a foreign list, "
        "and with syncs (some bringing remote changes) and reopen; distinct = different scripts; non-trivial = "
        "at least one undo of a faithful tail",
        "Theorems C07_* are unbounded; each get_undo_operations result, each commit_reversed_operations result "
        "(true/false/error) and the stored tasks, unsynchronised operations and working set afterwards are "
        "compared with the model; the oracle compares the tasks with the content recorded before the undone "
        "operations were committed.")


def replay(ck, path):
    return dbcheck.replay(ck, path)
