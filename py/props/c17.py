"""C17 — concurrent handles on one SQLite replica serialise without loss."""
import json
import synccheck, cloudcheck

CLAUSE = ("with several handles using one SQLite directory at once, every commit that reports success is entirely "
          "present and every other one entirely absent, the result is the one-at-a-time application of the "
          "successful transactions in commit order, replaying the recorded operations gives the stored tasks, and "
          "no operation or working-set entry is lost or duplicated")

KW = dict(module="Corr.ConcCorr", fn="check_ccase", ctype="ccase", wf="wf_ccase", per_file=12, view="cmodel_view_N")


def nontrivial(c):
    f = c["features"]
    return f.get("handles", 0) >= 2 and f.get("commits_ok", 0) >= 2 and f.get("transactions", 0) >= 5


def run(ck):
    thm_ok = ck.theorems("C17", ["theories/Corr/ConcCorr.vo"])
    ok, log = ck.harness_build()
    if not ok:
        raise SystemExit("harness build failed:\n" + log)
    quick = ck.tier == "quick"
    # transactions admitted one at a time in a seeded order: every interleaving of whole
    # transactions of the handles' actions is reachable, and a case replays exactly
    synccheck.run_family(ck, "sqlite-conc-gated", 300 if quick else 6000, CLAUSE + " [seeded transaction order]", nontrivial,
                         extra_args=["--maxlen", 6 if quick else 9], **KW)
    # threads contending for the SQLite lock for real
    synccheck.run_family(ck, "sqlite-conc-free", 150 if quick else 3000, CLAUSE + " [free-running threads]", nontrivial,
                         extra_args=["--maxlen", 6 if quick else 10], corpus=False, **KW)
    procs(ck, 12 if quick else 150)
    cloudcheck.theorem_violation(ck, "C17", thm_ok)
    return ck.finish(
        "proof",
        "2-8 handles (threads, each with its own SqliteStorage and Replica) on one directory, each running a "
        "script of 2-10 actions (commit of 1-3 operations on 3 tasks biased to status changes, 10% of them invalid "
        "when applied; fetch-and-commit undo; working-set rebuild with and without renumbering; read of "
        "everything) (a) with transactions admitted one at a time in a seeded order and (b) free-running with "
        "random pauses; plus 2-6 separate processes committing 5-40 three-operation batches each at the same "
        "time; distinct = different scripts; non-trivial = at least two handles, two successful commits and five "
        "transactions",
        "Theorems C17_* prove serial equivalence for every schedule under the lock discipline and its consequences "
        "for committed batches. In each run the global trace of storage calls must be serial and conform to the "
        "storage specification, the actions whose transaction committed must, applied one at a time in commit "
        "order by the TaskDb model, give every state the handles read and the final database, and the database is "
        "audited directly. That SQLite enforces BEGIN IMMEDIATE between threads and processes is sampled, not proved.",
        trusted_extra=["SQLite's locking between connections, threads and processes is a substrate: exercised, not modelled",
                       "the trace order is the order in which handles appended to the shared trace while holding the "
                       "database lock (commit and abandonment are recorded before the lock is released)"])


def procs(ck, runs):
    rc, out, err = ck.harness(["sqlite-procs", "--seed", ck.seed, "--count", runs])
    try:
        res = json.loads(out.strip().splitlines()[-1])
    except Exception:
        res = {"ok": False, "problems": ["harness failed: rc=%d %s" % (rc, err[-600:])], "runs": 0}
    ck.coverage["processes"] = {k: res.get(k) for k in ("runs", "commits_ok", "commits_failed")}
    ck.obligations.append(("separate processes committing at once: every reported commit whole, every other absent, "
                           "batches contiguous, working set exact (%s runs)" % res.get("runs"),
                           res["ok"], "ok" if res["ok"] else "; ".join(res["problems"])[:400]))
    if not res["ok"]:
        path = ck.write_replay("procs", {"property": ck.prop, "kind": "failing input (concurrent processes)",
                                         "result": res, "seed": ck.seed,
                                         "replay": "harness/target/release/tcverif sqlite-procs --seed %s --count %d" % (ck.seed, runs)})
        ck.violation(path)


def replay(ck, path):
    return synccheck.replay_file(ck, path, module="Corr.ConcCorr", fn="check_ccase", ctype="ccase", view="cmodel_view_N")
