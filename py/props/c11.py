"""C11 — a failure inside a server's add-version leaves the backend usable."""
import synccheck, cloudcheck

CLAUSE = ("after a failure at any internal step of add-version and a restart, the version is either fully accepted or "
          "not visible at all, the backend still satisfies the chain protocol, and clients can go on")


def run(ck):
    thm_ok = ck.theorems("C11", ["theories/Corr/BackendCorr.vo", "theories/Corr/CloudCorr.vo"])
    ok, log = ck.harness_build()
    if not ok:
        raise SystemExit("harness build failed:\n" + log)
    quick = ck.tier == "quick"
    # object store: one request of some call fails before or after taking effect
    cloudcheck.run_family(ck, "cloud-fault", 200 if quick else 5000, CLAUSE + " [object store]",
                          lambda c: c["features"].get("faults", 0) >= 1)
    # local and git: named failpoints between the internal steps, then every handle is reopened
    for kind, q, t in (("local", 100, 2000), ("git", 30, 300), ("gitremote", 40, 300), ("gitoffline", 16, 200), ("gitfresh", 16, 200), ("http", 24, 300)):
        synccheck.run_family(ck, "backend", q if quick else t, CLAUSE + " [%s]" % kind,
                             lambda c: c["features"].get("faults", 0) >= 1,
                             extra_args=["--kind", kind, "--faults"],
                             module="Corr.BackendCorr", fn="check_bcase", ctype="(list (bcall * bres))",
                             wf="wf_bcase", per_file=60, view="bmodel_view", corpus=False, spec_is_property=True, tag=kind + "-faults",
                             known_match=known_match(ck))
    cloudcheck.theorem_violation(ck, "C11", thm_ok)
    return ck.finish(
        "proof",
        "object store: schedules of 2-3 clients in which one object-store request fails before taking effect or "
        "takes effect and reports an error (the faulted call returns an error; later calls and the final store are "
        "compared with the model; accepted and served versions are audited); local and git backends: call "
        "sequences in which one add-version is interrupted at a named failpoint between its internal steps - the step "
        "returns an error, or the process stops there (an unwinding panic: none of the backend's error handling runs) -, all "
        "handles are reopened, the interrupted version is classified by whether it is visible, and the remaining "
        "calls must conform to the protocol; HTTP client: one add-version is answered with status 500, without or "
        "with a malformed version id, or with a 409 lacking the expected parent, the handles are reopened and the "
        "remaining calls must conform; distinct = different scripts; non-trivial = a fault was injected",
        "Theorems C11_* cover the object-store commit point; SQLite and git crash behaviour is sampled through "
        "failpoints (error paths) - a process kill between git commands is not exhibited.",
        trusted_extra=["a process stop is modelled by an unwinding panic at the failpoint (no error handling runs; Drop impls do); SQLite and git are substrates"])


def known_match(ck):
    listed = {k.get("match", {}).get("tag") for k in ck.known_findings()}

    def m(c):
        probs = c["oracle"].get("problems", [])
        steps = " ".join(c.get("script", {}).get("steps", []))
        if "git-unpushed-commit" in listed and "git.add_version.after_commit" in steps and c["script"].get("family") == "backend-gitremote":
            return "git with a remote: an add-version interrupted after the local commit and before the push (git-unpushed-commit)"
        return None
    return m


def replay(ck, path):
    from props import c08
    return c08.replay(ck, path)
