"""C03 — no lost updates; documented conflict winners, independent of sync order."""
import synccheck

CLAUSE = ("the converged state is the same for every order in which the replicas synchronise; a deletion wins "
          "over concurrent updates; of concurrent updates of one property the greatest (timestamp, value) wins; "
          "changes to different properties/tasks are all kept")


def nontrivial(c):
    return c["features"].get("documented_conflicts", 0) >= 1


def run(ck):
    thm_ok = ck.theorems("C03", ["theories/Corr/SyncCorr.vo"])
    ok, log = ck.harness_build()
    if not ok:
        raise SystemExit("harness build failed:\n" + log)
    quick = ck.tier == "quick"
    synccheck.run_family(ck, "orders", 700 if quick else 12000, CLAUSE, nontrivial,
                         module="Corr.SyncCorr", fn="check_group", ctype="(list scase)", wf="wf_group",
                         per_file=25)
    if not thm_ok and not ck.violations:
        path = ck.write_replay("theorem", {
            "property": ck.prop, "kind": "a theorem of coq/theories/Properties/C03.v no longer checks",
            "obligations": ck.obligations, "log": getattr(ck, "build_log", "")[-4000:]})
        ck.violation(path, no_input=True)
    ck.notes.append("C03_order_independent_3_statement (three replicas, all six orders) is stated but not proved; "
                    "it is exercised by this run on every generated three-replica scenario (all 6 orders executed "
                    "on the implementation and in the model)")
    return ck.finish(
        "proof",
        "scenarios of 2 or 3 replicas that share a common synced state and then each commit a concurrent batch "
        "(1-3 operations focused on one task/property cell, timestamps from {earlier, equal, later, sub-second "
        "apart}); every permutation of the sync order is executed on fresh replicas; distinct = different "
        "scenarios; non-trivial = at least one cell with a documented conflict (two concurrent updates of one "
        "property, or a deletion concurrent with updates)",
        "Theorems C03_* (conflict table, kept-or-documented for lists, symmetry of the grid, order independence "
        "for two replicas, causal override) are unbounded; each permutation run is also compared with the model "
        "observation by observation; the direct oracle compares final states across orders and against the "
        "documented winner.")


def replay(ck, path):
    return synccheck.replay_file(ck, path, fn="check_group", ctype="(list scase)")
