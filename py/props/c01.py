"""C01 — replicas converge after any history of edits and syncs."""
import synccheck

CLAUSE = ("at quiescence all replicas hold the same tasks, equal to the replay of the server's versions "
          "on the empty task set; every sync succeeds; nothing is left unsent")


def nontrivial(c):
    f = c["features"]
    return f.get("concurrent_syncs", 0) >= 1


def run(ck):
    thm_ok = ck.theorems("C01", ["theories/Corr/SyncCorr.vo"])
    ok, log = ck.harness_build()
    if not ok:
        raise SystemExit("harness build failed:\n" + log)
    quick = ck.tier == "quick"
    synccheck.run_family(ck, "synchist-seq", 1500 if quick else 20000, CLAUSE, nontrivial,
                         extra_args=["--maxlen", 12 if quick else 30])
    # histories may also contain syncs that overlap (C02 studies them in depth)
    synccheck.run_family(ck, "synchist-sched", 400 if quick else 5000, CLAUSE, nontrivial,
                         extra_args=["--maxlen", 8 if quick else 14], corpus=False)
    if not thm_ok and not ck.violations:
        path = ck.write_replay("theorem", {
            "property": ck.prop, "kind": "a theorem of coq/theories/Properties/C01.v no longer checks",
            "obligations": ck.obligations, "log": getattr(ck, "build_log", "")[-4000:]})
        ck.violation(path, no_input=True)
    return ck.finish(
        "proof",
        "generated histories of commits (valid batches, pools of 3 tasks x 3 properties x 8 values of which "
        "3 exceed 400 kB, 6 timestamps with ties and non-monotone order) and syncs over 2-4 replicas, followed "
        "by two rounds of syncs; distinct = different action scripts; non-trivial = at least one sync that "
        "both pulled a version and had pending local operations",
        "Theorems C01_* are proved for all histories (unbounded); the correspondence ties the model to the "
        "code by running both on the same histories and comparing every request, every replica's tasks "
        "after every action and the final chain; the direct oracle checks convergence to the chain replay.")


def replay(ck, path):
    return synccheck.replay_file(ck, path)
