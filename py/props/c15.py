"""C15 — the working set lists exactly the pending tasks, with stable numbering."""
import dbcheck


def nontrivial(c):
    f = c["features"]
    return f.get("rebuild_from_gaps", 0) + f.get("rebuild_from_missing_task", 0) >= 1


def run(ck):
    quick = ck.tier == "quick"
    return dbcheck.run(
        ck, "C15", "db-ws", 1500 if quick else 25000, 14 if quick else 30,
        "after a rebuild the working set holds exactly the pending/recurring tasks once each with position 0 "
        "empty; without renumbering remaining tasks keep their numbers and newcomers come after all numbers in "
        "use; with renumbering the tasks occupy 1..n in their old relative order; a commit only appends",
        nontrivial,
        "generated single-replica histories (in-memory and SQLite alternating) with status changes among "
        "pending/recurring/completed/deleted/unknown, outright deletions, undo, syncs that bring remote "
        "deletions and status changes, and both rebuild modes in any sequence; distinct = different scripts; "
        "non-trivial = some rebuild started from a working set with a gap or with an entry whose task is gone",
        "Theorems C15_* about the rebuilt working set are unbounded; the write-back through the storage calls "
        "is proved by enumeration of a small scope and checked by this correspondence: the model's working set "
        "after every commit, undo, sync and rebuild is compared with the stored one, and the property's "
        "clauses are evaluated directly on the implementation.")


def replay(ck, path):
    return dbcheck.replay(ck, path)
