"""C18 — reading tasks never panics, whatever the stored data."""
import synccheck

CLAUSE = ("every read accessor of Task, TaskData, WorkingSet, DependencyMap and Replica returns normally for any "
          "stored content, ignoring what it cannot interpret")


def nontrivial(c):
    return c["features"].get("out_of_range_integers", 0) >= 1


def run(ck):
    thm_ok = ck.theorems("C18", ["theories/Corr/TaskCorr.vo"])
    ok, log = ck.harness_build()
    if not ok:
        raise SystemExit("harness build failed:\n" + log)
    quick = ck.tier == "quick"
    synccheck.run_family(ck, "task-read", 700 if quick else 30000, CLAUSE, nontrivial,
                         module="Corr.TaskCorr", fn="check_tcase", ctype="tcase", wf="wf_tcase",
                         per_file=25, view="tmodel_view")
    if not thm_ok and not ck.violations:
        path = ck.write_replay("theorem", {
            "property": ck.prop, "kind": "a theorem of coq/theories/Properties/C18.v no longer checks",
            "obligations": ck.obligations, "log": getattr(ck, "build_log", "")[-4000:]})
        ck.violation(path, no_input=True)
    return ck.finish(
        "proof",
        "1-3 tasks whose maps draw 2-9 keys from the recognised properties and prefixes (valid, malformed and "
        "look-alike tag_/annotation_/dep_ keys, UDA keys) and values from a boundary pool (empty, signs, "
        "i64::MIN/MAX and one beyond, chrono's first/last representable second and one beyond, 17- and 30-digit "
        "numbers, full-width digits, padded numbers, unknown statuses, the expiry boundary); committed to a "
        "replica, then every public reader is called under panic capture; distinct = different task maps; "
        "non-trivial = some value is an integer beyond any calendar date",
        "Theorems C18_* state what each reader yields for uninterpretable content and that the modelled "
        "conversion is total; the correspondence compares all reader results (status, timestamps, tags, "
        "synthetic tags, annotations, UDAs, dependencies, dependency map, blocked/blocking) with the model and "
        "captures panics per reader.",
        trusted_extra=["Uuid::parse_str is a table of the texts used; chrono's representable range is read from the library at run time"])


def replay(ck, path):
    import json
    doc = json.load(open(path))
    print(json.dumps(doc.get("implementation_oracle"), indent=1)[:3000])
    print("re-run ./check C18 with VERIF_SEED=%s (case id %s)" % (doc.get("script", {}).get("seed"), doc.get("script", {}).get("id")))
    return 1
