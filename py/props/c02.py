"""C02 — convergence survives racing syncs and rejected versions."""
import synccheck

CLAUSE = ("for every interleaving of the racing syncs' requests: every sync call returns Ok (never out of sync), "
          "what a retry pushes is the rebased list, and the replicas converge to the chain replay")


def nontrivial(c):
    return c["features"].get("rejections", 0) >= 1


def run(ck):
    thm_ok = ck.theorems("C02", ["theories/Corr/SyncCorr.vo"])
    ok, log = ck.harness_build()
    if not ok:
        raise SystemExit("harness build failed:\n" + log)
    quick = ck.tier == "quick"
    synccheck.run_family(ck, "synchist-sched", 1200 if quick else 20000, CLAUSE, nontrivial,
                         extra_args=["--maxlen", 8 if quick else 14])
    if not thm_ok and not ck.violations:
        path = ck.write_replay("theorem", {
            "property": ck.prop, "kind": "a theorem of coq/theories/Properties/C02.v no longer checks",
            "obligations": ck.obligations, "log": getattr(ck, "build_log", "")[-4000:]})
        ck.violation(path, no_input=True)
    return ck.finish(
        "proof",
        "a generated prior history, then 2-4 sync calls started together and advanced one server request at a "
        "time by a seeded scheduler biased to let several replicas reach their push at once, with commits and "
        "new syncs starting meanwhile; distinct = different action scripts; non-trivial = at least one version "
        "was rejected (expected-parent) and retried",
        "Theorems C02_* hold for every list of events, i.e. every interleaving at request granularity; the "
        "correspondence replays each schedule on the real Replica::sync futures (polled by a deterministic "
        "scheduler that gates every Server call) and in the model, comparing each request's arguments, each "
        "result and the final chain.")


def replay(ck, path):
    return synccheck.replay_file(ck, path)
