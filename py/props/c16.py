"""C16 — SQLite and in-memory storage are observationally equivalent and persistent."""
import json
import synccheck

CLAUSE = ("both storages return the same result for every call of a contract-respecting sequence of transactions "
          "(collections compared without order) and agree on what is visible after commit or abandonment; SQLite "
          "returns the same contents after close/reopen")


def nontrivial(c):
    f = c["features"]
    return f.get("calls", 0) >= 5 and f.get("commits", 0) >= 1


def run(ck):
    thm_ok = ck.theorems("C16", ["theories/Corr/StorageCorr.vo"])
    ok, log = ck.harness_build()
    if not ok:
        raise SystemExit("harness build failed:\n" + log)
    quick = ck.tier == "quick"
    synccheck.run_family(ck, "storage", 1500 if quick else 25000, CLAUSE, nontrivial,
                         extra_args=["--maxlen", 8 if quick else 16],
                         module="Corr.StorageCorr", fn="check_stcase", ctype="(list sitem)", wf="wf_stcase",
                         per_file=60, view="st_model_view")
    legacy(ck)
    if not thm_ok and not ck.violations:
        path = ck.write_replay("theorem", {
            "property": ck.prop, "kind": "a theorem of coq/theories/Properties/C16.v no longer checks",
            "obligations": ck.obligations, "log": getattr(ck, "build_log", "")[-4000:]})
        ck.violation(path, no_input=True)
    return ck.finish(
        "proof",
        "generated sequences of 2-8 transactions of 1-8 StorageTxn calls over 3 tasks, 3 properties, 7 values "
        "(tasks, operations incl. removal of the last unsynced one and mismatching removals, base version, "
        "working-set add/set-in-range/clear, sync_complete, is_empty, pending tasks), 75% committed and 25% "
        "abandoned, SQLite closed and reopened before 15% of the transactions; plus databases written under the "
        "historical schemas and read-only handles; distinct = different call scripts; non-trivial = at least "
        "five calls and one commit",
        "Theorems C16_* relate a model of the SQL tables to the specification (simulation) and state read-only "
        "refusal; every call's result on both real backends is compared with the specification model evaluated "
        "in Coq, and the two backends with each other.")


def legacy(ck):
    """databases created under older schemas, and read-only access"""
    rc, out, err = ck.harness(["storage-legacy", "--seed", ck.seed])
    try:
        res = json.loads(out.strip().splitlines()[-1])
    except Exception:
        res = {"ok": False, "problems": ["harness failed: rc=%d %s" % (rc, err[-600:])], "databases": 0}
    ck.coverage["legacy_and_readonly"] = {k: res.get(k) for k in ("databases", "schemas", "readonly_calls")}
    ck.obligations.append(("older schemas upgrade without loss; read-only refuses every modification (%s databases)"
                           % res.get("databases"), res["ok"], "ok" if res["ok"] else "; ".join(res["problems"])[:400]))
    if not res["ok"]:
        path = ck.write_replay("legacy", {"property": ck.prop, "kind": "failing input (legacy database / read-only handle)",
                                          "result": res, "seed": ck.seed})
        ck.violation(path)


def replay(ck, path):
    doc = json.load(open(path))
    print("the replay file holds the call script and both backends' results; re-run ./check C16 with VERIF_SEED=%s"
          % doc.get("script", {}).get("seed", 0))
    print(json.dumps(doc.get("implementation_oracle", doc.get("result")), indent=1)[:3000])
    return 1
