"""C13 — data leaving the host is sealed, version-bound and tamper-evident."""
import json, os, re, subprocess
import lib, corr
from gallina import g

CLAUSE = ("every sealed value is byte for byte the documented construction (format byte 1, 12-byte nonce, "
          "ChaCha20-Poly1305 under PBKDF2-HMAC-SHA256(600000) key, AAD = app id + version id); it opens only with "
          "the same secret, salt and version id; every modification, truncation or re-labelling is rejected")


def run(ck):
    thm_ok = ck.theorems("C13", ["theories/Corr/CryptoCorr.vo", "theories/Proofs/Crypto/Vectors.vo", "theories/Corr/BackendCorr.vo"])
    if thm_ok:
        ck.obligations.append(("RFC 6234 / 4231 / 7914-style / 8439 test vectors of the model (Proofs/Crypto/Vectors.v)", True, "all Examples checked by the build"))
    ok, log = ck.harness_build()
    if not ok:
        raise SystemExit("harness build failed:\n" + log)
    quick = ck.tier == "quick"
    count = 60 if quick else 600
    rc, out, err = ck.harness(["crypto", "--seed", ck.seed, "--count", count])
    if rc != 0:
        raise SystemExit("harness crypto failed: " + err[-2000:])
    res = json.loads(out.strip().splitlines()[-1])
    cases = res["cases"]
    # the model: derive the key once, recompute every sealed value, and seal a few values itself
    d = os.path.join(lib.WORK, "coq-C13")
    os.makedirs(d, exist_ok=True)
    model_inputs = [([17 * k % 256 for k in range(12)], [3 * k % 256 for k in range(16)], []),
                    ([255 - k for k in range(12)], [k for k in range(16)], [77, 65, 82, 75, 69, 82] * 9),
                    ([k * 7 % 256 for k in range(12)], [200 + k for k in range(16)], list(range(256)))]
    with open(d + "/crypto.v", "w") as f:
        f.write("From TC Require Import Corr.CryptoCorr.\nFrom Coq Require Import List NArith.\nImport ListNotations.\n")
        f.write("Definition key := Eval vm_compute in derive_key %s %s.\n" % (g(res["secret"]), g(res["salt"])))
        f.write("Definition cases : list (list N * list N * list N) := [\n%s].\n" % ";\n".join(g(c) for c in cases))
        f.write("Eval vm_compute in (map (check_sealed key) cases).\n")
        for (nonce, vid, payload) in model_inputs:
            f.write("Eval vm_compute in (seal key %s %s %s).\n" % (g({"bytes": nonce}), g({"bytes": vid}), g({"bytes": payload})))
    cmd = "coqc -noglob -Q %s/theories TC %s/crypto.v" % (lib.COQ, d)
    ck.checker_cmds.append(cmd)
    rc, cout, cerr = lib.sh("timeout 900 " + cmd)
    if rc != 0:
        raise SystemExit("coqc failed on the crypto cases: " + (cerr or cout)[-2000:])
    parts = re.split(r"\n\s*: list", cout)
    verdicts = corr.parse_N_list(parts[0].split("=", 1)[1])
    sealed_by_model = [corr.parse_N_list(p.split("=", 1)[1]) for p in parts[1:1 + len(model_inputs)] if "=" in p]
    diffs = [i for i, v in enumerate(verdicts) if v != 0]
    ck.evals = len(cases) + res["tamper_attempts"]
    for i, c in enumerate(cases):
        ck.case_hashes.add(json.dumps(c)[:200] + str(i))
        ck.nontrivial_hashes.add(json.dumps(c)[:200] + str(i))
    ck.samples.append({"sealed_case": cases[0], "tamper_attempts_per_run": res["tamper_attempts"]})
    ck.obligations.append(("correspondence: %d values sealed by the implementation are reproduced byte for byte by the model and open to their payload" % len(cases),
                           len(verdicts) == len(cases) and not diffs, "ok" if not diffs else "cases %s differ" % diffs[:5]))
    # model-sealed values must open in the implementation
    ms = d + "/model_sealed.txt"
    hx = lambda l: "".join("%02x" % x for x in l)
    with open(ms, "w") as f:
        for (nonce, vid, payload), s in zip(model_inputs, sealed_by_model):
            f.write("%s %s %s\n" % (hx(vid), hx(payload) or "", hx(s)))
    # an empty payload would make the line have two fields; mark it
    lines = open(ms).read().splitlines()
    with open(ms, "w") as f:
        for (nonce, vid, payload), s in zip(model_inputs, sealed_by_model):
            if payload:
                f.write("%s %s %s\n" % (hx(vid), hx(payload), hx(s)))
    rc, out2, err2 = ck.harness(["crypto", "--seed", ck.seed, "--count", 0, "--model-sealed", ms])
    res2 = json.loads(out2.strip().splitlines()[-1]) if rc == 0 else {"ok": False, "problems": [err2[-500:]], "model_sealed_opened": 0}
    want = len([1 for m in model_inputs if m[2]])
    good2 = res2["ok"] and res2["model_sealed_opened"] == want
    ck.obligations.append(("values sealed by the model open in the implementation (%d)" % want, good2,
                           "ok" if good2 else "; ".join(res2["problems"])[:300]))
    ck.obligations.append(("tamper sweep on the implementation: %d modified / truncated / re-labelled values all rejected; layout, nonce freshness, no plaintext marker"
                           % res["tamper_attempts"], res["ok"], "ok" if res["ok"] else "; ".join(res["problems"])[:400]))
    ck.coverage["tamper_attempts"] = res["tamper_attempts"]
    if not res["ok"] or not good2:
        path = ck.write_replay("tamper", {"property": ck.prop, "kind": "failing input (sealed value handling)",
                                          "clause": CLAUSE, "problems": (res["problems"] + res2.get("problems", []))[:20], "seed": ck.seed})
        ck.violation(path)
    elif diffs:
        path = ck.write_replay("correspondence", {
            "property": ck.prop, "kind": "correspondence no longer checks; no input failing the property was found",
            "broken": "Corr.CryptoCorr.check_sealed (model recomputation of sealed bytes)", "cases": [cases[i] for i in diffs[:3]],
            "verdicts": [verdicts[i] for i in diffs[:3]], "seed": ck.seed})
        ck.violation(path, no_input=True)
    # what actually leaves the host over HTTP: every request body the harness-side server receives must be
    # in the sealed form and open under (secret, client id as salt, the id in the url), and tampered
    # responses must be refused (harness/src/backendfam.rs, kind http)
    import synccheck
    synccheck.run_family(ck, "backend", 12 if quick else 200, CLAUSE + " [HTTP bodies as received by a server]",
                         lambda c: c["features"].get("bodies_unsealed", 0) >= 1,
                         extra_args=["--kind", "http"], module="Corr.BackendCorr", fn="check_bcase",
                         ctype="(list (bcall * bres))", wf="wf_bcase", per_file=60, view="bmodel_view", corpus=False,
                         spec_is_property=True, tag="http")
    if not thm_ok and not ck.violations:
        path = ck.write_replay("theorem", {"property": ck.prop, "kind": "a theorem of Properties/C13.v or a test vector no longer checks",
                                           "obligations": ck.obligations, "log": getattr(ck, "build_log", "")[-4000:]})
        ck.violation(path, no_input=True)
    return ck.finish(
        "proof",
        "payloads of length 0, 1, 15-17, 63-65 and random up to 400 bytes with random version ids are sealed "
        "through the hook; each sealed value is recomputed by the Coq model from the nonce it contains; on the "
        "implementation every single-bit flip at every offset, all 255 alternatives of the first, second and last "
        "byte, every truncation, an extension, and wrong secret / salt / version id are tried; distinct = "
        "different payload/id pairs; all are non-trivial",
        "Theorems C13_* (layout, AAD, unseal-seal for all inputs, rejection of short / wrong-format input, "
        "acceptance iff the value is seal's output for this key and version id) are about an independent "
        "implementation validated on the RFC vectors; the tie to the code is byte-for-byte equality in both "
        "directions. Tamper-evidence and secrecy are cryptographic: swept, not proved.",
        trusted_extra=["Coq's primitive 63-bit integers (PrimInt63) are used by the crypto model",
                       "ring's randomness (nonces) and constant-time behaviour are out of scope"])


def replay(ck, path):
    print(open(path).read()[:4000])
    return 1
