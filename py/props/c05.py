"""C05 — local commits are atomic and follow the documented operation model."""
import dbcheck


def nontrivial(c):
    return c["features"].get("commits", 0) >= 2


def run(ck):
    quick = ck.tier == "quick"
    return dbcheck.run(
        ck, "C05", "db-commit", 1200 if quick else 20000, 10 if quick else 25,
        "a committed batch changes the tasks exactly as one-at-a-time application of the documented rules; "
        "it is appended in order to the unsynchronised operations; the working set is only extended",
        nontrivial,
        "generated single-replica histories on the in-memory and (every other case) the SQLite storage: batches "
        "of 1-5 raw operations over 3 tasks x 3 properties of which 25% ignore validity (updates and deletes of "
        "missing tasks, double creates, delete-then-create inside a batch, property removal, undo points), "
        "interleaved with syncs, working-set rebuilds and close/reopen; distinct = different scripts; "
        "non-trivial = at least two commits",
        "Theorems C05_* are unbounded (every batch, state and flush order); after every commit the model's "
        "tasks, unsynchronised operations (with old values) and working set are compared with the storage "
        "read through a second handle; the oracle re-applies the batch one operation at a time.")


def replay(ck, path):
    return dbcheck.replay(ck, path)
