"""Shared machinery of the checks: Coq build and theorem audit, harness build, evidence,
violations, known findings."""
import hashlib, json, os, re, subprocess, sys, time, shutil

VERIF = "/verif"
COQ = VERIF + "/coq"
HARNESS = VERIF + "/harness"
BIN = HARNESS + "/target/release/tcverif"
WORK = VERIF + "/work"
GUARD = "gothenburgbitfactory_taskchampion_verif"
ALLOWED_AXIOMS = set()  # names allowed in Print Assumptions output (none so far)

FORBIDDEN = re.compile(
    r"\b(Admitted|admit|Axiom|Axioms|Parameter|Parameters|Conjecture|Conjectures|Admit Obligations|bypass_check)\b"
    r"|Unset\s+Guard|Unset\s+Positivity|Unset\s+Universe|type-in-type|impredicative-set")

TRUSTED_BASE = [
    "Coq 8.16.1 kernel, including the vm_compute bytecode VM (used to evaluate the model on the "
    "correspondence cases); no native_compute; no flags weakening guard/positivity/universe checks",
    "std++ 1.8.0 (gmap, lists, options); the development declares no axioms",
    "the hand-written Gallina model of the anchored code (coq/theories/Model); it is tied to /repo "
    "only by the correspondence check of this run, which is differential testing",
    "the Rust harness (generators, deterministic scheduler, fault injection, canonicalisation), "
    "py/ orchestration and the printing of Gallina literals",
    "rustc, tokio, serde/serde_json text layer, chrono, uuid, flate2 are used, not verified",
]


def sh(cmd, timeout=None, cwd=None, env=None):
    e = dict(os.environ)
    if env:
        e.update(env)
    r = subprocess.run(cmd, shell=isinstance(cmd, str), cwd=cwd, env=e, capture_output=True,
                       text=True, timeout=timeout)
    return r.returncode, r.stdout, r.stderr


class Check:
    def __init__(self, prop, tier, seed):
        self.prop = prop
        self.tier = tier
        self.seed = seed
        self.t0 = time.time()
        self.obligations = []       # (name, ok, detail)
        self.coverage = {}
        self.assumptions = []
        self.violations = []        # (replay_path, suffix)
        self.known = []
        self.checker_cmds = []
        self.samples = []
        self.evals = 0
        self.case_hashes = set()
        self.nontrivial_hashes = set()
        self.features = {}
        self.notes = []
        os.makedirs(WORK, exist_ok=True)
        os.makedirs(VERIF + "/evidence", exist_ok=True)
        os.makedirs(VERIF + "/replays", exist_ok=True)

    # ---------------------------------------------------------------- Coq
    def coq_build(self, targets, timeout=2400):
        """(Re)build the given .vo targets (no-op when current).  Returns (ok, log)."""
        if not os.path.exists(COQ + "/Makefile"):
            sh("./gen_project.sh", cwd=COQ)
        cmd = "timeout %d make -j16 %s" % (timeout, " ".join(targets))
        self.checker_cmds.append("cd coq && " + cmd)
        rc, out, err = sh(cmd, cwd=COQ)
        return rc == 0, out + err

    def forbidden_tokens(self):
        bad = []
        for root, _, files in os.walk(COQ + "/theories"):
            for f in files:
                if f.endswith(".v"):
                    txt = open(os.path.join(root, f)).read()
                    # strip comments (non-nested is enough: the development nests none)
                    txt = re.sub(r"\(\*.*?\*\)", "", txt, flags=re.S)
                    for m in FORBIDDEN.finditer(txt):
                        bad.append("%s: %s" % (os.path.join(root, f), m.group(0)))
        return bad

    def theorems(self, props_file, corr_targets=()):
        """Build the property file, pin-check and audit assumptions of every theorem in it.
        Returns True when every theorem checked."""
        vo = "theories/Properties/%s.vo" % props_file
        ok, log = self.coq_build([vo] + list(corr_targets))
        src = open("%s/theories/Properties/%s.v" % (COQ, props_file)).read()
        names = re.findall(r"^Theorem\s+(\w+)", src, flags=re.M)
        if not ok:
            self.obligations += [("theorem " + n, False, "build failed") for n in names]
            self.build_log = log
            return False
        bad = self.forbidden_tokens()
        if bad:
            self.obligations.append(("no forbidden tokens in coq/", False, "; ".join(bad[:5])))
            self.build_log = "forbidden tokens: " + "; ".join(bad)
            return False
        # audit assumptions in a separate run so that it happens on every check
        d = os.path.join(WORK, "pa-" + self.prop)
        shutil.rmtree(d, ignore_errors=True)
        os.makedirs(d)
        with open(d + "/pa.v", "w") as f:
            f.write("From TC Require Import Properties.%s.\n" % props_file)
            for n in names:
                f.write('Print Assumptions %s.\n' % n)
        cmd = "coqc -noglob -Q %s/theories TC %s/pa.v" % (COQ, d)
        self.checker_cmds.append(cmd)
        rc, out, err = sh("timeout 600 " + cmd)
        shutil.rmtree(d, ignore_errors=True)
        chunks = re.split(r"(?=Closed under the global context|Axioms:)", out)
        chunks = [c for c in chunks if c.strip()]
        allok = rc == 0 and len(chunks) == len(names)
        for i, n in enumerate(names):
            detail = chunks[i].strip() if i < len(chunks) else "no output"
            if detail.startswith("Closed under"):
                self.obligations.append(("theorem " + n, True, "Closed under the global context"))
            else:
                ax = [a for a in re.findall(r"^(\S+)\s*:", detail, flags=re.M) if a != "Axioms"]
                # Coq's own primitive 63-bit integers (used by the crypto model) are not axioms of ours
                extra = [a for a in ax if a not in ALLOWED_AXIOMS and not a.startswith("PrimInt63.")]
                good = rc == 0 and not extra
                self.obligations.append(("theorem " + n, good, "assumptions: " + ", ".join(ax)))
                allok = allok and good
        self.assumptions.append("Print Assumptions of %s: %s" % (
            props_file, "; ".join("%s: %s" % (o[0], o[2]) for o in self.obligations if o[0].startswith("theorem"))))
        if not allok:
            self.build_log = out + err
        return allok

    # ---------------------------------------------------------------- harness
    def harness_build(self, timeout=1800):
        lock_src, lock_dst = "/repo/Cargo.lock", HARNESS + "/Cargo.lock"
        if not os.path.exists(lock_dst):
            shutil.copy(lock_src, lock_dst)
        env = {"RUSTFLAGS": "--cfg " + GUARD, "CARGO_NET_OFFLINE": "true"}
        cmd = "timeout %d cargo build --release --offline" % timeout
        self.checker_cmds.append("cd harness && RUSTFLAGS='--cfg %s' %s" % (GUARD, cmd))
        rc, out, err = sh(cmd, cwd=HARNESS, env=env)
        if rc != 0:
            # a stale lock file (dependencies of /repo changed): retry from /repo's lock
            shutil.copy(lock_src, lock_dst)
            rc, out, err = sh(cmd, cwd=HARNESS, env=env)
        return rc == 0, (out + err)[-4000:]

    def harness(self, args, timeout=1800):
        rc, out, err = sh([BIN] + [str(a) for a in args], timeout=timeout,
                          env={"TCVERIF_WORK": WORK + "/tmp"})
        return rc, out, err

    # ---------------------------------------------------------------- bookkeeping
    def count_case(self, script, nontrivial):
        h = hashlib.sha1(json.dumps(script.get("actions", script), sort_keys=True).encode()).hexdigest()
        self.evals += 1
        self.case_hashes.add(h)
        if nontrivial:
            self.nontrivial_hashes.add(h)

    def add_features(self, fam, feats):
        d = self.features.setdefault(fam, {})
        for k, v in feats.items():
            if isinstance(v, (int, float)):
                d[k] = d.get(k, 0) + v

    def write_replay(self, name, doc):
        path = "%s/replays/%s-%s.json" % (VERIF, self.prop, name)
        with open(path, "w") as f:
            json.dump(doc, f, indent=1)
        return path

    def violation(self, replay_path, no_input=False):
        self.violations.append((replay_path, no_input))

    # ---------------------------------------------------------------- known findings
    def known_findings(self):
        try:
            doc = json.load(open(VERIF + "/known_findings.json"))
        except Exception:
            return []
        return [e for e in doc.get("findings", []) if e.get("property") == self.prop and e.get("status") == "known"]

    # ---------------------------------------------------------------- finish
    def finish(self, level, rule, explanation, trusted_extra=(), exhaustive=None):
        disc = sum(1 for o in self.obligations if o[1])
        cov = {
            "obligations": len(self.obligations),
            "discharged": disc,
            "checker_cmd": " ; ".join(dict.fromkeys(self.checker_cmds)) or "none",
            "trusted_base": TRUSTED_BASE + list(trusted_extra),
            "evaluations": self.evals,
            "distinct_nontrivial": len(self.nontrivial_hashes),
            "distinct": len(self.case_hashes),
            "rule": rule,
            "samples": self.samples[:4] if self.samples else ["no case was run"],
            "obligation_list": [{"name": o[0], "ok": o[1], "detail": o[2]} for o in self.obligations],
            "input_distribution": self.features,
            "explanation": explanation,
            "traces_validated_against_impl": self.evals,
        }
        if exhaustive is not None:
            cov["exhaustive"] = exhaustive
        cov.update(self.coverage)
        ev = {
            "property_id": self.prop,
            "tier": self.tier,
            "seed": self.seed,
            "level": level,
            "coverage": cov,
            "assumptions": self.assumptions + self.notes,
            "wall_s": round(time.time() - self.t0, 2),
            "violations": len(self.violations),
        }
        with open("%s/evidence/%s.json" % (VERIF, self.prop), "w") as f:
            json.dump(ev, f, indent=1)
        # listed known findings are reported on every run, reproduced in it or not
        listed = self.known_findings()
        for k in listed:
            hit = any(True for x in self.known)
            print("KNOWN-FINDING: property=%s %s [%s]" % (
                self.prop, k.get("summary", "")[:300],
                "reproduced in this run" if hit else "not reached by this run's schedules"))
        if not listed:
            for k in self.known:
                print("KNOWN-FINDING: property=%s %s" % (self.prop, k))
        # when a failing input was found, the broken correspondences that led to it are not
        # reported as "no failing input found" as well
        found = [v for v in self.violations if not v[1]]
        for path, no_input in (found or self.violations):
            print("VIOLATION property=%s replay=%s%s" % (self.prop, path, " no-failing-input-found" if no_input else ""))
        print("%s %s tier=%s seed=%d obligations=%d/%d cases=%d distinct_nontrivial=%d wall=%.1fs" % (
            self.prop, "FAIL" if self.violations else "ok", self.tier, self.seed, disc,
            len(self.obligations), self.evals, len(self.nontrivial_hashes), time.time() - self.t0))
        sys.stdout.flush()
        return 1 if self.violations else 0
