#!/bin/bash
# usage: seedtest.sh <patch.diff> <Cxx> [Cyy ...]   -- run checks against /repo with a seeded change applied
patch=$1; shift
cd /repo && git apply --check "$patch" || { echo "patch does not apply"; exit 2; }
git apply "$patch"
rm -rf /verif/work/evidence-backup; cp -r /verif/evidence /verif/work/evidence-backup
trap 'git -C /repo checkout -- . ; rm -rf /verif/evidence; mv /verif/work/evidence-backup /verif/evidence; echo "(reverted /repo, restored evidence)"' EXIT
cd /verif
for id in "$@"; do
  ./check $id --tier quick 2>&1 | grep -E "VIOLATION|KNOWN|^C[0-9]+ (ok|FAIL)|Error|error" | head -5
done
