"""Shared driver of the object-store checks (C09, C10, and the cloud parts of C08/C11)."""
import synccheck


def run_family(ck, fam, count, clause, nontrivial, known_match=None):
    return synccheck.run_family(ck, fam, count, clause, nontrivial,
                                module="Corr.CloudCorr", fn="check_ccase", ctype="ccase", wf="wf_ccase",
                                per_file=30, view="cmodel_view", known_match=known_match, corpus=False)


def theorem_violation(ck, prop_file, thm_ok):
    if not thm_ok and not ck.violations:
        path = ck.write_replay("theorem", {
            "property": ck.prop, "kind": "a theorem of coq/theories/Properties/%s.v no longer checks" % prop_file,
            "obligations": ck.obligations, "log": getattr(ck, "build_log", "")[-4000:]})
        ck.violation(path, no_input=True)
