import json
claimed = {
 "C01": ("proof", "Theorems (Coq, unbounded): TP1 for transform, the rebase diamond for lists, the replica invariant over every history of commits / interleaved sync requests / abandoned syncs / lost replies with any batching function, and convergence to the replay of the server chain. Tied to /repo by a correspondence check that runs model and code on the same generated histories (every request, every replica's tasks after every action, final chain) plus a direct convergence oracle on the implementation.",
         "Coq kernel + vm_compute; std++; no axioms (Print Assumptions: closed). Model hand-written; tie = differential correspondence (generator quality bounds it). serde/chrono/uuid text layers, tokio and rustc trusted. Histories are restricted to batches valid when committed (docs/storage.md).",
         "Coq proof (induction over histories, OT diamond) + model/code correspondence on generated histories", "7 C01"),
 "C02": ("proof", "Theorems (Coq, unbounded): the replica invariant and convergence for every interleaving of any number of syncs at single-request granularity; no_out_of_sync (against the abstract chain server no sync ever ends out-of-sync or with a protocol error); what any (re)try pushes is a prefix of the list as rebased so far, and that list only loses operations (rebase_only_drops), so an operation that lost a conflict is never sent later. Tied to /repo by replaying seeded schedules on real Replica::sync futures behind a gated harness Server and in the model, comparing every request, result and the final chain.",
         "As C01. The real servers are tied to the abstract chain server by C08/C09. Termination of racing syncs (liveness) is exercised, not proved.",
         "Coq proof (invariants over all schedules) + deterministic-scheduler correspondence", "7 C02"),
 "C04": ("proof", "Theorems (Coq, unbounded): a fault of any kind at any request leaves the stored replica unchanged; nothing is visible before the final commit; the replica invariant holds after any number of faults; self_cancel (a replica pulling its own accepted batch consumes exactly it and applies nothing); after faults no sync gets stuck and replicas converge to the chain replay. Tied to /repo by injecting the three fault kinds at generated points of real syncs and comparing stored state and the whole retry with the model.",
         "As C01. Storage calls inside the sync act on the transaction's private copy (in-memory storage here); SQLite's rollback on drop is covered by C06.",
         "Coq proof (fault events in the history semantics) + fault-injection correspondence", "7 C04"),
 "C03": ("proof", "Theorems (Coq, unbounded): the complete conflict table of transform on operations valid in a common state (an operation is dropped iff the other has the same effect or beats it by the documented rules); list-level kept-or-documented; rebase only drops; symmetry of transform and of the whole transformation grid; order independence for two replicas with arbitrary concurrent valid lists; causal override regardless of timestamps. The three-replica statement is kept visible but is not proved; it is exercised exhaustively per generated scenario (all six orders). Tied to /repo by executing every permutation of the sync order of generated conflict scenarios on real replicas and in the model, with a direct oracle for order independence and documented winners.",
         "As C01. order_independent_3 is tested, not proved. Strings are interned order-preservingly so the (timestamp, value) tie-break is the byte-wise string order the code uses.",
         "Coq proof (conflict table, grid symmetry) + all-sync-orders correspondence", "7 C03"),
 "C05": ("proof", "Theorems (Coq, unbounded): batch application through the write cache equals one-at-a-time application of the documented rules for every batch (valid or not), every prior state and every order of the final flush, and touches nothing but the tasks; a commit appends the batch in order to the unsynchronised operations, keeps the base version, only extends the working set; tasks = base state + unsynchronised operations is preserved. Tied to /repo by comparing tasks, unsynchronised operations (with old values) and working set after every commit of generated batches on both storages, plus a one-at-a-time oracle.",
         "As C01. Atomicity of the storage transaction itself (all-or-nothing on abandon) is the storage contract (C06 for SQLite); the model's commit is a pure function of the prior state.",
         "Coq proof (cache/view invariant) + commit correspondence on in-memory and SQLite", "7 C05"),
 "C07": ("proof", "Theorems (Coq, unbounded): reversing a faithful operation restores the tasks exactly (a deleted task returns with all properties, whatever the re-insertion order); undo_spec for any faithful tail of the unsynchronised operations (tasks restored, exactly those operations removed, base and working set untouched, success iff a change was undone); mismatching/stale/empty lists are refused; after sync nothing is undoable. Tied to /repo by generated histories with undo points, stale and mutilated lists, syncs and reopen on both storages.",
         "As C01. 'Faithful' (valid where applied, true old values) is what Task/TaskData record; raw operations with false old values are outside the statement.",
         "Coq proof (inverse operations, log tail) + undo correspondence", "7 C07"),
 "C15": ("proof", "Theorems (Coq, unbounded) about the working set a rebuild produces: exactly the pending/recurring tasks, position 0 empty, remaining tasks keep their numbers without renumbering, newcomers after the retained part, 1..n in old relative order with renumbering; commits only append. That the write-back through set_working_set_item/add_to_working_set produces that list is proved by complete enumeration of a small scope (1836 cases, kernel computation) and otherwise checked by correspondence on generated histories on both storages with a direct oracle for every clause.",
         "As C01. The write-back equivalence beyond the enumerated scope rests on the correspondence check.",
         "Coq proof (list lemmas) + small-scope enumeration + working-set correspondence", "7 C15"),
}
checks=[]
for pid,(cat,text,note,tech,ref) in claimed.items():
    checks.append({"property_id":pid,"quick_cmd":"./check %s --tier quick"%pid,"thorough_cmd":"./check %s --tier thorough"%pid,
      "evidence_file":"/verif/evidence/%s.json"%pid,"replay_cmd_template":"./check %s --replay {path}"%pid,
      "engine":"coq+tcverif","level_claimed":{"category":cat,"text":text,"design_ref":"DESIGN.md section "+ref},
      "level_note":note,"technique":tech})
na=[]
for l in open('/verif/properties.jsonl'):
    p=json.loads(l)
    if p['id'] not in claimed:
        na.append({"property_id":p['id'],"reason":"not yet claimed: the model, theorems and correspondence check for this property are still being built (see DESIGN.md section 7); machine-checked proof is applicable and planned"})
m={"version":1,"setup_cmd":"./setup.sh",
 "hooks":{"guard":"gothenburgbitfactory_taskchampion_verif","enable":"RUSTFLAGS='--cfg gothenburgbitfactory_taskchampion_verif' cargo build (the harness crate /verif/harness depends on /repo by path)",
   "baseline_off_cmd":"cd /repo && cargo nextest run --workspace --no-fail-fast --offline","source_commits":[],"add_only":True},
 "engines":[{"name":"coq+tcverif","path":"/verif/coq, /verif/harness, /verif/py","serves_properties":sorted(claimed),"kind_free_text":"Coq 8.16 + std++ development (model, proofs, property theorems, correspondence entry points) and a Rust harness that runs the implementation on generated cases; py/ evaluates the model on the same cases with coqc/vm_compute and compares"}],
 "checks":checks,"not_applicable":na,
 "notes":"See DESIGN.md. known_findings.json lists repaired defects (fix: commits in /repo) and known findings."}
json.dump(m,open('/verif/MANIFEST.json','w'),indent=1)
