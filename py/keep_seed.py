#!/usr/bin/env python3
"""keep_seed.py <name> <seed-out-dir> <property> '<caught by>' '<what I ran>' : store a confirmed seeded change"""
import json, os, shutil, sys
name, src, prop, caught, ran = sys.argv[1:6]
dst = "/verif/seeded/" + name
os.makedirs(dst, exist_ok=True)
shutil.copy(src + "/patch.diff", dst + "/patch.diff")
for f in os.listdir(src):
    if f.startswith("seeded_demo") or f.startswith("demo"):
        shutil.copy(os.path.join(src, f), os.path.join(dst, f))
meta = {}
try:
    meta = json.load(open(src + "/meta.json"))
except Exception:
    pass
meta.update({"property": prop, "confirmed": ran, "caught_by": caught})
json.dump(meta, open(dst + "/meta.json", "w"), indent=1)
print("kept", dst)
