"""Render the harness's tagged JSON as Gallina terms.

  int            -> N literal          {"nat": k} -> nat      {"Z": "k"} -> Z
  [..]           -> list               {"p": [a, b]} -> pair
  true/false     -> bool               null -> None           {"s": x} -> Some x
  {"gm": [pairs]} -> list_to_map [pairs]   (a gmap literal)
  {"c": name, "a": [args]} -> constructor / record application
"""


def g(v):
    if v is None:
        return "None"
    if v is True:
        return "true"
    if v is False:
        return "false"
    if isinstance(v, int):
        return "%d%%N" % v
    if isinstance(v, list):
        return "[" + "; ".join(g(x) for x in v) + "]"
    if isinstance(v, dict):
        if "nat" in v:
            return "%d%%nat" % v["nat"]
        if "Z" in v:
            return "(%s)%%Z" % v["Z"]
        if "p" in v:
            return "(" + ", ".join(g(x) for x in v["p"]) + ")"
        if "bytes" in v:
            if not v["bytes"]:
                return "(@nil N)"
            return "([" + "; ".join(str(c) for c in v["bytes"]) + "]%N)"
        if "str" in v:
            cps = [ord(ch) for ch in v["str"]]
            if not cps:
                return "(@nil N)"
            return "([" + "; ".join(str(c) for c in cps) + "]%N)"
        if "gm" in v:
            return "(list_to_map " + g(v["gm"]) + ")"
        if "s" in v:
            return "(Some " + g(v["s"]) + ")"
        if "c" in v:
            if not v["a"]:
                return v["c"]
            return "(" + v["c"] + " " + " ".join(g(x) for x in v["a"]) + ")"
    raise ValueError("cannot render %r" % (v,))
