#!/bin/sh
# Build the framework from files on disk only (offline): the Coq development and the harness.
set -e
cd /verif
export CARGO_NET_OFFLINE=true
mkdir -p work/tmp evidence replays
(cd coq && ./gen_project.sh && timeout 3000 make -j16) 
cp /repo/Cargo.lock harness/Cargo.lock
(cd harness && RUSTFLAGS="--cfg gothenburgbitfactory_taskchampion_verif" timeout 3000 cargo build --release --offline)
echo setup-ok
