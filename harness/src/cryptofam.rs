//! C13: values sealed by the implementation (through the hook and through backends) are handed
//! to the Coq model for byte-for-byte recomputation; every modification must be rejected.
use crate::util::*;
use serde_json::{json, Value};
use taskchampion::server::verif::VerifCryptor;
use taskchampion::Uuid;

pub const C_SECRET: &[u8] = b"verif secret \xff\x00";
pub const C_SALT: &[u8] = b"0123456789abcdef";

fn bytes_lit(b: &[u8]) -> Value {
    json!({ "bytes": b.iter().map(|x| *x as u64).collect::<Vec<u64>>() })
}

pub fn hex(b: &[u8]) -> String {
    b.iter().map(|x| format!("{:02x}", x)).collect()
}
pub fn unhex(s: &str) -> Vec<u8> {
    (0..s.len() / 2).map(|i| u8::from_str_radix(&s[2 * i..2 * i + 2], 16).unwrap()).collect()
}

/// one JSON document: cases for the model + the result of the tamper sweep
pub fn run(seed: u64, count: usize, model_sealed: &[(String, String, String)]) -> Value {
    let mut rng = Rng::new(seed ^ 0xc13);
    let cr = VerifCryptor::new(C_SECRET, C_SALT).expect("cryptor");
    let cr_other_secret = VerifCryptor::new(b"other secret", C_SALT).expect("cryptor");
    let cr_other_salt = VerifCryptor::new(C_SECRET, b"fedcba9876543210").expect("cryptor");
    let mut problems: Vec<String> = vec![];
    let mut cases = vec![];
    let mut sweep = 0u64;
    let mut nonces = std::collections::HashSet::new();
    for k in 0..count {
        let len = match k % 6 { 0 => 0, 1 => 1, 2 => 15 + rng.below(3), 3 => 63 + rng.below(3), 4 => rng.below(200), _ => rng.below(400) };
        let mut payload: Vec<u8> = (0..len).map(|_| rng.below(256) as u8).collect();
        // recognisable task content
        let marker = b"MARKER-task-description";
        if len >= marker.len() {
            payload[..marker.len()].copy_from_slice(marker);
        }
        let vid = Uuid::from_u128(((rng.next() as u128) << 64) | rng.next() as u128);
        let sealed = match cr.seal(vid, payload.clone()) {
            Ok(s) => s,
            Err(e) => {
                problems.push(format!("seal failed: {e:#}"));
                continue;
            }
        };
        cases.push(json!({"p": [{"p": [bytes_lit(vid.as_bytes()), bytes_lit(&payload)]}, bytes_lit(&sealed)]}));
        // layout and secrecy
        if sealed.len() != 1 + 12 + payload.len() + 16 || sealed[0] != 1 {
            problems.push(format!("sealed value of a {len}-byte payload has length {} and first byte {}", sealed.len(), sealed[0]));
        }
        if len >= marker.len() && sealed.windows(marker.len()).any(|w| w == marker) {
            problems.push("task content appears in a sealed value".into());
        }
        if !nonces.insert(sealed[1..13].to_vec()) {
            problems.push("a nonce was used twice".into());
        }
        // opening
        match cr.unseal(vid, sealed.clone()) {
            Ok(p) if p == payload => {}
            other => problems.push(format!("a sealed value does not open to its payload: {:?}", other.map(|p| p.len()))),
        }
        // every single-byte modification, every truncation, extension, and every mismatch
        let mut reject = |what: String, s: Vec<u8>, sec: &[u8], salt: &[u8], v: Uuid| {
            sweep += 1;
            let c = if sec != C_SECRET { &cr_other_secret } else if salt != C_SALT { &cr_other_salt } else { &cr };
            if let Ok(p) = c.unseal(v, s) {
                problems.push(format!("{what} was accepted and returned {} bytes (payload length {len})", p.len()));
            }
        };
        for pos in 0..sealed.len() {
            let mut s = sealed.clone();
            s[pos] ^= 1 << rng.below(8);
            reject(format!("a sealed value with the byte at offset {pos} changed"), s, C_SECRET, C_SALT, vid);
        }
        for pos in [0usize, 1, sealed.len() - 1] {
            for alt in 0..=255u8 {
                if alt != sealed[pos] {
                    let mut s = sealed.clone();
                    s[pos] = alt;
                    reject(format!("a sealed value with byte {pos} set to {alt}"), s, C_SECRET, C_SALT, vid);
                }
            }
        }
        for cut in 0..sealed.len() {
            reject(format!("a sealed value truncated to {cut} bytes"), sealed[..cut].to_vec(), C_SECRET, C_SALT, vid);
        }
        let mut ext = sealed.clone();
        ext.push(0);
        reject("a sealed value with a byte appended".into(), ext, C_SECRET, C_SALT, vid);
        reject("a sealed value opened with another secret".into(), sealed.clone(), b"other secret", C_SALT, vid);
        reject("a sealed value opened with another salt".into(), sealed.clone(), C_SECRET, b"fedcba9876543210", vid);
        reject("a sealed value opened for another version id".into(), sealed.clone(), C_SECRET, C_SALT, Uuid::from_u128(vid.as_u128() ^ 1));
        reject("a sealed value opened for the nil version id".into(), sealed.clone(), C_SECRET, C_SALT, Uuid::nil());
    }
    // key separation: the same bytes split differently into salt and secret give unrelated keys
    {
        let all: Vec<u8> = b"0123456789abcdefXYZsecret-bytes".to_vec();
        let splits = [14usize, 15, 16, 17, 18];
        let crs: Vec<VerifCryptor> = splits.iter().map(|k| VerifCryptor::new(&all[*k..], &all[..*k]).expect("cryptor")).collect();
        let vid = Uuid::from_u128(0x1234_5678_9abc_4def_8123_4567_89ab_cdef);
        for (a, ca) in crs.iter().enumerate() {
            let sealed = ca.seal(vid, b"MARKER-task-description and more".to_vec()).expect("seal");
            for (b, cb) in crs.iter().enumerate() {
                sweep += 1;
                match (a == b, cb.unseal(vid, sealed.clone())) {
                    (true, Ok(_)) | (false, Err(_)) => {}
                    (true, Err(e)) => problems.push(format!("a value sealed under (salt of {} bytes, the rest as secret) does not open under the same pair: {e:#}", splits[a])),
                    (false, Ok(_)) => problems.push(format!("a value sealed under a salt of {} bytes and the remaining bytes as secret opens under a salt of {} bytes and the remaining bytes as secret", splits[a], splits[b])),
                }
            }
        }
    }
    // values sealed by the model must open in the implementation
    let mut opened = 0;
    for (vid_hex, payload_hex, sealed_hex) in model_sealed {
        let vid = Uuid::from_slice(&unhex(vid_hex)).unwrap();
        match cr.unseal(vid, unhex(sealed_hex)) {
            Ok(p) if p == unhex(payload_hex) => opened += 1,
            other => problems.push(format!("a value sealed by the model does not open in the implementation: {:?}", other.map(|p| hex(&p)))),
        }
    }
    json!({"ok": problems.is_empty(), "problems": problems, "cases": cases, "tamper_attempts": sweep, "model_sealed_opened": opened,
           "secret": bytes_lit(C_SECRET), "salt": bytes_lit(C_SALT)})
}
