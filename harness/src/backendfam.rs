//! C08 / C11: every provided server backend against the version-chain protocol, with several
//! handles, odd payloads, failpoints inside add_version and reopening.
use crate::synchist::CaseOut;
use crate::util::*;
use serde_json::{json, Value};
use std::collections::HashMap;
use std::path::PathBuf;
use taskchampion::server::verif::{arm_failpoint, set_failpoint_stops, set_randint, take_failpoint_trace, MemStore, VerifCloud};
use taskchampion::server::{AddVersionResult, GetVersionResult, Server, ServerConfig};
use taskchampion::Uuid;

/// runs the calls of a reqwest-based server inside a tokio runtime (the rest of the harness
/// polls futures by hand)
pub struct TokioServer {
    rt: std::sync::Arc<tokio::runtime::Runtime>,
    inner: Box<dyn Server>,
}

#[async_trait::async_trait(?Send)]
impl Server for TokioServer {
    async fn add_version(&mut self, parent: taskchampion::server::VersionId, hs: taskchampion::server::HistorySegment)
        -> Result<(AddVersionResult, taskchampion::server::SnapshotUrgency), taskchampion::Error> {
        let rt = self.rt.clone();
        rt.block_on(self.inner.add_version(parent, hs))
    }
    async fn get_child_version(&mut self, parent: taskchampion::server::VersionId) -> Result<GetVersionResult, taskchampion::Error> {
        let rt = self.rt.clone();
        rt.block_on(self.inner.get_child_version(parent))
    }
    async fn add_snapshot(&mut self, v: taskchampion::server::VersionId, s: taskchampion::server::Snapshot) -> Result<(), taskchampion::Error> {
        let rt = self.rt.clone();
        rt.block_on(self.inner.add_snapshot(v, s))
    }
    async fn get_snapshot(&mut self) -> Result<Option<(taskchampion::server::VersionId, taskchampion::server::Snapshot)>, taskchampion::Error> {
        let rt = self.rt.clone();
        rt.block_on(self.inner.get_snapshot())
    }
}

pub const HTTP_CLIENT: u128 = 0xea82d570_3d7e_494a_a581_babe65dc7b3b;

pub struct Backend {
    pub http: Option<crate::httpsrv::HttpSrv>,
    pub rt: Option<std::sync::Arc<tokio::runtime::Runtime>>,
    pub kind: String,
    pub dir: PathBuf,
    pub store: Option<MemStore>,
    pub handles: Vec<Box<dyn Server>>,
    pub nhandles: usize,
}

const B_SECRET: &[u8] = b"backend-secret";

fn run_git(dir: &std::path::Path, args: &[&str]) {
    let o = std::process::Command::new("git").args(args).current_dir(dir).output().expect("git");
    assert!(o.status.success(), "git {:?} failed: {}", args, String::from_utf8_lossy(&o.stderr));
}

impl Backend {
    pub fn open_handle(&self, i: usize) -> Result<Box<dyn Server>, taskchampion::Error> {
        match self.kind.as_str() {
            "local" => block_on(ServerConfig::Local { server_dir: self.dir.clone() }.into_server()),
            "git" => block_on(ServerConfig::Git {
                local_path: self.dir.join("repo"), branch: "main".into(), remote: None, local_only: true,
                encryption_secret: B_SECRET.to_vec(), git_path: None }.into_server()),
            "gitremote" => block_on(ServerConfig::Git {
                local_path: self.dir.join(format!("clone{i}")), branch: "main".into(),
                remote: Some(self.dir.join("remote.git").to_string_lossy().to_string()), local_only: false,
                encryption_secret: B_SECRET.to_vec(), git_path: None }.into_server()),
            // a remote is configured but the clone works offline
            "gitoffline" => block_on(ServerConfig::Git {
                local_path: self.dir.join(format!("clone{i}")), branch: "main".into(),
                remote: Some(self.dir.join("remote.git").to_string_lossy().to_string()), local_only: true,
                encryption_secret: B_SECRET.to_vec(), git_path: None }.into_server()),
            // a remote that has no branch yet: the first add_version creates it
            "gitfresh" => block_on(ServerConfig::Git {
                local_path: self.dir.join(format!("clone{i}")), branch: "main".into(),
                remote: Some(self.dir.join("remote.git").to_string_lossy().to_string()), local_only: false,
                encryption_secret: B_SECRET.to_vec(), git_path: None }.into_server()),
            "cloud" => {
                let c = block_on(VerifCloud::new(self.store.clone().unwrap(), i, B_SECRET.to_vec()))?;
                Ok(Box::new(c))
            }
            "http" => {
                // every handle is the same client (one task history), as the documentation prescribes
                let rt = self.rt.clone().unwrap();
                let inner = rt.block_on(ServerConfig::Remote {
                    url: self.http.as_ref().unwrap().url(), client_id: Uuid::from_u128(HTTP_CLIENT),
                    encryption_secret: B_SECRET.to_vec() }.into_server())?;
                Ok(Box::new(TokioServer { rt, inner }))
            }
            other => panic!("unknown backend {other}"),
        }
    }

    pub fn new(kind: &str, nhandles: usize, tag: &str) -> Backend {
        let dir = work_dir(tag);
        let mut b = Backend { http: None, rt: None, kind: kind.to_string(), dir, store: None, handles: vec![], nhandles };
        if kind == "http" {
            b.http = Some(crate::httpsrv::HttpSrv::start());
            b.rt = Some(std::sync::Arc::new(tokio::runtime::Builder::new_current_thread().enable_all().build().expect("tokio runtime")));
        }
        if kind == "cloud" {
            b.store = Some(MemStore::new(nhandles + 2, 2));
            set_randint(Some(255));
        }
        if kind == "gitoffline" || kind == "gitfresh" {
            std::fs::create_dir_all(b.dir.join("remote.git")).unwrap();
            run_git(&b.dir.join("remote.git"), &["init", "--bare", "-b", "main"]);
        }
        if kind == "gitremote" {
            std::fs::create_dir_all(b.dir.join("remote.git")).unwrap();
            run_git(&b.dir.join("remote.git"), &["init", "--bare", "-b", "main"]);
            // the first clone creates the repository content (meta with the salt) and pushes it
            let mut h0 = b.open_handle(0).expect("first clone");
            let _ = block_on(h0.get_child_version(Uuid::nil()));
            run_git(&b.dir.join("clone0"), &["push", b.dir.join("remote.git").to_str().unwrap(), "main"]);
            drop(h0);
        }
        for i in 0..nhandles {
            let h = b.open_handle(i).expect("open backend");
            b.handles.push(h);
        }
        b
    }

    pub fn reopen(&mut self, i: usize) -> Result<(), taskchampion::Error> {
        let h = self.open_handle(i)?;
        self.handles[i] = h;
        Ok(())
    }
}

impl Drop for Backend {
    fn drop(&mut self) {
        self.handles.clear();
        let _ = std::fs::remove_dir_all(&self.dir);
        if self.kind == "cloud" {
            set_randint(None);
        }
    }
}

fn payload(k: usize, big: bool) -> Vec<u8> {
    let mut v = format!("payload-{k}-").into_bytes();
    match k % 4 {
        0 => {}
        1 => v.extend([0xff, 0xfe, 0x00, 0x80]),
        2 => v.extend(std::iter::repeat(0xa5u8).take(if big { 1_000_000 } else { 20_000 })),
        _ => v.extend("\u{1F600}\n\"".bytes()),
    }
    v
}
fn payload_of(b: &[u8]) -> Option<usize> {
    let s = String::from_utf8_lossy(&b[..b.len().min(40)]);
    s.strip_prefix("payload-")?.split('-').next()?.parse().ok()
}

pub fn gen_backend(seed: u64, id: usize, kind: &str, faults: bool, big: bool) -> CaseOut {
    let mut rng = Rng::new(seed ^ (id as u64).wrapping_mul(0xA3B195354A39B70D) ^ (kind.len() as u64) << 24 ^ if faults { 0x11 } else { 0 });
    let nh = match kind { "git" | "gitoffline" | "gitfresh" => 1, "gitremote" => 2, _ => rng.range(1, 3) };
    let mut be = Backend::new(kind, nh, &format!("be-{kind}-{id}"));
    let mut canon: HashMap<Uuid, usize> = HashMap::new();
    canon.insert(Uuid::nil(), 0);
    let mut ids: Vec<Uuid> = vec![Uuid::nil()];
    let unknown = Uuid::from_u128(0xdead_0000_0000_4000_8000_0000_0000_0001);
    let mut items: Vec<Value> = vec![];
    let mut script: Vec<Value> = vec![];
    let mut problems: Vec<String> = vec![];
    let mut chain: Vec<usize> = vec![]; // canonical ids in order of acceptance, as observed
    let mut next_payload = 1usize;
    let mut feats: HashMap<String, u64> = HashMap::new();
    let mut feat = |k: &str, feats: &mut HashMap<String, u64>| *feats.entry(k.to_string()).or_insert(0) += 1;
    let mut last_added: Vec<Option<usize>> = vec![None; nh];
    let ncalls = rng.range(3, 12);
    let fault_call = if faults { Some(rng.below(ncalls)) } else { None };
    let n_ = |x: usize| n(x as u64);
    for k in 0..ncalls {
        let h = rng.below(nh);
        let c = rng.below(100);
        let pick_known = |rng: &mut Rng, chain: &Vec<usize>| if chain.is_empty() || rng.chance(20) { 0 } else { chain[rng.below(chain.len())] };
        if c < 45 || fault_call == Some(k) {
            // add_version
            let head = chain.last().copied().unwrap_or(0);
            let parent = if rng.chance(70) || fault_call == Some(k) { head } else if rng.chance(50) { pick_known(&mut rng, &chain) } else { usize::MAX };
            let puuid = if parent == usize::MAX { unknown } else { ids[parent] };
            let pcanon = if parent == usize::MAX { 9998 } else { parent };
            let pl = next_payload;
            next_payload += 1;
            let bytes = payload(pl, big);
            let mut fp_name = None;
            let mut stop_mode = false;
            if fault_call == Some(k) {
                // learn which failpoints this backend passes, then arm one of them
                let names: Vec<&str> = match kind {
                    "local" => vec!["local.add_version.between_insert_and_latest"],
                    "git" | "gitremote" | "gitoffline" | "gitfresh" => vec!["git.add_version.after_version_file", "git.add_version.after_meta", "git.add_version.after_commit"],
                    _ => vec![],
                };
                if !names.is_empty() {
                    let nme = names[rng.below(names.len())];
                    arm_failpoint(Some((nme, 0)));
                    // the two fault kinds: the step returns an error, or the process stops there
                    // (an unwinding panic: none of the backend's error handling runs)
                    stop_mode = rng.chance(50);
                    set_failpoint_stops(stop_mode);
                    fp_name = Some(if stop_mode { format!("{nme} (process stops)") } else { nme.to_string() });
                }
                if kind == "http" {
                    use crate::httpsrv::Hostile;
                    let modes = [Hostile::Status500, Hostile::NoVersionHeader, Hostile::BadVersionHeader, Hostile::ConflictNoHeader];
                    let m = modes[rng.below(modes.len())].clone();
                    fp_name = Some(format!("http: the server answers add-version with {:?}", m));
                    be.http.as_ref().unwrap().state.lock().unwrap().hostile = Some(m);
                }
            }
            // the snapshot request the HTTP server will attach to an acceptance
            if kind == "http" {
                be.http.as_ref().unwrap().state.lock().unwrap().urgency = None;
            }
            let mut want_urgency = None;
            if kind == "http" && rng.chance(50) {
                let (h, u) = match rng.below(3) {
                    0 => ("urgency=low", taskchampion::server::SnapshotUrgency::Low),
                    1 => ("urgency=high", taskchampion::server::SnapshotUrgency::High),
                    _ => ("urgency=whatever", taskchampion::server::SnapshotUrgency::None),
                };
                be.http.as_ref().unwrap().state.lock().unwrap().urgency = Some(h.to_string());
                want_urgency = Some(u);
            }
            let r = std::panic::catch_unwind(std::panic::AssertUnwindSafe(|| block_on(be.handles[h].add_version(puuid, bytes.clone()))));
            arm_failpoint(None);
            set_failpoint_stops(false);
            // a stop at the failpoint is an interruption like an error, without the error handling
            let r = match r {
                Err(_) if stop_mode => {
                    feat("stops", &mut feats);
                    Ok(Err(taskchampion::Error::Server("the process stopped at the failpoint".into())))
                }
                other => other,
            };
            let _ = take_failpoint_trace();
            match r {
                Err(_) => problems.push(format!("{kind}: add_version panicked")),
                Ok(Ok((AddVersionResult::Ok(v), urg))) => {
                    if kind == "http" {
                        let want = want_urgency.clone().unwrap_or(taskchampion::server::SnapshotUrgency::None);
                        if urg != want {
                            problems.push(format!("http: the server's snapshot request {:?} was reported as {:?}", want, urg));
                        }
                    }
                    let cid = ids.len();
                    ids.push(v);
                    canon.insert(v, cid);
                    chain.push(cid);
                    last_added[h] = Some(cid);
                    feat("accepted", &mut feats);
                    items.push(pair(ctor("BAddVersion", vec![n_(pcanon), n_(cid), n_(pl)]), ctor("BOk", vec![n_(cid)])));
                    script.push(json!(format!("handle {h}: add_version(parent {pcanon}, payload {pl}) -> Ok({cid})")));
                }
                Ok(Ok((AddVersionResult::ExpectedParentVersion(v), _))) => {
                    let e = canon.get(&v).copied().unwrap_or(9999);
                    feat("rejected", &mut feats);
                    if e == pcanon {
                        // rejected although the parent was the latest version
                        feat("spurious_rejections", &mut feats);
                    }
                    items.push(pair(ctor("BAddVersion", vec![n_(pcanon), n_(9997), n_(pl)]), ctor("BExpected", vec![n_(e)])));
                    script.push(json!(format!("handle {h}: add_version(parent {pcanon}, payload {pl}) -> Expected({e})")));
                }
                Ok(Err(e)) => {
                    if let Some(fp) = &fp_name {
                        feat("faults", &mut feats);
                        script.push(json!(format!("handle {h}: add_version(parent {pcanon}, payload {pl}) interrupted at {fp}: {e:#}")));
                        // restart: every handle is reopened on the same directory / store -- always after
                        // a stop; after an error return the handles are as often simply used further
                        if stop_mode || rng.chance(50) {
                            for i in 0..nh {
                                if let Err(e) = be.reopen(i) {
                                    problems.push(format!("{kind}: reopening after a fault at {fp} failed: {e:#}"));
                                }
                            }
                        } else {
                            feat("faults_without_restart", &mut feats);
                            script.push(json!("the handles are used further without a restart"));
                        }
                        // the version is either fully accepted or not visible at all
                        match std::panic::catch_unwind(std::panic::AssertUnwindSafe(|| block_on(be.handles[h].get_child_version(puuid)))) {
                            Ok(Ok(GetVersionResult::Version { version_id, history_segment, .. })) if !canon.contains_key(&version_id) => {
                                let cid = ids.len();
                                ids.push(version_id);
                                canon.insert(version_id, cid);
                                chain.push(cid);
                                if history_segment != bytes {
                                    problems.push(format!("{kind}: after the fault the version is visible with other bytes"));
                                }
                                items.push(pair(ctor("BAddVersion", vec![n_(pcanon), n_(cid), n_(pl)]), ctor("BOk", vec![n_(cid)])));
                                script.push(json!(format!("after restart the interrupted version is visible as {cid}: treated as accepted")));
                            }
                            Ok(Ok(_)) => script.push(json!("after restart the interrupted version is not visible: treated as not accepted")),
                            Ok(Err(e)) => problems.push(format!("{kind}: get_child_version after restart failed: {e:#}")),
                            Err(_) => problems.push(format!("{kind}: get_child_version after restart panicked")),
                        }
                    } else {
                        problems.push(format!("{kind}: add_version failed: {e:#}"));
                    }
                }
            }
        } else if c < 80 {
            // often: the child of what this very handle added last (what a sync asks next)
            let parent = match last_added[h] {
                Some(v) if rng.chance(45) => v,
                _ => if rng.chance(85) { pick_known(&mut rng, &chain) } else { usize::MAX },
            };
            let puuid = if parent == usize::MAX { unknown } else { ids[parent] };
            let pcanon = if parent == usize::MAX { 9998 } else { parent };
            match std::panic::catch_unwind(std::panic::AssertUnwindSafe(|| block_on(be.handles[h].get_child_version(puuid)))) {
                Err(_) => problems.push(format!("{kind}: get_child_version panicked")),
                Ok(Err(e)) => problems.push(format!("{kind}: get_child_version failed: {e:#}")),
                Ok(Ok(GetVersionResult::NoSuchVersion)) => {
                    items.push(pair(ctor("BGetChild", vec![n_(pcanon)]), c0("BNoSuch")));
                    script.push(json!(format!("handle {h}: get_child_version({pcanon}) -> none")));
                }
                Ok(Ok(GetVersionResult::Version { version_id, parent_version_id, history_segment })) => {
                    let cid = canon.get(&version_id).copied().unwrap_or(9999);
                    let pl = payload_of(&history_segment).unwrap_or(9999);
                    if parent_version_id != puuid {
                        problems.push(format!("{kind}: get_child_version({pcanon}) returned a version with another parent"));
                    }
                    if history_segment != payload(pl, big) {
                        problems.push(format!("{kind}: version {cid} was returned with bytes that differ from the submitted ones"));
                    }
                    items.push(pair(ctor("BGetChild", vec![n_(pcanon)]), ctor("BVersion", vec![n_(cid), n_(pl)])));
                    script.push(json!(format!("handle {h}: get_child_version({pcanon}) -> {cid}")));
                }
            }
        } else if c < 90 && !chain.is_empty() {
            let v = chain[rng.below(chain.len())];
            let pl = 5000 + next_payload;
            next_payload += 1;
            feat("snapshots", &mut feats);
            match std::panic::catch_unwind(std::panic::AssertUnwindSafe(|| block_on(be.handles[h].add_snapshot(ids[v], payload(pl, false))))) {
                Err(_) => problems.push(format!("{kind}: add_snapshot panicked")),
                Ok(Err(e)) => problems.push(format!("{kind}: add_snapshot failed: {e:#}")),
                Ok(Ok(())) => {
                    items.push(pair(ctor("BAddSnapshot", vec![n_(v), n_(pl)]), c0("BUnit")));
                    script.push(json!(format!("handle {h}: add_snapshot({v}, payload {pl})")));
                }
            }
        } else {
            match std::panic::catch_unwind(std::panic::AssertUnwindSafe(|| block_on(be.handles[h].get_snapshot()))) {
                Err(_) => problems.push(format!("{kind}: get_snapshot panicked")),
                Ok(Err(e)) => problems.push(format!("{kind}: get_snapshot failed: {e:#}")),
                Ok(Ok(None)) => {
                    items.push(pair(c0("BGetSnapshot"), ctor("BSnapshot", vec![Value::Null])));
                    script.push(json!(format!("handle {h}: get_snapshot -> none")));
                }
                Ok(Ok(Some((v, data)))) => {
                    let cid = canon.get(&v).copied().unwrap_or(9999);
                    let pl = payload_of(&data).unwrap_or(9999);
                    if data != payload(pl, false) {
                        problems.push(format!("{kind}: the snapshot was returned with other bytes"));
                    }
                    items.push(pair(c0("BGetSnapshot"), ctor("BSnapshot", vec![some(pair(n_(cid), n_(pl)))])));
                    script.push(json!(format!("handle {h}: get_snapshot -> ({cid}, payload {pl})")));
                }
            }
        }
        feat("calls", &mut feats);
    }
    // a late restart: what was accepted is still served afterwards
    if !chain.is_empty() && kind != "http" {
        for i in 0..nh {
            if let Err(e) = be.reopen(i) {
                problems.push(format!("{kind}: reopening at the end failed: {e:#}"));
            }
        }
        script.push(json!("every handle is reopened"));
        for _ in 0..rng.range(1, 3) {
            let h = rng.below(nh);
            let parent = if rng.chance(40) { 0 } else { chain[rng.below(chain.len())] };
            match std::panic::catch_unwind(std::panic::AssertUnwindSafe(|| block_on(be.handles[h].get_child_version(ids[parent])))) {
                Err(_) => problems.push(format!("{kind}: get_child_version panicked")),
                Ok(Err(e)) => problems.push(format!("{kind}: get_child_version failed: {e:#}")),
                Ok(Ok(GetVersionResult::NoSuchVersion)) => {
                    items.push(pair(ctor("BGetChild", vec![n_(parent)]), c0("BNoSuch")));
                    script.push(json!(format!("handle {h}: get_child_version({parent}) -> none")));
                }
                Ok(Ok(GetVersionResult::Version { version_id, history_segment, .. })) => {
                    let cid = canon.get(&version_id).copied().unwrap_or(9999);
                    let pl = payload_of(&history_segment).unwrap_or(9999);
                    items.push(pair(ctor("BGetChild", vec![n_(parent)]), ctor("BVersion", vec![n_(cid), n_(pl)])));
                    script.push(json!(format!("handle {h}: get_child_version({parent}) -> {cid}")));
                }
            }
        }
    }
    if kind == "http" {
        use crate::httpsrv::Hostile;
        let srv = be.http.as_ref().unwrap().state.clone();
        srv.lock().unwrap().hostile = None;
        // responses no conforming server gives: each must come back as an error, never as data
        if !chain.is_empty() {
            let first_parent = {
                let st = srv.lock().unwrap();
                st.chains.values().next().and_then(|c| c.versions.first().map(|v| v.1)).unwrap_or(Uuid::nil())
            };
            let modes = [Hostile::Status500, Hostile::NoVersionHeader, Hostile::BadVersionHeader, Hostile::NoParentHeader,
                         Hostile::WrongContentType, Hostile::CorruptBody, Hostile::TruncatedBody, Hostile::Gone];
            for m in modes.iter() {
                if !rng.chance(60) {
                    continue;
                }
                srv.lock().unwrap().hostile = Some(m.clone());
                feat("hostile_responses", &mut feats);
                match std::panic::catch_unwind(std::panic::AssertUnwindSafe(|| block_on(be.handles[0].get_child_version(first_parent)))) {
                    Err(_) => problems.push(format!("http: get_child_version panicked on a {:?} response", m)),
                    Ok(Ok(r)) => problems.push(format!("http: get_child_version accepted a {:?} response: {:?}", m, matches!(r, GetVersionResult::Version { .. }))),
                    Ok(Err(_)) => {}
                }
                script.push(json!(format!("handle 0: get_child_version(first parent) answered with {:?} -> must be an error", m)));
            }
            let has_snap = srv.lock().unwrap().chains.values().any(|c| c.snapshot.is_some());
            if has_snap {
                for m in [Hostile::NoVersionHeader, Hostile::WrongContentType, Hostile::CorruptBody, Hostile::TruncatedBody].iter() {
                    srv.lock().unwrap().hostile = Some(m.clone());
                    feat("hostile_responses", &mut feats);
                    match std::panic::catch_unwind(std::panic::AssertUnwindSafe(|| block_on(be.handles[0].get_snapshot()))) {
                        Err(_) => problems.push(format!("http: get_snapshot panicked on a {:?} response", m)),
                        Ok(Ok(_)) => problems.push(format!("http: get_snapshot accepted a {:?} response", m)),
                        Ok(Err(_)) => {}
                    }
                }
            }
            srv.lock().unwrap().hostile = None;
            // and afterwards the client still works
            match std::panic::catch_unwind(std::panic::AssertUnwindSafe(|| block_on(be.handles[0].get_child_version(first_parent)))) {
                Ok(Ok(GetVersionResult::Version { version_id, history_segment, .. })) => {
                    let cid = canon.get(&version_id).copied().unwrap_or(9999);
                    let pl = payload_of(&history_segment).unwrap_or(9999);
                    let pc = canon.get(&first_parent).copied().unwrap_or(9998);
                    items.push(pair(ctor("BGetChild", vec![n_(pc)]), ctor("BVersion", vec![n_(cid), n_(pl)])));
                }
                other => problems.push(format!("http: after hostile responses get_child_version gave {:?}", other.map(|r| r.map(|_| "something else")).map_err(|_| "panic"))),
            }
        }
        // what the server received: the documented request shape, sealed under the parent id
        let st = srv.lock().unwrap();
        problems.extend(st.problems.iter().map(|p| format!("http request shape: {p}")));
        let cid = Uuid::from_u128(HTTP_CLIENT);
        for r in st.received.iter() {
            if r.client_id.as_deref() != Some(&cid.to_string()) {
                problems.push(format!("http: {} {} carried X-Client-Id {:?}", r.method, r.path, r.client_id));
            }
            let seg: Vec<&str> = r.path.trim_start_matches('/').split('/').collect();
            if r.method == "POST" && seg.len() == 5 {
                if let Ok(id) = Uuid::parse_str(seg[4]) {
                    feat("bodies_unsealed", &mut feats);
                    if r.body.first() != Some(&1) || r.body.windows(8).any(|w| w == b"payload-") {
                        problems.push(format!("http: the body sent to {} is not in the sealed form", r.path));
                    }
                    match taskchampion::server::verif::unseal(B_SECRET, cid.as_bytes(), id, r.body.clone()) {
                        Ok(plain) => {
                            if payload_of(&plain).map(|k| payload(k, big) == plain || payload(k, false) == plain) != Some(true) {
                                problems.push(format!("http: the body sent to {} opens to something that was not submitted", r.path));
                            }
                        }
                        Err(e) => problems.push(format!("http: the body sent to {} does not open under (secret, client id as salt, the id in the url): {e:#}", r.path)),
                    }
                }
            }
        }
    }
    // stored bytes of the remote backends are sealed: format byte 1 and no payload marker
    if kind.starts_with("git") {
        let d = if kind == "git" { be.dir.join("repo") } else { be.dir.join("clone0") };
        if let Ok(rd) = std::fs::read_dir(&d) {
            for e in rd.flatten() {
                let name = e.file_name().to_string_lossy().to_string();
                if name.starts_with("v-") {
                    let b = std::fs::read(e.path()).unwrap_or_default();
                    if b.first() != Some(&1) || b.windows(8).any(|w| w == b"payload-") {
                        problems.push(format!("{kind}: the stored file {name} is not in the sealed form"));
                    }
                }
            }
        }
    }
    let ok = problems.is_empty();
    CaseOut {
        coq: list(items),
        script: json!({"family": format!("backend-{kind}"), "seed": seed, "id": id, "handles": nh, "steps": script}),
        oracle: json!({"ok": ok, "problems": problems}),
        features: Value::Object(feats.iter().map(|(k, v)| (k.clone(), json!(v))).collect()),
    }
}
