//! C18 / C19 / C20: tasks with arbitrary stored content are read through every public reader
//! under panic capture; mutator sequences are recorded and committed; expiration is swept.
use crate::pools::*;
use crate::synchist::CaseOut;
use crate::util::*;
use serde_json::{json, Value};
use std::collections::BTreeMap;
use taskchampion::chrono::{DateTime, Utc};
use taskchampion::storage::inmemory::InMemoryStorage;
use taskchampion::{Operation, Replica, Status, Tag, Task};

pub fn sv(s: &str) -> Value {
    json!({ "str": s })
}

pub fn key_pool() -> Vec<String> {
    let mut v: Vec<String> = [
        "status", "description", "priority", "entry", "wait", "modified", "due", "start", "end",
        "tag_ok", "tag_", "tag_bad tag", "tag_+x", "tag_WAITING", "tag_NOSUCH", "tag_\u{fc}n\u{ef}", "tag_a:b", "tag_1x",
        "tag_:c", "tag_x\u{3000}y", "tag_PENDING",
        "annotation_123", "annotation_", "annotation_x", "annotation_99999999999999999", "annotation_-5",
        "annotation_+7", "annotation_9223372036854775807", "annotation_8210266876799", "annotation_8210266876800",
        "dep_garbage", "dep_", "uda.x", "project", "githubid", "Status", "tagx", "annotation",
    ]
    .iter()
    .map(|s| s.to_string())
    .collect();
    for i in [0usize, 1, 2, 9] {
        v.push(format!("dep_{}", uuid_of(i)));
    }
    v.push(format!("dep_{}", uuid_of(1).to_string().to_uppercase()));
    v.push(format!("dep_{}", uuid_of(2).simple()));
    // long keys: multi-byte characters at every small offset, valid and invalid
    v.push(format!("tag_+{}", "\u{e9}".repeat(20)));
    v.push("tag_f\u{e4}llig n\u{e4}chste Woche wegen gr\u{f6}\u{df}erer \u{c4}nderung \u{65e5}\u{672c}\u{8a9e}\u{306e}\u{30bf}\u{30b0}".to_string());
    v.push(format!("tag_{}", "\u{1F980}".repeat(12)));
    v.push(format!("tag_x{}:{}", "\u{4e2d}".repeat(11), "y".repeat(30)));
    v.push(format!("tag_{}", "A".repeat(40)));
    v.push(format!("annotation_{}", "9".repeat(40)));
    v.push(format!("annotation_1{}", "\u{ff10}".repeat(15)));
    v.push(format!("dep_{}", "\u{e9}".repeat(30)));
    v
}

pub fn value_pool(now: i64) -> Vec<String> {
    let tsmin = DateTime::<Utc>::MIN_UTC.timestamp();
    let tsmax = DateTime::<Utc>::MAX_UTC.timestamp();
    let mut v: Vec<String> = [
        "", "pending", "completed", "deleted", "recurring", "bogus", "Pending", "0", "+1", "-0", "-1", "1700000000",
        "9223372036854775807", "-9223372036854775808", "9223372036854775808", "-9223372036854775809",
        "99999999999999999", "123456789012345678901234567890", "\u{ff11}\u{ff12}\u{ff13}", "12 ", " 12", "1e3", "0x10",
        "--1", "+", "-", "abc", "1_000", "00012", "+00", "a description \u{1F600}", "H",
    ]
    .iter()
    .map(|s| s.to_string())
    .collect();
    for z in [tsmin, tsmin - 1, tsmin + 1, tsmax, tsmax + 1, tsmax - 1, now - 3600, now + 3600, now - 180 * 86400 - 86400,
              now - 180 * 86400 + 86400, now - 180 * 86400 - 60, now - 180 * 86400 + 60, now + 400 * 86400] {
        v.push(z.to_string());
    }
    v
}

fn status_lit(s: &Status) -> Value {
    match s {
        Status::Pending => c0("StPending"),
        Status::Completed => c0("StCompleted"),
        Status::Deleted => c0("StDeleted"),
        Status::Recurring => c0("StRecurring"),
        Status::Unknown(x) => ctor("StUnknown", vec![sv(x)]),
    }
}

fn ts_lit(t: Option<DateTime<Utc>>) -> Value {
    opt(t.map(|t| z(t.timestamp() as i128)))
}

/// every public reader of one task; a panic in any of them is reported by name
pub fn read_task(t: &Task, problems: &mut Vec<String>) -> Option<Value> {
    macro_rules! guard {
        ($name:expr, $e:expr) => {
            match std::panic::catch_unwind(std::panic::AssertUnwindSafe(|| $e)) {
                Ok(v) => v,
                Err(_) => {
                    problems.push(format!("{} panicked on task {:?}", $name, t.clone().into_task_data()));
                    return None;
                }
            }
        };
    }
    let status = guard!("get_status", t.get_status());
    let desc = guard!("get_description", t.get_description().to_string());
    let prio = guard!("get_priority", t.get_priority().to_string());
    let entry = guard!("get_entry", t.get_entry());
    let wait = guard!("get_wait", t.get_wait());
    let modified = guard!("get_modified", t.get_modified());
    let due = guard!("get_due", t.get_due());
    let waiting = guard!("is_waiting", t.is_waiting());
    let active = guard!("is_active", t.is_active());
    let blocked = guard!("is_blocked", t.is_blocked());
    let blocking = guard!("is_blocking", t.is_blocking());
    let tags: Vec<Tag> = guard!("get_tags", t.get_tags().collect());
    let mut user: Vec<String> = tags.iter().filter(|x| x.is_user()).map(|x| x.to_string()).collect();
    user.sort();
    let mut synth: Vec<String> = tags.iter().filter(|x| x.is_synthetic()).map(|x| x.to_string()).collect();
    synth.sort();
    // has_tag must agree with get_tags
    for tg in &tags {
        let h = guard!("has_tag", t.has_tag(tg));
        if !h && tg.is_user() {
            problems.push(format!("get_tags lists {tg} but has_tag denies it"));
        }
    }
    let mut anns: Vec<(i64, String)> = guard!("get_annotations", t.get_annotations().map(|a| (a.entry.timestamp(), a.description)).collect());
    anns.sort();
    let mut udas: Vec<(String, String)> = guard!("get_user_defined_attributes", t.get_user_defined_attributes().map(|(k, v)| (k.to_string(), v.to_string())).collect());
    udas.sort();
    #[allow(deprecated)]
    let _legacy: Vec<((String, String), String)> = guard!("get_udas", t.get_udas().map(|((a, b), v)| ((a.to_string(), b.to_string()), v.to_string())).collect());
    let mut deps: Vec<usize> = guard!("get_dependencies", t.get_dependencies().map(|u| uuid_index(u, 64).unwrap_or(99)).collect());
    deps.sort();
    let _v = guard!("get_value", t.get_value("status").map(|s| s.to_string()));
    Some(ctor(
        "Build_tview",
        vec![
            status_lit(&status), sv(&desc), sv(&prio), ts_lit(entry), ts_lit(wait), ts_lit(modified), ts_lit(due),
            b(waiting), b(active), b(blocked), b(blocking),
            list(user.iter().map(|s| sv(s)).collect()), list(synth.iter().map(|s| sv(s)).collect()),
            list(anns.iter().map(|(t, d)| pair(z(*t as i128), sv(d))).collect()),
            list(udas.iter().map(|(k, v)| pair(sv(k), sv(v))).collect()),
            list(deps.iter().map(|u| n(*u as u64)).collect()),
        ],
    ))
}

pub fn gen_read(seed: u64, id: usize) -> CaseOut {
    let mut rng = Rng::new(seed ^ (id as u64).wrapping_mul(0x8CB92BA72F3D8DD7) ^ 0x18);
    let now = Utc::now().timestamp();
    let keys = key_pool();
    let vals = value_pool(now);
    let mut rep = Replica::new(InMemoryStorage::new());
    let ntasks = rng.range(1, 3);
    let mut maps: Vec<BTreeMap<String, String>> = vec![];
    let mut ops = vec![];
    for u in 0..ntasks {
        ops.push(Operation::Create { uuid: uuid_of(u) });
        let mut m = BTreeMap::new();
        // most tasks are in the working set so that the dependency map sees them
        let st = match rng.below(10) { 0 => None, 1 => Some("completed"), 2 => Some("bogus"), 3 => Some("recurring"), 4 => Some("deleted"), _ => Some("pending") };
        if let Some(s) = st {
            m.insert("status".to_string(), s.to_string());
        }
        let nk = rng.range(2, 9);
        for _ in 0..nk {
            let k = keys[rng.below(keys.len())].clone();
            if k == "status" && rng.chance(70) {
                continue;
            }
            // timestamp-like keys get numeric-looking values more often
            let v = if rng.chance(15) { "".to_string() } else { vals[rng.below(vals.len())].clone() };
            m.insert(k, v);
        }
        for (k, v) in &m {
            ops.push(Operation::Update { uuid: uuid_of(u), property: k.clone(), value: Some(v.clone()), old_value: None, timestamp: Utc::now() });
        }
        maps.push(m);
    }
    block_on(rep.commit_operations(ops)).expect("commit");
    if rng.chance(50) {
        block_on(rep.rebuild_working_set(rng.chance(50))).expect("rebuild");
    }
    let mut problems = vec![];
    let ws: Vec<Option<usize>> = {
        let w = block_on(rep.working_set()).unwrap();
        (0..=w.largest_index()).map(|i| w.by_index(i).map(|u| uuid_index(u, 64).unwrap())).collect()
    };
    // the replica-level readers
    let r = std::panic::catch_unwind(std::panic::AssertUnwindSafe(|| {
        let _ = block_on(rep.all_tasks()).unwrap();
        let _ = block_on(rep.pending_tasks()).unwrap();
        let _ = block_on(rep.pending_task_data()).unwrap();
        let _ = block_on(rep.all_task_uuids()).unwrap();
        block_on(rep.dependency_map(true)).unwrap()
    }));
    let dm = match r {
        Ok(dm) => dm,
        Err(_) => {
            problems.push("a replica-level reader (all_tasks / pending_tasks / dependency_map) panicked".into());
            return CaseOut { coq: Value::Null, script: json!({"family": "task-read", "seed": seed, "id": id, "tasks": maps}),
                             oracle: json!({"ok": false, "problems": problems}), features: json!({}) };
        }
    };
    let mut edges = vec![];
    for u in 0..ntasks {
        for d in dm.dependencies(uuid_of(u)) {
            edges.push(pair(n(u as u64), n(uuid_index(d, 64).unwrap_or(99) as u64)));
        }
    }
    let mut views = vec![];
    let mut boundary = 0;
    for u in 0..ntasks {
        let t = block_on(rep.get_task(uuid_of(u))).unwrap().unwrap();
        // values within 5 s of the clock are not compared (is_waiting reads the clock itself)
        let wait_near = maps[u].get("wait").and_then(|w| w.parse::<i64>().ok()).map(|w| w.checked_sub(now).map(|d| d.unsigned_abs() < 5).unwrap_or(false)).unwrap_or(false);
        match read_task(&t, &mut problems) {
            Some(v) => views.push(pair(n(u as u64), if wait_near { Value::Null } else { some(v) })),
            None => views.push(pair(n(u as u64), Value::Null)),
        }
        for v in maps[u].values() {
            if v.parse::<i64>().map(|z| z.unsigned_abs() > 8_000_000_000_000).unwrap_or(false) {
                boundary += 1;
            }
        }
    }
    // the dependency strings that denote pool uuids, as the model's parse_uuid table
    let mut ptab = vec![];
    for i in [0usize, 1, 2, 9] {
        ptab.push(pair(sv(&uuid_of(i).to_string()), n(i as u64)));
        ptab.push(pair(sv(&uuid_of(i).to_string().to_uppercase()), n(i as u64)));
        ptab.push(pair(sv(&uuid_of(i).simple().to_string()), n(i as u64)));
    }
    let tasks_lit = list(
        maps.iter().enumerate().map(|(u, m)| pair(n(u as u64), list(m.iter().map(|(k, v)| pair(sv(k), sv(v))).collect()))).collect(),
    );
    let coq = ctor(
        "Build_tcase",
        vec![
            z(DateTime::<Utc>::MIN_UTC.timestamp() as i128),
            z(DateTime::<Utc>::MAX_UTC.timestamp() as i128),
            z(now as i128),
            list(ptab),
            tasks_lit,
            list(ws.iter().map(|x| opt(x.map(|u| n(u as u64)))).collect()),
            list(edges),
            list(views),
        ],
    );
    let ok = problems.is_empty();
    CaseOut {
        coq,
        script: json!({"family": "task-read", "seed": seed, "id": id, "tasks": maps}),
        oracle: json!({"ok": ok, "problems": problems}),
        features: json!({"tasks": ntasks, "properties": maps.iter().map(|m| m.len()).sum::<usize>(), "out_of_range_integers": boundary,
                         "dependency_edges": edges_len(&dm, ntasks)}),
    }
}

fn edges_len(dm: &taskchampion::DependencyMap, n: usize) -> usize {
    (0..n).map(|u| dm.dependencies(uuid_of(u)).count()).sum()
}

// ------------------------------------------------------------------------------------------
// C20: expiration

pub fn gen_expire(seed: u64, id: usize) -> CaseOut {
    use crate::chain::{ChainState, Handle};
    use taskchampion::server::Server;
    let mut rng = Rng::new(seed ^ (id as u64).wrapping_mul(0xD1342543DE82EF95) ^ 0x20);
    let now = Utc::now().timestamp();
    let day = 86400i64;
    let tsmax = DateTime::<Utc>::MAX_UTC.timestamp();
    let tsmin = DateTime::<Utc>::MIN_UTC.timestamp();
    let mods: Vec<Option<String>> = vec![
        None,
        Some("".into()),
        Some("abc".into()),
        Some("12x".into()),
        Some((tsmax + 1).to_string()),
        Some((tsmin - 1).to_string()),
        Some("-99999999999999999".into()),
        Some("-9223372036854775808".into()),
        Some("99999999999999999".into()),
        Some((now - 400 * day).to_string()),
        Some("0".into()),
        Some("-86400".into()),
        Some((now + 400 * day).to_string()),
        Some((now - 180 * day - 60).to_string()),
        Some((now - 180 * day + 60).to_string()),
        Some((now - 180 * day - day).to_string()),
        Some((now - 180 * day + day).to_string()),
        Some(now.to_string()),
        Some(format!("+{}", now - 300 * day)),
        Some(format!(" {}", now - 300 * day)),
        Some(tsmin.to_string()),
    ];
    let statuses = [Some("deleted"), Some("deleted"), Some("deleted"), Some("pending"), Some("completed"), Some("recurring"), Some("Deleted"), Some("bogus"), None];
    let ntasks = rng.range(2, 6);
    let mut maps: Vec<BTreeMap<String, String>> = vec![];
    let mut via_pending: Vec<usize> = vec![];
    let mut ops = vec![];
    for u in 0..ntasks {
        ops.push(Operation::Create { uuid: uuid_of(u) });
        let mut m = BTreeMap::new();
        if let Some(s) = statuses[rng.below(statuses.len())] {
            m.insert("status".to_string(), s.to_string());
        }
        if let Some(md) = &mods[rng.below(mods.len())] {
            m.insert("modified".to_string(), md.clone());
        }
        if rng.chance(50) {
            m.insert("description".to_string(), "d".to_string());
        }
        // some of the deleted tasks are pending first (they sit in the working set) and are only
        // deleted after the sync below, with no working-set rebuild before the expiry
        let via = m.get("status").map(|x| x == "deleted").unwrap_or(false) && rng.chance(50);
        for (k, v) in &m {
            let v0 = if via && k == "status" { "pending".to_string() } else { v.clone() };
            ops.push(Operation::Update { uuid: uuid_of(u), property: k.clone(), value: Some(v0), old_value: None, timestamp: Utc::now() });
        }
        if via {
            via_pending.push(u);
        }
        maps.push(m);
    }
    let mut problems: Vec<String> = vec![];
    let chain = ChainState::new(2);
    let mut a = Replica::new(InMemoryStorage::new());
    let mut b_ = Replica::new(InMemoryStorage::new());
    let mut sa: Box<dyn Server> = Box::new(Handle { id: 0, st: chain.clone() });
    let mut sb: Box<dyn Server> = Box::new(Handle { id: 1, st: chain });
    block_on(a.commit_operations(ops)).expect("commit");
    block_on(a.sync(&mut sa, false)).expect("sync a");
    block_on(b_.sync(&mut sb, false)).expect("sync b");
    // B edits some tasks concurrently with the expiry on A
    let mut bops = vec![];
    let mut edited = vec![];
    for u in 0..ntasks {
        if rng.chance(50) {
            bops.push(Operation::Update { uuid: uuid_of(u), property: "description".into(), value: Some("edited elsewhere".into()),
                                          old_value: maps[u].get("description").cloned(), timestamp: Utc::now() });
            edited.push(u);
        }
    }
    if !bops.is_empty() {
        block_on(b_.commit_operations(bops)).expect("commit b");
    }
    if !via_pending.is_empty() {
        let dops: Vec<Operation> = via_pending.iter().map(|u| Operation::Update { uuid: uuid_of(*u), property: "status".into(),
            value: Some("deleted".into()), old_value: Some("pending".into()), timestamp: Utc::now() }).collect();
        block_on(a.commit_operations(dops)).expect("commit deletions");
    }
    block_on(a.expire_tasks()).expect("expire");
    let after: Vec<usize> = {
        let mut v: Vec<usize> = block_on(a.all_task_uuids()).unwrap().iter().map(|u| uuid_index(*u, 64).unwrap()).collect();
        v.sort();
        v
    };
    // the property's own wording, evaluated directly: deleted, readable modification time, more
    // than 180 days ago
    let expect: Vec<usize> = (0..ntasks)
        .filter(|u| {
            let m = &maps[*u];
            let goes = m.get("status").map(|s| s == "deleted").unwrap_or(false)
                && m.get("modified").and_then(|x| x.parse::<i64>().ok())
                    .and_then(|z| if z >= tsmin && z <= tsmax { Some(z) } else { None })
                    .map(|z| z < now - 180 * day)
                    .unwrap_or(false);
            !goes
        })
        .collect();
    let near0 = maps.iter().any(|m| m.get("modified").and_then(|x| x.trim().parse::<i64>().ok()).map(|z| z.checked_sub(now - 180 * day).map(|d| d.unsigned_abs() < 5).unwrap_or(false)).unwrap_or(false));
    if expect != after && !near0 {
        problems.push(format!("expire_tasks kept {:?}; exactly the tasks {:?} should remain (tasks: {:?})", after, expect, maps));
    }
    // content of the survivors is untouched
    for (u, td) in block_on(a.all_task_data()).unwrap() {
        let i = uuid_index(u, 64).unwrap();
        let got: BTreeMap<String, String> = td.iter().map(|(k, v)| (k.clone(), v.clone())).collect();
        if got != maps[i] {
            problems.push(format!("expire_tasks changed the content of a task it kept: {:?} -> {:?}", maps[i], got));
        }
    }
    // the purge synchronises, in either order, and the edit does not bring a task back
    let b_first = rng.chance(50);
    if b_first {
        block_on(b_.sync(&mut sb, false)).expect("sync b");
        block_on(a.sync(&mut sa, false)).expect("sync a");
        block_on(b_.sync(&mut sb, false)).expect("sync b");
    } else {
        block_on(a.sync(&mut sa, false)).expect("sync a");
        block_on(b_.sync(&mut sb, false)).expect("sync b");
        block_on(a.sync(&mut sa, false)).expect("sync a");
    }
    for (name, r) in [("A", &mut a), ("B", &mut b_)] {
        let mut v: Vec<usize> = block_on(r.all_task_uuids()).unwrap().iter().map(|u| uuid_index(*u, 64).unwrap()).collect();
        v.sort();
        if v != after {
            problems.push(format!("after syncing (B first: {b_first}) replica {name} holds tasks {:?}; after the expiry the tasks were {:?} (edited elsewhere: {:?})", v, after, edited));
        }
    }
    let near = maps.iter().any(|m| m.get("modified").and_then(|x| x.trim().parse::<i64>().ok()).map(|z| z.checked_sub(now - 180 * day).map(|d| d.unsigned_abs() < 5).unwrap_or(false)).unwrap_or(false));
    let tasks_lit = list(maps.iter().enumerate().map(|(u, m)| pair(n(u as u64), list(m.iter().map(|(k, v)| pair(sv(k), sv(v))).collect()))).collect());
    let expired = ntasks - after.len();
    let coq = if near { Value::Null } else {
        ctor("Build_ecase", vec![z(tsmin as i128), z(tsmax as i128), z(now as i128), tasks_lit, list(after.iter().map(|u| n(*u as u64)).collect())])
    };
    let ok = problems.is_empty();
    CaseOut {
        coq,
        script: json!({"family": "task-expire", "seed": seed, "id": id, "tasks": maps, "edited_on_other_replica": edited, "other_replica_syncs_first": b_first}),
        oracle: json!({"ok": ok, "problems": problems, "survivors": after}),
        features: json!({"tasks": ntasks, "expired": expired, "concurrent_edits": edited.len(),
                         "deleted_status": maps.iter().filter(|m| m.get("status").map(|s| s == "deleted").unwrap_or(false)).count()}),
    }
}

// ------------------------------------------------------------------------------------------
// C19: mutator sequences

fn ostr(x: Option<&str>) -> Value {
    opt(x.map(sv))
}

pub fn gen_mut(seed: u64, id: usize) -> CaseOut {
    use taskchampion::Annotation;
    let mut rng = Rng::new(seed ^ (id as u64).wrapping_mul(0xBF58476D1CE4E5B9) ^ 0x19);
    let mut rep = Replica::new(InMemoryStorage::new());
    let u = uuid_of(0);
    // a prior stored state
    let init_keys = ["status", "description", "end", "start", "modified", "tag_ok", "project", "annotation_100", "priority"];
    let init_vals = ["pending", "completed", "x", "", "1600000000", "H"];
    let mut init: BTreeMap<String, String> = BTreeMap::new();
    let mut ops0 = vec![Operation::Create { uuid: u }];
    for k in init_keys {
        if rng.chance(35) {
            let v = init_vals[rng.below(init_vals.len())].to_string();
            ops0.push(Operation::Update { uuid: u, property: k.to_string(), value: Some(v.clone()), old_value: None, timestamp: Utc::now() });
            init.insert(k.to_string(), v);
        }
    }
    block_on(rep.commit_operations(ops0)).expect("commit");
    let mut task: Task = block_on(rep.get_task(u)).unwrap().unwrap();
    let t_before = Utc::now().timestamp();
    let mut ops = taskchampion::Operations::new();
    let mut steps = vec![];
    let mut problems = vec![];
    let far = [1_500_000_000i64, 2_000_000_000, 0, -5, 1_234_567_890];
    let nsteps = rng.range(1, 8);
    let mut script = vec![];
    for _ in 0..nsteps {
        let ts = far[rng.below(far.len())];
        let dt = DateTime::<Utc>::from_timestamp(ts, 0).unwrap();
        let (lit, res, desc): (Value, Result<(), taskchampion::Error>, String) = match rng.below(16) {
            0 | 1 => {
                let (st, l) = match rng.below(5) {
                    0 => (Status::Pending, c0("StPending")),
                    1 => (Status::Completed, c0("StCompleted")),
                    2 => (Status::Deleted, c0("StDeleted")),
                    3 => (Status::Recurring, c0("StRecurring")),
                    _ => (Status::Unknown("later".into()), ctor("StUnknown", vec![sv("later")])),
                };
                (ctor("MSetStatus", vec![l]), task.set_status(st.clone(), &mut ops), format!("set_status({st:?})"))
            }
            2 => {
                let d = ["new text", "", "x"][rng.below(3)];
                (ctor("MSetValue", vec![sv("description"), some(sv(d))]), task.set_description(d.to_string(), &mut ops), format!("set_description({d:?})"))
            }
            3 => {
                let props = ["modified", "project", "due", "description", "tag_raw", "end"];
                let p = props[rng.below(props.len())];
                let v = if rng.chance(30) { None } else { Some(["v", "", "1700000000"][rng.below(3)]) };
                (ctor("MSetValue", vec![sv(p), ostr(v)]), task.set_value(p, v.map(|s| s.to_string()), &mut ops), format!("set_value({p:?}, {v:?})"))
            }
            4 => {
                let some_ts = rng.chance(70);
                let which = rng.below(4);
                let name = ["entry", "wait", "due", "modified"][which];
                let arg = if some_ts { Some(dt) } else { None };
                let r = match which {
                    0 => task.set_entry(arg, &mut ops),
                    1 => task.set_wait(arg, &mut ops),
                    2 => task.set_due(arg, &mut ops),
                    _ => task.set_modified(dt, &mut ops),
                };
                let shown = if some_ts || which == 3 { Some(ts.to_string()) } else { None };
                (ctor("MSetValue", vec![sv(name), ostr(shown.as_deref())]), r, format!("set_{name}({shown:?})"))
            }
            5 => (c0("MStart"), task.start(&mut ops), "start".into()),
            6 => (c0("MStop"), task.stop(&mut ops), "stop".into()),
            7 => (ctor("MSetStatus", vec![c0("StCompleted")]), task.done(&mut ops), "done".into()),
            8 | 9 => {
                let names = ["ok", "next", "\u{fc}n\u{ef}", "WAITING", "PENDING", ":colon"];
                let nme = names[rng.below(names.len())];
                let tag: Tag = nme.parse().unwrap();
                if rng.chance(60) {
                    (ctor("MAddTag", vec![sv(nme)]), task.add_tag(&tag, &mut ops), format!("add_tag({nme})"))
                } else {
                    (ctor("MRemoveTag", vec![sv(nme)]), task.remove_tag(&tag, &mut ops), format!("remove_tag({nme})"))
                }
            }
            10 => {
                if rng.chance(60) {
                    (ctor("MAddAnnotation", vec![sv(&ts.to_string()), sv("note \u{1F600}")]),
                     task.add_annotation(Annotation { entry: dt, description: "note \u{1F600}".into() }, &mut ops), format!("add_annotation({ts})"))
                } else {
                    (ctor("MRemoveAnnotation", vec![sv(&ts.to_string())]), task.remove_annotation(dt, &mut ops), format!("remove_annotation({ts})"))
                }
            }
            11 | 12 => {
                let keys = ["githubid", "project", "tag_x", "status", "dep_x", "uda.k", "annotation_1", "Description", "due"];
                let k = keys[rng.below(keys.len())];
                if rng.chance(60) {
                    (ctor("MSetUda", vec![sv(k), sv("val")]), task.set_user_defined_attribute(k, "val", &mut ops), format!("set_user_defined_attribute({k})"))
                } else {
                    (ctor("MRemoveUda", vec![sv(k)]), task.remove_user_defined_attribute(k, &mut ops), format!("remove_user_defined_attribute({k})"))
                }
            }
            13 | 14 => {
                let d = uuid_of(rng.range(1, 3));
                if rng.chance(60) {
                    (ctor("MAddDep", vec![sv(&d.to_string())]), task.add_dependency(d, &mut ops), format!("add_dependency({d})"))
                } else {
                    (ctor("MRemoveDep", vec![sv(&d.to_string())]), task.remove_dependency(d, &mut ops), format!("remove_dependency({d})"))
                }
            }
            _ => {
                let p = ["priority"][0];
                (ctor("MSetValue", vec![sv(p), some(sv("L"))]), task.set_priority("L".into(), &mut ops), "set_priority(L)".into())
            }
        };
        // direct oracle: right after a status is set, closing statuses have an end time and
        // open ones have none
        if res.is_ok() && (desc.starts_with("set_status(") || desc == "done") {
            let has_end = task.get_value("end").is_some();
            let closing = desc == "done" || desc.contains("Completed") || desc.contains("Deleted");
            let opening = desc.contains("Pending") || desc.contains("Recurring");
            if closing && !has_end {
                problems.push(format!("after {desc} the task has no end time"));
            }
            if opening && has_end {
                problems.push(format!("after {desc} the task still has an end time"));
            }
        }
        script.push(json!(desc));
        steps.push(pair(lit, b(res.is_ok())));
    }
    let t_after = Utc::now().timestamp();
    // the wall clock as the code prints it is canonicalised to NOW
    let canon = |s: &str| -> String {
        match s.parse::<i64>() {
            Ok(z) if z >= t_before && z <= t_after => "NOW".to_string(),
            _ => s.to_string(),
        }
    };
    let held: BTreeMap<String, String> = task.clone().into_task_data().iter().map(|(k, v)| (k.clone(), canon(v))).collect();
    // direct oracle: a session that changed the task and did not write `modified` itself has
    // refreshed it
    let explicit_mod = script.iter().any(|d: &Value| d.as_str().map(|x| x.contains("modified")).unwrap_or(false));
    let changed = {
        let mut a = init.clone();
        let mut b2: BTreeMap<String, String> = task.clone().into_task_data().iter().map(|(k, v)| (k.clone(), v.clone())).collect();
        a.remove("modified");
        b2.remove("modified");
        a != b2
    };
    if changed && !explicit_mod && held.get("modified").map(|x| x.as_str()) != Some("NOW") {
        problems.push(format!("the session changed the task (from {:?}) without writing `modified` itself, but `modified` is {:?}", init, held.get("modified")));
    }
    let mut log = vec![];
    for o in ops.iter() {
        match o {
            Operation::Update { uuid, property, old_value, value, .. } => {
                if *uuid != u {
                    problems.push("an operation for another task was recorded".to_string());
                }
                log.push(json!({"p": [{"p": [sv(property), ostr(old_value.as_deref().map(canon).as_deref())]}, ostr(value.as_deref().map(canon).as_deref())]}));
            }
            Operation::UndoPoint => {}
            other => problems.push(format!("unexpected operation recorded: {other:?}")),
        }
    }
    // committing what was recorded must make the stored task equal the held one
    block_on(rep.commit_operations(ops)).expect("commit recorded");
    let stored: BTreeMap<String, String> = block_on(rep.get_task_data(u)).unwrap().map(|td| td.iter().map(|(k, v)| (k.clone(), canon(v))).collect()).unwrap_or_default();
    if stored != held {
        problems.push(format!("after committing the recorded operations the stored task is {:?}, the held task is {:?}", stored, held));
    }
    let coq = ctor(
        "Build_mcase",
        vec![
            sv("NOW"),
            list(init.iter().map(|(k, v)| pair(sv(k), sv(v))).collect()),
            list(steps),
            list(held.iter().map(|(k, v)| pair(sv(k), sv(v))).collect()),
            list(log),
        ],
    );
    let ok = problems.is_empty();
    CaseOut {
        coq,
        script: json!({"family": "task-mut", "seed": seed, "id": id, "initial": init, "calls": script}),
        oracle: json!({"ok": ok, "problems": problems}),
        features: json!({"calls": nsteps, "initial_properties": init.len()}),
    }
}

// ------------------------------------------------------------------------------------------
// C19: the dependency map and the synthetic tags follow commits

pub fn gen_depmap(seed: u64, id: usize) -> CaseOut {
    use taskchampion::TaskData;
    let mut rng = Rng::new(seed ^ (id as u64).wrapping_mul(0x94D049BB133111EB) ^ 0xd9);
    let now = Utc::now().timestamp();
    let mut rep = Replica::new(InMemoryStorage::new());
    let nt = 3;
    let mut ops = taskchampion::Operations::new();
    for u in 0..nt {
        let mut td = TaskData::create(uuid_of(u), &mut ops);
        td.update("status", Some("pending".into()), &mut ops);
        for d in 0..nt {
            if d != u && rng.chance(45) {
                td.update(format!("dep_{}", uuid_of(d)), Some("".into()), &mut ops);
            }
        }
    }
    block_on(rep.commit_operations(ops)).expect("commit");
    let mut script = vec![];
    // load a task: this computes and caches the dependency map
    let _ = block_on(rep.get_task(uuid_of(0))).unwrap();
    let k = rng.range(1, 3);
    for _ in 0..k {
        let u = rng.below(nt);
        let mut ops = taskchampion::Operations::new();
        match rng.below(6) {
            0 => {
                if let Some(mut t) = block_on(rep.get_task(uuid_of(u))).unwrap() {
                    t.done(&mut ops).unwrap();
                    script.push(json!(format!("task {u}: done")));
                }
            }
            1 | 2 => {
                if let Some(mut td) = block_on(rep.get_task_data(uuid_of(u))).unwrap() {
                    td.delete(&mut ops);
                    script.push(json!(format!("task {u}: TaskData::delete")));
                }
            }
            3 => {
                if let Some(mut td) = block_on(rep.get_task_data(uuid_of(u))).unwrap() {
                    td.update("description", Some("edited".into()), &mut ops);
                    script.push(json!(format!("task {u}: description edited")));
                }
            }
            4 => {
                if let Some(mut t) = block_on(rep.get_task(uuid_of(u))).unwrap() {
                    let d = uuid_of((u + 1) % nt);
                    t.add_dependency(d, &mut ops).unwrap();
                    script.push(json!(format!("task {u}: add_dependency({})", (u + 1) % nt)));
                }
            }
            _ => {
                if let Some(mut t) = block_on(rep.get_task(uuid_of(u))).unwrap() {
                    let d = uuid_of((u + 2) % nt);
                    t.remove_dependency(d, &mut ops).unwrap();
                    script.push(json!(format!("task {u}: remove_dependency({})", (u + 2) % nt)));
                }
            }
        }
        if !ops.is_empty() {
            block_on(rep.commit_operations(ops)).expect("commit");
        }
        if rng.chance(30) {
            let _ = block_on(rep.get_task(uuid_of(rng.below(nt))));
        }
    }
    // what the replica now reports without being forced to recompute
    let mut problems = vec![];
    let dm = block_on(rep.dependency_map(false)).unwrap();
    let mut maps: Vec<Option<BTreeMap<String, String>>> = vec![];
    let mut views = vec![];
    let mut edges = vec![];
    for u in 0..nt {
        for d in dm.dependencies(uuid_of(u)) {
            edges.push(pair(n(u as u64), n(uuid_index(d, 64).unwrap_or(99) as u64)));
        }
        match block_on(rep.get_task(uuid_of(u))).unwrap() {
            Some(t) => {
                let m: BTreeMap<String, String> = t.clone().into_task_data().iter().map(|(k, v)| (k.clone(), v.clone())).collect();
                let near = m.values().any(|v| v.parse::<i64>().map(|z| (z - now).abs() < 5).unwrap_or(false));
                let v = read_task(&t, &mut problems);
                // start/end/modified written by the code hold the current time: is_waiting is unaffected
                let _ = near;
                views.push(pair(n(u as u64), opt(v)));
                maps.push(Some(m));
            }
            None => maps.push(None),
        }
    }
    let ws: Vec<Option<usize>> = {
        let w = block_on(rep.working_set()).unwrap();
        (0..=w.largest_index()).map(|i| w.by_index(i).map(|u| uuid_index(u, 64).unwrap())).collect()
    };
    // the property's wording evaluated directly: edges = working-set tasks' parsable dep_ keys
    // whose target is stored with status pending
    let mut want: Vec<(usize, usize)> = vec![];
    for x in ws.iter().skip(1).flatten() {
        if let Some(Some(m)) = maps.get(*x) {
            for k in m.keys() {
                if let Some(d) = k.strip_prefix("dep_").and_then(|d| taskchampion::Uuid::parse_str(d).ok()).and_then(|d| uuid_index(d, 64)) {
                    if maps.get(d).and_then(|m| m.as_ref()).and_then(|m| m.get("status")).map(|s| s == "pending").unwrap_or(false) {
                        want.push((*x, d));
                    }
                }
            }
        }
    }
    let mut got: Vec<(usize, usize)> = vec![];
    for u in 0..nt {
        for d in dm.dependencies(uuid_of(u)) {
            got.push((u, uuid_index(d, 64).unwrap_or(99)));
        }
    }
    want.sort();
    got.sort();
    if want != got {
        problems.push(format!("the dependency map reported after the commits has edges {:?}; the stored tasks imply {:?} (steps: {:?})", got, want, script));
    }
    let mut ptab = vec![];
    for i in 0..nt {
        ptab.push(pair(sv(&uuid_of(i).to_string()), n(i as u64)));
    }
    let tasks_lit = list(
        maps.iter().enumerate().filter_map(|(u, m)| m.as_ref().map(|m| pair(n(u as u64), list(m.iter().map(|(k, v)| pair(sv(k), sv(v))).collect())))).collect(),
    );
    let coq = ctor(
        "Build_tcase",
        vec![
            z(DateTime::<Utc>::MIN_UTC.timestamp() as i128),
            z(DateTime::<Utc>::MAX_UTC.timestamp() as i128),
            z(now as i128 + 10),
            list(ptab),
            tasks_lit,
            list(ws.iter().map(|x| opt(x.map(|u| n(u as u64)))).collect()),
            list(edges.clone()),
            list(views),
        ],
    );
    let ok = problems.is_empty();
    CaseOut {
        coq,
        script: json!({"family": "task-depmap", "seed": seed, "id": id, "steps": script}),
        oracle: json!({"ok": ok, "problems": problems}),
        features: json!({"steps": k, "edges": edges.len(), "purged": maps.iter().filter(|m| m.is_none()).count()}),
    }
}
