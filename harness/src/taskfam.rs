//! C18 / C19 / C20: tasks with arbitrary stored content are read through every public reader
//! under panic capture; mutator sequences are recorded and committed; expiration is swept.
use crate::pools::*;
use crate::synchist::CaseOut;
use crate::util::*;
use serde_json::{json, Value};
use std::collections::BTreeMap;
use taskchampion::chrono::{DateTime, Utc};
use taskchampion::storage::inmemory::InMemoryStorage;
use taskchampion::{Operation, Replica, Status, Tag, Task};

pub fn sv(s: &str) -> Value {
    json!({ "str": s })
}

pub fn key_pool() -> Vec<String> {
    let mut v: Vec<String> = [
        "status", "description", "priority", "entry", "wait", "modified", "due", "start", "end",
        "tag_ok", "tag_", "tag_bad tag", "tag_+x", "tag_WAITING", "tag_NOSUCH", "tag_\u{fc}n\u{ef}", "tag_a:b", "tag_1x",
        "tag_:c", "tag_x\u{3000}y", "tag_PENDING",
        "annotation_123", "annotation_", "annotation_x", "annotation_99999999999999999", "annotation_-5",
        "annotation_+7", "annotation_9223372036854775807", "annotation_8210266876799", "annotation_8210266876800",
        "dep_garbage", "dep_", "uda.x", "project", "githubid", "Status", "tagx", "annotation",
    ]
    .iter()
    .map(|s| s.to_string())
    .collect();
    for i in [0usize, 1, 2, 9] {
        v.push(format!("dep_{}", uuid_of(i)));
    }
    v.push(format!("dep_{}", uuid_of(1).to_string().to_uppercase()));
    v.push(format!("dep_{}", uuid_of(2).simple()));
    // long keys: multi-byte characters at every small offset, valid and invalid
    v.push(format!("tag_+{}", "\u{e9}".repeat(20)));
    v.push("tag_f\u{e4}llig n\u{e4}chste Woche wegen gr\u{f6}\u{df}erer \u{c4}nderung \u{65e5}\u{672c}\u{8a9e}\u{306e}\u{30bf}\u{30b0}".to_string());
    v.push(format!("tag_{}", "\u{1F980}".repeat(12)));
    v.push(format!("tag_x{}:{}", "\u{4e2d}".repeat(11), "y".repeat(30)));
    v.push(format!("tag_{}", "A".repeat(40)));
    v.push(format!("annotation_{}", "9".repeat(40)));
    v.push(format!("annotation_1{}", "\u{ff10}".repeat(15)));
    v.push(format!("dep_{}", "\u{e9}".repeat(30)));
    v
}

pub fn value_pool(now: i64) -> Vec<String> {
    let tsmin = DateTime::<Utc>::MIN_UTC.timestamp();
    let tsmax = DateTime::<Utc>::MAX_UTC.timestamp();
    let mut v: Vec<String> = [
        "", "pending", "completed", "deleted", "recurring", "bogus", "Pending", "0", "+1", "-0", "-1", "1700000000",
        "9223372036854775807", "-9223372036854775808", "9223372036854775808", "-9223372036854775809",
        "99999999999999999", "123456789012345678901234567890", "\u{ff11}\u{ff12}\u{ff13}", "12 ", " 12", "1e3", "0x10",
        "--1", "+", "-", "abc", "1_000", "00012", "+00", "a description \u{1F600}", "H",
    ]
    .iter()
    .map(|s| s.to_string())
    .collect();
    for z in [tsmin, tsmin - 1, tsmin + 1, tsmax, tsmax + 1, tsmax - 1, now - 3600, now + 3600, now - 180 * 86400 - 86400,
              now - 180 * 86400 + 86400, now - 180 * 86400 - 60, now - 180 * 86400 + 60, now + 400 * 86400] {
        v.push(z.to_string());
    }
    v
}

fn status_lit(s: &Status) -> Value {
    match s {
        Status::Pending => c0("StPending"),
        Status::Completed => c0("StCompleted"),
        Status::Deleted => c0("StDeleted"),
        Status::Recurring => c0("StRecurring"),
        Status::Unknown(x) => ctor("StUnknown", vec![sv(x)]),
    }
}

fn ts_lit(t: Option<DateTime<Utc>>) -> Value {
    opt(t.map(|t| z(t.timestamp() as i128)))
}

/// every public reader of one task; a panic in any of them is reported by name
pub fn read_task(t: &Task, problems: &mut Vec<String>) -> Option<Value> {
    macro_rules! guard {
        ($name:expr, $e:expr) => {
            match std::panic::catch_unwind(std::panic::AssertUnwindSafe(|| $e)) {
                Ok(v) => v,
                Err(_) => {
                    problems.push(format!("{} panicked on task {:?}", $name, t.clone().into_task_data()));
                    return None;
                }
            }
        };
    }
    let status = guard!("get_status", t.get_status());
    let desc = guard!("get_description", t.get_description().to_string());
    let prio = guard!("get_priority", t.get_priority().to_string());
    let entry = guard!("get_entry", t.get_entry());
    let wait = guard!("get_wait", t.get_wait());
    let modified = guard!("get_modified", t.get_modified());
    let due = guard!("get_due", t.get_due());
    let waiting = guard!("is_waiting", t.is_waiting());
    let active = guard!("is_active", t.is_active());
    let blocked = guard!("is_blocked", t.is_blocked());
    let blocking = guard!("is_blocking", t.is_blocking());
    let tags: Vec<Tag> = guard!("get_tags", t.get_tags().collect());
    let mut user: Vec<String> = tags.iter().filter(|x| x.is_user()).map(|x| x.to_string()).collect();
    user.sort();
    let mut synth: Vec<String> = tags.iter().filter(|x| x.is_synthetic()).map(|x| x.to_string()).collect();
    synth.sort();
    // has_tag must agree with get_tags
    for tg in &tags {
        let h = guard!("has_tag", t.has_tag(tg));
        if !h && tg.is_user() {
            problems.push(format!("get_tags lists {tg} but has_tag denies it"));
        }
    }
    let mut anns: Vec<(i64, String)> = guard!("get_annotations", t.get_annotations().map(|a| (a.entry.timestamp(), a.description)).collect());
    anns.sort();
    let mut udas: Vec<(String, String)> = guard!("get_user_defined_attributes", t.get_user_defined_attributes().map(|(k, v)| (k.to_string(), v.to_string())).collect());
    udas.sort();
    #[allow(deprecated)]
    let _legacy: Vec<((String, String), String)> = guard!("get_udas", t.get_udas().map(|((a, b), v)| ((a.to_string(), b.to_string()), v.to_string())).collect());
    let mut deps: Vec<usize> = guard!("get_dependencies", t.get_dependencies().map(|u| uuid_index(u, 64).unwrap_or(99)).collect());
    deps.sort();
    let _v = guard!("get_value", t.get_value("status").map(|s| s.to_string()));
    Some(ctor(
        "Build_tview",
        vec![
            status_lit(&status), sv(&desc), sv(&prio), ts_lit(entry), ts_lit(wait), ts_lit(modified), ts_lit(due),
            b(waiting), b(active), b(blocked), b(blocking),
            list(user.iter().map(|s| sv(s)).collect()), list(synth.iter().map(|s| sv(s)).collect()),
            list(anns.iter().map(|(t, d)| pair(z(*t as i128), sv(d))).collect()),
            list(udas.iter().map(|(k, v)| pair(sv(k), sv(v))).collect()),
            list(deps.iter().map(|u| n(*u as u64)).collect()),
        ],
    ))
}

pub fn gen_read(seed: u64, id: usize) -> CaseOut {
    let mut rng = Rng::new(seed ^ (id as u64).wrapping_mul(0x8CB92BA72F3D8DD7) ^ 0x18);
    let now = Utc::now().timestamp();
    let keys = key_pool();
    let vals = value_pool(now);
    let mut rep = Replica::new(InMemoryStorage::new());
    let ntasks = rng.range(1, 3);
    let mut maps: Vec<BTreeMap<String, String>> = vec![];
    let mut ops = vec![];
    for u in 0..ntasks {
        ops.push(Operation::Create { uuid: uuid_of(u) });
        let mut m = BTreeMap::new();
        // most tasks are in the working set so that the dependency map sees them
        let st = match rng.below(10) { 0 => None, 1 => Some("completed"), 2 => Some("bogus"), 3 => Some("recurring"), 4 => Some("deleted"), _ => Some("pending") };
        if let Some(s) = st {
            m.insert("status".to_string(), s.to_string());
        }
        let nk = rng.range(2, 9);
        for _ in 0..nk {
            let k = keys[rng.below(keys.len())].clone();
            if k == "status" && rng.chance(70) {
                continue;
            }
            // timestamp-like keys get numeric-looking values more often
            let v = if rng.chance(15) { "".to_string() } else { vals[rng.below(vals.len())].clone() };
            m.insert(k, v);
        }
        for (k, v) in &m {
            ops.push(Operation::Update { uuid: uuid_of(u), property: k.clone(), value: Some(v.clone()), old_value: None, timestamp: Utc::now() });
        }
        maps.push(m);
    }
    block_on(rep.commit_operations(ops)).expect("commit");
    if rng.chance(50) {
        block_on(rep.rebuild_working_set(rng.chance(50))).expect("rebuild");
    }
    let mut problems = vec![];
    let ws: Vec<Option<usize>> = {
        let w = block_on(rep.working_set()).unwrap();
        (0..=w.largest_index()).map(|i| w.by_index(i).map(|u| uuid_index(u, 64).unwrap())).collect()
    };
    // the replica-level readers
    let r = std::panic::catch_unwind(std::panic::AssertUnwindSafe(|| {
        let _ = block_on(rep.all_tasks()).unwrap();
        let _ = block_on(rep.pending_tasks()).unwrap();
        let _ = block_on(rep.pending_task_data()).unwrap();
        let _ = block_on(rep.all_task_uuids()).unwrap();
        block_on(rep.dependency_map(true)).unwrap()
    }));
    let dm = match r {
        Ok(dm) => dm,
        Err(_) => {
            problems.push("a replica-level reader (all_tasks / pending_tasks / dependency_map) panicked".into());
            return CaseOut { coq: Value::Null, script: json!({"family": "task-read", "seed": seed, "id": id, "tasks": maps}),
                             oracle: json!({"ok": false, "problems": problems}), features: json!({}) };
        }
    };
    let mut edges = vec![];
    for u in 0..ntasks {
        for d in dm.dependencies(uuid_of(u)) {
            edges.push(pair(n(u as u64), n(uuid_index(d, 64).unwrap_or(99) as u64)));
        }
    }
    let mut views = vec![];
    let mut boundary = 0;
    for u in 0..ntasks {
        let t = block_on(rep.get_task(uuid_of(u))).unwrap().unwrap();
        // values within 5 s of the clock are not compared (is_waiting reads the clock itself)
        let wait_near = maps[u].get("wait").and_then(|w| w.parse::<i64>().ok()).map(|w| w.checked_sub(now).map(|d| d.unsigned_abs() < 5).unwrap_or(false)).unwrap_or(false);
        match read_task(&t, &mut problems) {
            Some(v) => views.push(pair(n(u as u64), if wait_near { Value::Null } else { some(v) })),
            None => views.push(pair(n(u as u64), Value::Null)),
        }
        for v in maps[u].values() {
            if v.parse::<i64>().map(|z| z.unsigned_abs() > 8_000_000_000_000).unwrap_or(false) {
                boundary += 1;
            }
        }
    }
    // the dependency strings that denote pool uuids, as the model's parse_uuid table
    let mut ptab = vec![];
    for i in [0usize, 1, 2, 9] {
        ptab.push(pair(sv(&uuid_of(i).to_string()), n(i as u64)));
        ptab.push(pair(sv(&uuid_of(i).to_string().to_uppercase()), n(i as u64)));
        ptab.push(pair(sv(&uuid_of(i).simple().to_string()), n(i as u64)));
    }
    let tasks_lit = list(
        maps.iter().enumerate().map(|(u, m)| pair(n(u as u64), list(m.iter().map(|(k, v)| pair(sv(k), sv(v))).collect()))).collect(),
    );
    let coq = ctor(
        "Build_tcase",
        vec![
            z(DateTime::<Utc>::MIN_UTC.timestamp() as i128),
            z(DateTime::<Utc>::MAX_UTC.timestamp() as i128),
            z(now as i128),
            list(ptab),
            tasks_lit,
            list(ws.iter().map(|x| opt(x.map(|u| n(u as u64)))).collect()),
            list(edges),
            list(views),
        ],
    );
    let ok = problems.is_empty();
    CaseOut {
        coq,
        script: json!({"family": "task-read", "seed": seed, "id": id, "tasks": maps}),
        oracle: json!({"ok": ok, "problems": problems}),
        features: json!({"tasks": ntasks, "properties": maps.iter().map(|m| m.len()).sum::<usize>(), "out_of_range_integers": boundary,
                         "dependency_edges": edges_len(&dm, ntasks)}),
    }
}

fn edges_len(dm: &taskchampion::DependencyMap, n: usize) -> usize {
    (0..n).map(|u| dm.dependencies(uuid_of(u)).count()).sum()
}
