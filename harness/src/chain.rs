//! The harness-side abstract chain server (public `Server` trait), shared by several handles,
//! with an optional gate before every request so that a driver can interleave, fail or lose
//! individual requests deterministically.
use async_trait::async_trait;
use std::cell::RefCell;
use std::collections::HashMap;
use std::future::Future;
use std::pin::Pin;
use std::rc::Rc;
use std::task::{Context, Poll};
use taskchampion::server::{
    AddVersionResult, GetVersionResult, HistorySegment, Server, Snapshot, SnapshotUrgency,
    VersionId, NIL_VERSION_ID,
};
use taskchampion::Uuid;

#[derive(Clone, Debug, PartialEq)]
pub enum Cmd {
    Proceed(SnapshotUrgency),
    /// fail before the server does anything
    FailBefore,
    /// perform the request, then report an error to the caller
    FailAfter(SnapshotUrgency),
}

#[derive(Clone, Debug)]
pub enum GateState {
    Idle,
    Waiting,
    Released(Cmd),
}

#[derive(Clone, Debug, PartialEq)]
pub enum Req {
    GetSnapshot,
    GetChild(VersionId),
    AddVersion(VersionId, Vec<u8>),
    AddSnapshot(VersionId, Vec<u8>),
}

pub struct ChainState {
    /// (version id, parent, segment) in order of acceptance
    pub versions: Vec<(VersionId, VersionId, Vec<u8>)>,
    pub snapshot: Option<(VersionId, Vec<u8>)>,
    pub gates: Vec<GateState>,
    pub gated: bool,
    /// requests performed, in order: (handle, request)
    pub log: Vec<(usize, Req)>,
    /// last request a handle announced at its gate
    pub pending_req: Vec<Option<Req>>,
    /// urgency for ungated use
    pub default_urgency: SnapshotUrgency,
    pub next_id: u128,
}

impl ChainState {
    pub fn new(handles: usize) -> Rc<RefCell<ChainState>> {
        Rc::new(RefCell::new(ChainState {
            versions: vec![],
            snapshot: None,
            gates: vec![GateState::Idle; handles],
            gated: false,
            log: vec![],
            pending_req: vec![None; handles],
            default_urgency: SnapshotUrgency::None,
            next_id: 0,
        }))
    }
    pub fn head(&self) -> VersionId {
        self.versions.last().map(|v| v.0).unwrap_or(NIL_VERSION_ID)
    }
    /// canonical number of a version id: k-th accepted version is k, nil is 0
    pub fn vnum(&self, v: VersionId) -> Option<usize> {
        if v == NIL_VERSION_ID {
            return Some(0);
        }
        self.versions.iter().position(|x| x.0 == v).map(|i| i + 1)
    }
    pub fn index_of_version(&self, v: VersionId) -> HashMap<VersionId, usize> {
        let _ = v;
        self.versions.iter().enumerate().map(|(i, x)| (x.0, i + 1)).collect()
    }
    fn fresh_id(&mut self) -> VersionId {
        // pseudo-random looking but deterministic ids, never nil
        self.next_id += 1;
        let x = (self.next_id)
            .wrapping_mul(0x9E3779B97F4A7C15F39CC0605CEDC835)
            .rotate_left(17)
            | 1;
        Uuid::from_u128(x)
    }
}

pub struct Handle {
    pub id: usize,
    pub st: Rc<RefCell<ChainState>>,
}

struct GateFut {
    id: usize,
    st: Rc<RefCell<ChainState>>,
}
impl Future for GateFut {
    type Output = Cmd;
    fn poll(self: Pin<&mut Self>, _cx: &mut Context<'_>) -> Poll<Cmd> {
        let mut st = self.st.borrow_mut();
        let g = st.gates[self.id].clone();
        match g {
            GateState::Released(c) => {
                st.gates[self.id] = GateState::Idle;
                Poll::Ready(c)
            }
            _ => Poll::Pending,
        }
    }
}

impl Handle {
    async fn gate(&self, req: Req) -> Cmd {
        let gated = self.st.borrow().gated;
        if !gated {
            let u = self.st.borrow().default_urgency;
            return Cmd::Proceed(u);
        }
        {
            let mut st = self.st.borrow_mut();
            st.pending_req[self.id] = Some(req);
            st.gates[self.id] = GateState::Waiting;
        }
        GateFut { id: self.id, st: self.st.clone() }.await
    }
}

fn injected() -> taskchampion::Error {
    taskchampion::Error::Server("injected fault".to_string())
}

#[async_trait(?Send)]
impl Server for Handle {
    async fn add_version(
        &mut self,
        parent: VersionId,
        seg: HistorySegment,
    ) -> Result<(AddVersionResult, SnapshotUrgency), taskchampion::Error> {
        let req = Req::AddVersion(parent, seg.clone());
        let cmd = self.gate(req.clone()).await;
        let urg = match cmd {
            Cmd::FailBefore => return Err(injected()),
            Cmd::Proceed(u) | Cmd::FailAfter(u) => u,
        };
        let res = {
            let mut st = self.st.borrow_mut();
            st.log.push((self.id, req));
            let head = st.head();
            if st.versions.is_empty() || parent == head {
                let id = st.fresh_id();
                st.versions.push((id, parent, seg));
                AddVersionResult::Ok(id)
            } else {
                AddVersionResult::ExpectedParentVersion(head)
            }
        };
        if let Cmd::FailAfter(_) = cmd {
            return Err(injected());
        }
        Ok((res, urg))
    }

    async fn get_child_version(
        &mut self,
        parent: VersionId,
    ) -> Result<GetVersionResult, taskchampion::Error> {
        let req = Req::GetChild(parent);
        let cmd = self.gate(req.clone()).await;
        if cmd == Cmd::FailBefore {
            return Err(injected());
        }
        let res = {
            let mut st = self.st.borrow_mut();
            st.log.push((self.id, req));
            match st.versions.iter().find(|v| v.1 == parent) {
                Some(v) => GetVersionResult::Version {
                    version_id: v.0,
                    parent_version_id: v.1,
                    history_segment: v.2.clone(),
                },
                None => GetVersionResult::NoSuchVersion,
            }
        };
        if let Cmd::FailAfter(_) = cmd {
            return Err(injected());
        }
        Ok(res)
    }

    async fn add_snapshot(
        &mut self,
        version: VersionId,
        snap: Snapshot,
    ) -> Result<(), taskchampion::Error> {
        let req = Req::AddSnapshot(version, snap.clone());
        let cmd = self.gate(req.clone()).await;
        if cmd == Cmd::FailBefore {
            return Err(injected());
        }
        {
            let mut st = self.st.borrow_mut();
            st.log.push((self.id, req));
            let newer = match (&st.snapshot, st.vnum(version)) {
                (Some((v0, _)), Some(k)) => st.vnum(*v0).map(|k0| k > k0).unwrap_or(true),
                (None, _) => true,
                (Some(_), None) => false,
            };
            if newer {
                st.snapshot = Some((version, snap));
            }
        }
        if let Cmd::FailAfter(_) = cmd {
            return Err(injected());
        }
        Ok(())
    }

    async fn get_snapshot(
        &mut self,
    ) -> Result<Option<(VersionId, Snapshot)>, taskchampion::Error> {
        let req = Req::GetSnapshot;
        let cmd = self.gate(req.clone()).await;
        if cmd == Cmd::FailBefore {
            return Err(injected());
        }
        let res = {
            let mut st = self.st.borrow_mut();
            st.log.push((self.id, req));
            st.snapshot.clone()
        };
        if let Cmd::FailAfter(_) = cmd {
            return Err(injected());
        }
        Ok(res)
    }
}
