//! Histories of commits and syncs over several replicas against the harness chain server:
//! sequential (C01), interleaved at request granularity (C02), with faults (C04), with
//! snapshots (C12), and the plaintext of what is sent (C14).
use crate::chain::{ChainState, Cmd, GateState, Handle, Req};
use crate::pools::*;
use crate::util::*;
use serde_json::{json, Value};
use std::cell::RefCell;
use std::collections::{BTreeMap, HashMap};
use std::io::Read;
use std::rc::Rc;
use std::task::Poll;
use taskchampion::server::{Server, SnapshotUrgency};
use taskchampion::storage::inmemory::InMemoryStorage;
use taskchampion::{Operation, Replica};

pub const NUUID: usize = 4;

#[derive(Clone, Debug, PartialEq)]
pub enum SOp {
    Create(usize),
    Delete(usize),
    Update(usize, usize, Option<usize>, i64),
    Undo,
}

#[derive(Clone, Debug)]
pub enum Action {
    Commit(usize, Vec<SOp>),
    Sync(usize, bool, u8),
    Start(usize, bool),
    Step(usize, u8),
    Abandon(usize, u8),
    Lost(usize, u8),
    /// another implementation writes a version on top of the latest one, in a given style
    Foreign(Vec<SOp>, u8),
}

pub fn urg(u: u8) -> SnapshotUrgency {
    match u {
        0 => SnapshotUrgency::None,
        1 => SnapshotUrgency::Low,
        _ => SnapshotUrgency::High,
    }
}
fn urg_v(u: u8) -> Value {
    c0(match u {
        0 => "UNone",
        1 => "ULow",
        _ => "UHigh",
    })
}

pub type Tasks = BTreeMap<usize, BTreeMap<usize, usize>>;

pub fn default_pools() -> Pools {
    let big1 = format!("m{}", "x".repeat(420_000));
    let big2 = format!("n{}", "y".repeat(650_000));
    let big3 = format!("o{}", "z".repeat(1_100_000));
    Pools::new(
        &["a", "b", "status"],
        vec![
            "".into(),
            "x".into(),
            "y".into(),
            "pending".into(),
            "Zebra \u{1F600} \"q\"".into(),
            "\u{1}ctl\n\\tab\t \u{10FFFF}\u{e9}\u{4e2d}".into(),
            // long non-ASCII values: multi-byte characters at every alignment of a large document
            format!("q{}", "a\u{e9}\u{4e2d}\u{1F600}".repeat(700)),
            format!("r{}", "\u{43f}\u{440}\u{438}\u{432}\u{435}\u{442} \u{725b}\u{4e73}\u{3001}\u{5375}".repeat(450)),
            big1,
            big2,
            big3,
        ],
    )
}
pub const SMALL_VALUES: usize = 5; // values[0..5] are small after sorting? see small_value_ids

pub struct World {
    pub n: usize,
    pub pools: Pools,
    pub chain: Rc<RefCell<ChainState>>,
    reps: Vec<*mut Replica<InMemoryStorage>>,
    servers: Vec<*mut Box<dyn Server>>,
    futs: Vec<Option<LocalFut<'static, Result<(), taskchampion::Error>>>>,
    /// sizes of the sync form of every committed operation
    pub sizes: Vec<(Value, usize)>,
}

impl Drop for World {
    fn drop(&mut self) {
        for f in self.futs.iter_mut() {
            *f = None;
        }
        for p in self.reps.drain(..) {
            unsafe { drop(Box::from_raw(p)) };
        }
        for p in self.servers.drain(..) {
            unsafe { drop(Box::from_raw(p)) };
        }
    }
}

pub fn sop_value(o: &SOp) -> Option<Value> {
    match o {
        SOp::Create(u) => Some(ctor("SCreate", vec![n(*u as u64)])),
        SOp::Delete(u) => Some(ctor("SDelete", vec![n(*u as u64)])),
        SOp::Update(u, p, v, t) => Some(ctor(
            "SUpdate",
            vec![n(*u as u64), n(*p as u64), opt(v.map(|x| n(x as u64))), z(*t as i128)],
        )),
        SOp::Undo => None,
    }
}

pub fn op_value(o: &SOp, old: Option<Option<usize>>, old_task: Option<&BTreeMap<usize, usize>>) -> Value {
    match o {
        SOp::Create(u) => ctor("OCreate", vec![n(*u as u64)]),
        SOp::Delete(u) => ctor(
            "ODelete",
            vec![n(*u as u64), json!({"gm": task_lit(old_task.unwrap_or(&BTreeMap::new()))})],
        ),
        SOp::Update(u, p, v, t) => ctor(
            "OUpdate",
            vec![
                n(*u as u64),
                n(*p as u64),
                opt(old.flatten().map(|x| n(x as u64))),
                opt(v.map(|x| n(x as u64))),
                z(*t as i128),
            ],
        ),
        SOp::Undo => c0("OUndoPoint"),
    }
}

pub fn task_lit(t: &BTreeMap<usize, usize>) -> Value {
    list(t.iter().map(|(p, v)| pair(n(*p as u64), n(*v as u64))).collect())
}
pub fn tasks_lit(t: &Tasks) -> Value {
    list(t.iter().map(|(u, tk)| pair(n(*u as u64), task_lit(tk))).collect())
}

impl World {
    pub fn new(nrep: usize) -> World {
        let chain = ChainState::new(nrep);
        let mut reps = vec![];
        let mut servers = vec![];
        let mut futs = vec![];
        for i in 0..nrep {
            reps.push(Box::into_raw(Box::new(Replica::new(InMemoryStorage::new()))));
            let h: Box<dyn Server> = Box::new(Handle { id: i, st: chain.clone() });
            servers.push(Box::into_raw(Box::new(h)));
            futs.push(None);
        }
        World { n: nrep, pools: default_pools(), chain, reps, servers, futs, sizes: vec![] }
    }

    fn rep(&mut self, i: usize) -> &'static mut Replica<InMemoryStorage> {
        assert!(self.futs[i].is_none());
        unsafe { &mut *self.reps[i] }
    }

    pub fn in_flight(&self, i: usize) -> bool {
        self.futs[i].is_some()
    }

    pub fn tasks(&mut self, i: usize) -> Tasks {
        let pools_p: Vec<String> = self.pools.props.clone();
        let r = self.rep(i);
        let all = block_on(r.all_task_data()).expect("all_task_data");
        let mut out = Tasks::new();
        for (u, td) in all {
            let ui = uuid_index(u, 64).expect("unknown uuid");
            let mut tk = BTreeMap::new();
            for (p, v) in td.iter() {
                let pi = pools_p.iter().position(|x| x == p).expect("unknown prop");
                let vi = self.pools.value_index(v).expect("unknown value");
                tk.insert(pi, vi);
            }
            out.insert(ui, tk);
        }
        out
    }

    pub fn num_local(&mut self, i: usize) -> usize {
        let r = self.rep(i);
        block_on(r.num_local_operations()).unwrap()
    }

    pub fn to_operation(&self, o: &SOp, cur: &Tasks) -> Operation {
        match o {
            SOp::Create(u) => Operation::Create { uuid: uuid_of(*u) },
            SOp::Delete(u) => {
                let mut old = HashMap::new();
                if let Some(tk) = cur.get(u) {
                    for (p, v) in tk {
                        old.insert(self.pools.props[*p].clone(), self.pools.values[*v].clone());
                    }
                }
                Operation::Delete { uuid: uuid_of(*u), old_task: old }
            }
            SOp::Update(u, p, v, t) => Operation::Update {
                uuid: uuid_of(*u),
                property: self.pools.props[*p].clone(),
                old_value: cur
                    .get(u)
                    .and_then(|tk| tk.get(p))
                    .map(|v| self.pools.values[*v].clone()),
                value: v.map(|v| self.pools.values[v].clone()),
                timestamp: ts_of(*t),
            },
            SOp::Undo => Operation::UndoPoint,
        }
    }

    /// commit raw operations; returns the Coq literals of the local operations
    pub fn commit(&mut self, i: usize, ops: &[SOp]) -> Vec<Value> {
        let mut cur = self.tasks(i);
        let mut operations = vec![];
        let mut lits = vec![];
        for o in ops {
            let operation = self.to_operation(o, &cur);
            // measure the JSON size of the sync form, the quantity batching looks at
            if let Some(sv) = sop_value(o) {
                let sz = sync_json_len(&operation);
                self.sizes.push((sv, sz));
            }
            let (old, old_task) = match o {
                SOp::Update(u, p, _, _) => (Some(cur.get(u).and_then(|tk| tk.get(p)).copied()), None),
                SOp::Delete(u) => (None, cur.get(u).cloned()),
                _ => (None, None),
            };
            lits.push(op_value(o, old, old_task.as_ref()));
            apply_shadow(&mut cur, o);
            operations.push(operation);
        }
        let r = self.rep(i);
        block_on(r.commit_operations(operations)).expect("commit_operations");
        lits
    }

    pub fn start(&mut self, i: usize, avoid: bool) -> bool {
        assert!(self.futs[i].is_none());
        self.chain.borrow_mut().gated = true;
        let r: &'static mut Replica<InMemoryStorage> = unsafe { &mut *self.reps[i] };
        let s: &'static mut Box<dyn Server> = unsafe { &mut *self.servers[i] };
        let fut: LocalFut<'static, Result<(), taskchampion::Error>> =
            Box::pin(async move { r.sync(s, avoid).await });
        self.futs[i] = Some(fut);
        self.run_to_gate(i).is_none()
    }

    /// poll thread i until it waits at its next gate (None) or finishes (Some(result))
    fn run_to_gate(&mut self, i: usize) -> Option<Result<(), taskchampion::Error>> {
        loop {
            let p = poll_once(self.futs[i].as_mut().unwrap());
            match p {
                Poll::Ready(r) => {
                    self.futs[i] = None;
                    return Some(r);
                }
                Poll::Pending => {
                    let waiting = matches!(self.chain.borrow().gates[i], GateState::Waiting);
                    if waiting {
                        return None;
                    }
                    std::thread::yield_now();
                }
            }
        }
    }

    pub fn pending_req(&self, i: usize) -> Option<Req> {
        self.chain.borrow().pending_req[i].clone()
    }

    pub fn step(&mut self, i: usize, cmd: Cmd) -> Option<Result<(), taskchampion::Error>> {
        assert!(self.futs[i].is_some());
        self.chain.borrow_mut().gates[i] = GateState::Released(cmd);
        self.run_to_gate(i)
    }

    pub fn abandon(&mut self, i: usize) {
        self.futs[i] = None;
        self.chain.borrow_mut().gates[i] = GateState::Idle;
    }

    pub fn req_lit(&self, r: &Req) -> Value {
        let st = self.chain.borrow();
        match r {
            Req::GetSnapshot => c0("LGetSnapshot"),
            Req::GetChild(v) => ctor("LGetChild", vec![nat(st.vnum(*v).unwrap_or(9999))]),
            Req::AddVersion(v, seg) => {
                STRICT_WIRE.with(|c| c.set(true));
                let ops = self.parse_version(seg);
                STRICT_WIRE.with(|c| c.set(false));
                ctor("LAddVersion", vec![nat(st.vnum(*v).unwrap_or(9999)), list(ops)])
            }
            Req::AddSnapshot(v, snap) => ctor(
                "LAddSnapshot",
                vec![nat(st.vnum(*v).unwrap_or(9999)), tasks_lit(&self.decode_snapshot(snap))],
            ),
        }
    }

    /// independent reading of a version document: {"operations":[...]} of documented ops
    pub fn parse_version(&self, seg: &[u8]) -> Vec<Value> {
        parse_version_ops(&self.pools, seg).iter().map(|o| sop_value(o).unwrap()).collect()
    }

    pub fn decode_snapshot(&self, snap: &[u8]) -> Tasks {
        let mut d = flate2::read::ZlibDecoder::new(snap);
        let mut s = String::new();
        d.read_to_string(&mut s).expect("inflate snapshot");
        let v: Value = serde_json::from_str(&s).expect("snapshot json");
        let mut out = Tasks::new();
        for (u, tk) in v.as_object().expect("snapshot is an object") {
            let ui = uuid_index(taskchampion::Uuid::parse_str(u).unwrap(), 64).unwrap();
            let mut m = BTreeMap::new();
            for (p, val) in tk.as_object().unwrap() {
                m.insert(
                    self.pools.prop_index(p).unwrap(),
                    self.pools.value_index(val.as_str().unwrap()).unwrap(),
                );
            }
            out.insert(ui, m);
        }
        out
    }

    pub fn chain_lit(&self) -> Value {
        let st = self.chain.borrow();
        list(st.versions.iter().map(|v| list(self.parse_version(&v.2))).collect())
    }

    /// independent replay of the chain up to and including a version; None if it is not on the chain
    pub fn replay_upto(&self, version: taskchampion::server::VersionId) -> Option<Tasks> {
        let st = self.chain.borrow();
        let mut t = Tasks::new();
        for v in st.versions.iter() {
            for o in parse_version_ops(&self.pools, &v.2) {
                apply_shadow(&mut t, &o);
            }
            if v.0 == version {
                return Some(t);
            }
        }
        None
    }

    /// independent replay of the chain from the empty task set
    pub fn replay_chain(&self) -> Tasks {
        let st = self.chain.borrow();
        let mut t = Tasks::new();
        for v in st.versions.iter() {
            for o in parse_version_ops(&self.pools, &v.2) {
                apply_shadow(&mut t, &o);
            }
        }
        t
    }
}

pub fn apply_shadow(t: &mut Tasks, o: &SOp) {
    match o {
        SOp::Create(u) => {
            t.entry(*u).or_default();
        }
        SOp::Delete(u) => {
            t.remove(u);
        }
        SOp::Update(u, p, v, _) => {
            if let Some(tk) = t.get_mut(u) {
                match v {
                    Some(v) => {
                        tk.insert(*p, *v);
                    }
                    None => {
                        tk.remove(p);
                    }
                }
            }
        }
        SOp::Undo => {}
    }
}

pub fn valid_shadow(t: &Tasks, o: &SOp) -> bool {
    match o {
        SOp::Create(u) => !t.contains_key(u),
        SOp::Delete(u) | SOp::Update(u, _, _, _) => t.contains_key(u),
        SOp::Undo => true,
    }
}

/// what `serde_json::to_string(&SyncOp)` yields for the sync form of this operation, measured
/// through the documented format (checked against what is really sent by the C14 family)
pub fn sync_json_len(o: &Operation) -> usize {
    match o {
        Operation::Create { uuid } => format!("{{\"Create\":{{\"uuid\":\"{}\"}}}}", uuid).len(),
        Operation::Delete { uuid, .. } => format!("{{\"Delete\":{{\"uuid\":\"{}\"}}}}", uuid).len(),
        Operation::Update { uuid, property, value, timestamp, .. } => {
            let v = json!({"Update": {"uuid": uuid.to_string(), "property": property,
                "value": value, "timestamp": timestamp}});
            serde_json::to_string(&v).unwrap().len()
        }
        Operation::UndoPoint => 0,
    }
}

thread_local! {
    /// when set, versions being parsed must have exactly the documented shape (what replicas send)
    pub static STRICT_WIRE: std::cell::Cell<bool> = std::cell::Cell::new(false);
    /// deviations from the documented format found while parsing what replicas sent
    pub static WIRE_PROBLEMS: std::cell::RefCell<Vec<String>> = std::cell::RefCell::new(vec![]);
}
fn wire_problem(s: String) {
    WIRE_PROBLEMS.with(|w| w.borrow_mut().push(s));
}

pub fn is_rfc3339_utc(s: &str) -> bool {
    // YYYY-MM-DDTHH:MM:SS[.fraction]Z
    let b = s.as_bytes();
    if b.len() < 20 || *b.last().unwrap() != b'Z' {
        return false;
    }
    let digits = |r: std::ops::Range<usize>| b[r].iter().all(|c| c.is_ascii_digit());
    if !(digits(0..4) && b[4] == b'-' && digits(5..7) && b[7] == b'-' && digits(8..10) && b[10] == b'T'
        && digits(11..13) && b[13] == b':' && digits(14..16) && b[16] == b':' && digits(17..19))
    {
        return false;
    }
    let rest = &b[19..b.len() - 1];
    rest.is_empty() || (rest[0] == b'.' && rest.len() > 1 && rest[1..].iter().all(|c| c.is_ascii_digit()))
}

fn json_escape(s: &str, style: u8) -> String {
    let mut out = String::from("\"");
    for c in s.chars() {
        match c {
            '"' => out.push_str("\\\""),
            '\\' => out.push_str("\\\\"),
            '\n' => out.push_str("\\n"),
            c if (c as u32) < 0x20 => out.push_str(&format!("\\u{:04x}", c as u32)),
            c if style % 2 == 1 && !c.is_ascii() => {
                let mut buf = [0u16; 2];
                for u in c.encode_utf16(&mut buf) {
                    out.push_str(&format!("\\u{:04x}", u));
                }
            }
            c => out.push(c),
        }
    }
    out.push('"');
    out
}

/// a version document as another implementation of docs/sync-protocol.md might write it:
/// other field orders, other timestamp precisions, escapes, whitespace
pub fn foreign_version_text(pools: &Pools, ops: &[SOp], style: u8) -> String {
    let mut parts = vec![];
    for (k, o) in ops.iter().enumerate() {
        let st = style as usize + k;
        parts.push(match o {
            SOp::Create(u) => format!("{{\"Create\": {{\"uuid\":\"{}\"}}}}", uuid_of(*u)),
            SOp::Delete(u) => format!("{{\"Delete\":{{ \"uuid\" : \"{}\" }}}}", uuid_of(*u).to_string().to_uppercase()),
            SOp::Update(u, p, v, t) => {
                let secs = t.div_euclid(1_000_000_000);
                let nanos = t.rem_euclid(1_000_000_000);
                let dt = ts_of(secs * 1_000_000_000);
                let base = dt.format("%Y-%m-%dT%H:%M:%S").to_string();
                // the shortest exact fraction, or padded to 9 digits
                let frac = if nanos == 0 {
                    if st % 3 == 0 { "".to_string() } else { ".000".to_string() }
                } else if st % 2 == 0 {
                    format!(".{:09}", nanos)
                } else {
                    format!(".{}", format!("{:09}", nanos).trim_end_matches('0'))
                };
                let zone = if st % 4 == 3 { "+00:00" } else { "Z" };
                let ts = format!("\"{}{}{}\"", base, frac, zone);
                let fields = vec![
                    format!("\"uuid\":\"{}\"", uuid_of(*u)),
                    format!("\"property\":{}", json_escape(&pools.props[*p], style)),
                    format!("\"value\":{}", match v { Some(v) => json_escape(&pools.values[*v], style), None => "null".to_string() }),
                    format!("\"timestamp\":{}", ts),
                ];
                let order: [usize; 4] = match st % 4 { 0 => [3, 2, 1, 0], 1 => [1, 0, 3, 2], 2 => [2, 3, 0, 1], _ => [0, 1, 2, 3] };
                let body: Vec<String> = order.iter().map(|i| fields[*i].clone()).collect();
                format!("{{\"Update\":{{{}}}}}", body.join(", "))
            }
            SOp::Undo => unreachable!(),
        });
    }
    format!("{{ \"operations\" : [{}] }}", parts.join(",\n "))
}

pub fn parse_version_ops(pools: &Pools, seg: &[u8]) -> Vec<SOp> {
    let s = match std::str::from_utf8(seg) {
        Ok(s) => s,
        Err(_) => {
            wire_problem("a version is not UTF-8".into());
            return vec![];
        }
    };
    let v: Value = match serde_json::from_str(s) {
        Ok(v) => v,
        Err(e) => {
            let tail: String = s.chars().rev().take(40).collect::<Vec<_>>().into_iter().rev().collect();
            wire_problem(format!("a version is not a JSON document: {e} (it ends with {tail:?})"));
            return vec![];
        }
    };
    if STRICT_WIRE.with(|c| c.get()) {
        let top: Vec<&String> = v.as_object().expect("version object").keys().collect();
        if top != vec!["operations"] {
            wire_problem(format!("a sent version has top-level fields {top:?}"));
        }
    }
    let ops = v.get("operations").expect("operations key").as_array().expect("array");
    let mut out = vec![];
    for o in ops {
        let obj = o.as_object().expect("op object");
        assert_eq!(obj.len(), 1);
        let (k, body) = obj.iter().next().unwrap();
        if STRICT_WIRE.with(|c| c.get()) {
            // exactly the documented fields, nothing else
            let mut keys: Vec<&str> = body.as_object().expect("op body").keys().map(|s| s.as_str()).collect();
            keys.sort();
            let want: Vec<&str> = if k == "Update" { vec!["property", "timestamp", "uuid", "value"] } else { vec!["uuid"] };
            if keys != want {
                wire_problem(format!("a sent {k} operation has fields {keys:?}, documented: {want:?}"));
            }
            if k == "Update" {
                let ts = body["timestamp"].as_str().unwrap_or("");
                if !is_rfc3339_utc(ts) {
                    wire_problem(format!("sent timestamp {ts:?} is not RFC 3339 UTC"));
                }
            }
        }
        let uuid = taskchampion::Uuid::parse_str(body["uuid"].as_str().unwrap()).unwrap();
        let u = uuid_index(uuid, 64).expect("uuid pool");
        out.push(match k.as_str() {
            "Create" => SOp::Create(u),
            "Delete" => SOp::Delete(u),
            "Update" => {
                let p = pools.prop_index(body["property"].as_str().unwrap()).unwrap();
                let v = body["value"].as_str().map(|s| pools.value_index(s).unwrap());
                let t: taskchampion::chrono::DateTime<taskchampion::chrono::Utc> =
                    body["timestamp"].as_str().unwrap().parse().unwrap();
                SOp::Update(u, p, v, nanos_of(&t) as i64)
            }
            other => panic!("undocumented operation kind {other}"),
        });
    }
    out
}

pub fn is_out_of_sync(e: &taskchampion::Error) -> bool {
    format!("{:#} {:?}", e, e).contains("out of sync") || format!("{:?}", e).contains("OutOfSync")
}

// ------------------------------------------------------------------------------------------
// running a history (generated online or replayed from a script)

pub struct CaseOut {
    pub coq: Value,
    pub script: Value,
    pub oracle: Value,
    pub features: Value,
}

fn res_v(r: &Result<(), taskchampion::Error>) -> (Value, String) {
    match r {
        Ok(()) => (c0("SyncOk"), "ok".into()),
        Err(e) if is_out_of_sync(e) => (c0("SyncOutOfSync"), "out-of-sync".into()),
        Err(e) => (c0("SyncProtocolError"), format!("error: {:#}", e)),
    }
}

pub fn action_json(a: &Action) -> Value {
    let opj = |o: &SOp| match o {
        SOp::Create(u) => json!(["create", u]),
        SOp::Delete(u) => json!(["delete", u]),
        SOp::Update(u, p, v, t) => json!(["update", u, p, v, t]),
        SOp::Undo => json!(["undo"]),
    };
    match a {
        Action::Commit(i, ops) => json!({"commit": i, "ops": ops.iter().map(opj).collect::<Vec<_>>()}),
        Action::Sync(i, avoid, u) => json!({"sync": i, "avoid": avoid, "urg": u}),
        Action::Start(i, avoid) => json!({"start": i, "avoid": avoid}),
        Action::Step(i, u) => json!({"step": i, "urg": u}),
        Action::Abandon(i, k) => json!({"abandon": i, "kind": k}),
        Action::Lost(i, u) => json!({"lost": i, "urg": u}),
        Action::Foreign(ops, style) => json!({"foreign": ops.iter().map(opj).collect::<Vec<_>>(), "style": style}),
    }
}

pub fn action_of_json(v: &Value) -> Action {
    let us = |x: &Value| x.as_u64().unwrap() as usize;
    if let Some(i) = v.get("commit") {
        let ops = v["ops"]
            .as_array()
            .unwrap()
            .iter()
            .map(|o| {
                let a = o.as_array().unwrap();
                match a[0].as_str().unwrap() {
                    "create" => SOp::Create(us(&a[1])),
                    "delete" => SOp::Delete(us(&a[1])),
                    "update" => SOp::Update(
                        us(&a[1]),
                        us(&a[2]),
                        a[3].as_u64().map(|x| x as usize),
                        a[4].as_i64().unwrap(),
                    ),
                    _ => SOp::Undo,
                }
            })
            .collect();
        Action::Commit(us(i), ops)
    } else if let Some(i) = v.get("sync") {
        Action::Sync(us(i), v["avoid"].as_bool().unwrap_or(false), v["urg"].as_u64().unwrap_or(0) as u8)
    } else if let Some(i) = v.get("start") {
        Action::Start(us(i), v["avoid"].as_bool().unwrap_or(false))
    } else if let Some(i) = v.get("step") {
        Action::Step(us(i), v["urg"].as_u64().unwrap_or(0) as u8)
    } else if let Some(i) = v.get("abandon") {
        Action::Abandon(us(i), v["kind"].as_u64().unwrap_or(0) as u8)
    } else if let Some(i) = v.get("lost") {
        Action::Lost(us(i), v["urg"].as_u64().unwrap_or(0) as u8)
    } else if let Some(ops) = v.get("foreign") {
        match action_of_json(&json!({"commit": 0, "ops": ops})) {
            Action::Commit(_, o) => Action::Foreign(o, v["style"].as_u64().unwrap_or(0) as u8),
            _ => unreachable!(),
        }
    } else {
        panic!("bad action {v}")
    }
}

pub struct Runner {
    pub w: World,
    pub items: Vec<Value>,
    pub script: Vec<Value>,
    pub problems: Vec<String>,
    pub sync_results: Vec<(usize, String)>,
    // features
    pub f_commits: usize,
    pub f_ops: [usize; 4],
    pub f_syncs: usize,
    pub f_concurrent_syncs: usize,
    pub f_multibatch_syncs: usize,
    pub f_rejections: usize,
    pub f_faults: usize,
    pub f_snapshots: usize,
    pub f_steps: usize,
    pub f_foreign: usize,
    cur_sync_pulled: Vec<usize>,
    /// operations committed and not yet sent, per replica, when that is known exactly
    unsent: Vec<Option<Vec<SOp>>>,
    /// chain length when the running sync started
    cur_sync_start_len: Vec<usize>,
    cur_sync_pushed: Vec<usize>,
    cur_sync_pending: Vec<usize>,
}

impl Runner {
    pub fn new(n: usize) -> Runner {
        Runner {
            w: World::new(n),
            items: vec![],
            script: vec![],
            problems: vec![],
            sync_results: vec![],
            f_commits: 0,
            f_ops: [0; 4],
            f_syncs: 0,
            f_concurrent_syncs: 0,
            f_multibatch_syncs: 0,
            f_rejections: 0,
            f_faults: 0,
            f_snapshots: 0,
            f_steps: 0,
            f_foreign: 0,
            cur_sync_pulled: vec![0; n],
            unsent: vec![Some(vec![]); n],
            cur_sync_start_len: vec![0; n],
            cur_sync_pushed: vec![0; n],
            cur_sync_pending: vec![0; n],
        }
    }
    fn ev(&mut self, e: Value) {
        self.items.push(ctor("IEv", vec![e]));
    }
    fn ex(&mut self, x: Value) {
        self.items.push(ctor("IEx", vec![x]));
    }
    fn expect_tasks(&mut self, i: usize) {
        let t = self.w.tasks(i);
        self.ex(ctor("XTasks", vec![nat(i), tasks_lit(&t)]));
    }
    fn ws_trivial(&mut self, i: usize) -> bool {
        let r = self.w.rep(i);
        block_on(r.working_set()).unwrap().largest_index() == 0
    }

    fn do_start(&mut self, i: usize, avoid: bool) {
        let wst = self.ws_trivial(i);
        self.cur_sync_pending[i] = self.w.num_local(i);
        self.cur_sync_pulled[i] = 0;
        self.cur_sync_pushed[i] = 0;
        self.cur_sync_start_len[i] = self.w.chain.borrow().versions.len();
        self.f_syncs += 1;
        self.ev(ctor("EStart", vec![nat(i), b(avoid), b(wst)]));
        let waiting = !self.w.start(i, avoid);
        let _ = waiting;
        if !self.w.in_flight(i) {
            self.problems.push(format!("sync of replica {i} finished without any server request"));
        }
    }

    fn finish(&mut self, i: usize, r: Result<(), taskchampion::Error>, expect_result: bool) {
        let (rv, rs) = res_v(&r);
        if expect_result {
            self.ex(ctor("XResult", vec![nat(i), rv]));
            self.sync_results.push((i, rs.clone()));
            if r.is_ok() {
                self.expect_tasks(i);
                let nl = self.w.num_local(i);
                if nl != 0 {
                    self.problems.push(format!("replica {i}: {nl} local operations left after a successful sync"));
                }
            }
        }
        // direct oracle (C14): a sync that pulled nothing sends exactly what was committed since the
        // last one, undo points aside, in order
        if expect_result && r.is_ok() {
            if self.cur_sync_pulled[i] == 0 {
                if let Some(want) = self.unsent[i].clone() {
                    let got: Vec<SOp> = {
                        let st = self.w.chain.borrow();
                        st.versions.iter().skip(self.cur_sync_start_len[i]).flat_map(|v| parse_version_ops(&self.w.pools, &v.2)).collect()
                    };
                    if got != want {
                        self.problems.push(format!("replica {i} had committed {:?} since its last sync and met no other version, but sent {:?}", want, got));
                    }
                }
            }
            self.unsent[i] = Some(vec![]);
        } else {
            self.unsent[i] = None;
        }
        if self.cur_sync_pulled[i] > 0 && self.cur_sync_pending[i] > 0 {
            self.f_concurrent_syncs += 1;
        }
        if self.cur_sync_pushed[i] > 1 {
            self.f_multibatch_syncs += 1;
        }
    }

    fn do_step(&mut self, i: usize, u: u8, lost: bool) {
        let req = self.w.pending_req(i).expect("pending request");
        let lit = self.w.req_lit(&req);
        self.ex(ctor("XReq", vec![nat(i), lit]));
        let before_len = self.w.chain.borrow().versions.len();
        self.f_steps += 1;
        if lost {
            self.f_faults += 1;
            self.ev(ctor("ELost", vec![nat(i), urg_v(u)]));
            let r = self.w.step(i, Cmd::FailAfter(urg(u)));
            match r {
                Some(Err(_)) => {}
                Some(Ok(())) => self.problems.push(format!("replica {i}: sync succeeded although a reply was lost")),
                None => {
                    self.problems.push(format!("replica {i}: sync went on after a failed request"));
                    self.w.abandon(i);
                }
            }
            self.finish(i, Ok(()), false);
        } else {
            self.ev(ctor("EStep", vec![nat(i), urg_v(u)]));
            let r = self.w.step(i, Cmd::Proceed(urg(u)));
            match &req {
                Req::GetChild(_) => {
                    // did it return a version?
                    let st = self.w.chain.borrow();
                    if let Req::GetChild(p) = &req {
                        if st.versions.iter().any(|v| v.1 == *p) {
                            drop(st);
                            self.cur_sync_pulled[i] += 1;
                        }
                    }
                }
                Req::AddVersion(..) => {
                    if self.w.chain.borrow().versions.len() > before_len {
                        self.cur_sync_pushed[i] += 1;
                    } else {
                        self.f_rejections += 1;
                    }
                }
                Req::AddSnapshot(v, snap) => {
                    self.f_snapshots += 1;
                    // direct oracle: a snapshot holds exactly the state of its version
                    let got = self.w.decode_snapshot(snap);
                    match self.w.replay_upto(*v) {
                        Some(want) => {
                            if got != want {
                                self.problems.push(format!("replica {i} uploaded a snapshot for version {:?} holding {:?}; the chain up to that version replays to {:?}",
                                    self.w.chain.borrow().vnum(*v), got, want));
                            }
                        }
                        None => self.problems.push(format!("replica {i} uploaded a snapshot for a version that is not on the chain")),
                    }
                }
                _ => {}
            }
            if let Some(r) = r {
                self.finish(i, r, true);
            }
        }
    }

    pub fn perform(&mut self, a: &Action) {
        self.script.push(action_json(a));
        crate::util::CURRENT_SCRIPT.with(|c| *c.borrow_mut() = json!({"family": "synchist", "replicas": self.w.n, "actions": self.script}));
        match a {
            Action::Commit(i, ops) => {
                if self.w.in_flight(*i) {
                    return;
                }
                self.f_commits += 1;
                for o in ops {
                    self.f_ops[match o {
                        SOp::Create(_) => 0,
                        SOp::Delete(_) => 1,
                        SOp::Update(..) => 2,
                        SOp::Undo => 3,
                    }] += 1;
                }
                if let Some(u) = self.unsent[*i].as_mut() {
                    u.extend(ops.iter().filter(|o| !matches!(o, SOp::Undo)).cloned());
                }
                let lits = self.w.commit(*i, ops);
                self.ev(ctor("ECommit", vec![nat(*i), list(lits)]));
                self.expect_tasks(*i);
            }
            Action::Sync(i, avoid, u) => {
                if self.w.in_flight(*i) {
                    return;
                }
                self.do_start(*i, *avoid);
                let mut guard = 0;
                while self.w.in_flight(*i) {
                    self.do_step(*i, *u, false);
                    guard += 1;
                    if guard > 10_000 {
                        self.problems.push(format!("replica {i}: sync did not terminate"));
                        self.w.abandon(*i);
                    }
                }
            }
            Action::Start(i, avoid) => {
                if !self.w.in_flight(*i) {
                    self.do_start(*i, *avoid);
                }
            }
            Action::Step(i, u) => {
                if self.w.in_flight(*i) {
                    self.do_step(*i, *u, false);
                }
            }
            Action::Lost(i, u) => {
                if self.w.in_flight(*i) {
                    self.do_step(*i, *u, true);
                }
            }
            Action::Foreign(ops, style) => {
                let head_state = self.w.replay_chain();
                let mut t = head_state.clone();
                let mut valid = vec![];
                for o in ops {
                    if *o != SOp::Undo && valid_shadow(&t, o) {
                        apply_shadow(&mut t, o);
                        valid.push(o.clone());
                    }
                }
                if valid.is_empty() {
                    return;
                }
                let text = foreign_version_text(&self.w.pools, &valid, *style);
                {
                    let mut st = self.w.chain.borrow_mut();
                    let parent = st.head();
                    let id = taskchampion::Uuid::from_u128(0xf0e1_0000_0000_4000_8000_0000_0000_0000u128 + st.versions.len() as u128);
                    st.versions.push((id, parent, text.into_bytes()));
                }
                self.f_foreign += 1;
                self.ev(ctor("EForeign", vec![list(valid.iter().map(|o| sop_value(o).unwrap()).collect())]));
            }
            Action::Abandon(i, kind) => {
                if self.w.in_flight(*i) {
                    self.f_faults += 1;
                    self.ev(ctor("EAbandon", vec![nat(*i)]));
                    if *kind == 0 {
                        self.w.abandon(*i);
                    } else {
                        match self.w.step(*i, Cmd::FailBefore) {
                            Some(Err(_)) => {}
                            Some(Ok(())) => self.problems.push(format!("replica {i}: sync succeeded although a request failed")),
                            None => {
                                self.problems.push(format!("replica {i}: sync went on after a failed request"));
                                self.w.abandon(*i);
                            }
                        }
                    }
                    self.finish(*i, Ok(()), false);
                    self.expect_tasks(*i);
                }
            }
        }
    }

    /// bring every replica to quiescence and evaluate the direct oracle
    pub fn quiesce_and_finish(mut self, seed: u64, id: usize) -> CaseOut {
        let n = self.w.n;
        for i in 0..n {
            if self.w.in_flight(i) {
                self.perform(&Action::Abandon(i, 0));
            }
        }
        for _round in 0..2 {
            for i in 0..n {
                self.perform(&Action::Sync(i, false, 0));
            }
        }
        let chain = self.w.chain_lit();
        self.ex(ctor("XChain", vec![chain]));
        // oracle
        let replay = self.w.replay_chain();
        let mut all_equal = true;
        let mut equal_replay = true;
        let mut pend = 0;
        let t0 = self.w.tasks(0);
        let mut dump = vec![];
        for i in 0..n {
            let t = self.w.tasks(i);
            if t != t0 {
                all_equal = false;
            }
            if t != replay {
                equal_replay = false;
            }
            pend += self.w.num_local(i);
            dump.push(json!(format!("{:?}", t)));
        }
        WIRE_PROBLEMS.with(|w| self.problems.append(&mut w.borrow_mut()));
        let bad_results: Vec<&(usize, String)> =
            self.sync_results.iter().filter(|(_, r)| r != "ok").collect();
        let ok = all_equal && equal_replay && pend == 0 && bad_results.is_empty() && self.problems.is_empty();
        let oracle = json!({
            "ok": ok, "all_equal": all_equal, "equal_replay": equal_replay,
            "pending_left": pend, "bad_sync_results": bad_results.iter().map(|(i, r)| format!("replica {i}: {r}")).collect::<Vec<_>>(),
            "problems": self.problems, "final_tasks": dump, "replay": format!("{:?}", replay),
            "chain_len": self.w.chain.borrow().versions.len(),
        });
        // sizes table, deduplicated
        let mut seen = std::collections::HashSet::new();
        let mut tab = vec![];
        for (v, s) in self.w.sizes.iter() {
            let k = v.to_string();
            if seen.insert(k) {
                tab.push(pair(v.clone(), n_(*s)));
            }
        }
        let coq = ctor("Build_scase", vec![nat(n), list(tab), list(std::mem::take(&mut self.items))]);
        let features = json!({
            "replicas": n, "commits": self.f_commits, "creates": self.f_ops[0], "deletes": self.f_ops[1],
            "updates": self.f_ops[2], "undo_points": self.f_ops[3], "syncs": self.f_syncs,
            "concurrent_syncs": self.f_concurrent_syncs, "multibatch_syncs": self.f_multibatch_syncs,
            "rejections": self.f_rejections, "faults": self.f_faults, "snapshots": self.f_snapshots,
            "requests": self.f_steps, "foreign_versions": self.f_foreign,
        });
        CaseOut {
            coq,
            script: json!({"family": "synchist", "id": id, "seed": seed, "replicas": n, "actions": self.script}),
            oracle,
            features,
        }
    }
}

fn n_(x: usize) -> Value {
    n(x as u64)
}

// ------------------------------------------------------------------------------------------
// generators

pub struct Gen {
    pub rng: Rng,
    pub small_values: Vec<usize>,
    pub big_values: Vec<usize>,
    pub mid_values: Vec<usize>,
    times: Vec<i64>,
}

impl Gen {
    pub fn new(rng: Rng, pools: &Pools) -> Gen {
        let mut small = vec![];
        let mut big = vec![];
        let mut mid = vec![];
        for (i, v) in pools.values.iter().enumerate() {
            if v.len() > 100_000 {
                big.push(i)
            } else if v.len() > 1000 {
                mid.push(i)
            } else {
                small.push(i)
            }
        }
        Gen {
            rng,
            small_values: small,
            big_values: big,
            mid_values: mid,
            times: vec![1_000_000_000, 2_000_000_000, 2_000_000_000, 2_000_000_123, 3_500_000_000, 1_700_000_000_250_000_000],
        }
    }

    /// a batch of operations valid, in order, on `cur`
    pub fn batch(&mut self, cur: &Tasks, max: usize, big_pct: usize) -> Vec<SOp> {
        let mut t = cur.clone();
        let mut out = vec![];
        let k = self.rng.range(1, max);
        for _ in 0..k {
            let u = self.rng.below(NUUID.min(3)); // three tasks: collisions are the norm
            let o = if !t.contains_key(&u) {
                SOp::Create(u)
            } else {
                match self.rng.below(10) {
                    0 | 1 => SOp::Delete(u),
                    2 => SOp::Undo,
                    _ => {
                        let p = self.rng.below(3);
                        let v = if self.rng.chance(12) {
                            None
                        } else if !self.mid_values.is_empty() && self.rng.chance(10) {
                            Some(self.mid_values[self.rng.below(self.mid_values.len())])
                        } else if !self.big_values.is_empty() && self.rng.chance(big_pct) {
                            Some(self.big_values[self.rng.below(self.big_values.len())])
                        } else {
                            Some(self.small_values[self.rng.below(self.small_values.len())])
                        };
                        let ti = self.times[self.rng.below(self.times.len())];
                        SOp::Update(u, p, v, ti)
                    }
                }
            };
            if valid_shadow(&t, &o) {
                apply_shadow(&mut t, &o);
                out.push(o);
            }
        }
        out
    }
}

/// sequential histories (C01): commits and complete syncs
pub fn gen_seq(seed: u64, id: usize, max_actions: usize) -> CaseOut {
    let mut rng = Rng::new(seed ^ (id as u64).wrapping_mul(0xA24BAED4963EE407));
    let n = rng.range(2, 4);
    let mut r = Runner::new(n);
    let mut g = Gen::new(rng.fork(), &r.w.pools);
    let big_pct = if rng.chance(20) { 35 } else { 0 };
    let k = rng.range(3, max_actions);
    for _ in 0..k {
        let i = rng.below(n);
        if rng.chance(60) {
            let cur = r.w.tasks(i);
            let ops = g.batch(&cur, 4, big_pct);
            if !ops.is_empty() {
                r.perform(&Action::Commit(i, ops));
            }
        } else {
            r.perform(&Action::Sync(i, false, 0));
        }
    }
    r.quiesce_and_finish(seed, id)
}

pub fn exec_script(script: &Value) -> CaseOut {
    let n = script["replicas"].as_u64().unwrap() as usize;
    let mut r = Runner::new(n);
    for a in script["actions"].as_array().unwrap() {
        let a = action_of_json(a);
        r.perform(&a);
    }
    // the script already contains the quiescing suffix if it was produced by a generator;
    // running it again is harmless (empty syncs)
    r.quiesce_and_finish(script["seed"].as_u64().unwrap_or(0), script["id"].as_u64().unwrap_or(0) as usize)
}

/// interleaved syncs at request granularity (C02)
pub fn gen_sched(seed: u64, id: usize, max_actions: usize) -> CaseOut {
    let mut rng = Rng::new(seed ^ (id as u64).wrapping_mul(0xC2B2AE3D27D4EB4F) ^ 0x5ced);
    let n = rng.range(2, 4);
    let mut r = Runner::new(n);
    let mut g = Gen::new(rng.fork(), &r.w.pools);
    let big_pct = if rng.chance(15) { 30 } else { 0 };
    // a prior history: some commits and sequential syncs
    let k = rng.range(2, max_actions);
    for _ in 0..k {
        let i = rng.below(n);
        if rng.chance(70) {
            let cur = r.w.tasks(i);
            let ops = g.batch(&cur, 3, big_pct);
            if !ops.is_empty() {
                r.perform(&Action::Commit(i, ops));
            }
        } else {
            r.perform(&Action::Sync(i, false, 0));
        }
    }
    // make sure at least two replicas have something to send
    for i in 0..n {
        if rng.chance(75) {
            let cur = r.w.tasks(i);
            let ops = g.batch(&cur, 3, big_pct);
            if !ops.is_empty() {
                r.perform(&Action::Commit(i, ops));
            }
        }
    }
    // sometimes: one replica has a fresh task with several large properties pending (its push takes
    // several versions, and the later ones only make sense after the first), so that a rejected
    // first batch is interesting
    if rng.chance(25) && !g.big_values.is_empty() {
        let i = rng.below(n);
        let cur = r.w.tasks(i);
        if let Some(u) = (0..NUUID).find(|u| !cur.contains_key(u)) {
            let mut ops = vec![SOp::Create(u)];
            for p in 0..rng.range(2, 3) {
                let v = g.big_values[rng.below(g.big_values.len())];
                ops.push(SOp::Update(u, p, Some(v), 1_000_000_000 * (1 + rng.below(3) as i64)));
            }
            ops.push(SOp::Update(u, rng.below(3), Some(g.small_values[rng.below(3)]), 4_000_000_000));
            r.perform(&Action::Commit(i, ops));
        }
    }
    // racing syncs: start all, then schedule steps at random, biased to let a replica pull
    // everything and then run another replica's push before its own
    let racers: Vec<usize> = (0..n).filter(|_| rng.chance(85)).collect();
    for &i in &racers {
        r.perform(&Action::Start(i, false));
    }
    let mut guard = 0;
    loop {
        let live: Vec<usize> = (0..n).filter(|i| r.w.in_flight(*i)).collect();
        if live.is_empty() || guard > 400 {
            break;
        }
        guard += 1;
        // prefer a replica whose next request is an AddVersion when another one is too (race)
        let pushers: Vec<usize> = live
            .iter()
            .copied()
            .filter(|i| matches!(r.w.pending_req(*i), Some(Req::AddVersion(..))))
            .collect();
        let i = if pushers.len() >= 2 && rng.chance(70) {
            pushers[rng.below(pushers.len())]
        } else if !pushers.is_empty() && rng.chance(35) {
            // let a non-pusher advance first so that pushers accumulate
            let others: Vec<usize> = live.iter().copied().filter(|i| !pushers.contains(i)).collect();
            if others.is_empty() { pushers[rng.below(pushers.len())] } else { others[rng.below(others.len())] }
        } else {
            live[rng.below(live.len())]
        };
        r.perform(&Action::Step(i, 0));
        // occasionally a new commit + sync start on an idle replica while others are mid-sync
        if rng.chance(8) {
            let idle: Vec<usize> = (0..n).filter(|i| !r.w.in_flight(*i)).collect();
            if !idle.is_empty() {
                let j = idle[rng.below(idle.len())];
                let cur = r.w.tasks(j);
                let ops = g.batch(&cur, 2, 0);
                if !ops.is_empty() {
                    r.perform(&Action::Commit(j, ops));
                }
                r.perform(&Action::Start(j, false));
            }
        }
    }
    r.quiesce_and_finish(seed, id)
}

/// faults at every kind of point of a sync (C04): errors before the effect, lost replies,
/// dropped transactions, possibly several in a row, with other replicas syncing in between
pub fn gen_fault(seed: u64, id: usize, max_actions: usize) -> CaseOut {
    let mut rng = Rng::new(seed ^ (id as u64).wrapping_mul(0x165667B19E3779F9) ^ 0xfa17);
    let n = rng.range(2, 3);
    let mut r = Runner::new(n);
    let mut g = Gen::new(rng.fork(), &r.w.pools);
    let big_pct = if rng.chance(30) { 35 } else { 0 };
    let k = rng.range(2, max_actions);
    for _ in 0..k {
        let i = rng.below(n);
        let c = rng.below(100);
        if c < 45 {
            let cur = r.w.tasks(i);
            let ops = g.batch(&cur, 4, big_pct);
            if !ops.is_empty() {
                r.perform(&Action::Commit(i, ops));
            }
        } else if c < 60 {
            r.perform(&Action::Sync(i, false, 0));
        } else {
            // a sync that is interrupted after `cut` requests
            r.perform(&Action::Start(i, false));
            let cut = rng.below(7);
            let mut steps = 0;
            while r.w.in_flight(i) && steps < cut {
                r.perform(&Action::Step(i, 0));
                steps += 1;
            }
            if r.w.in_flight(i) {
                match rng.below(3) {
                    0 => r.perform(&Action::Abandon(i, 0)),
                    1 => r.perform(&Action::Abandon(i, 1)),
                    _ => r.perform(&Action::Lost(i, 0)),
                }
            }
            // sometimes another replica gets in before the retry
            if rng.chance(30) {
                let j = (i + 1) % n;
                r.perform(&Action::Sync(j, false, 0));
            }
            if rng.chance(60) {
                r.perform(&Action::Sync(i, false, 0));
            }
        }
    }
    r.quiesce_and_finish(seed, id)
}

// ------------------------------------------------------------------------------------------
// C03: all sync orders of one scenario

fn permutations(n: usize) -> Vec<Vec<usize>> {
    fn rec(cur: &mut Vec<usize>, used: &mut Vec<bool>, n: usize, out: &mut Vec<Vec<usize>>) {
        if cur.len() == n {
            out.push(cur.clone());
            return;
        }
        for i in 0..n {
            if !used[i] {
                used[i] = true;
                cur.push(i);
                rec(cur, used, n, out);
                cur.pop();
                used[i] = false;
            }
        }
    }
    let mut out = vec![];
    rec(&mut vec![], &mut vec![false; n], n, &mut out);
    out
}

/// scenario: {"replicas": n, "prefix": [actions], "concurrent": [[ops] per replica]}
pub fn run_orders(scn: &Value) -> CaseOut {
    let n = scn["replicas"].as_u64().unwrap() as usize;
    let prefix: Vec<Action> = scn["prefix"].as_array().unwrap().iter().map(action_of_json).collect();
    let conc: Vec<Vec<SOp>> = scn["concurrent"]
        .as_array()
        .unwrap()
        .iter()
        .enumerate()
        .map(|(i, ops)| match action_of_json(&json!({"commit": i, "ops": ops})) {
            Action::Commit(_, o) => o,
            _ => unreachable!(),
        })
        .collect();
    let mut coqs = vec![];
    let mut finals: Vec<(Vec<usize>, Tasks)> = vec![];
    let mut problems: Vec<String> = vec![];
    let mut feats = serde_json::Map::new();
    let mut base_state = Tasks::new();
    for perm in permutations(n) {
        let mut r = Runner::new(n);
        for a in &prefix {
            r.perform(a);
        }
        // everyone is at the common state now (the prefix ends with syncs of all replicas)
        base_state = r.w.tasks(0);
        for (i, ops) in conc.iter().enumerate() {
            if !ops.is_empty() {
                r.perform(&Action::Commit(i, ops.clone()));
            }
        }
        for &i in &perm {
            r.perform(&Action::Sync(i, false, 0));
        }
        let out = r.quiesce_and_finish(0, 0);
        if !out.oracle["ok"].as_bool().unwrap() {
            problems.push(format!("order {:?}: {}", perm, out.oracle));
        }
        // recover the final tasks from the oracle dump (all replicas equal when ok)
        let mut w2 = Tasks::new();
        let _ = &mut w2;
        finals.push((perm.clone(), parse_tasks_dump(out.oracle["replay"].as_str().unwrap_or("{}"))));
        for (k, v) in out.features.as_object().unwrap() {
            let e = feats.entry(k.clone()).or_insert(json!(0));
            *e = json!(e.as_u64().unwrap_or(0) + v.as_u64().unwrap_or(0));
        }
        coqs.push(out.coq);
    }
    let order_independent = finals.iter().all(|(_, t)| *t == finals[0].1);
    if !order_independent {
        problems.push(format!("final state depends on the sync order: {:?}", finals));
    }
    // documented winners, for the simple shapes where they can be read off directly
    let final0 = &finals[0].1;
    let mut conflicts = 0usize;
    for u in 0..NUUID {
        let touched: Vec<&SOp> = conc
            .iter()
            .flatten()
            .filter(|o| match o {
                SOp::Create(x) | SOp::Delete(x) | SOp::Update(x, _, _, _) => *x == u,
                SOp::Undo => false,
            })
            .collect();
        if touched.is_empty() {
            continue;
        }
        let any_create = touched.iter().any(|o| matches!(o, SOp::Create(_)));
        let any_delete = touched.iter().any(|o| matches!(o, SOp::Delete(_)));
        if any_delete && !any_create {
            conflicts += 1;
            if final0.contains_key(&u) {
                problems.push(format!("task {u} was deleted on one replica but survives: deletion must win over updates"));
            }
            continue;
        }
        if any_create || any_delete {
            continue;
        }
        // only updates of an existing task: per property the greatest (timestamp, value) of the
        // replicas' last updates must win, when each replica updates that property at most once
        for p in 0..3 {
            let mut per_rep: Vec<Vec<(i64, Option<usize>)>> = vec![];
            for ops in conc.iter() {
                per_rep.push(
                    ops.iter()
                        .filter_map(|o| match o {
                            SOp::Update(x, q, v, t) if *x == u && *q == p => Some((*t, *v)),
                            _ => None,
                        })
                        .collect(),
                );
            }
            if per_rep.iter().any(|l| l.len() > 1) || per_rep.iter().all(|l| l.is_empty()) {
                continue;
            }
            let cands: Vec<(i64, Option<usize>)> = per_rep.iter().flatten().cloned().collect();
            if cands.len() >= 2 {
                conflicts += 1;
            }
            // value indices are order preserving, None is least
            let win = cands.iter().max_by_key(|(t, v)| (*t, v.map(|x| x as i64).unwrap_or(-1))).unwrap();
            let got = final0.get(&u).and_then(|tk| tk.get(&p)).copied();
            if got != win.1 {
                problems.push(format!(
                    "task {u} property {p}: concurrent updates {:?}; documented winner {:?}, converged value {:?}",
                    cands, win.1, got
                ));
            }
        }
        let _ = &base_state;
    }
    feats.insert("scenarios".into(), json!(1));
    feats.insert("orders".into(), json!(finals.len()));
    feats.insert("documented_conflicts".into(), json!(conflicts));
    let ok = problems.is_empty();
    CaseOut {
        coq: list(coqs),
        script: json!({"family": "orders", "exec": "orders-exec", "replicas": n,
                       "prefix": scn["prefix"], "concurrent": scn["concurrent"]}),
        oracle: json!({"ok": ok, "order_independent": order_independent, "problems": problems,
                       "finals": finals.iter().map(|(p, t)| format!("{:?} -> {:?}", p, t)).collect::<Vec<_>>()}),
        features: Value::Object(feats),
    }
}

fn parse_tasks_dump(s: &str) -> Tasks {
    // parses the Debug form "{0: {0: 5, 1: 1}, 1: {}}" produced by this file
    let mut out = Tasks::new();
    let b: Vec<char> = s.chars().collect();
    let mut i = 0;
    let mut depth = 0;
    let mut cur_u: Option<usize> = None;
    let mut num = String::new();
    let mut pending_key: Option<usize> = None;
    while i < b.len() {
        let c = b[i];
        match c {
            '{' => depth += 1,
            '}' => {
                if depth == 2 {
                    if let (Some(u), Some(k)) = (cur_u, pending_key) {
                        if !num.is_empty() {
                            out.get_mut(&u).unwrap().insert(k, num.parse().unwrap());
                        }
                    }
                    num.clear();
                    pending_key = None;
                    cur_u = None;
                }
                depth -= 1;
            }
            '0'..='9' => num.push(c),
            ':' => {
                let k: usize = num.parse().unwrap();
                num.clear();
                if depth == 1 {
                    cur_u = Some(k);
                    out.insert(k, BTreeMap::new());
                } else {
                    pending_key = Some(k);
                }
            }
            ',' => {
                if depth == 2 {
                    if let (Some(u), Some(k)) = (cur_u, pending_key) {
                        out.get_mut(&u).unwrap().insert(k, num.parse().unwrap());
                    }
                    num.clear();
                    pending_key = None;
                }
            }
            _ => {}
        }
        i += 1;
    }
    out
}

pub fn gen_orders(seed: u64, id: usize) -> CaseOut {
    let mut rng = Rng::new(seed ^ (id as u64).wrapping_mul(0x2545F4914F6CDD1D) ^ 0x03d);
    let n = if rng.chance(45) { 3 } else { 2 };
    // common prefix: replica 0 creates some tasks with some properties; everyone syncs
    let pools = default_pools();
    let mut g = Gen::new(rng.fork(), &pools);
    let mut t = Tasks::new();
    let mut pre_ops = vec![];
    for u in 0..3 {
        if rng.chance(75) {
            pre_ops.push(SOp::Create(u));
            apply_shadow(&mut t, &SOp::Create(u));
            if rng.chance(50) {
                let o = SOp::Update(u, rng.below(3), Some(g.small_values[rng.below(g.small_values.len())]), 1_500_000_000);
                apply_shadow(&mut t, &o);
                pre_ops.push(o);
            }
        }
    }
    let mut prefix = vec![];
    if !pre_ops.is_empty() {
        prefix.push(action_json(&Action::Commit(0, pre_ops)));
    }
    for i in 0..n {
        prefix.push(action_json(&Action::Sync(i, false, 0)));
    }
    for i in 1..n {
        let _ = i;
    }
    // concurrent batches on the common state, focused on one or two (task, property) cells and
    // timestamps from {earlier, equal, later}
    let focus_u = rng.below(3);
    let focus_p = rng.below(2);
    let times = [2_000_000_000i64, 2_000_000_000, 2_000_000_123, 1_000_000_000, 3_000_000_000];
    let mut conc = vec![];
    for _i in 0..n {
        let mut cur = t.clone();
        let mut ops = vec![];
        let kmax = if rng.chance(70) { 1 } else { 3 };
        let k = rng.range(1, kmax);
        for _ in 0..k {
            let u = if rng.chance(75) { focus_u } else { rng.below(3) };
            let o = if !cur.contains_key(&u) {
                SOp::Create(u)
            } else if rng.chance(12) {
                SOp::Delete(u)
            } else {
                let p = if rng.chance(75) { focus_p } else { rng.below(3) };
                let v = if rng.chance(10) { None } else { Some(g.small_values[rng.below(3)]) };
                SOp::Update(u, p, v, times[rng.below(times.len())])
            };
            if valid_shadow(&cur, &o) {
                apply_shadow(&mut cur, &o);
                ops.push(o);
            }
        }
        let j = action_json(&Action::Commit(0, ops));
        conc.push(j["ops"].clone());
    }
    run_orders(&json!({"replicas": n, "prefix": prefix, "concurrent": conc}))
}

/// snapshots (C12): scripted urgencies, avoid flags, replicas that join late and start from a
/// snapshot, multi-batch syncs with urgent replies on non-final batches
pub fn gen_snap(seed: u64, id: usize, max_actions: usize) -> CaseOut {
    let mut rng = Rng::new(seed ^ (id as u64).wrapping_mul(0x9FB21C651E98DF25) ^ 0x5a9);
    let n = rng.range(2, 4);
    let mut r = Runner::new(n);
    let mut g = Gen::new(rng.fork(), &r.w.pools);
    let big_pct = if rng.chance(30) { 35 } else { 0 };
    // the last replica stays untouched until late, so that it starts from a snapshot
    let late = n - 1;
    let k = rng.range(3, max_actions);
    for step in 0..k {
        let i = if step * 3 < k * 2 { rng.below(n - 1) } else { rng.below(n) };
        if rng.chance(55) && i != late {
            let cur = r.w.tasks(i);
            let ops = g.batch(&cur, 4, big_pct);
            if !ops.is_empty() {
                r.perform(&Action::Commit(i, ops));
            }
        } else if rng.chance(60) {
            r.perform(&Action::Sync(i, rng.chance(30), rng.below(3) as u8));
        } else {
            // a sync advanced request by request: every reply carries its own urgency, and other
            // replicas commit and synchronise in between (their versions land between this
            // replica's push and its next pull)
            r.perform(&Action::Start(i, rng.chance(20)));
            let mut guard = 0;
            while r.w.in_flight(i) && guard < 60 {
                guard += 1;
                if rng.chance(25) {
                    let j = rng.below(n - 1);
                    if j != i && !r.w.in_flight(j) {
                        let cur = r.w.tasks(j);
                        let ops = g.batch(&cur, 2, 0);
                        if !ops.is_empty() {
                            r.perform(&Action::Commit(j, ops));
                        }
                        r.perform(&Action::Sync(j, false, 0));
                    }
                }
                let u = if rng.chance(50) { 0 } else { rng.below(3) as u8 };
                r.perform(&Action::Step(i, u));
            }
        }
    }
    r.perform(&Action::Sync(late, false, 0));
    r.quiesce_and_finish(seed, id)
}

/// the wire format (C14): histories with undo points, deletes of populated tasks, sub-second
/// timestamps and exotic strings, plus versions written by "another implementation"
pub fn gen_wire(seed: u64, id: usize, max_actions: usize) -> CaseOut {
    let mut rng = Rng::new(seed ^ (id as u64).wrapping_mul(0xE7037ED1A0B428DB) ^ 0x14);
    let n = rng.range(2, 3);
    let mut r = Runner::new(n);
    let mut g = Gen::new(rng.fork(), &r.w.pools);
    let big_pct = if rng.chance(20) { 35 } else { 0 };
    let k = rng.range(3, max_actions);
    for _ in 0..k {
        let i = rng.below(n);
        let c = rng.below(100);
        if c < 45 {
            let cur = r.w.tasks(i);
            let ops = g.batch(&cur, 5, big_pct);
            if !ops.is_empty() {
                r.perform(&Action::Commit(i, ops));
            }
        } else if c < 75 {
            r.perform(&Action::Sync(i, false, 0));
        } else {
            let head = r.w.replay_chain();
            let ops = g.batch(&head, 4, 0);
            r.perform(&Action::Foreign(ops, rng.below(8) as u8));
        }
    }
    r.quiesce_and_finish(seed, id)
}
