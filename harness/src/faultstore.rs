//! A storage wrapper that counts StorageTxn calls and makes the k-th one fail before it reaches
//! the real storage, so that the action in progress abandons its transaction there.
use crate::dbhist::{db_pools, lop_lit, operation_to_lop};
use crate::pools::*;
use crate::synchist::task_lit;
use crate::util::*;
use async_trait::async_trait;
use serde_json::Value;
use std::collections::BTreeMap;
use std::sync::atomic::{AtomicIsize, AtomicUsize, Ordering};
use std::sync::{Arc, Mutex};
use taskchampion::server::VersionId;
use taskchampion::storage::{Storage, StorageTxn, TaskMap};
use taskchampion::{Operation, Uuid};

#[derive(Clone)]
pub struct FaultCtl {
    /// calls made since the last reset
    pub calls: Arc<AtomicUsize>,
    /// fail the call with this index (negative = never)
    pub fail_at: Arc<AtomicIsize>,
    /// every transaction boundary and every call that reached the storage, with its result, as
    /// items of Corr.StorageCorr
    pub log: Arc<Mutex<TraceLog>>,
    /// the handle this controller belongs to (tags the trace items)
    pub hid: usize,
    /// transactions begun through this handle
    pub txn_seq: Arc<AtomicUsize>,
    /// the order in which all_tasks listed the tasks, per transaction of this handle
    pub orders: Arc<Mutex<Vec<(usize, Vec<usize>)>>>,
    /// when set, transactions are admitted one at a time in a seeded order
    pub gate: Option<Arc<Gate>>,
}

/// admits one transaction at a time; which waiting handle goes next is a function of the seed
/// and of the number of transactions admitted so far
pub struct Gate {
    st: Mutex<GateState>,
    cv: std::sync::Condvar,
}
struct GateState {
    seed: u64,
    admitted: u64,
    busy: bool,
    nh: usize,
    finished: Vec<bool>,
}
impl Gate {
    pub fn new(seed: u64, nh: usize) -> Gate {
        Gate { st: Mutex::new(GateState { seed, admitted: 0, busy: false, nh, finished: vec![false; nh] }), cv: std::sync::Condvar::new() }
    }
    fn next(st: &GateState) -> Option<usize> {
        // the first handle, in a rotation chosen by (seed, admitted), that has not finished
        let mut r = Rng::new(st.seed ^ st.admitted.wrapping_mul(0x9E3779B97F4A7C15));
        let start = r.below(st.nh);
        (0..st.nh).map(|k| (start + k) % st.nh).find(|h| !st.finished[*h])
    }
    pub fn acquire(&self, h: usize) {
        let mut st = self.st.lock().unwrap();
        loop {
            if !st.busy && Gate::next(&st) == Some(h) {
                st.busy = true;
                st.admitted += 1;
                return;
            }
            st = self.cv.wait(st).unwrap();
        }
    }
    pub fn release(&self) {
        self.st.lock().unwrap().busy = false;
        self.cv.notify_all();
    }
    pub fn finish(&self, h: usize) {
        self.st.lock().unwrap().finished[h] = true;
        self.cv.notify_all();
    }
}

#[derive(Default)]
pub struct TraceLog {
    pub items: Vec<(usize, Value)>,
    versions: Vec<Uuid>,
}

impl TraceLog {
    fn version(&mut self, v: Uuid) -> usize {
        if v.is_nil() {
            return 0;
        }
        match self.versions.iter().position(|x| *x == v) {
            Some(k) => k + 1,
            None => {
                self.versions.push(v);
                self.versions.len()
            }
        }
    }
}

impl FaultCtl {
    pub fn new() -> FaultCtl {
        FaultCtl {
            calls: Arc::new(AtomicUsize::new(0)),
            fail_at: Arc::new(AtomicIsize::new(-1)),
            log: Arc::new(Mutex::new(TraceLog::default())),
            hid: 0,
            txn_seq: Arc::new(AtomicUsize::new(0)),
            orders: Arc::new(Mutex::new(vec![])),
            gate: None,
        }
    }
    /// the controller of another handle writing to the same trace
    pub fn handle(&self, hid: usize) -> FaultCtl {
        FaultCtl { hid, txn_seq: Arc::new(AtomicUsize::new(0)), orders: Arc::new(Mutex::new(vec![])), ..self.observer() }
    }
    /// a controller that never fails and writes to the same trace (for fresh handles)
    pub fn observer(&self) -> FaultCtl {
        FaultCtl {
            calls: Arc::new(AtomicUsize::new(0)),
            fail_at: Arc::new(AtomicIsize::new(-1)),
            log: self.log.clone(),
            hid: self.hid,
            txn_seq: self.txn_seq.clone(),
            orders: self.orders.clone(),
            gate: self.gate.clone(),
        }
    }
    pub fn push(&self, item: Value) {
        self.log.lock().unwrap().items.push((self.hid, item));
    }
    pub fn take_items(&self) -> Vec<Value> {
        std::mem::take(&mut self.log.lock().unwrap().items).into_iter().map(|(_, v)| v).collect()
    }
    pub fn take_tagged(&self) -> Vec<(usize, Value)> {
        std::mem::take(&mut self.log.lock().unwrap().items)
    }
    fn call(&self, c: Value, r: Value) {
        self.push(ctor("SCall", vec![c, r.clone(), r]));
    }
    pub fn arm(&self, k: isize) {
        self.calls.store(0, Ordering::SeqCst);
        self.fail_at.store(k, Ordering::SeqCst);
    }
    pub fn count(&self) -> usize {
        self.calls.load(Ordering::SeqCst)
    }
    fn tick(&self) -> Result<(), taskchampion::Error> {
        let k = self.calls.fetch_add(1, Ordering::SeqCst) as isize;
        if k == self.fail_at.load(Ordering::SeqCst) {
            Err(taskchampion::Error::Database("injected fault".into()))
        } else {
            Ok(())
        }
    }
}

pub struct FaultStorage<S: Storage> {
    pub inner: S,
    pub ctl: FaultCtl,
}

#[async_trait]
impl<S: Storage> Storage for FaultStorage<S> {
    async fn txn<'a>(&'a mut self) -> Result<Box<dyn StorageTxn + Send + 'a>, taskchampion::Error> {
        if let Some(g) = &self.ctl.gate {
            g.acquire(self.ctl.hid);
        }
        let t = match self.inner.txn().await {
            Ok(t) => t,
            Err(e) => {
                if let Some(g) = &self.ctl.gate {
                    g.release();
                }
                return Err(e);
            }
        };
        self.ctl.txn_seq.fetch_add(1, Ordering::SeqCst);
        self.ctl.push(c0("SBegin"));
        Ok(Box::new(FaultTxn { inner: Some(t), ctl: self.ctl.clone(), committed: false }))
    }
}

pub struct FaultTxn<'a> {
    inner: Option<Box<dyn StorageTxn + Send + 'a>>,
    ctl: FaultCtl,
    committed: bool,
}

impl Drop for FaultTxn<'_> {
    fn drop(&mut self) {
        if !self.committed {
            self.ctl.push(c0("SAbandon"));
        }
        // roll back (or finish) before the next transaction is admitted
        self.inner = None;
        if let Some(g) = &self.ctl.gate {
            g.release();
        }
    }
}

fn n_(x: usize) -> Value {
    n(x as u64)
}
fn ux(u: Uuid) -> Value {
    n_(uuid_index(u, 64).expect("uuid outside the pool"))
}
fn tm_lit(t: &TaskMap) -> Value {
    let pools = db_pools();
    let m: BTreeMap<usize, usize> = t.iter().map(|(p, v)| (pools.prop_index(p).expect("prop"), pools.value_index(v).expect("value"))).collect();
    task_lit(&m)
}
fn tasks_lit(v: &[(Uuid, TaskMap)]) -> Value {
    let mut m: BTreeMap<usize, Value> = BTreeMap::new();
    for (u, t) in v {
        m.insert(uuid_index(*u, 64).expect("uuid"), tm_lit(t));
    }
    ctor("RTasks", vec![nat(v.len()), list(m.into_iter().map(|(u, t)| pair(n_(u), t)).collect())])
}
fn ops_lit(v: &[Operation]) -> Value {
    let pools = db_pools();
    ctor("ROps", vec![list(v.iter().map(|o| lop_lit(&operation_to_lop(&pools, o))).collect())])
}
fn op_lit(o: &Operation) -> Value {
    lop_lit(&operation_to_lop(&db_pools(), o))
}
fn res<T>(r: &R<T>, f: impl FnOnce(&T) -> Value) -> Value {
    match r {
        Ok(x) => f(x),
        Err(_) => c0("RErr"),
    }
}

type R<T> = Result<T, taskchampion::Error>;

#[async_trait]
impl StorageTxn for FaultTxn<'_> {
    async fn get_task(&mut self, uuid: Uuid) -> R<Option<TaskMap>> {
        self.ctl.tick()?;
        let c = ctor("CGetTask", vec![ux(uuid)]);
        let r = self.inner.as_mut().unwrap().get_task(uuid).await;
        self.ctl.call(c, res(&r, |t| ctor("ROptTask", vec![opt(t.as_ref().map(tm_lit))])));
        r
    }
    async fn get_pending_tasks(&mut self) -> R<Vec<(Uuid, TaskMap)>> {
        self.ctl.tick()?;
        let c = c0("CPendingTasks");
        let r = self.inner.as_mut().unwrap().get_pending_tasks().await;
        self.ctl.call(c, res(&r, |v| tasks_lit(v)));
        r
    }
    async fn create_task(&mut self, uuid: Uuid) -> R<bool> {
        self.ctl.tick()?;
        let c = ctor("CCreateTask", vec![ux(uuid)]);
        let r = self.inner.as_mut().unwrap().create_task(uuid).await;
        self.ctl.call(c, res(&r, |r| ctor("RBool", vec![b(*r)])));
        r
    }
    async fn set_task(&mut self, uuid: Uuid, task: TaskMap) -> R<()> {
        self.ctl.tick()?;
        let c = ctor("CSetTask", vec![ux(uuid), tm_lit(&task)]);
        let r = self.inner.as_mut().unwrap().set_task(uuid, task).await;
        self.ctl.call(c, res(&r, |_| c0("RUnit")));
        r
    }
    async fn delete_task(&mut self, uuid: Uuid) -> R<bool> {
        self.ctl.tick()?;
        let c = ctor("CDeleteTask", vec![ux(uuid)]);
        let r = self.inner.as_mut().unwrap().delete_task(uuid).await;
        self.ctl.call(c, res(&r, |r| ctor("RBool", vec![b(*r)])));
        r
    }
    async fn all_tasks(&mut self) -> R<Vec<(Uuid, TaskMap)>> {
        self.ctl.tick()?;
        let c = c0("CAllTasks");
        let r = self.inner.as_mut().unwrap().all_tasks().await;
        if let Ok(v) = &r {
            let n = self.ctl.txn_seq.load(Ordering::SeqCst);
            self.ctl.orders.lock().unwrap().push((n, v.iter().map(|(u, _)| uuid_index(*u, 64).expect("uuid")).collect()));
        }
        self.ctl.call(c, res(&r, |v| tasks_lit(v)));
        r
    }
    async fn all_task_uuids(&mut self) -> R<Vec<Uuid>> {
        self.ctl.tick()?;
        let c = c0("CAllUuids");
        let r = self.inner.as_mut().unwrap().all_task_uuids().await;
        self.ctl.call(c, res(&r, |v| { let mut x: Vec<usize> = v.iter().map(|u| uuid_index(*u, 64).expect("uuid")).collect(); x.sort(); ctor("RUuids", vec![list(x.into_iter().map(n_).collect())]) }));
        r
    }
    async fn base_version(&mut self) -> R<VersionId> {
        self.ctl.tick()?;
        let r = self.inner.as_mut().unwrap().base_version().await;
        let v = match &r {
            Ok(v) => { let k = self.ctl.log.lock().unwrap().version(*v); ctor("RNat", vec![nat(k)]) }
            Err(_) => c0("RErr"),
        };
        self.ctl.call(c0("CBaseVersion"), v);
        r
    }
    async fn set_base_version(&mut self, version: VersionId) -> R<()> {
        self.ctl.tick()?;
        let k = self.ctl.log.lock().unwrap().version(version);
        let r = self.inner.as_mut().unwrap().set_base_version(version).await;
        self.ctl.call(ctor("CSetBaseVersion", vec![nat(k)]), res(&r, |_| c0("RUnit")));
        r
    }
    async fn get_task_operations(&mut self, uuid: Uuid) -> R<Vec<Operation>> {
        self.ctl.tick()?;
        let c = ctor("CTaskOps", vec![ux(uuid)]);
        let r = self.inner.as_mut().unwrap().get_task_operations(uuid).await;
        self.ctl.call(c, res(&r, |v| ops_lit(v)));
        r
    }
    async fn unsynced_operations(&mut self) -> R<Vec<Operation>> {
        self.ctl.tick()?;
        let c = c0("CUnsynced");
        let r = self.inner.as_mut().unwrap().unsynced_operations().await;
        self.ctl.call(c, res(&r, |v| ops_lit(v)));
        r
    }
    async fn num_unsynced_operations(&mut self) -> R<usize> {
        self.ctl.tick()?;
        let c = c0("CNumUnsynced");
        let r = self.inner.as_mut().unwrap().num_unsynced_operations().await;
        self.ctl.call(c, res(&r, |k| ctor("RNat", vec![nat(*k)])));
        r
    }
    async fn add_operation(&mut self, op: Operation) -> R<()> {
        self.ctl.tick()?;
        let c = ctor("CAddOp", vec![op_lit(&op)]);
        let r = self.inner.as_mut().unwrap().add_operation(op).await;
        self.ctl.call(c, res(&r, |_| c0("RUnit")));
        r
    }
    async fn remove_operation(&mut self, op: Operation) -> R<()> {
        self.ctl.tick()?;
        let c = ctor("CRemoveOp", vec![op_lit(&op)]);
        let r = self.inner.as_mut().unwrap().remove_operation(op).await;
        self.ctl.call(c, res(&r, |_| c0("RUnit")));
        r
    }
    async fn sync_complete(&mut self) -> R<()> {
        self.ctl.tick()?;
        let c = c0("CSyncComplete");
        let r = self.inner.as_mut().unwrap().sync_complete().await;
        self.ctl.call(c, res(&r, |_| c0("RUnit")));
        r
    }
    async fn get_working_set(&mut self) -> R<Vec<Option<Uuid>>> {
        self.ctl.tick()?;
        let c = c0("CGetWs");
        let r = self.inner.as_mut().unwrap().get_working_set().await;
        self.ctl.call(c, res(&r, |v| ctor("RWs", vec![list(v.iter().map(|x| opt(x.map(ux))).collect())])));
        r
    }
    async fn add_to_working_set(&mut self, uuid: Uuid) -> R<usize> {
        self.ctl.tick()?;
        let c = ctor("CAddWs", vec![ux(uuid)]);
        let r = self.inner.as_mut().unwrap().add_to_working_set(uuid).await;
        self.ctl.call(c, res(&r, |k| ctor("RNat", vec![nat(*k)])));
        r
    }
    async fn set_working_set_item(&mut self, index: usize, uuid: Option<Uuid>) -> R<()> {
        self.ctl.tick()?;
        let c = ctor("CSetWs", vec![nat(index), opt(uuid.map(ux))]);
        let r = self.inner.as_mut().unwrap().set_working_set_item(index, uuid).await;
        self.ctl.call(c, res(&r, |_| c0("RUnit")));
        r
    }
    async fn clear_working_set(&mut self) -> R<()> {
        self.ctl.tick()?;
        let c = c0("CClearWs");
        let r = self.inner.as_mut().unwrap().clear_working_set().await;
        self.ctl.call(c, res(&r, |_| c0("RUnit")));
        r
    }
    async fn is_empty(&mut self) -> R<bool> {
        self.ctl.tick()?;
        let c = c0("CIsEmpty");
        let r = self.inner.as_mut().unwrap().is_empty().await;
        self.ctl.call(c, res(&r, |r| ctor("RBool", vec![b(*r)])));
        r
    }
    async fn commit(&mut self) -> R<()> {
        self.ctl.tick()?;
        // the item is written before the lock is released, so that the trace order is the lock
        // order; it is turned into an abandonment if the commit fails
        let pos = {
            let mut l = self.ctl.log.lock().unwrap();
            l.items.push((self.ctl.hid, c0("SCommit")));
            l.items.len() - 1
        };
        self.committed = true;
        let r = self.inner.as_mut().unwrap().commit().await;
        if r.is_err() {
            self.ctl.log.lock().unwrap().items[pos].1 = c0("SAbandon");
        }
        r
    }
}
