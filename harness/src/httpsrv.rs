//! A small HTTP/1.1 server speaking the documented sync protocol (docs/src/http.md) over an
//! in-memory version chain per client id, for running the HTTP client backend (`SyncServer`)
//! of the library against the chain specification.  It records what it receives, checks the
//! documented request shape, and can be told to answer the next request in a way no conforming
//! server would (hostile responses), which the client must turn into an error.
use std::collections::HashMap;
use std::io::{Read, Write};
use std::net::{TcpListener, TcpStream};
use std::sync::atomic::{AtomicBool, Ordering};
use std::sync::{Arc, Mutex};
use taskchampion::Uuid;

pub const HS_CT: &str = "application/vnd.taskchampion.history-segment";
pub const SNAP_CT: &str = "application/vnd.taskchampion.snapshot";

#[derive(Clone, Debug, PartialEq)]
pub enum Hostile {
    /// answer 500
    Status500,
    /// answer as usual but leave out the X-Version-Id header
    NoVersionHeader,
    /// put something that is not a uuid into X-Version-Id
    BadVersionHeader,
    /// answer 409 without the X-Parent-Version-Id header (add-version only)
    ConflictNoHeader,
    /// leave out X-Parent-Version-Id (get-child-version only)
    NoParentHeader,
    /// a content type other than the documented one (bodies only)
    WrongContentType,
    /// flip a byte in the middle of the returned body
    CorruptBody,
    /// cut the returned body short (the Content-Length matches the shortened body)
    TruncatedBody,
    /// 410 GONE
    Gone,
}

#[derive(Default)]
pub struct ClientChain {
    /// (id, parent, body as received) in order of acceptance
    pub versions: Vec<(Uuid, Uuid, Vec<u8>)>,
    pub snapshot: Option<(Uuid, Vec<u8>)>,
}

#[derive(Clone, Debug)]
pub struct Received {
    pub method: String,
    pub path: String,
    pub client_id: Option<String>,
    pub content_type: Option<String>,
    pub body: Vec<u8>,
}

#[derive(Default)]
pub struct HState {
    pub chains: HashMap<String, ClientChain>,
    pub received: Vec<Received>,
    pub hostile: Option<Hostile>,
    /// X-Snapshot-Request value to send with the next accepted add-version
    pub urgency: Option<String>,
    /// violations of the documented request shape
    pub problems: Vec<String>,
    next_id: u128,
}

pub struct HttpSrv {
    pub port: u16,
    pub state: Arc<Mutex<HState>>,
    stop: Arc<AtomicBool>,
    thread: Option<std::thread::JoinHandle<()>>,
}

fn read_request(s: &mut TcpStream) -> Option<(String, String, Vec<(String, String)>, Vec<u8>)> {
    let mut buf: Vec<u8> = vec![];
    let mut tmp = [0u8; 8192];
    let head_end;
    loop {
        if let Some(p) = buf.windows(4).position(|w| w == b"\r\n\r\n") {
            head_end = p + 4;
            break;
        }
        let k = s.read(&mut tmp).ok()?;
        if k == 0 {
            return None;
        }
        buf.extend_from_slice(&tmp[..k]);
        if buf.len() > 1 << 20 {
            return None;
        }
    }
    let head = String::from_utf8_lossy(&buf[..head_end]).to_string();
    let mut lines = head.split("\r\n");
    let rl = lines.next()?;
    let mut parts = rl.split(' ');
    let method = parts.next()?.to_string();
    let path = parts.next()?.to_string();
    let mut headers = vec![];
    for l in lines {
        if let Some((k, v)) = l.split_once(':') {
            headers.push((k.trim().to_ascii_lowercase(), v.trim().to_string()));
        }
    }
    let clen: usize = headers.iter().find(|h| h.0 == "content-length").and_then(|h| h.1.parse().ok()).unwrap_or(0);
    let mut body = buf[head_end..].to_vec();
    while body.len() < clen {
        let k = s.read(&mut tmp).ok()?;
        if k == 0 {
            return None;
        }
        body.extend_from_slice(&tmp[..k]);
    }
    body.truncate(clen);
    Some((method, path, headers, body))
}

struct Resp {
    status: u16,
    headers: Vec<(String, String)>,
    body: Vec<u8>,
}

fn reason(code: u16) -> &'static str {
    match code {
        200 => "OK",
        400 => "Bad Request",
        404 => "Not Found",
        409 => "Conflict",
        410 => "Gone",
        _ => "Internal Server Error",
    }
}

fn handle(st: &mut HState, method: &str, path: &str, headers: &[(String, String)], body: Vec<u8>) -> Resp {
    let hdr = |n: &str| headers.iter().find(|h| h.0 == n).map(|h| h.1.clone());
    let client_id = hdr("x-client-id");
    st.received.push(Received { method: method.to_string(), path: path.to_string(), client_id: client_id.clone(), content_type: hdr("content-type"), body: body.clone() });
    let hostile = st.hostile.take();
    let plain = |status: u16| Resp { status, headers: vec![], body: vec![] };
    let cid = match &client_id {
        Some(c) if Uuid::parse_str(c).is_ok() => c.clone(),
        _ => {
            st.problems.push(format!("{method} {path}: no valid X-Client-Id header"));
            return plain(400);
        }
    };
    if hostile == Some(Hostile::Status500) {
        return plain(500);
    }
    if hostile == Some(Hostile::Gone) {
        return plain(410);
    }
    let seg: Vec<&str> = path.trim_start_matches('/').split('/').collect();
    // the harness gives every client the base url http://127.0.0.1:port/base/
    let seg = if seg.first() == Some(&"base") { &seg[1..] } else { st.problems.push(format!("{method} {path}: not below the base url")); &seg[..] };
    let chain = st.chains.entry(cid).or_default();
    match (method, seg) {
        ("POST", ["v1", "client", "add-version", parent]) => {
            let parent = match Uuid::parse_str(parent) {
                Ok(p) => p,
                Err(_) => return plain(400),
            };
            if hdr("content-type").as_deref() != Some(HS_CT) {
                st.problems.push(format!("add-version with content-type {:?}", hdr("content-type")));
            }
            let latest = chain.versions.last().map(|v| v.0);
            if hostile == Some(Hostile::ConflictNoHeader) {
                return plain(409);
            }
            if latest.is_some() && latest != Some(parent) {
                return Resp { status: 409, headers: vec![("X-Parent-Version-Id".into(), latest.unwrap().to_string())], body: vec![] };
            }
            if matches!(hostile, Some(Hostile::NoVersionHeader) | Some(Hostile::BadVersionHeader)) {
                // not accepted: the reply a client cannot use must not leave a version behind
                return Resp {
                    status: 200,
                    headers: if hostile == Some(Hostile::BadVersionHeader) { vec![("X-Version-Id".into(), "not-a-uuid".into())] } else { vec![] },
                    body: vec![],
                };
            }
            st.next_id += 1;
            let id = Uuid::from_u128(0x5e57_0000_0000_4000_8000_0000_0000_0000u128 + st.next_id);
            chain.versions.push((id, parent, body));
            let mut h = vec![("X-Version-Id".to_string(), id.to_string())];
            if let Some(u) = st.urgency.take() {
                h.push(("X-Snapshot-Request".into(), u));
            }
            Resp { status: 200, headers: h, body: vec![] }
        }
        ("GET", ["v1", "client", "get-child-version", parent]) => {
            let parent = match Uuid::parse_str(parent) {
                Ok(p) => p,
                Err(_) => return plain(400),
            };
            match chain.versions.iter().find(|v| v.1 == parent) {
                None => plain(404),
                Some((id, p, b)) => {
                    let mut h = vec![
                        ("X-Version-Id".to_string(), id.to_string()),
                        ("X-Parent-Version-Id".to_string(), p.to_string()),
                        ("Content-Type".to_string(), HS_CT.to_string()),
                    ];
                    let mut body = b.clone();
                    match hostile {
                        Some(Hostile::NoVersionHeader) => { h.remove(0); }
                        Some(Hostile::BadVersionHeader) => h[0].1 = "zzz".into(),
                        Some(Hostile::NoParentHeader) => { h.remove(1); }
                        Some(Hostile::WrongContentType) => h[2].1 = "application/octet-stream".into(),
                        Some(Hostile::CorruptBody) => { let k = body.len() / 2; body[k] ^= 0x40; }
                        Some(Hostile::TruncatedBody) => { let k = body.len() / 2; body.truncate(k); }
                        _ => {}
                    }
                    Resp { status: 200, headers: h, body }
                }
            }
        }
        ("POST", ["v1", "client", "add-snapshot", v]) => {
            let v = match Uuid::parse_str(v) {
                Ok(p) => p,
                Err(_) => return plain(400),
            };
            if hdr("content-type").as_deref() != Some(SNAP_CT) {
                st.problems.push(format!("add-snapshot with content-type {:?}", hdr("content-type")));
            }
            if !chain.versions.iter().any(|x| x.0 == v) {
                return plain(400);
            }
            chain.snapshot = Some((v, body));
            plain(200)
        }
        ("GET", ["v1", "client", "snapshot"]) => match &chain.snapshot {
            None => plain(404),
            Some((v, b)) => {
                let mut h = vec![("X-Version-Id".to_string(), v.to_string()), ("Content-Type".to_string(), SNAP_CT.to_string())];
                let mut body = b.clone();
                match hostile {
                    Some(Hostile::NoVersionHeader) => { h.remove(0); }
                    Some(Hostile::BadVersionHeader) => h[0].1 = "zzz".into(),
                    Some(Hostile::WrongContentType) => h[1].1 = "text/plain".into(),
                    Some(Hostile::CorruptBody) => { let k = body.len() / 2; body[k] ^= 0x40; }
                    Some(Hostile::TruncatedBody) => { let k = body.len() / 2; body.truncate(k); }
                    _ => {}
                }
                Resp { status: 200, headers: h, body }
            }
        },
        _ => {
            st.problems.push(format!("unexpected request {method} {path}"));
            plain(404)
        }
    }
}

impl HttpSrv {
    pub fn start() -> HttpSrv {
        let listener = TcpListener::bind("127.0.0.1:0").expect("bind");
        let port = listener.local_addr().unwrap().port();
        listener.set_nonblocking(true).unwrap();
        let state = Arc::new(Mutex::new(HState::default()));
        let stop = Arc::new(AtomicBool::new(false));
        let (st2, stop2) = (state.clone(), stop.clone());
        let thread = std::thread::spawn(move || {
            while !stop2.load(Ordering::SeqCst) {
                match listener.accept() {
                    Ok((mut s, _)) => {
                        let _ = s.set_nonblocking(false);
                        let _ = s.set_read_timeout(Some(std::time::Duration::from_secs(5)));
                        // one request per connection
                        if let Some((m, p, h, b)) = read_request(&mut s) {
                            let r = {
                                let mut st = st2.lock().unwrap();
                                handle(&mut st, &m, &p, &h, b)
                            };
                            let mut out = format!("HTTP/1.1 {} {}\r\nContent-Length: {}\r\nConnection: close\r\n", r.status, reason(r.status), r.body.len());
                            for (k, v) in &r.headers {
                                out.push_str(&format!("{k}: {v}\r\n"));
                            }
                            out.push_str("\r\n");
                            let _ = s.write_all(out.as_bytes());
                            let _ = s.write_all(&r.body);
                            let _ = s.flush();
                        }
                    }
                    Err(e) if e.kind() == std::io::ErrorKind::WouldBlock => std::thread::sleep(std::time::Duration::from_micros(300)),
                    Err(_) => break,
                }
            }
        });
        HttpSrv { port, state, stop, thread: Some(thread) }
    }
    pub fn url(&self) -> String {
        // no trailing slash: the client has to add it
        format!("http://127.0.0.1:{}/base", self.port)
    }
}

impl Drop for HttpSrv {
    fn drop(&mut self) {
        self.stop.store(true, Ordering::SeqCst);
        if let Some(t) = self.thread.take() {
            let _ = t.join();
        }
    }
}
