//! C08-C11 (object-store part): several clients of the object-store server over the gated
//! in-memory store of the verif hooks, scheduled one object-store request at a time.
use crate::synchist::CaseOut;
use crate::util::*;
use serde_json::{json, Value};
use std::collections::HashMap;
use std::task::Poll;
use taskchampion::server::verif::{set_randint, unseal, GateCmd, GateState, MemStore, SvcReq, VerifCloud};
use taskchampion::server::{AddVersionResult, GetVersionResult, Server, SnapshotUrgency};
use taskchampion::Uuid;

pub const SECRET: &[u8] = b"verif-secret";
pub const OLD: u64 = 1000;
pub const NEW: u64 = 4_000_000_000;
pub const THRESHOLD: u64 = 2_000_000; // any value between OLD and NEW and below (real now - 180 d)

#[derive(Clone, Debug)]
pub enum Call {
    Add(usize, usize), // parent (canonical), payload id
    Get(usize),
    AddSnap(usize, usize),
    GetSnap,
    Cleanup,
}

pub enum Out {
    Add(Result<(AddVersionResult, SnapshotUrgency), taskchampion::Error>),
    Get(Result<GetVersionResult, taskchampion::Error>),
    Unit(Result<(), taskchampion::Error>),
    Snap(Result<Option<(Uuid, Vec<u8>)>, taskchampion::Error>),
}

pub struct CWorld {
    pub store: MemStore,
    clients: Vec<*mut VerifCloud>,
    futs: Vec<Option<LocalFut<'static, Out>>>,
    pub calls: Vec<Option<Call>>,
    pub canon: HashMap<Uuid, usize>,
    pub ids: Vec<Uuid>, // canonical number -> uuid (index 0 = nil)
    pub salt: Vec<u8>,
    pub events: Vec<Value>,
    pub start_slots: Vec<Option<usize>>, // index into events of the CStart of the call in flight
    pub problems: Vec<String>,
    /// successive values of "latest"
    pub hist: Vec<usize>,
    pub accepted: Vec<usize>,
    /// (parent, child, payload) served to readers
    pub served: Vec<(usize, usize, usize)>,
    /// payload id submitted for each version id
    pub submitted: HashMap<usize, usize>,
    pub feats: HashMap<String, u64>,
}

impl Drop for CWorld {
    fn drop(&mut self) {
        for f in self.futs.iter_mut() {
            *f = None;
        }
        for p in self.clients.drain(..) {
            unsafe { drop(Box::from_raw(p)) };
        }
        set_randint(None);
    }
}

fn payload_bytes(k: usize) -> Vec<u8> {
    let mut v = format!("payload-{k}-").into_bytes();
    v.extend([0xffu8, 0x00, 0xfe]); // not UTF-8
    v
}
fn payload_id(b: &[u8]) -> Option<usize> {
    let s = String::from_utf8_lossy(b);
    s.strip_prefix("payload-")?.split('-').next()?.parse().ok()
}

impl CWorld {
    pub fn new(nclients: usize, page: usize) -> CWorld {
        let store = MemStore::new(nclients, page);
        set_randint(Some(255));
        let mut clients = vec![];
        for i in 0..nclients {
            let c = block_on(VerifCloud::new(store.clone(), i, SECRET.to_vec())).expect("cloud server");
            clients.push(Box::into_raw(Box::new(c)));
        }
        let salt = store.0.lock().unwrap().objects.get("salt").map(|x| x.0.clone()).expect("salt");
        {
            let mut st = store.0.lock().unwrap();
            st.gated = true;
            st.log.clear();
        }
        let mut canon = HashMap::new();
        canon.insert(Uuid::nil(), 0);
        CWorld {
            store, clients, futs: (0..nclients).map(|_| None).collect(), calls: vec![None; nclients], canon, ids: vec![Uuid::nil()],
            salt, events: vec![], start_slots: vec![None; nclients], problems: vec![], hist: vec![], accepted: vec![],
            served: vec![], submitted: HashMap::new(), feats: HashMap::new(),
        }
    }
    pub fn feat(&mut self, k: &str) {
        *self.feats.entry(k.into()).or_insert(0) += 1;
    }
    pub fn cid(&mut self, u: Uuid) -> usize {
        if let Some(k) = self.canon.get(&u) {
            return *k;
        }
        let k = self.ids.len();
        self.ids.push(u);
        self.canon.insert(u, k);
        k
    }
    fn parse_simple(&mut self, s: &str) -> Option<usize> {
        Uuid::try_parse(s).ok().map(|u| self.cid(u))
    }
    fn parse_vname(&mut self, name: &str) -> Option<(usize, usize)> {
        let rest = name.strip_prefix("v-")?;
        if rest.len() != 65 {
            return None;
        }
        let p = self.parse_simple(&rest[..32])?;
        let c = self.parse_simple(&rest[33..])?;
        Some((p, c))
    }
    pub fn in_flight(&self, i: usize) -> bool {
        self.futs[i].is_some()
    }
    pub fn pending(&self, i: usize) -> Option<SvcReq> {
        self.store.0.lock().unwrap().pending[i].clone()
    }

    fn n_(x: usize) -> Value {
        n(x as u64)
    }

    pub fn req_lit(&mut self, r: &SvcReq) -> Value {
        let pairv = |a: usize, b: usize| pair(Self::n_(a), Self::n_(b));
        match r {
            SvcReq::Get(name) if name == "latest" => c0("QGetLatest"),
            SvcReq::Cas(name, old, new) if name == "latest" => {
                let o = old.as_ref().and_then(|b| self.parse_simple(std::str::from_utf8(b).unwrap_or("")));
                let nn = self.parse_simple(std::str::from_utf8(new).unwrap_or("")).unwrap_or(9999);
                ctor("QCasLatest", vec![opt(o.map(Self::n_)), Self::n_(nn)])
            }
            SvcReq::Put(name, val) if name.starts_with("v-") => {
                let (p, c) = self.parse_vname(name).unwrap_or((9999, 9999));
                let pl = unseal(SECRET, &self.salt, self.ids.get(c).copied().unwrap_or(Uuid::nil()), val.clone()).ok().and_then(|b| payload_id(&b));
                if pl.is_none() {
                    self.problems.push(format!("a stored version object {name} does not open with its own version id"));
                }
                ctor("QPutVer", vec![Self::n_(p), Self::n_(c), Self::n_(pl.unwrap_or(9999))])
            }
            SvcReq::Get(name) if name.starts_with("v-") => {
                let (p, c) = self.parse_vname(name).unwrap_or((9999, 9999));
                ctor("QGetVer", vec![Self::n_(p), Self::n_(c)])
            }
            SvcReq::Del(name) if name.starts_with("v-") => {
                let (p, c) = self.parse_vname(name).unwrap_or((9999, 9999));
                ctor("QDelVer", vec![Self::n_(p), Self::n_(c)])
            }
            SvcReq::ListPage(prefix, after) if prefix.starts_with("v-") => {
                let parent = if prefix.len() > 2 { self.parse_simple(&prefix[2..34]) } else { None };
                let a = after.as_ref().and_then(|x| self.parse_vname(x));
                ctor("QListVer", vec![opt(parent.map(Self::n_)), opt(a.map(|(p, c)| pairv(p, c)))])
            }
            SvcReq::Put(name, val) if name.starts_with("s-") => {
                let v = self.parse_simple(&name[2..]).unwrap_or(9999);
                let pl = unseal(SECRET, &self.salt, self.ids.get(v).copied().unwrap_or(Uuid::nil()), val.clone()).ok().and_then(|b| payload_id(&b));
                ctor("QPutSnap", vec![Self::n_(v), Self::n_(pl.unwrap_or(9999))])
            }
            SvcReq::Get(name) if name.starts_with("s-") => ctor("QGetSnap", vec![Self::n_(self.parse_simple(&name[2..]).unwrap_or(9999))]),
            SvcReq::Del(name) if name.starts_with("s-") => ctor("QDelSnap", vec![Self::n_(self.parse_simple(&name[2..]).unwrap_or(9999))]),
            SvcReq::ListPage(prefix, after) if prefix == "s-" => {
                let a = after.as_ref().and_then(|x| self.parse_simple(&x[2..]));
                ctor("QListSnap", vec![opt(a.map(Self::n_))])
            }
            other => {
                self.problems.push(format!("unexpected object-store request {other:?}"));
                c0("QGetLatest")
            }
        }
    }

    pub fn start(&mut self, i: usize, call: Call) {
        assert!(self.futs[i].is_none());
        let srv: &'static mut VerifCloud = unsafe { &mut *self.clients[i] };
        let ids = self.ids.clone();
        let c2 = call.clone();
        let fut: LocalFut<'static, Out> = Box::pin(async move {
            match c2 {
                Call::Add(p, pl) => Out::Add(srv.add_version(ids[p], payload_bytes(pl)).await),
                Call::Get(p) => Out::Get(srv.get_child_version(ids[p]).await),
                Call::AddSnap(v, pl) => Out::Unit(srv.add_snapshot(ids[v], payload_bytes(1000 + pl)).await),
                Call::GetSnap => Out::Snap(srv.get_snapshot().await),
                Call::Cleanup => Out::Unit(srv.cleanup().await),
            }
        });
        self.futs[i] = Some(fut);
        self.calls[i] = Some(call.clone());
        // the CStart literal is completed later for add_version (the generated id is not known yet)
        self.start_slots[i] = Some(self.events.len());
        self.events.push(Value::Null);
        self.fill_start(i, 0);
        self.feat("calls");
        let r = self.run_to_gate(i);
        if let Some(o) = r {
            self.finished(i, o);
        }
    }

    fn fill_start(&mut self, i: usize, newid: usize) {
        let k = match self.calls[i].as_ref().unwrap() {
            Call::Add(p, pl) => ctor("KAddVersion", vec![Self::n_(*p), Self::n_(newid), Self::n_(*pl)]),
            Call::Get(p) => ctor("KGetChild", vec![Self::n_(*p)]),
            Call::AddSnap(v, pl) => ctor("KAddSnapshot", vec![Self::n_(*v), Self::n_(1000 + *pl)]),
            Call::GetSnap => c0("KGetSnapshot"),
            Call::Cleanup => c0("KCleanup"),
        };
        let slot = self.start_slots[i].unwrap();
        self.events[slot] = ctor("CStart", vec![nat(i), k]);
    }

    fn run_to_gate(&mut self, i: usize) -> Option<Out> {
        loop {
            let p = poll_once(self.futs[i].as_mut().unwrap());
            match p {
                Poll::Ready(r) => {
                    self.futs[i] = None;
                    return Some(r);
                }
                Poll::Pending => {
                    if self.store.0.lock().unwrap().gates[i] == GateState::Waiting {
                        return None;
                    }
                    std::thread::yield_now();
                }
            }
        }
    }

    /// perform (or fail) the next request of client i
    pub fn step(&mut self, i: usize, cmd: GateCmd, now: u64) {
        let req = self.pending(i).expect("pending request");
        // a Put of a version object reveals the id the server generated
        if let SvcReq::Put(name, _) = &req {
            if let Some((_, c)) = self.parse_vname(name) {
                if let Some(Call::Add(_, pl)) = self.calls[i].clone() {
                    self.fill_start(i, c);
                    self.submitted.insert(c, pl);
                }
            }
        }
        let lit = self.req_lit(&req);
        self.events.push(ctor("CExpReq", vec![nat(i), lit]));
        let before_latest = self.latest();
        {
            let mut st = self.store.0.lock().unwrap();
            st.now = now;
            st.gates[i] = GateState::Released(cmd.clone());
        }
        self.events.push(match cmd {
            GateCmd::Proceed => ctor("CStep", vec![nat(i), n(now)]),
            GateCmd::FailBefore => ctor("CFailBefore", vec![nat(i)]),
            GateCmd::FailAfter => ctor("CFailAfter", vec![nat(i), n(now)]),
        });
        self.feat("requests");
        let r = self.run_to_gate(i);
        let after_latest = self.latest();
        if after_latest != before_latest {
            if let Some(l) = after_latest {
                self.hist.push(l);
            }
        }
        match (cmd, r) {
            (GateCmd::Proceed, Some(o)) => self.finished(i, o),
            (GateCmd::Proceed, None) => {}
            (_, Some(o)) => {
                self.feat("faults");
                let is_err = match &o {
                    Out::Add(r) => r.is_err(),
                    Out::Get(r) => r.is_err(),
                    Out::Unit(r) => r.is_err(),
                    Out::Snap(r) => r.is_err(),
                };
                if !is_err {
                    self.problems.push(format!("client {i}: a call succeeded although one of its requests failed"));
                }
                self.calls[i] = None;
            }
            (_, None) => {
                self.problems.push(format!("client {i}: the call went on after a failed request"));
                self.futs[i] = None;
                self.store.0.lock().unwrap().gates[i] = GateState::Idle;
                self.calls[i] = None;
            }
        }
    }

    pub fn latest(&mut self) -> Option<usize> {
        let b = self.store.0.lock().unwrap().objects.get("latest").map(|x| x.0.clone());
        b.and_then(|b| self.parse_simple(std::str::from_utf8(&b).unwrap_or("")))
    }

    fn finished(&mut self, i: usize, o: Out) {
        let call = self.calls[i].take();
        let lit = match o {
            Out::Add(Ok((AddVersionResult::Ok(v), urg))) => {
                let c = self.cid(v);
                self.accepted.push(c);
                ctor("CAddOk", vec![Self::n_(c), b(urg == SnapshotUrgency::High)])
            }
            Out::Add(Ok((AddVersionResult::ExpectedParentVersion(v), _))) => {
                self.feat("rejections");
                ctor("CExpected", vec![Self::n_(self.cid(v))])
            }
            Out::Get(Ok(GetVersionResult::NoSuchVersion)) => c0("CNoSuchVersion"),
            Out::Get(Ok(GetVersionResult::Version { version_id, parent_version_id, history_segment })) => {
                let c = self.cid(version_id);
                let p = self.cid(parent_version_id);
                let pl = payload_id(&history_segment).unwrap_or(9999);
                if let Some(Call::Get(asked)) = call {
                    if asked != p {
                        self.problems.push(format!("get_child_version({asked}) returned a version whose parent is {p}"));
                    }
                }
                if history_segment != payload_bytes(pl) {
                    self.problems.push(format!("version {c} was returned with bytes that differ from what was submitted"));
                }
                self.served.push((p, c, pl));
                ctor("CVersion", vec![Self::n_(c), Self::n_(pl)])
            }
            Out::Unit(Ok(())) => c0("CUnit"),
            Out::Snap(Ok(None)) => ctor("CSnapshot", vec![Value::Null]),
            Out::Snap(Ok(Some((v, data)))) => {
                let pl = payload_id(&data).unwrap_or(9999);
                ctor("CSnapshot", vec![some(pair(Self::n_(self.cid(v)), Self::n_(pl)))])
            }
            Out::Add(Err(e)) | Out::Unit(Err(e)) => {
                self.problems.push(format!("client {i}: unexpected error {e:#}"));
                c0("CError")
            }
            Out::Get(Err(e)) => {
                self.problems.push(format!("client {i}: unexpected error {e:#}"));
                c0("CError")
            }
            Out::Snap(Err(e)) => {
                self.problems.push(format!("client {i}: unexpected error {e:#}"));
                c0("CError")
            }
        };
        self.events.push(ctor("CExpRes", vec![nat(i), lit]));
    }

    /// the objects now stored, as the model's literal
    pub fn store_lit(&mut self) -> Value {
        let objs: Vec<(String, Vec<u8>)> = self.store.0.lock().unwrap().objects.iter().map(|(k, v)| (k.clone(), v.0.clone())).collect();
        let mut vers = vec![];
        let mut snaps = vec![];
        for (name, val) in objs {
            if let Some((p, c)) = self.parse_vname(&name) {
                let pl = unseal(SECRET, &self.salt, self.ids[c], val).ok().and_then(|b| payload_id(&b)).unwrap_or(9999);
                vers.push(json!({"p": [{"p": [Self::n_(p), Self::n_(c)]}, Self::n_(pl)]}));
            } else if let Some(v) = name.strip_prefix("s-").and_then(|s| Uuid::try_parse(s).ok()) {
                let v = self.cid(v);
                let pl = unseal(SECRET, &self.salt, self.ids[v], val).ok().and_then(|b| payload_id(&b)).unwrap_or(9999);
                snaps.push(pair(Self::n_(v), Self::n_(pl)));
            }
        }
        let l = self.latest();
        ctor("CExpStore", vec![opt(l.map(Self::n_)), list(vers), list(snaps)])
    }

    /// the direct oracle of C09 (+ C10's audit of what must still be there)
    pub fn audit(&mut self, check_retention: bool) {
        // every accepted version is on the chain (the successive values of latest)
        for c in self.accepted.clone() {
            if !self.hist.contains(&c) {
                self.problems.push(format!("version {c} was reported accepted but never became latest"));
            }
        }
        // what readers were served is on the chain, with the submitted bytes, as child of its parent
        for (p, c, pl) in self.served.clone() {
            match self.hist.iter().position(|x| *x == c) {
                None => self.problems.push(format!("a reader was served version {c} (child of {p}), which is not on the chain {:?}", self.hist)),
                Some(k) => {
                    if k > 0 && self.hist[k - 1] != p {
                        self.problems.push(format!("version {c} was served as child of {p}, but its chain parent is {}", self.hist[k - 1]));
                    }
                }
            }
            if self.submitted.get(&c).map(|x| *x != pl).unwrap_or(false) {
                self.problems.push(format!("version {c} was served with payload {pl}, submitted {:?}", self.submitted.get(&c)));
            }
        }
        if check_retention {
            // a snapshot of a chain version is deleted only when a snapshot of a later chain version is stored
            {
                let log = self.store.0.lock().unwrap().log.clone();
                let mut present: Vec<usize> = vec![];
                for (_, r) in log.iter() {
                    match r {
                        SvcReq::Put(n, _) => {
                            if let Some(v) = n.strip_prefix("s-").and_then(|x| Uuid::try_parse(x).ok()) {
                                let c = self.cid(v);
                                if !present.contains(&c) {
                                    present.push(c);
                                }
                            }
                        }
                        SvcReq::Del(n) => {
                            if let Some(v) = n.strip_prefix("s-").and_then(|x| Uuid::try_parse(x).ok()) {
                                let c = self.cid(v);
                                present.retain(|x| *x != c);
                                if let Some(k) = self.hist.iter().position(|x| *x == c) {
                                    let newer = present.iter().any(|y| self.hist.iter().position(|x| x == y).map(|ky| ky > k).unwrap_or(false));
                                    if !newer {
                                        self.problems.push(format!("cleanup deleted the snapshot of chain version {c} although no snapshot of a later chain version was stored (chain {:?}, snapshots left {:?})", self.hist, present));
                                    }
                                }
                            }
                        }
                        _ => {}
                    }
                }
            }
            // from the newest on-chain snapshot still stored (or from the first version) everything is there
            let objs: Vec<String> = self.store.0.lock().unwrap().objects.keys().cloned().collect();
            let mut have = vec![];
            let mut snaps = vec![];
            for name in objs {
                if let Some(pc) = self.parse_vname(&name) {
                    have.push(pc);
                } else if let Some(v) = name.strip_prefix("s-").and_then(|s| Uuid::try_parse(s).ok()) {
                    snaps.push(self.cid(v));
                }
            }
            let on_chain: Vec<usize> = snaps.iter().copied().filter(|s| self.hist.contains(s)).collect();
            // every stored on-chain snapshot must still lead to latest
            let starts: Vec<usize> = if on_chain.is_empty() { vec![usize::MAX] } else { on_chain };
            for s in starts {
                let from = if s == usize::MAX { 0 } else { self.hist.iter().position(|x| *x == s).unwrap() + 1 };
                for k in from..self.hist.len() {
                    let c = self.hist[k];
                    if !have.iter().any(|(_, cc)| *cc == c) {
                        let what = if s == usize::MAX { "no snapshot is stored".to_string() } else { format!("the snapshot of version {s} is stored") };
                        // was that snapshot stored only after the version had been deleted?
                        let late = s != usize::MAX && {
                            let log = self.store.0.lock().unwrap().log.clone();
                            let sname = format!("s-{}", self.ids[s].as_simple());
                            let cname = format!("-{}", self.ids[c].as_simple());
                            let put = log.iter().rposition(|(_, r)| matches!(r, SvcReq::Put(n, _) if *n == sname));
                            let del = log.iter().position(|(_, r)| matches!(r, SvcReq::Del(n) if n.starts_with("v-") && n.ends_with(&cname)));
                            // the cleanup that deleted the version had listed the snapshots before this one was stored
                            let listed = del.and_then(|d| {
                                let who = log[d].0;
                                log[..d].iter().rposition(|(k, r)| *k == who && matches!(r, SvcReq::ListPage(p, None) if p == "s-"))
                            });
                            matches!((put, listed), (Some(p), Some(l)) if p > l)
                        };
                        let tag = if late { "[late-old-snapshot] " } else { "" };
                        self.problems.push(format!("{tag}{what}, but chain version {c} (chain {:?}) is gone", self.hist));
                        break;
                    }
                }
            }
        }
    }

    pub fn rank_lit(&self) -> Value {
        let mut order: Vec<usize> = (0..self.ids.len()).collect();
        order.sort_by_key(|k| self.ids[*k].as_simple().to_string());
        let mut rank = vec![0usize; self.ids.len()];
        for (r, k) in order.iter().enumerate() {
            rank[*k] = r;
        }
        list(rank.iter().enumerate().map(|(k, r)| pair(Self::n_(k), Self::n_(*r))).collect())
    }

    pub fn finish(mut self, seed: u64, id: usize, fam: &str, page: usize, script: Vec<Value>, check_retention: bool) -> CaseOut {
        let sl = self.store_lit();
        self.events.push(sl);
        self.audit(check_retention);
        let coq = ctor("Build_ccase", vec![self.rank_lit(), nat(page), n(THRESHOLD), list(std::mem::take(&mut self.events))]);
        let ok = self.problems.is_empty();
        let feats: serde_json::Map<String, Value> = self.feats.iter().map(|(k, v)| (k.clone(), json!(v))).collect();
        CaseOut {
            coq,
            script: json!({"family": fam, "seed": seed, "id": id, "steps": script, "chain": self.hist}),
            oracle: json!({"ok": ok, "problems": self.problems, "chain": self.hist}),
            features: Value::Object(feats),
        }
    }
}

/// mode: "race" (C09: add/get/snapshot calls of 2-4 clients interleaved), "cleanup" (C10: with
/// cleanup runs, old objects and cleanups that stop), "fault" (C11: one request fails)
/// directed three-party schedules around one parent: a writer that has uploaded its object but
/// not yet swapped, a reader of the same parent that has listed the children, and a second
/// writer that commits in between; the numbers of steps before each hand-over are random
pub fn gen_reader(seed: u64, id: usize) -> CaseOut {
    let mut rng = Rng::new(seed ^ (id as u64).wrapping_mul(0xB5297A4D3F84D5B5) ^ 0x9ead);
    let page = rng.range(1, 3);
    let mut w = CWorld::new(3, page);
    let mut script = vec![];
    let mut next_payload = 1usize;
    for _ in 0..rng.range(1, 3) {
        let parent = w.latest().unwrap_or(0);
        w.start(0, Call::Add(parent, next_payload));
        script.push(json!(format!("prefix: client 0 add_version(parent {parent}, payload {next_payload})")));
        next_payload += 1;
        while w.in_flight(0) {
            w.step(0, GateCmd::Proceed, NEW);
        }
    }
    let p = w.latest().unwrap_or(0);
    // who reads: usually the contested parent, sometimes an earlier version
    let rp = if rng.chance(80) || w.hist.len() < 2 { p } else { w.hist[rng.below(w.hist.len() - 1)] };
    let calls = [Call::Add(p, next_payload), Call::Get(rp), Call::Add(p, next_payload + 1)];
    for (i, c) in calls.iter().enumerate() {
        script.push(json!(format!("client {i} starts {:?}", c)));
        w.start(i, c.clone());
    }
    // phases: (client, number of steps; usize::MAX = to completion)
    let a = rng.range(1, 3);
    let r = rng.below(3);
    let b = if rng.chance(75) { usize::MAX } else { rng.range(1, 3) };
    let mut phases = vec![(0usize, a), (1, r), (2, b), (1, if rng.chance(70) { usize::MAX } else { rng.range(1, 2) }), (0, usize::MAX), (1, usize::MAX), (2, usize::MAX)];
    if rng.chance(25) {
        phases.swap(0, 1);
    }
    for (i, k) in phases {
        let mut done = 0;
        while w.in_flight(i) && done < k {
            let req = w.pending(i);
            script.push(json!(format!("client {i}: {:?} -> Proceed", req)));
            w.step(i, GateCmd::Proceed, NEW);
            done += 1;
        }
    }
    if w.feats.get("rejections").copied().unwrap_or(0) > 0 {
        w.feat("cases_with_rejection");
    }
    w.finish(seed, id, "cloud-reader", page, script, true)
}

/// directed: a cleanup that has read `latest` and listed some pages, a writer that then adds a
/// version and its snapshot, possibly a second cleanup running to completion, then the first
/// cleanup goes on
pub fn gen_cleanup_writer(seed: u64, id: usize) -> CaseOut {
    let mut rng = Rng::new(seed ^ (id as u64).wrapping_mul(0xC2B2AE3D27D4EB4F) ^ 0xc1ea);
    let page = rng.range(1, 4);
    let mut w = CWorld::new(3, page);
    let mut script = vec![];
    let mut next_payload = 1usize;
    for k in 0..rng.range(2, 4) {
        let parent = w.latest().unwrap_or(0);
        w.start(0, Call::Add(parent, next_payload));
        script.push(json!(format!("prefix: client 0 add_version(parent {parent}, payload {next_payload}) created long ago")));
        next_payload += 1;
        while w.in_flight(0) {
            w.step(0, GateCmd::Proceed, OLD);
        }
        if k >= 1 && rng.chance(60) {
            if let Some(l) = w.latest() {
                w.start(0, Call::AddSnap(l, l));
                script.push(json!(format!("prefix: client 0 add_snapshot({l})")));
                while w.in_flight(0) {
                    w.step(0, GateCmd::Proceed, NEW);
                }
            }
        }
    }
    let run = |w: &mut CWorld, script: &mut Vec<Value>, i: usize, k: usize| {
        let mut done = 0;
        while w.in_flight(i) && done < k {
            let req = w.pending(i);
            script.push(json!(format!("client {i}: {:?} -> Proceed", req)));
            w.step(i, GateCmd::Proceed, NEW);
            done += 1;
        }
    };
    script.push(json!("client 1 starts Cleanup"));
    w.start(1, Call::Cleanup);
    run(&mut w, &mut script, 1, rng.range(1, 4));
    let l = w.latest().unwrap_or(0);
    script.push(json!(format!("client 0 starts add_version(parent {l}), then add_snapshot of it")));
    w.start(0, Call::Add(l, next_payload));
    run(&mut w, &mut script, 0, usize::MAX);
    if let Some(nl) = w.latest() {
        if nl != l {
            w.start(0, Call::AddSnap(nl, nl));
            run(&mut w, &mut script, 0, usize::MAX);
        }
    }
    run(&mut w, &mut script, 1, rng.below(3));
    if rng.chance(60) {
        script.push(json!("client 2 starts Cleanup"));
        w.start(2, Call::Cleanup);
        run(&mut w, &mut script, 2, usize::MAX);
    }
    run(&mut w, &mut script, 1, usize::MAX);
    w.finish(seed, id, "cloud-cleanup-writer", page, script, true)
}

pub fn gen_cloud(seed: u64, id: usize, mode: &str) -> CaseOut {
    let mut rng = Rng::new(seed ^ (id as u64).wrapping_mul(0xF1357AEA2E62A9C5) ^ (mode.len() as u64) << 32);
    let n = rng.range(2, if mode == "race" { 4 } else { 3 });
    let page = rng.range(1, 3);
    let mut w = CWorld::new(n, page);
    let mut script = vec![];
    let mut next_payload = 1usize;
    // a sequential prefix builds a chain, with some old objects and some snapshots
    let pre = rng.below(if mode == "race" { 3 } else { 6 });
    for _ in 0..pre {
        let parent = w.latest().unwrap_or(0);
        let old = mode != "race" && rng.chance(60);
        w.start(0, Call::Add(parent, next_payload));
        script.push(json!(format!("prefix: client 0 add_version(parent {parent}, payload {next_payload}) created {}", if old { "long ago" } else { "now" })));
        next_payload += 1;
        while w.in_flight(0) {
            w.step(0, GateCmd::Proceed, if old { OLD } else { NEW });
        }
        if mode != "race" && rng.chance(35) {
            if let Some(l) = w.latest() {
                w.start(0, Call::AddSnap(l, l));
                script.push(json!(format!("prefix: client 0 add_snapshot({l})")));
                while w.in_flight(0) {
                    w.step(0, GateCmd::Proceed, NEW);
                }
            }
        }
    }
    // the concurrent phase
    let mut todo: Vec<Vec<Call>> = vec![];
    for i in 0..n {
        let k = rng.range(1, 3);
        let mut l = vec![];
        for _ in 0..k {
            let c = rng.below(100);
            let hist = w.hist.clone();
            let some_version = |rng: &mut Rng| if hist.is_empty() || rng.chance(25) { 0 } else { hist[rng.below(hist.len())] };
            l.push(if mode == "cleanup" && (i == 0 || c < 25) && c < 60 {
                Call::Cleanup
            } else if c < 50 {
                next_payload += 1;
                Call::Add(usize::MAX, next_payload - 1) // parent chosen when the call starts
            } else if c < 80 {
                Call::Get(some_version(&mut rng))
            } else if c < 90 && !hist.is_empty() {
                Call::AddSnap(hist[rng.below(hist.len())], 1)
            } else {
                Call::GetSnap
            });
        }
        todo.push(l);
    }
    let fault_at = if mode == "fault" { Some(rng.below(12)) } else { None };
    let stop_cleanup_after = if mode == "cleanup" && rng.chance(35) { Some(rng.below(4)) } else { None };
    let mut cleanup_dels = 0usize;
    let mut steps = 0usize;
    let mut guard = 0;
    loop {
        guard += 1;
        let busy: Vec<usize> = (0..n).filter(|i| w.in_flight(*i) || !todo[*i].is_empty()).collect();
        if busy.is_empty() || guard > 600 {
            break;
        }
        let i = busy[rng.below(busy.len())];
        if !w.in_flight(i) {
            let mut call = todo[i].remove(0);
            if let Call::Add(p, pl) = call {
                if p == usize::MAX {
                    // what this client believes is the latest version: usually right when it starts
                    let l = w.latest().unwrap_or(0);
                    let p = if rng.chance(85) { l } else if w.hist.is_empty() { 0 } else { w.hist[rng.below(w.hist.len())] };
                    call = Call::Add(p, pl);
                }
            }
            script.push(json!(format!("client {i} starts {:?}", call)));
            w.start(i, call);
            continue;
        }
        let req = w.pending(i);
        let is_cleanup = matches!(w.calls[i], Some(Call::Cleanup));
        let is_del = matches!(req, Some(SvcReq::Del(_)));
        let cmd = if fault_at == Some(steps) {
            if rng.chance(50) { GateCmd::FailBefore } else { GateCmd::FailAfter }
        } else if is_cleanup && is_del && stop_cleanup_after == Some(cleanup_dels) {
            GateCmd::FailBefore // the cleanup stops here
        } else {
            GateCmd::Proceed
        };
        if is_cleanup && is_del {
            cleanup_dels += 1;
        }
        script.push(json!(format!("client {i}: {:?} -> {:?}", req, cmd)));
        w.step(i, cmd, NEW);
        steps += 1;
    }
    if w.feats.get("rejections").copied().unwrap_or(0) > 0 {
        w.feat("cases_with_rejection");
    }
    w.finish(seed, id, &format!("cloud-{mode}"), page, script, true)
}
