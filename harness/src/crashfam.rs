//! C06: every storage call index of every replica action on the SQLite storage is a crash
//! point: the action is abandoned there, the database is read through a FRESH handle, and must
//! show the complete before-state; completed actions must show the complete after-state after
//! close and reopen; a child process is killed at random instants.
use crate::chain::{ChainState, Handle};
use crate::dbhist::{db_pools, lop_to_operation, operation_to_lop, DbGen, LOp, View};
use crate::faultstore::{FaultCtl, FaultStorage};
use crate::pools::*;
use crate::synchist::{apply_shadow, CaseOut, Tasks};
use crate::util::*;
use serde_json::{json, Value};
use std::collections::BTreeMap;
use taskchampion::server::Server;
use taskchampion::storage::{AccessMode, Storage};
use taskchampion::{Replica, SqliteStorage};

/// read everything through a fresh handle; the reads go into the trace as well
pub fn read_view(dir: &std::path::Path, ctl: &FaultCtl) -> View {
    let pools = db_pools();
    let inner = block_on(SqliteStorage::new(dir, AccessMode::ReadWrite, false)).expect("fresh handle");
    ctl.push(c0("SReopen"));
    let mut st = FaultStorage { inner, ctl: ctl.observer() };
    block_on(async {
        let mut txn = st.txn().await.expect("txn");
        let mut tasks = Tasks::new();
        for (u, tm) in txn.all_tasks().await.expect("all_tasks") {
            let mut tk = BTreeMap::new();
            for (p, v) in tm.iter() {
                tk.insert(pools.prop_index(p).expect("prop"), pools.value_index(v).expect("value"));
            }
            tasks.insert(uuid_index(u, 64).expect("uuid"), tk);
        }
        let _ = txn.base_version().await.expect("base_version");
        let unsynced = txn.unsynced_operations().await.expect("unsynced").iter().map(|o| operation_to_lop(&pools, o)).collect();
        let ws = txn.get_working_set().await.expect("ws").iter().map(|x| x.map(|u| uuid_index(u, 64).expect("uuid"))).collect();
        View { tasks, unsynced, ws }
    })
}

/// what the working handle itself shows: tasks and working set through the Replica interface
fn live_view(rep: &mut Rep, ctl: &FaultCtl) -> (Tasks, Vec<Option<usize>>) {
    ctl.arm(-1);
    let pools = db_pools();
    let mut tasks = Tasks::new();
    for (u, td) in block_on(rep.all_task_data()).expect("all_task_data") {
        let mut tk = BTreeMap::new();
        for (p, v) in td.iter() {
            tk.insert(pools.prop_index(p).expect("prop"), pools.value_index(v).expect("value"));
        }
        tasks.insert(uuid_index(u, 64).expect("uuid"), tk);
    }
    let ws = block_on(rep.working_set()).expect("working_set");
    let wsv = (0..=ws.largest_index()).map(|i| ws.by_index(i).map(|u| uuid_index(u, 64).expect("uuid"))).collect();
    (tasks, wsv)
}

#[derive(Clone, Debug)]
pub enum CAct {
    Commit(Vec<LOp>),
    Undo,
    Rebuild(bool),
    Sync,
}

fn act_json(a: &CAct) -> Value {
    match a {
        CAct::Commit(ops) => json!({"commit": ops.iter().map(crate::dbhist::lop_json).collect::<Vec<_>>()}),
        CAct::Undo => json!("undo"),
        CAct::Rebuild(r) => json!({"rebuild": r}),
        CAct::Sync => json!("sync"),
    }
}

type Rep = Replica<FaultStorage<SqliteStorage>>;

fn perform(rep: &mut Rep, srv: &mut Box<dyn Server>, a: &CAct) -> Result<(), taskchampion::Error> {
    let pools = db_pools();
    match a {
        CAct::Commit(ops) => block_on(rep.commit_operations(ops.iter().map(|o| lop_to_operation(&pools, o)).collect())),
        CAct::Undo => {
            let l = block_on(rep.get_undo_operations())?;
            block_on(rep.commit_reversed_operations(l)).map(|_| ())
        }
        CAct::Rebuild(r) => block_on(rep.rebuild_working_set(*r)),
        CAct::Sync => block_on(rep.sync(srv, false)),
    }
}

fn act_of_json(v: &Value) -> CAct {
    if v == "undo" {
        CAct::Undo
    } else if v == "sync" {
        CAct::Sync
    } else if let Some(r) = v.get("rebuild") {
        CAct::Rebuild(r.as_bool().unwrap_or(false))
    } else {
        CAct::Commit(v["commit"].as_array().expect("commit").iter().map(crate::dbhist::lop_of_json).collect())
    }
}

pub fn gen_crash(seed: u64, id: usize, maxlen: usize) -> CaseOut {
    run_crash(seed, id, maxlen, None)
}

pub fn exec_crash(script: &Value) -> CaseOut {
    let acts = script["actions"].as_array().expect("actions").iter().map(act_of_json).collect();
    run_crash(script["seed"].as_u64().unwrap_or(1), script["id"].as_u64().unwrap_or(0) as usize, 0, Some(acts))
}

fn run_crash(seed: u64, id: usize, maxlen: usize, scripted: Option<Vec<CAct>>) -> CaseOut {
    let mut rng = Rng::new(seed ^ (id as u64).wrapping_mul(0xC6A4A7935BD1E995) ^ 0x06);
    let pools = db_pools();
    let dir = work_dir(&format!("crash-{id}"));
    let ctl = FaultCtl::new();
    let open = |ctl: &FaultCtl| -> Rep {
        let st = block_on(SqliteStorage::new(&dir, AccessMode::ReadWrite, true)).expect("sqlite");
        Replica::new(FaultStorage { inner: st, ctl: ctl.clone() })
    };
    let mut rep = open(&ctl);
    let chain = ChainState::new(1);
    let mut srv: Box<dyn Server> = Box::new(Handle { id: 0, st: chain });
    let mut g = DbGen { rng: rng.fork() };
    let mut problems: Vec<String> = vec![];
    let mut script = vec![];
    let mut points = 0usize;
    let mut actions = 0usize;
    let k = match &scripted {
        Some(a) => a.len(),
        None => rng.range(2, maxlen),
    };
    for step in 0..k {
        let mut before = read_view(&dir, &ctl);
        let c = rng.below(100);
        let act = if let Some(a) = &scripted {
            a[step].clone()
        } else if c < 55 {
            CAct::Commit(g.batch(&before.tasks, &pools, 4, 0, 40))
        } else if c < 70 {
            CAct::Undo
        } else if c < 88 {
            CAct::Rebuild(rng.chance(50))
        } else {
            CAct::Sync
        };
        script.push(act_json(&act));
        // how many storage calls does the action make?  Run it once for real on a scratch copy?
        // No: run it with increasing fault indices until it completes without reaching the fault.
        let mut idx: isize = 0;
        // actions made of two transactions (undo / sync, then the working-set rebuild) may be
        // caught between the two: that state must be the complete result of the first one
        let mut intermediate: Option<(isize, View)> = None;
        loop {
            ctl.arm(idx);
            let r = perform(&mut rep, &mut srv, &act);
            let reached = ctl.count() as isize > idx;
            if !reached {
                // the action completed without reaching call idx: it is done (for real)
                if let Err(e) = r {
                    problems.push(format!("{:?} failed without an injected fault: {e:#}", act));
                }
                break;
            }
            points += 1;
            if r.is_ok() {
                // the faulted call was swallowed: only acceptable for calls whose errors are ignored
                // by design (none in these actions); the action completed
                let after = read_view(&dir, &ctl);
                let _ = after;
                break;
            }
            // abandoned at call idx: a fresh handle must see the complete before-state
            let seen = read_view(&dir, &ctl);
            // and the handle that abandoned it must not show anything else
            let (lt, lws) = live_view(&mut rep, &ctl);
            if lt != seen.tasks || lws != seen.ws {
                problems.push(format!("{:?} abandoned at storage call {idx}: the same handle then shows tasks {:?} and working set {:?}, a fresh handle shows {:?} and {:?}", act, lt, lws, seen.tasks, seen.ws));
            }
            if seen != before {
                // a sync is two transactions (sync, then working-set rebuild): after the first
                // committed, the complete after-sync state is the other legal outcome
                let mut okay = false;
                if matches!(act, CAct::Sync | CAct::Undo) && intermediate.is_none() {
                    // the first transaction committed: this must be its complete result
                    let n = seen.unsynced.len();
                    let mut t = before.tasks.clone();
                    for o in before.unsynced.iter().skip(n).rev() {
                        match o {
                            LOp::Create(u) => { t.remove(u); }
                            LOp::Delete(u, old) => { t.insert(*u, old.clone()); }
                            LOp::Update(u, p, old, _, _) => {
                                if let Some(tk) = t.get_mut(u) {
                                    match old { Some(v) => { tk.insert(*p, *v); } None => { tk.remove(p); } }
                                }
                            }
                            LOp::Undo => {}
                        }
                    }
                    let prefix_ok = n <= before.unsynced.len() && seen.unsynced[..] == before.unsynced[..n];
                    okay = match act {
                        CAct::Sync => seen.unsynced.is_empty() && seen.tasks == before.tasks && seen.ws == before.ws,
                        _ => prefix_ok && n < before.unsynced.len() && seen.tasks == t && seen.ws == before.ws,
                    };
                    if okay {
                        intermediate = Some((idx, seen.clone()));
                    }
                }
                if intermediate.is_some() && okay {
                    // only the working-set rebuild is left: finish it without faults
                    ctl.arm(-1);
                    if let Err(e) = block_on(rep.rebuild_working_set(false)) {
                        problems.push(format!("rebuild after {:?} failed: {e:#}", act));
                    }
                    // undo and sync are two transactions: caught between them the replica has the
                    // tasks and operations of the after-state with the working set of the before-state.
                    // When the rebuild changes the working set, that is neither of the two states.
                    let done = read_view(&dir, &ctl);
                    if done.ws != seen.ws {
                        problems.push(format!("[two-transaction-action] {:?} abandoned at storage call {idx}: tasks and operations are those after the action, the working set {:?} is still the one before it (after the action: {:?})", act, seen.ws, done.ws));
                    }
                    break;
                }
                if !okay {
                    problems.push(format!("{:?} abandoned at storage call {idx}: a fresh handle sees {:?}, the state before was {:?}", act, seen, before));
                }
                // continue from what is there
                before = seen;
            }
            idx += 1;
            if idx > 400 {
                problems.push(format!("{:?}: more than 400 storage calls", act));
                break;
            }
        }
        actions += 1;
        // durability: close, reopen, compare with what the live handle shows
        if rng.chance(40) {
            let live = {
                let v = read_view(&dir, &ctl);
                v
            };
            drop(rep);
            rep = open(&ctl);
            let again = read_view(&dir, &ctl);
            if live != again {
                problems.push(format!("contents changed by close and reopen: {:?} -> {:?}", live, again));
            }
        }
    }
    drop(rep);
    let _ = std::fs::remove_dir_all(&dir);
    let ok = problems.is_empty();
    CaseOut {
        coq: list(ctl.take_items()),
        script: json!({"family": "sqlite-crash", "exec": "sqlite-crash-exec", "seed": seed, "id": id, "actions": script}),
        oracle: json!({"ok": ok, "problems": problems}),
        features: json!({"actions": actions, "crash_points": points}),
    }
}

// ------------------------------------------------------------------------------------------
// process kill

/// child: commits one three-operation batch per step and reports each commit that returned
pub fn child(dir: &str, steps: usize) {
    use std::io::Write;
    let st = block_on(SqliteStorage::new(dir, AccessMode::ReadWrite, true)).expect("sqlite");
    let mut rep = Replica::new(st);
    let out = std::io::stdout();
    for k in 0..steps {
        let u = uuid_of(k);
        let ops = vec![
            taskchampion::Operation::Create { uuid: u },
            taskchampion::Operation::Update { uuid: u, property: "description".into(), value: Some(format!("task {k}")), old_value: None, timestamp: taskchampion::chrono::Utc::now() },
            taskchampion::Operation::Update { uuid: u, property: "status".into(), value: Some("pending".into()), old_value: None, timestamp: taskchampion::chrono::Utc::now() },
        ];
        block_on(rep.commit_operations(ops)).expect("commit");
        let mut o = out.lock();
        writeln!(o, "done {k}").unwrap();
        o.flush().unwrap();
    }
}

/// parent: start a child, kill it after a random delay, audit the database with a fresh handle
pub fn kill_runs(seed: u64, runs: usize) -> Value {
    use std::io::{BufRead, BufReader};
    use std::process::{Command, Stdio};
    let mut rng = Rng::new(seed ^ 0x6b111);
    let mut problems: Vec<String> = vec![];
    let mut killed_mid = 0;
    let exe = std::env::current_exe().unwrap();
    for r in 0..runs {
        let dir = work_dir(&format!("kill-{r}"));
        let mut ch = Command::new(&exe).args(["sqlite-child", "--dir", dir.to_str().unwrap(), "--count", "400"])
            .stdout(Stdio::piped()).stderr(Stdio::null()).spawn().expect("spawn child");
        let stdout = ch.stdout.take().unwrap();
        let mut reader = BufReader::new(stdout);
        // read a random number of completion reports, then kill without warning
        let want = rng.range(1, 60);
        let mut reported: isize = -1;
        let mut line = String::new();
        for _ in 0..want {
            line.clear();
            if reader.read_line(&mut line).unwrap_or(0) == 0 {
                break;
            }
            if let Some(k) = line.trim().strip_prefix("done ").and_then(|x| x.parse::<isize>().ok()) {
                reported = k;
            }
        }
        if rng.chance(50) {
            std::thread::sleep(std::time::Duration::from_micros(rng.below(3000) as u64));
        }
        let _ = ch.kill();
        let _ = ch.wait();
        // audit through a fresh handle
        let pools_free = {
            let mut st = block_on(SqliteStorage::new(&dir, AccessMode::ReadWrite, false)).expect("fresh handle");
            block_on(async {
                let mut txn = st.txn().await.expect("txn");
                let tasks = txn.all_tasks().await.expect("all_tasks");
                let ops = txn.unsynced_operations().await.expect("ops");
                let ws = txn.get_working_set().await.expect("ws");
                (tasks, ops, ws)
            })
        };
        let (tasks, ops, ws) = pools_free;
        let n = tasks.len() as isize;
        if n < reported + 1 {
            problems.push(format!("run {r}: commit {reported} had returned, but only {n} tasks are stored after the kill"));
        }
        if n > reported + 1 {
            killed_mid += 1;
        }
        for k in 0..n as usize {
            match tasks.iter().find(|(u, _)| *u == uuid_of(k)) {
                None => problems.push(format!("run {r}: task {k} is missing although {n} tasks are stored")),
                Some((_, tm)) => {
                    if tm.len() != 2 {
                        problems.push(format!("run {r}: task {k} is stored partially: {:?}", tm));
                    }
                }
            }
        }
        if ops.len() as isize != 3 * n {
            problems.push(format!("run {r}: {n} tasks but {} recorded operations", ops.len()));
        }
        if ws.iter().flatten().count() as isize != n {
            problems.push(format!("run {r}: {n} tasks but {} working-set entries", ws.iter().flatten().count()));
        }
        let _ = std::fs::remove_dir_all(&dir);
    }
    json!({"ok": problems.is_empty(), "problems": problems, "runs": runs, "kills_that_caught_a_commit_in_flight_or_unreported": killed_mid})
}
