//! Fixed pools of uuids / properties / values / timestamps and their interning to numbers.
use taskchampion::chrono::{DateTime, Utc};
use taskchampion::Uuid;

pub fn uuid_of(i: usize) -> Uuid {
    // distinct, non-nil, not in numeric order
    let x: u128 = 0x5f3a_0000_0000_4000_8000_0000_0000_0000u128
        ^ ((i as u128 + 1).wrapping_mul(0x9E37_79B9_7F4A_7C15_0000_0001u128) << 7);
    Uuid::from_u128(x)
}
pub fn uuid_index(u: Uuid, limit: usize) -> Option<usize> {
    (0..limit).find(|i| uuid_of(*i) == u)
}

pub struct Pools {
    pub props: Vec<String>,
    /// sorted bytewise, so that the index is an order-preserving interning
    pub values: Vec<String>,
}

impl Pools {
    pub fn new(props: &[&str], values: Vec<String>) -> Pools {
        let mut values = values;
        values.sort();
        values.dedup();
        Pools { props: props.iter().map(|s| s.to_string()).collect(), values }
    }
    pub fn prop_index(&self, p: &str) -> Option<usize> {
        self.props.iter().position(|x| x == p)
    }
    pub fn value_index(&self, v: &str) -> Option<usize> {
        self.values.binary_search_by(|x| x.as_str().cmp(v)).ok()
    }
}

pub fn ts_of(nanos: i64) -> DateTime<Utc> {
    DateTime::<Utc>::from_timestamp_nanos(nanos)
}
pub fn nanos_of(t: &DateTime<Utc>) -> i128 {
    (t.timestamp() as i128) * 1_000_000_000 + t.timestamp_subsec_nanos() as i128
}
