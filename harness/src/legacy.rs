//! C16: databases written under the historical SQLite schemas are opened (and thereby upgraded)
//! and must show exactly the contents that were written; a read-only handle refuses every
//! modification and leaves the contents alone.
use crate::dbhist::{db_pools, lop_to_operation, LOp};
use crate::pools::*;
use crate::util::*;
use serde_json::{json, Value};
use std::collections::BTreeMap;
use taskchampion::storage::{AccessMode, Storage, TaskMap};
use taskchampion::{Operation, SqliteStorage};

struct Content {
    tasks: BTreeMap<usize, BTreeMap<usize, usize>>,
    ops: Vec<(bool, LOp)>,
    ws: BTreeMap<usize, usize>, // id -> uuid index
    base: Option<u128>,
}

fn gen_content(rng: &mut Rng, pools: &Pools) -> Content {
    let mut tasks = BTreeMap::new();
    for u in 0..3 {
        if rng.chance(70) {
            let mut t = BTreeMap::new();
            for p in 0..3 {
                if rng.chance(50) {
                    t.insert(p, rng.below(pools.values.len()));
                }
            }
            tasks.insert(u, t);
        }
    }
    let mut ops = vec![];
    let nops = rng.below(7);
    let nsynced = rng.below(nops + 1);
    for k in 0..nops {
        let u = rng.below(3);
        let o = match rng.below(5) {
            0 => LOp::Create(u),
            1 => LOp::Delete(u, [(0usize, 1usize)].into_iter().collect()),
            2 => LOp::Undo,
            _ => LOp::Update(u, rng.below(3), None, Some(rng.below(pools.values.len())), 1_724_612_771_840_482_523),
        };
        ops.push((k < nsynced, o));
    }
    let mut ws = BTreeMap::new();
    let mut id = 1;
    for u in 0..3 {
        if rng.chance(60) {
            if rng.chance(25) {
                id += 1; // a gap
            }
            ws.insert(id, u);
            id += 1;
        }
    }
    let base = if rng.chance(60) { Some(0xabc0_0000_0000_4000_8000_0000_0000_0007u128) } else { None };
    Content { tasks, ops, ws, base }
}

fn write_db(dir: &std::path::Path, schema: &str, c: &Content, pools: &Pools) -> rusqlite::Result<()> {
    let con = rusqlite::Connection::open(dir.join("taskchampion.sqlite3"))?;
    con.query_row("PRAGMA journal_mode=WAL", [], |_| Ok(()))?;
    con.execute_batch(
        "CREATE TABLE operations (id INTEGER PRIMARY KEY AUTOINCREMENT, data STRING);
         CREATE TABLE sync_meta (key STRING PRIMARY KEY, value STRING);
         CREATE TABLE tasks (uuid STRING PRIMARY KEY, data STRING);
         CREATE TABLE working_set (id INTEGER PRIMARY KEY, uuid STRING);",
    )?;
    let has_synced = schema != "0.8";
    if has_synced {
        con.execute_batch(
            r#"ALTER TABLE operations ADD COLUMN uuid GENERATED ALWAYS AS (
                coalesce(json_extract(data, "$.Update.uuid"),
                         json_extract(data, "$.Create.uuid"),
                         json_extract(data, "$.Delete.uuid"))) VIRTUAL;
               CREATE INDEX operations_by_uuid ON operations (uuid);
               ALTER TABLE operations ADD COLUMN synced bool DEFAULT false;
               CREATE INDEX operations_by_synced ON operations (synced);"#,
        )?;
    }
    if schema == "0.1" {
        con.execute_batch(
            "CREATE TABLE version (singleton INTEGER PRIMARY KEY CHECK (singleton = 0), major INTEGER, minor INTEGER);
             INSERT INTO version (singleton, major, minor) VALUES (0, 0, 1);",
        )?;
    }
    for (u, t) in &c.tasks {
        let tm: TaskMap = t.iter().map(|(p, v)| (pools.props[*p].clone(), pools.values[*v].clone())).collect();
        con.execute("INSERT INTO tasks (uuid, data) VALUES (?, ?)", rusqlite::params![uuid_of(*u).to_string(), serde_json::to_string(&tm).unwrap()])?;
    }
    for (synced, o) in &c.ops {
        let op: Operation = lop_to_operation(pools, o);
        let data = serde_json::to_string(&op).unwrap();
        if has_synced {
            con.execute("INSERT INTO operations (data, synced) VALUES (?, ?)", rusqlite::params![data, synced])?;
        } else {
            con.execute("INSERT INTO operations (data) VALUES (?)", rusqlite::params![data])?;
        }
    }
    for (id, u) in &c.ws {
        con.execute("INSERT INTO working_set (id, uuid) VALUES (?, ?)", rusqlite::params![*id as i64, uuid_of(*u).to_string()])?;
    }
    if let Some(b) = c.base {
        con.execute("INSERT INTO sync_meta (key, value) VALUES ('base_version', ?)", rusqlite::params![taskchampion::Uuid::from_u128(b).to_string()])?;
    }
    Ok(())
}

fn read_all(st: &mut SqliteStorage, pools: &Pools) -> Result<Value, String> {
    block_on(async {
        let mut txn = st.txn().await.map_err(|e| format!("txn: {e:#}"))?;
        let mut tasks = BTreeMap::new();
        for (u, t) in txn.all_tasks().await.map_err(|e| format!("all_tasks: {e:#}"))? {
            let m: BTreeMap<usize, usize> = t.iter().map(|(p, v)| (pools.prop_index(p).unwrap(), pools.value_index(v).unwrap())).collect();
            tasks.insert(uuid_index(u, 64).unwrap(), m);
        }
        let unsynced: Vec<String> = txn.unsynced_operations().await.map_err(|e| format!("unsynced: {e:#}"))?.iter().map(|o| format!("{:?}", crate::dbhist::operation_to_lop(pools, o))).collect();
        let mut per_task = vec![];
        for u in 0..3 {
            let l: Vec<String> = txn.get_task_operations(uuid_of(u)).await.map_err(|e| format!("task ops: {e:#}"))?.iter().map(|o| format!("{:?}", crate::dbhist::operation_to_lop(pools, o))).collect();
            per_task.push(l);
        }
        let ws: Vec<Option<usize>> = txn.get_working_set().await.map_err(|e| format!("ws: {e:#}"))?.iter().map(|x| x.map(|u| uuid_index(u, 64).unwrap())).collect();
        let base = txn.base_version().await.map_err(|e| format!("base: {e:#}"))?.as_u128();
        Ok(json!({"tasks": format!("{:?}", tasks), "unsynced": unsynced, "per_task": per_task, "ws": format!("{:?}", ws), "base": base.to_string()}))
    })
}

fn expected(c: &Content, schema: &str) -> Value {
    let uns: Vec<String> = c.ops.iter().filter(|(s, _)| schema == "0.8" || !*s).map(|(_, o)| format!("{:?}", o)).collect();
    let mut per_task = vec![];
    for u in 0..3 {
        let l: Vec<String> = c
            .ops
            .iter()
            .filter(|(_, o)| match o {
                LOp::Create(x) | LOp::Delete(x, _) | LOp::Update(x, _, _, _, _) => *x == u,
                LOp::Undo => false,
            })
            .map(|(_, o)| format!("{:?}", o))
            .collect();
        per_task.push(l);
    }
    let maxid = c.ws.keys().max().copied().unwrap_or(0);
    let ws: Vec<Option<usize>> = (0..=maxid).map(|i| c.ws.get(&i).copied()).collect();
    json!({"tasks": format!("{:?}", c.tasks), "unsynced": uns, "per_task": per_task, "ws": format!("{:?}", ws),
           "base": c.base.unwrap_or(0).to_string()})
}

pub fn run(seed: u64, count: usize) -> Value {
    let pools = db_pools();
    let mut rng = Rng::new(seed ^ 0x1e6ac7);
    let mut problems = vec![];
    let mut dbs = 0;
    let mut ro_calls = 0;
    let schemas = ["0.8", "0.9", "0.1", "0.2"];
    for k in 0..count {
        let schema = schemas[k % schemas.len()];
        let c = gen_content(&mut rng, &pools);
        let dir = work_dir(&format!("legacy-{k}"));
        if schema == "0.2" {
            // the current schema: created by the library itself, filled through the library
            let mut st = block_on(SqliteStorage::new(&dir, AccessMode::ReadWrite, true)).expect("create");
            block_on(async {
                let mut txn = st.txn().await.unwrap();
                for (u, t) in &c.tasks {
                    txn.set_task(uuid_of(*u), t.iter().map(|(p, v)| (pools.props[*p].clone(), pools.values[*v].clone())).collect()).await.unwrap();
                }
                let nsynced = c.ops.iter().filter(|(s, _)| *s).count();
                for (i, (_, o)) in c.ops.iter().enumerate() {
                    if i == nsynced && nsynced > 0 {
                        // marks the earlier ones synced; tasks exist for kept uuids only
                    }
                    txn.add_operation(lop_to_operation(&pools, o)).await.unwrap();
                }
                for (_, u) in &c.ws {
                    txn.add_to_working_set(uuid_of(*u)).await.unwrap();
                }
                if let Some(b) = c.base {
                    txn.set_base_version(taskchampion::Uuid::from_u128(b)).await.unwrap();
                }
                txn.commit().await.unwrap();
            });
            drop(st);
            // expected for this variant: nothing synced, working set without gaps
            let mut c2 = Content { tasks: c.tasks.clone(), ops: c.ops.iter().map(|(_, o)| (false, o.clone())).collect(), ws: BTreeMap::new(), base: c.base };
            for (i, (_, u)) in c.ws.iter().enumerate() {
                c2.ws.insert(i + 1, *u);
            }
            check_open(&dir, &c2, "0.2", &pools, &mut problems, &mut ro_calls);
        } else {
            if let Err(e) = write_db(&dir, schema, &c, &pools) {
                problems.push(format!("harness could not write a {schema} database: {e}"));
                continue;
            }
            check_open(&dir, &c, schema, &pools, &mut problems, &mut ro_calls);
        }
        dbs += 1;
        let _ = std::fs::remove_dir_all(&dir);
    }
    json!({"ok": problems.is_empty(), "problems": problems, "databases": dbs, "schemas": schemas, "readonly_calls": ro_calls})
}

fn check_open(dir: &std::path::Path, c: &Content, schema: &str, pools: &Pools, problems: &mut Vec<String>, ro_calls: &mut usize) {
    let exp = expected(c, schema);
    // open read-write (upgrades), read, close, reopen, read again
    for round in 0..2 {
        match block_on(SqliteStorage::new(dir, AccessMode::ReadWrite, false)) {
            Err(e) => {
                problems.push(format!("schema {schema}: opening failed: {e:#}"));
                return;
            }
            Ok(mut st) => match read_all(&mut st, pools) {
                Err(e) => problems.push(format!("schema {schema}: reading failed: {e}")),
                Ok(got) => {
                    if got != exp {
                        problems.push(format!("schema {schema} (open #{round}): contents {got}, written {exp}"));
                    }
                }
            },
        }
    }
    // read-only: every mutator is refused, nothing changes
    match block_on(SqliteStorage::new(dir, AccessMode::ReadOnly, false)) {
        Err(e) => problems.push(format!("schema {schema}: read-only open failed: {e:#}")),
        Ok(mut st) => {
            let refused: Vec<(&str, bool)> = block_on(async {
                let mut txn = st.txn().await.unwrap();
                let u = uuid_of(0);
                let mut r = vec![];
                r.push(("create_task", txn.create_task(uuid_of(9)).await.is_err()));
                r.push(("set_task", txn.set_task(u, TaskMap::new()).await.is_err()));
                r.push(("delete_task", txn.delete_task(u).await.is_err()));
                r.push(("set_base_version", txn.set_base_version(taskchampion::Uuid::from_u128(5)).await.is_err()));
                r.push(("add_operation", txn.add_operation(Operation::UndoPoint).await.is_err()));
                r.push(("remove_operation", txn.remove_operation(Operation::UndoPoint).await.is_err()));
                r.push(("sync_complete", txn.sync_complete().await.is_err()));
                r.push(("add_to_working_set", txn.add_to_working_set(u).await.is_err()));
                r.push(("set_working_set_item", txn.set_working_set_item(1, None).await.is_err()));
                r.push(("clear_working_set", txn.clear_working_set().await.is_err()));
                r.push(("commit", txn.commit().await.is_err()));
                r
            });
            *ro_calls += refused.len();
            for (name, ok) in refused {
                if !ok {
                    problems.push(format!("schema {schema}: read-only storage accepted {name}"));
                }
            }
            match read_all(&mut st, pools) {
                Ok(got) if got == exp => {}
                Ok(got) => problems.push(format!("schema {schema}: contents after refused modifications {got}, expected {exp}")),
                Err(e) => problems.push(format!("schema {schema}: read-only reading failed: {e}")),
            }
        }
    }
}
