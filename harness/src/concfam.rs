//! C17: two to eight handles (threads, each with its own SqliteStorage and Replica) on one
//! database directory run scripts of commits, undos, working-set rebuilds and reads at the same
//! time.  Every storage call of every handle goes into one trace in the order in which it
//! happened; the trace and the committed actions, in commit order, are checked against the
//! models in Coq, and the database is audited through a fresh handle at the end.  In "gated"
//! mode transactions are admitted one at a time in a seeded order (every interleaving of whole
//! transactions is reachable and a case replays exactly); in "free" mode the threads contend
//! for the SQLite lock for real.  A third entry point runs the handles as separate processes.
use crate::dbhist::{db_pools, lop_json, lop_lit, lop_of_json, lop_sync, lop_to_operation, operation_to_lop, view_lit, DbGen, LOp, View};
use crate::faultstore::{FaultCtl, FaultStorage, Gate};
use crate::pools::*;
use crate::synchist::{apply_shadow, CaseOut, Tasks};
use crate::util::*;
use serde_json::{json, Value};
use std::collections::BTreeMap;
use std::sync::atomic::Ordering;
use std::sync::Arc;
use taskchampion::storage::{AccessMode, Storage};
use taskchampion::{Replica, SqliteStorage};

#[derive(Clone, Debug)]
pub enum WAct {
    Commit(Vec<LOp>),
    /// fetch the undo operations, then commit their reversal
    Undo,
    Rebuild(bool),
    Read,
}

fn wact_json(a: &WAct) -> Value {
    match a {
        WAct::Commit(ops) => json!({"commit": ops.iter().map(lop_json).collect::<Vec<_>>()}),
        WAct::Undo => json!("undo"),
        WAct::Rebuild(r) => json!({"rebuild": r}),
        WAct::Read => json!("read"),
    }
}
fn wact_of_json(v: &Value) -> WAct {
    if v == "undo" {
        WAct::Undo
    } else if v == "read" {
        WAct::Read
    } else if let Some(r) = v.get("rebuild") {
        WAct::Rebuild(r.as_bool().unwrap_or(false))
    } else {
        WAct::Commit(v["commit"].as_array().expect("commit").iter().map(lop_of_json).collect())
    }
}

/// what one replica call did: which of the handle's transactions belong to it, and what it returned
#[derive(Clone, Debug)]
enum Part {
    Commit(Vec<LOp>, bool),
    GetUndo(Option<Vec<LOp>>),
    /// list, Ok(true) = 1 / Ok(false) = 0 / Err = 2
    UndoCommit(Vec<LOp>, u8),
    Rebuild(bool, bool),
    Read(Option<View>),
}

struct CallRec {
    part: Part,
    /// the handle's transactions numbered first+1 ..= last were begun during the call
    first: usize,
    last: usize,
}

type Rep = Replica<FaultStorage<SqliteStorage>>;

fn read_through(st: &mut FaultStorage<SqliteStorage>) -> Result<View, taskchampion::Error> {
    let pools = db_pools();
    block_on(async {
        let mut txn = st.txn().await?;
        let mut tasks = Tasks::new();
        for (u, tm) in txn.all_tasks().await? {
            let mut tk = BTreeMap::new();
            for (p, v) in tm.iter() {
                tk.insert(pools.prop_index(p).expect("prop"), pools.value_index(v).expect("value"));
            }
            tasks.insert(uuid_index(u, 64).expect("uuid"), tk);
        }
        let unsynced = txn.unsynced_operations().await?.iter().map(|o| operation_to_lop(&pools, o)).collect();
        let ws = txn.get_working_set().await?.iter().map(|x| x.map(|u| uuid_index(u, 64).expect("uuid"))).collect();
        Ok(View { tasks, unsynced, ws })
    })
}

fn worker(dir: std::path::PathBuf, ctl: FaultCtl, script: Vec<WAct>, jitter: u64) -> (Vec<CallRec>, Vec<String>) {
    let pools = db_pools();
    let mut problems = vec![];
    let mut recs = vec![];
    let mut rng = Rng::new(jitter);
    let open = || block_on(SqliteStorage::new(&dir, AccessMode::ReadWrite, false));
    let mut rep: Rep = match open() {
        Ok(st) => Replica::new(FaultStorage { inner: st, ctl: ctl.clone() }),
        Err(e) => {
            problems.push(format!("handle {}: cannot open the database: {e:#}", ctl.hid));
            if let Some(g) = &ctl.gate {
                g.finish(ctl.hid);
            }
            return (recs, problems);
        }
    };
    // a second, plain storage of this handle for the reads (same trace, same handle id)
    let mut reader = match open() {
        Ok(st) => FaultStorage { inner: st, ctl: ctl.clone() },
        Err(e) => {
            problems.push(format!("handle {}: cannot open the database: {e:#}", ctl.hid));
            if let Some(g) = &ctl.gate {
                g.finish(ctl.hid);
            }
            return (recs, problems);
        }
    };
    let seq = || ctl.txn_seq.load(Ordering::SeqCst);
    for a in &script {
        if jitter != 0 && rng.chance(30) {
            std::thread::sleep(std::time::Duration::from_micros(rng.below(400) as u64));
        }
        match a {
            WAct::Commit(ops) => {
                let first = seq();
                let r = block_on(rep.commit_operations(ops.iter().map(|o| lop_to_operation(&pools, o)).collect()));
                recs.push(CallRec { part: Part::Commit(ops.clone(), r.is_ok()), first, last: seq() });
            }
            WAct::Undo => {
                let first = seq();
                let r = block_on(rep.get_undo_operations());
                let l: Option<Vec<LOp>> = r.as_ref().ok().map(|l| l.iter().map(|o| operation_to_lop(&pools, o)).collect());
                recs.push(CallRec { part: Part::GetUndo(l.clone()), first, last: seq() });
                if let Ok(ops) = r {
                    let first = seq();
                    let r2 = block_on(rep.commit_reversed_operations(ops));
                    let code = match r2 {
                        Ok(true) => 1,
                        Ok(false) => 0,
                        Err(_) => 2,
                    };
                    recs.push(CallRec { part: Part::UndoCommit(l.unwrap(), code), first, last: seq() });
                }
            }
            WAct::Rebuild(rn) => {
                let first = seq();
                let r = block_on(rep.rebuild_working_set(*rn));
                recs.push(CallRec { part: Part::Rebuild(*rn, r.is_ok()), first, last: seq() });
            }
            WAct::Read => {
                let first = seq();
                let r = read_through(&mut reader);
                recs.push(CallRec { part: Part::Read(r.ok()), first, last: seq() });
            }
        }
    }
    drop(rep);
    drop(reader);
    if let Some(g) = &ctl.gate {
        g.finish(ctl.hid);
    }
    (recs, problems)
}

pub fn gen_conc(seed: u64, id: usize, gated: bool, maxlen: usize) -> CaseOut {
    let mut rng = Rng::new(seed ^ (id as u64).wrapping_mul(0xA24BAED4963EE407) ^ if gated { 0x17 } else { 0x1700 });
    let pools = db_pools();
    let nh = if rng.chance(70) { rng.range(2, 3) } else { rng.range(4, 8) };
    let mut g = DbGen { rng: rng.fork() };
    // every handle generates against its own idea of the tasks: operations may be invalid when
    // they are applied, which the operation model covers
    let mut scripts: Vec<Vec<WAct>> = vec![];
    for _ in 0..nh {
        let mut shadow = Tasks::new();
        let k = rng.range(2, maxlen.max(2));
        let mut sc = vec![];
        for _ in 0..k {
            let c = rng.below(100);
            sc.push(if c < 55 {
                let b = g.batch(&shadow, &pools, 3, 10, 70);
                for o in &b {
                    apply_shadow(&mut shadow, &lop_sync(o));
                }
                WAct::Commit(b)
            } else if c < 70 {
                WAct::Undo
            } else if c < 85 {
                WAct::Rebuild(rng.chance(50))
            } else {
                WAct::Read
            });
        }
        scripts.push(sc);
    }
    let script = json!({"family": if gated { "sqlite-conc-gated" } else { "sqlite-conc-free" }, "exec": "sqlite-conc-exec", "seed": seed, "id": id,
        "gated": gated, "gate_seed": rng.next(),
        "concurrent": scripts.iter().map(|s| s.iter().map(wact_json).collect::<Vec<_>>()).collect::<Vec<_>>()});
    run_conc(&script)
}

pub fn exec_conc(script: &Value) -> CaseOut {
    run_conc(script)
}

fn run_conc(script: &Value) -> CaseOut {
    let pools = db_pools();
    let gated = script["gated"].as_bool().unwrap_or(true);
    let id = script["id"].as_u64().unwrap_or(0);
    let scripts: Vec<Vec<WAct>> = script["concurrent"].as_array().expect("concurrent").iter()
        .map(|s| s.as_array().expect("handle script").iter().map(wact_of_json).collect()).collect();
    let nh = scripts.len();
    let dir = work_dir(&format!("conc-{}-{id}", if gated { "g" } else { "f" }));
    // the database is created before the handles start
    drop(block_on(SqliteStorage::new(&dir, AccessMode::ReadWrite, true)).expect("create"));
    let mut base = FaultCtl::new();
    if gated {
        base.gate = Some(Arc::new(Gate::new(script["gate_seed"].as_u64().unwrap_or(1), nh)));
    }
    let mut problems: Vec<String> = vec![];
    let ctls: Vec<FaultCtl> = (0..nh).map(|h| base.handle(h)).collect();
    let results: Vec<(Vec<CallRec>, Vec<String>)> = std::thread::scope(|sc| {
        let hs: Vec<_> = scripts.iter().enumerate().map(|(h, s)| {
            let (d, c, s) = (dir.clone(), ctls[h].clone(), s.clone());
            let jitter = if gated { 0 } else { script["seed"].as_u64().unwrap_or(1) ^ (h as u64 + 1) * 7919 ^ id << 20 };
            sc.spawn(move || worker(d, c, s, jitter))
        }).collect();
        hs.into_iter().map(|h| h.join().expect("worker panicked")).collect()
    });
    for (_, p) in &results {
        problems.extend(p.iter().cloned());
    }
    let trace = base.take_tagged();

    // ---- position of every transaction end in the trace, per handle
    // ends[h][n-1] = (index in trace, committed)
    let mut ends: Vec<Vec<(usize, bool)>> = vec![vec![]; nh];
    for (i, (h, it)) in trace.iter().enumerate() {
        let name = it.get("c").and_then(|c| c.as_str()).unwrap_or("");
        if name == "SCommit" || name == "SAbandon" {
            ends[*h].push((i, name == "SCommit"));
        }
    }
    // ---- the actions in the order in which their transactions ended
    let mut placed: Vec<(usize, Value)> = vec![];
    let mut feats: BTreeMap<String, u64> = BTreeMap::new();
    let mut feat = |k: &str| *feats.entry(k.to_string()).or_insert(0) += 1;
    let mut ok_commits = 0usize;
    for (h, (recs, _)) in results.iter().enumerate() {
        for r in recs {
            let txns: Vec<(usize, bool)> = (r.first..r.last).filter_map(|n| ends[h].get(n).copied()).collect();
            let committed: Vec<usize> = txns.iter().filter(|t| t.1).map(|t| t.0).collect();
            let order_of = |pos: usize| -> Vec<usize> {
                // the all_tasks order seen in the transaction that ended at trace position pos
                let n = ends[h].iter().position(|e| e.0 == pos).unwrap() + 1;
                ctls[h].orders.lock().unwrap().iter().rev().find(|(k, _)| *k == n).map(|(_, o)| o.clone()).unwrap_or_default()
            };
            match &r.part {
                Part::Commit(ops, ok) => {
                    if *ok {
                        ok_commits += 1;
                        feat("commits_ok");
                    } else {
                        feat("commits_failed");
                    }
                    match (ok, committed.len()) {
                        (true, 1) | (false, 1) => {
                            if !ok {
                                problems.push(format!("handle {h}: a commit reported failure but its transaction was committed: {:?}", ops));
                            }
                            placed.push((committed[0], ctor("KCommit", vec![list(ops.iter().map(lop_lit).collect())])));
                        }
                        (true, 0) => problems.push(format!("handle {h}: a commit reported success but no transaction was committed: {:?}", ops)),
                        (false, 0) => {}
                        (_, k) => {
                            problems.push(format!("handle {h}: one commit_operations committed {k} transactions: {:?}", ops));
                            placed.push((committed[0], ctor("KCommit", vec![list(ops.iter().map(lop_lit).collect())])));
                        }
                    }
                }
                Part::GetUndo(l) => {
                    if let (Some(l), Some(t)) = (l, txns.last()) {
                        feat("undo_fetches");
                        placed.push((t.0, ctor("KGetUndo", vec![list(l.iter().map(lop_lit).collect())])));
                    }
                }
                Part::UndoCommit(l, code) => {
                    let ul = list(l.iter().map(lop_lit).collect());
                    if let Some(p) = committed.first() {
                        // an error after the undo transaction committed comes from the rebuild
                        let c = if *code == 0 { 0 } else { 1 };
                        feat(if c == 1 { "undos_applied" } else { "undos_of_undo_points_only" });
                        placed.push((*p, ctor("KUndo", vec![ul, n(c)])));
                        if let Some(p2) = committed.get(1) {
                            placed.push((*p2, ctor("KRebuild", vec![b(false), list(order_of(*p2).into_iter().map(|u| n(u as u64)).collect())])));
                        }
                    } else if let Some(t) = txns.first() {
                        if *code == 1 {
                            problems.push(format!("handle {h}: an undo reported success but no transaction was committed"));
                        } else if *code == 0 {
                            feat("undos_refused");
                            placed.push((t.0, ctor("KUndo", vec![ul, n(0)])));
                        }
                        // an error without a committed transaction (e.g. the lock was not obtained in
                        // time, or a stale list that no longer reverses) leaves nothing: no item
                    }
                }
                Part::Rebuild(rn, ok) => {
                    if let Some(p) = committed.first() {
                        feat("rebuilds");
                        placed.push((*p, ctor("KRebuild", vec![b(*rn), list(order_of(*p).into_iter().map(|u| n(u as u64)).collect())])));
                        if !ok {
                            problems.push(format!("handle {h}: a rebuild reported failure but its transaction was committed"));
                        }
                    } else if *ok {
                        problems.push(format!("handle {h}: a rebuild reported success but no transaction was committed"));
                    }
                }
                Part::Read(v) => {
                    if let (Some(v), Some(t)) = (v, txns.last()) {
                        feat("reads");
                        placed.push((t.0, ctor("KExpect", vec![view_lit(v)])));
                    }
                }
            }
        }
    }
    placed.sort_by_key(|p| p.0);
    // ---- audit through a fresh handle after all workers finished
    let fin = {
        let inner = block_on(SqliteStorage::new(&dir, AccessMode::ReadWrite, false)).expect("fresh handle");
        let mut st = FaultStorage { inner, ctl: FaultCtl::new() };
        read_through(&mut st).expect("final read")
    };
    let mut items: Vec<Value> = placed.into_iter().map(|p| p.1).collect();
    items.push(ctor("KExpect", vec![view_lit(&fin)]));
    // direct oracle: replaying the recorded operations in stored order gives the stored tasks;
    // the working set has no duplicates, holds every pending task and no missing one
    let mut t = Tasks::new();
    for o in &fin.unsynced {
        apply_shadow(&mut t, &lop_sync(o));
    }
    let rebuilt_or_undone = feats.get("undos_applied").copied().unwrap_or(0) + feats.get("undos_of_undo_points_only").copied().unwrap_or(0) > 0;
    if !rebuilt_or_undone && t != fin.tasks {
        problems.push(format!("replaying the {} recorded operations gives {:?}, the stored tasks are {:?}", fin.unsynced.len(), t, fin.tasks));
    }
    let mut seen = std::collections::BTreeSet::new();
    for u in fin.ws.iter().flatten() {
        if !seen.insert(*u) {
            problems.push(format!("task {u} is in the working set twice: {:?}", fin.ws));
        }
    }
    let total_ops: usize = results.iter().flat_map(|(r, _)| r.iter()).map(|r| match &r.part {
        Part::Commit(ops, true) => ops.len(),
        _ => 0,
    }).sum();
    if !rebuilt_or_undone && fin.unsynced.len() != total_ops {
        problems.push(format!("{ok_commits} commits of {total_ops} operations in all reported success, {} operations are recorded", fin.unsynced.len()));
    }
    let _ = std::fs::remove_dir_all(&dir);
    feats.insert("handles".into(), nh as u64);
    feats.insert("trace_items".into(), trace.len() as u64);
    feats.insert("transactions".into(), ends.iter().map(|e| e.len() as u64).sum());
    let st = pools.prop_index("status").unwrap();
    let pr: Vec<Value> = ["pending", "recurring"].iter().map(|v| n(pools.value_index(v).unwrap() as u64)).collect();
    let coq = ctor("Build_ccase", vec![
        n(st as u64),
        list(pr),
        list(trace.into_iter().map(|(h, it)| pair(nat(h), it)).collect()),
        list(items),
    ]);
    let ok = problems.is_empty();
    CaseOut {
        coq,
        script: script.clone(),
        oracle: json!({"ok": ok, "problems": problems}),
        features: Value::Object(feats.iter().map(|(k, v)| (k.clone(), json!(v))).collect()),
    }
}

// ------------------------------------------------------------------------------------------
// separate processes

/// child: commits `steps` batches of three operations on tasks of its own
pub fn proc_child(dir: &str, me: usize, steps: usize) {
    use std::io::Write;
    let st = block_on(SqliteStorage::new(dir, AccessMode::ReadWrite, false)).expect("sqlite");
    let mut rep = Replica::new(st);
    let out = std::io::stdout();
    for k in 0..steps {
        let u = uuid_of(me * 1000 + k);
        let ops = vec![
            taskchampion::Operation::Create { uuid: u },
            taskchampion::Operation::Update { uuid: u, property: "description".into(), value: Some(format!("task {me}/{k}")), old_value: None, timestamp: taskchampion::chrono::Utc::now() },
            taskchampion::Operation::Update { uuid: u, property: "status".into(), value: Some("pending".into()), old_value: None, timestamp: taskchampion::chrono::Utc::now() },
        ];
        let r = block_on(rep.commit_operations(ops));
        if k % 7 == 3 {
            let _ = block_on(rep.rebuild_working_set(false));
        }
        let mut o = out.lock();
        writeln!(o, "{} {k}", if r.is_ok() { "ok" } else { "err" }).unwrap();
    }
}

pub fn proc_runs(seed: u64, runs: usize) -> Value {
    use std::process::{Command, Stdio};
    let mut rng = Rng::new(seed ^ 0x9c17);
    let mut problems: Vec<String> = vec![];
    let exe = std::env::current_exe().unwrap();
    let mut commits = 0usize;
    let mut failed = 0usize;
    for r in 0..runs {
        let dir = work_dir(&format!("procs-{r}"));
        drop(block_on(SqliteStorage::new(&dir, AccessMode::ReadWrite, true)).expect("create"));
        let np = rng.range(2, 6);
        let steps = rng.range(5, 40);
        let children: Vec<_> = (0..np).map(|p| {
            Command::new(&exe).args(["sqlite-proc-child", "--dir", dir.to_str().unwrap(), "--first", &p.to_string(), "--count", &steps.to_string()])
                .stdout(Stdio::piped()).stderr(Stdio::null()).spawn().expect("spawn")
        }).collect();
        let mut okd: Vec<(usize, usize)> = vec![];
        let mut errd: Vec<(usize, usize)> = vec![];
        for (p, ch) in children.into_iter().enumerate() {
            let o = ch.wait_with_output().expect("wait");
            for l in String::from_utf8_lossy(&o.stdout).lines() {
                let mut w = l.split_whitespace();
                match (w.next(), w.next().and_then(|x| x.parse::<usize>().ok())) {
                    (Some("ok"), Some(k)) => okd.push((p, k)),
                    (Some("err"), Some(k)) => errd.push((p, k)),
                    _ => {}
                }
            }
            if !o.status.success() {
                problems.push(format!("run {r}: process {p} ended with {:?}", o.status));
            }
        }
        commits += okd.len();
        failed += errd.len();
        let (tasks, ops, ws) = {
            let mut st = block_on(SqliteStorage::new(&dir, AccessMode::ReadWrite, false)).expect("fresh handle");
            block_on(async {
                let mut txn = st.txn().await.expect("txn");
                (txn.all_tasks().await.expect("all_tasks"), txn.unsynced_operations().await.expect("ops"), txn.get_working_set().await.expect("ws"))
            })
        };
        for (p, k) in &okd {
            match tasks.iter().find(|(u, _)| *u == uuid_of(p * 1000 + k)) {
                None => problems.push(format!("run {r}: process {p} commit {k} reported success but its task is missing")),
                Some((_, tm)) => {
                    if tm.len() != 2 {
                        problems.push(format!("run {r}: process {p} commit {k} is stored partially: {:?}", tm));
                    }
                }
            }
        }
        for (p, k) in &errd {
            if tasks.iter().any(|(u, _)| *u == uuid_of(p * 1000 + k)) {
                problems.push(format!("run {r}: process {p} commit {k} reported failure but its task is stored"));
            }
        }
        if tasks.len() != okd.len() {
            problems.push(format!("run {r}: {} commits reported success, {} tasks are stored", okd.len(), tasks.len()));
        }
        if ops.len() != 3 * okd.len() {
            problems.push(format!("run {r}: {} commits reported success, {} operations are recorded (3 each expected)", okd.len(), ops.len()));
        }
        // every batch is contiguous in the stored order
        let mut i = 0;
        while i + 2 < ops.len() {
            let us: Vec<_> = ops[i..i + 3].iter().map(|o| match o {
                taskchampion::Operation::Create { uuid } => Some(*uuid),
                taskchampion::Operation::Update { uuid, .. } => Some(*uuid),
                _ => None,
            }).collect();
            if us[0] != us[1] || us[1] != us[2] || !matches!(ops[i], taskchampion::Operation::Create { .. }) {
                problems.push(format!("run {r}: the operations of different commits are interleaved at position {i}"));
                break;
            }
            i += 3;
        }
        let present: Vec<_> = ws.iter().flatten().collect();
        let mut d = present.clone();
        d.sort();
        d.dedup();
        if d.len() != present.len() {
            problems.push(format!("run {r}: the working set has duplicate entries"));
        }
        if d.len() != tasks.len() {
            problems.push(format!("run {r}: {} pending tasks, {} working-set entries", tasks.len(), d.len()));
        }
        let _ = std::fs::remove_dir_all(&dir);
    }
    json!({"ok": problems.is_empty(), "problems": problems, "runs": runs, "commits_ok": commits, "commits_failed": failed})
}
