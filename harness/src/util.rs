//! PRNG, tagged-JSON builders for Gallina literals, a spin executor.
use serde_json::{json, Value};
use std::future::Future;
use std::pin::Pin;
use std::sync::Arc;
use std::task::{Context, Poll, Wake, Waker};

/// splitmix64: every random choice of a run derives from one seed.
#[derive(Clone)]
pub struct Rng(pub u64);
impl Rng {
    pub fn new(seed: u64) -> Rng {
        Rng(seed.wrapping_mul(0x9E3779B97F4A7C15) ^ 0xD1B54A32D192ED03)
    }
    pub fn next(&mut self) -> u64 {
        self.0 = self.0.wrapping_add(0x9E3779B97F4A7C15);
        let mut z = self.0;
        z = (z ^ (z >> 30)).wrapping_mul(0xBF58476D1CE4E5B9);
        z = (z ^ (z >> 27)).wrapping_mul(0x94D049BB133111EB);
        z ^ (z >> 31)
    }
    pub fn below(&mut self, n: usize) -> usize {
        if n == 0 {
            0
        } else {
            (self.next() % n as u64) as usize
        }
    }
    pub fn range(&mut self, lo: usize, hi: usize) -> usize {
        lo + self.below(hi - lo + 1)
    }
    pub fn chance(&mut self, pct: usize) -> bool {
        self.below(100) < pct
    }
    pub fn fork(&mut self) -> Rng {
        Rng::new(self.next())
    }
}

// ---- tagged JSON -> Gallina (rendered by py/gallina.py) ----
pub fn n(x: u64) -> Value {
    json!(x)
}
pub fn nat(x: usize) -> Value {
    json!({ "nat": x })
}
pub fn z(x: i128) -> Value {
    json!({"Z": x.to_string()})
}
pub fn ctor(name: &str, args: Vec<Value>) -> Value {
    json!({"c": name, "a": args})
}
pub fn c0(name: &str) -> Value {
    json!({"c": name, "a": []})
}
pub fn pair(a: Value, b: Value) -> Value {
    json!({"p": [a, b]})
}
pub fn some(a: Value) -> Value {
    json!({ "s": a })
}
pub fn none() -> Value {
    Value::Null
}
pub fn opt(a: Option<Value>) -> Value {
    match a {
        Some(v) => some(v),
        None => none(),
    }
}
pub fn list(v: Vec<Value>) -> Value {
    Value::Array(v)
}
pub fn b(x: bool) -> Value {
    Value::Bool(x)
}
pub fn record(name: &str, fields: Vec<Value>) -> Value {
    ctor(name, fields)
}

// ---- a tiny executor ----
struct NoopWake;
impl Wake for NoopWake {
    fn wake(self: Arc<Self>) {}
}
pub fn noop_waker() -> Waker {
    Waker::from(Arc::new(NoopWake))
}

/// Poll a future to completion, yielding the OS thread while it is pending (the SQLite actor
/// thread makes progress on its own).
pub fn block_on<F: Future>(f: F) -> F::Output {
    let mut f = Box::pin(f);
    let w = noop_waker();
    let mut cx = Context::from_waker(&w);
    loop {
        match f.as_mut().poll(&mut cx) {
            Poll::Ready(v) => return v,
            Poll::Pending => std::thread::yield_now(),
        }
    }
}

pub type LocalFut<'a, T> = Pin<Box<dyn Future<Output = T> + 'a>>;

pub fn poll_once<T>(f: &mut LocalFut<'_, T>) -> Poll<T> {
    let w = noop_waker();
    let mut cx = Context::from_waker(&w);
    f.as_mut().poll(&mut cx)
}

pub fn work_dir(tag: &str) -> std::path::PathBuf {
    let base = std::env::var("TCVERIF_WORK").unwrap_or_else(|_| "/verif/work/tmp".to_string());
    let p = std::path::PathBuf::from(base).join(format!("{}-{}", tag, std::process::id()));
    let _ = std::fs::remove_dir_all(&p);
    std::fs::create_dir_all(&p).unwrap();
    p
}

thread_local! {
    /// the script of the case being run, for the report when the implementation panics
    pub static CURRENT_SCRIPT: std::cell::RefCell<Value> = std::cell::RefCell::new(Value::Null);
}

/// run one case; a panic of the implementation (or of a harness expectation about it) becomes
/// an observation attached to the script executed so far
pub fn guarded<F: FnOnce() -> crate::synchist::CaseOut>(f: F) -> crate::synchist::CaseOut {
    CURRENT_SCRIPT.with(|c| *c.borrow_mut() = Value::Null);
    let msg = std::sync::Arc::new(std::sync::Mutex::new(String::new()));
    let m2 = msg.clone();
    std::panic::set_hook(Box::new(move |info| {
        *m2.lock().unwrap() = format!("{info}");
    }));
    let r = std::panic::catch_unwind(std::panic::AssertUnwindSafe(f));
    let _ = std::panic::take_hook();
    match r {
        Ok(c) => c,
        Err(_) => {
            let script = CURRENT_SCRIPT.with(|c| c.borrow().clone());
            crate::synchist::CaseOut {
                coq: Value::Null,
                script,
                oracle: json!({"ok": false, "problems": [format!("panic while running the case: {}", msg.lock().unwrap())]}),
                features: json!({}),
            }
        }
    }
}
