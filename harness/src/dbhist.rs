//! Single-replica histories at the TaskDb level: commits of arbitrary batches (C05), undo (C07),
//! working-set rebuilds (C15), on the in-memory or the SQLite storage, observed through a
//! second handle on the same storage object.
use crate::chain::{ChainState, Handle};
use crate::pools::*;
use crate::synchist::{apply_shadow, task_lit, tasks_lit, valid_shadow, SOp, Tasks, NUUID};
use crate::util::*;
use async_trait::async_trait;
use serde_json::{json, Value};
use std::collections::BTreeMap;
use taskchampion::server::Server;
use taskchampion::storage::inmemory::InMemoryStorage;
use taskchampion::storage::{AccessMode, Storage, StorageTxn};
use taskchampion::{Operation, Replica, SqliteStorage};

pub enum AnyStorage {
    Mem(InMemoryStorage),
    Sql(SqliteStorage),
}

#[async_trait]
impl Storage for AnyStorage {
    async fn txn<'a>(&'a mut self) -> Result<Box<dyn StorageTxn + Send + 'a>, taskchampion::Error> {
        match self {
            AnyStorage::Mem(s) => s.txn().await,
            AnyStorage::Sql(s) => s.txn().await,
        }
    }
}

/// a second handle on the same storage object; the harness is single-threaded and only uses it
/// while the replica is idle
pub struct Shared(pub *mut AnyStorage);
unsafe impl Send for Shared {}
unsafe impl Sync for Shared {}
impl Shared {
    #[allow(clippy::mut_from_ref)]
    fn get(&self) -> &mut AnyStorage {
        unsafe { &mut *self.0 }
    }
}

#[async_trait]
impl Storage for Shared {
    async fn txn<'a>(&'a mut self) -> Result<Box<dyn StorageTxn + Send + 'a>, taskchampion::Error> {
        self.get().txn().await
    }
}

pub fn db_pools() -> Pools {
    Pools::new(
        &["a", "b", "status"],
        vec!["".into(), "x".into(), "y".into(), "pending".into(), "recurring".into(), "completed".into(), "deleted".into()],
    )
}

/// a local operation with indices into the pools
#[derive(Clone, Debug, PartialEq)]
pub enum LOp {
    Create(usize),
    Delete(usize, BTreeMap<usize, usize>),
    Update(usize, usize, Option<usize>, Option<usize>, i64), // u p old new t
    Undo,
}

pub fn lop_lit(o: &LOp) -> Value {
    match o {
        LOp::Create(u) => ctor("OCreate", vec![n(*u as u64)]),
        LOp::Delete(u, old) => ctor("ODelete", vec![n(*u as u64), json!({"gm": task_lit(old)})]),
        LOp::Update(u, p, old, v, t) => ctor(
            "OUpdate",
            vec![n(*u as u64), n(*p as u64), opt(old.map(|x| n(x as u64))), opt(v.map(|x| n(x as u64))), z(*t as i128)],
        ),
        LOp::Undo => c0("OUndoPoint"),
    }
}

pub fn lop_json(o: &LOp) -> Value {
    match o {
        LOp::Create(u) => json!(["create", u]),
        LOp::Delete(u, old) => json!(["delete", u, old.iter().map(|(p, v)| json!([p, v])).collect::<Vec<_>>()]),
        LOp::Update(u, p, old, v, t) => json!(["update", u, p, old, v, t]),
        LOp::Undo => json!(["undo"]),
    }
}
pub fn lop_of_json(v: &Value) -> LOp {
    let a = v.as_array().unwrap();
    let us = |x: &Value| x.as_u64().unwrap() as usize;
    match a[0].as_str().unwrap() {
        "create" => LOp::Create(us(&a[1])),
        "delete" => LOp::Delete(
            us(&a[1]),
            a[2].as_array().unwrap().iter().map(|pv| (us(&pv[0]), us(&pv[1]))).collect(),
        ),
        "update" => LOp::Update(
            us(&a[1]),
            us(&a[2]),
            a[3].as_u64().map(|x| x as usize),
            a[4].as_u64().map(|x| x as usize),
            a[5].as_i64().unwrap(),
        ),
        _ => LOp::Undo,
    }
}

pub fn lop_to_operation(pools: &Pools, o: &LOp) -> Operation {
    match o {
        LOp::Create(u) => Operation::Create { uuid: uuid_of(*u) },
        LOp::Delete(u, old) => Operation::Delete {
            uuid: uuid_of(*u),
            old_task: old.iter().map(|(p, v)| (pools.props[*p].clone(), pools.values[*v].clone())).collect(),
        },
        LOp::Update(u, p, old, v, t) => Operation::Update {
            uuid: uuid_of(*u),
            property: pools.props[*p].clone(),
            old_value: old.map(|x| pools.values[x].clone()),
            value: v.map(|x| pools.values[x].clone()),
            timestamp: ts_of(*t),
        },
        LOp::Undo => Operation::UndoPoint,
    }
}

pub fn operation_to_lop(pools: &Pools, o: &Operation) -> LOp {
    match o {
        Operation::Create { uuid } => LOp::Create(uuid_index(*uuid, 64).unwrap()),
        Operation::Delete { uuid, old_task } => LOp::Delete(
            uuid_index(*uuid, 64).unwrap(),
            old_task.iter().map(|(p, v)| (pools.prop_index(p).unwrap(), pools.value_index(v).unwrap())).collect(),
        ),
        Operation::Update { uuid, property, old_value, value, timestamp } => LOp::Update(
            uuid_index(*uuid, 64).unwrap(),
            pools.prop_index(property).unwrap(),
            old_value.as_ref().map(|v| pools.value_index(v).unwrap()),
            value.as_ref().map(|v| pools.value_index(v).unwrap()),
            nanos_of(timestamp) as i64,
        ),
        Operation::UndoPoint => LOp::Undo,
    }
}

pub fn lop_sync(o: &LOp) -> SOp {
    match o {
        LOp::Create(u) => SOp::Create(*u),
        LOp::Delete(u, _) => SOp::Delete(*u),
        LOp::Update(u, p, _, v, t) => SOp::Update(*u, *p, *v, *t),
        LOp::Undo => SOp::Undo,
    }
}

#[derive(Clone, Debug, PartialEq)]
pub struct View {
    pub tasks: Tasks,
    pub unsynced: Vec<LOp>,
    pub ws: Vec<Option<usize>>,
}

pub struct Db {
    pub pools: Pools,
    pub storage: *mut AnyStorage,
    pub rep: Option<Replica<Shared>>,
    pub dir: Option<std::path::PathBuf>,
    pub sqlite: bool,
}

impl Drop for Db {
    fn drop(&mut self) {
        self.rep = None;
        unsafe { drop(Box::from_raw(self.storage)) };
        if let Some(d) = &self.dir {
            let _ = std::fs::remove_dir_all(d);
        }
    }
}

impl Db {
    pub fn new(sqlite: bool, tag: &str) -> Db {
        let (st, dir) = if sqlite {
            let d = work_dir(tag);
            let s = block_on(SqliteStorage::new(&d, AccessMode::ReadWrite, true)).expect("sqlite open");
            (AnyStorage::Sql(s), Some(d))
        } else {
            (AnyStorage::Mem(InMemoryStorage::new()), None)
        };
        let p = Box::into_raw(Box::new(st));
        Db { pools: db_pools(), storage: p, rep: Some(Replica::new(Shared(p))), dir, sqlite }
    }

    /// close the store and open it again from disk (SQLite only)
    pub fn reopen(&mut self) {
        if !self.sqlite {
            return;
        }
        self.rep = None;
        unsafe { drop(Box::from_raw(self.storage)) };
        let d = self.dir.clone().unwrap();
        let s = block_on(SqliteStorage::new(&d, AccessMode::ReadWrite, false)).expect("sqlite reopen");
        self.storage = Box::into_raw(Box::new(AnyStorage::Sql(s)));
        self.rep = Some(Replica::new(Shared(self.storage)));
    }

    pub fn rep(&mut self) -> &mut Replica<Shared> {
        self.rep.as_mut().unwrap()
    }

    pub fn view(&mut self) -> View {
        let mut sh = Shared(self.storage);
        let pools = &self.pools;
        block_on(async {
            let mut txn = sh.txn().await.expect("txn");
            let mut tasks = Tasks::new();
            for (u, tm) in txn.all_tasks().await.expect("all_tasks") {
                let mut tk = BTreeMap::new();
                for (p, v) in tm.iter() {
                    tk.insert(pools.prop_index(p).expect("prop"), pools.value_index(v).expect("value"));
                }
                tasks.insert(uuid_index(u, 64).expect("uuid"), tk);
            }
            let unsynced = txn
                .unsynced_operations()
                .await
                .expect("unsynced")
                .iter()
                .map(|o| operation_to_lop(pools, o))
                .collect();
            let ws = txn
                .get_working_set()
                .await
                .expect("ws")
                .iter()
                .map(|x| x.map(|u| uuid_index(u, 64).expect("uuid")))
                .collect();
            View { tasks, unsynced, ws }
        })
    }
}

pub fn ws_lit(ws: &[Option<usize>]) -> Value {
    list(ws.iter().map(|x| opt(x.map(|u| n(u as u64)))).collect())
}
pub fn view_lit(v: &View) -> Value {
    ctor("Build_dview", vec![tasks_lit(&v.tasks), list(v.unsynced.iter().map(lop_lit).collect()), ws_lit(&v.ws)])
}

#[derive(Clone, Debug)]
pub enum DAct {
    Commit(Vec<LOp>),
    /// fetch the undo operations, optionally commit more in between, then commit the reversal of
    /// the fetched list (mode 0), of a list with its first element dropped (1), or of a given list (2)
    Undo { between: Vec<LOp>, mode: u8, given: Vec<LOp> },
    Rebuild(bool),
    /// a helper replica pushes these (valid) operations through the shared server, then we sync
    Sync(Vec<SOp>),
    Reopen,
}

pub fn dact_json(a: &DAct) -> Value {
    match a {
        DAct::Commit(ops) => json!({"commit": ops.iter().map(lop_json).collect::<Vec<_>>()}),
        DAct::Undo { between, mode, given } => json!({"undo": *mode,
            "between": between.iter().map(lop_json).collect::<Vec<_>>(),
            "given": given.iter().map(lop_json).collect::<Vec<_>>()}),
        DAct::Rebuild(r) => json!({"rebuild": r}),
        DAct::Sync(ops) => json!({"sync": ops.iter().map(|o| crate::synchist::action_json(&crate::synchist::Action::Commit(0, vec![o.clone()]))["ops"][0].clone()).collect::<Vec<_>>()}),
        DAct::Reopen => json!({"reopen": true}),
    }
}
pub fn dact_of_json(v: &Value) -> DAct {
    if let Some(ops) = v.get("commit") {
        DAct::Commit(ops.as_array().unwrap().iter().map(lop_of_json).collect())
    } else if let Some(m) = v.get("undo") {
        DAct::Undo {
            mode: m.as_u64().unwrap() as u8,
            between: v["between"].as_array().unwrap().iter().map(lop_of_json).collect(),
            given: v["given"].as_array().unwrap().iter().map(lop_of_json).collect(),
        }
    } else if let Some(r) = v.get("rebuild") {
        DAct::Rebuild(r.as_bool().unwrap())
    } else if let Some(ops) = v.get("sync") {
        let a = crate::synchist::action_of_json(&json!({"commit": 0, "ops": ops}));
        match a {
            crate::synchist::Action::Commit(_, o) => DAct::Sync(o),
            _ => unreachable!(),
        }
    } else {
        DAct::Reopen
    }
}

pub struct DbRunner {
    pub db: Db,
    pub helper: Replica<InMemoryStorage>,
    pub helper_srv: Box<dyn Server>,
    pub srv: Box<dyn Server>,
    pub items: Vec<Value>,
    pub script: Vec<Value>,
    pub problems: Vec<String>,
    /// tasks as they were before each currently unsynced operation was applied
    pub before: Vec<Tasks>,
    /// whether each currently unsynced operation was valid, with true old values, when committed
    pub faithful: Vec<bool>,
    pub feats: BTreeMap<String, u64>,
}

fn is_pr(pools: &Pools, v: Option<usize>) -> bool {
    v.map(|x| pools.values[x] == "pending" || pools.values[x] == "recurring").unwrap_or(false)
}

impl DbRunner {
    pub fn new(sqlite: bool, tag: &str) -> DbRunner {
        let chain = ChainState::new(2);
        DbRunner {
            db: Db::new(sqlite, tag),
            helper: Replica::new(InMemoryStorage::new()),
            helper_srv: Box::new(Handle { id: 1, st: chain.clone() }),
            srv: Box::new(Handle { id: 0, st: chain }),
            items: vec![],
            script: vec![],
            problems: vec![],
            before: vec![],
            faithful: vec![],
            feats: BTreeMap::new(),
        }
    }
    fn feat(&mut self, k: &str) {
        *self.feats.entry(k.to_string()).or_insert(0) += 1;
    }
    fn item(&mut self, name: &str, args: Vec<Value>) {
        self.items.push(ctor(name, args));
    }
    fn expect_view(&mut self) -> View {
        let v = self.db.view();
        self.item("DExpect", vec![view_lit(&v)]);
        v
    }

    fn check_ws_basic(&mut self, v: &View, what: &str) {
        // position 0 empty, every pending/recurring task exactly once and no other (after a rebuild)
        if v.ws.first() != Some(&None) {
            self.problems.push(format!("{what}: position 0 of the working set is not empty: {:?}", v.ws));
        }
        let mut seen = std::collections::BTreeSet::new();
        for x in v.ws.iter().flatten() {
            if !seen.insert(*x) {
                self.problems.push(format!("{what}: task {x} appears twice in the working set {:?}", v.ws));
            }
        }
    }

    fn commit_raw(&mut self, ops: &[LOp]) -> View {
        let before = self.db.view();
        let operations: Vec<Operation> = ops.iter().map(|o| lop_to_operation(&self.db.pools, o)).collect();
        let r = block_on(self.db.rep().commit_operations(operations));
        if let Err(e) = r {
            self.problems.push(format!("commit_operations failed: {e:#}"));
        }
        self.item("DCommit", vec![list(ops.iter().map(lop_lit).collect())]);
        let after = self.expect_view();
        // C05 oracle: one-at-a-time application, log = old log ++ batch
        let mut t = before.tasks.clone();
        for o in ops {
            self.before.push(t.clone());
            let true_old = match o {
                LOp::Update(u, p, old, _, _) => t.get(u).and_then(|tk| tk.get(p)).copied() == *old,
                LOp::Delete(u, old) => t.get(u) == Some(old),
                _ => true,
            };
            self.faithful.push(valid_shadow(&t, &lop_sync(o)) && true_old);
            apply_shadow(&mut t, &lop_sync(o));
        }
        if !ops.is_empty() {
            if after.tasks != t {
                self.problems.push(format!("commit {:?}: tasks {:?}, one-at-a-time application gives {:?}", ops, after.tasks, t));
            }
            let mut exp = before.unsynced.clone();
            exp.extend(ops.iter().cloned());
            if after.unsynced != exp {
                self.problems.push(format!("commit {:?}: unsynced operations {:?}, expected {:?}", ops, after.unsynced, exp));
            }
            // C15: a task that becomes pending is appended, nothing else moves
            let mut ws = before.ws.clone();
            for o in ops {
                if let LOp::Update(u, p, old, v, _) = o {
                    if self.db.pools.props[*p] == "status" && !is_pr(&self.db.pools, *old) && is_pr(&self.db.pools, *v) && !ws.contains(&Some(*u)) {
                        ws.push(Some(*u));
                    }
                }
            }
            if after.ws != ws {
                self.problems.push(format!("commit {:?}: working set {:?}, expected {:?} (append only)", ops, after.ws, ws));
            }
        } else {
            self.before.truncate(before.unsynced.len());
            self.faithful.truncate(before.unsynced.len());
        }
        after
    }

    pub fn perform(&mut self, a: &DAct) {
        self.script.push(dact_json(a));
        crate::util::CURRENT_SCRIPT.with(|c| *c.borrow_mut() = json!({"family": "db", "exec": "dbhist-exec", "sqlite": self.db.sqlite, "actions": self.script}));
        match a {
            DAct::Commit(ops) => {
                self.feat("commits");
                if ops.is_empty() {
                    return;
                }
                self.commit_raw(ops);
            }
            DAct::Undo { between, mode, given } => {
                self.feat("undos");
                let fetched: Vec<LOp> = block_on(self.db.rep().get_undo_operations())
                    .expect("get_undo_operations")
                    .iter()
                    .map(|o| operation_to_lop(&self.db.pools, o))
                    .collect();
                self.item("DGetUndo", vec![list(fetched.iter().map(lop_lit).collect())]);
                if !between.is_empty() {
                    self.feat("undo_stale");
                    self.commit_raw(between);
                }
                let list_used: Vec<LOp> = match mode {
                    0 => fetched.clone(),
                    1 => fetched.iter().skip(1).cloned().collect(),
                    _ => given.clone(),
                };
                let before = self.db.view();
                let operations: Vec<Operation> = list_used.iter().map(|o| lop_to_operation(&self.db.pools, o)).collect();
                let r = block_on(self.db.rep().commit_reversed_operations(operations));
                let code = match &r {
                    Ok(false) => 0,
                    Ok(true) => 1,
                    Err(_) => 2,
                };
                let after = self.db.view();
                self.item("DUndo", vec![list(list_used.iter().map(lop_lit).collect()), n(code), ws_lit(&after.ws)]);
                self.expect_view();
                // C07 oracle
                let nl = before.unsynced.len();
                let is_tail = !list_used.is_empty() && list_used.len() <= nl && before.unsynced[nl - list_used.len()..] == list_used[..];
                let has_change = list_used.iter().any(|o| *o != LOp::Undo);
                if is_tail {
                    self.feat("undo_tail");
                    let k = nl - list_used.len();
                    // faithful lists restore the earlier content exactly
                    let faithful = self.before.len() == nl && self.faithful.len() == nl && self.faithful[k..].iter().all(|x| *x);
                    if faithful {
                        self.feat("undo_faithful");
                    }
                    if r.is_ok() {
                        if faithful && after.tasks != self.before[k] {
                            self.problems.push(format!("undo of {:?}: tasks {:?}, earlier content was {:?}", list_used, after.tasks, self.before[k]));
                        }
                        if after.unsynced != before.unsynced[..k] {
                            self.problems.push(format!("undo of {:?}: unsynced operations {:?}, expected {:?}", list_used, after.unsynced, &before.unsynced[..k]));
                        }
                        if has_change && r.as_ref().ok() != Some(&true) {
                            self.problems.push(format!("undo of {:?} reported failure", list_used));
                        }
                        self.before.truncate(k);
                        self.faithful.truncate(k);
                        if !faithful && has_change {
                            // the reversal used old values that were not true: the tasks are no longer
                            // what the recorded earlier contents say, so exact restoration cannot be
                            // expected of the remaining operations either (until the next sync)
                            for x in self.faithful.iter_mut() {
                                *x = false;
                            }
                        }
                    } else if after.tasks != before.tasks || after.unsynced != before.unsynced {
                        self.problems.push(format!("undo of {:?} failed with an error but changed the replica", list_used));
                    }
                } else {
                    self.feat("undo_not_tail");
                    if r.as_ref().ok() != Some(&false) {
                        self.problems.push(format!("undo of {:?}, which are not the most recent unsynced operations {:?}, returned {:?}", list_used, before.unsynced, r.as_ref().ok()));
                    }
                    if after != before {
                        self.problems.push(format!("refused undo of {:?} changed the replica", list_used));
                    }
                }
            }
            DAct::Rebuild(renumber) => {
                self.feat(if *renumber { "rebuild_renumber" } else { "rebuild_keep" });
                let before = self.db.view();
                if before.ws[1..].iter().any(|x| x.is_none()) {
                    self.feat("rebuild_from_gaps");
                }
                if before.ws.iter().flatten().any(|u| !before.tasks.contains_key(u)) {
                    self.feat("rebuild_from_missing_task");
                }
                let r = block_on(self.db.rep().rebuild_working_set(*renumber));
                if let Err(e) = r {
                    self.problems.push(format!("rebuild_working_set failed: {e:#}"));
                }
                let after = self.db.view();
                self.item("DRebuild", vec![b(*renumber), ws_lit(&after.ws)]);
                self.expect_view();
                self.check_rebuild(&before, &after, *renumber, "rebuild");
            }
            DAct::Sync(remote) => {
                self.feat("syncs");
                if !remote.is_empty() {
                    // the helper first catches up, then applies what is valid for it, then pushes
                    block_on(self.helper.sync(&mut self.helper_srv, false)).expect("helper sync");
                    let all = block_on(self.helper.all_task_data()).unwrap();
                    let mut cur = Tasks::new();
                    for (u, td) in all {
                        let mut tk = BTreeMap::new();
                        for (p, v) in td.iter() {
                            tk.insert(self.db.pools.prop_index(p).unwrap(), self.db.pools.value_index(v).unwrap());
                        }
                        cur.insert(uuid_index(u, 64).unwrap(), tk);
                    }
                    let mut ops = vec![];
                    for o in remote {
                        if valid_shadow(&cur, o) && *o != SOp::Undo {
                            let old = match o {
                                SOp::Update(u, p, _, _) => cur.get(u).and_then(|t| t.get(p)).copied(),
                                _ => None,
                            };
                            let l = match o {
                                SOp::Create(u) => LOp::Create(*u),
                                SOp::Delete(u) => LOp::Delete(*u, cur.get(u).cloned().unwrap_or_default()),
                                SOp::Update(u, p, v, t) => LOp::Update(*u, *p, old, *v, *t),
                                SOp::Undo => LOp::Undo,
                            };
                            apply_shadow(&mut cur, o);
                            ops.push(lop_to_operation(&self.db.pools, &l));
                        }
                    }
                    if !ops.is_empty() {
                        self.feat("remote_changes");
                        block_on(self.helper.commit_operations(ops)).unwrap();
                        block_on(self.helper.sync(&mut self.helper_srv, false)).expect("helper sync");
                    }
                }
                let before = self.db.view();
                let r = block_on(self.db.rep.as_mut().unwrap().sync(&mut self.srv, false));
                if let Err(e) = r {
                    self.problems.push(format!("sync failed: {e:#}"));
                }
                let after = self.db.view();
                self.item("DSync", vec![tasks_lit(&after.tasks), ws_lit(&after.ws)]);
                self.expect_view();
                self.before.clear();
                self.faithful.clear();
                if !after.unsynced.is_empty() {
                    self.problems.push(format!("unsynced operations left after a sync: {:?}", after.unsynced));
                }
                // Replica::sync rebuilds the working set without renumbering
                let mid = View { tasks: after.tasks.clone(), unsynced: vec![], ws: before.ws.clone() };
                self.check_rebuild(&mid, &after, false, "rebuild after sync");
            }
            DAct::Reopen => {
                if self.db.sqlite {
                    self.feat("reopens");
                    let before = self.db.view();
                    self.db.reopen();
                    let after = self.expect_view();
                    if before != after {
                        self.problems.push(format!("contents changed by closing and reopening: {:?} -> {:?}", before, after));
                    }
                }
            }
        }
    }

    /// the clauses of C15 evaluated directly
    fn check_rebuild(&mut self, before: &View, after: &View, renumber: bool, what: &str) {
        self.check_ws_basic(after, what);
        let pools = &self.db.pools;
        let st = pools.prop_index("status").unwrap();
        let want: std::collections::BTreeSet<usize> = after
            .tasks
            .iter()
            .filter(|(_, tk)| is_pr(pools, tk.get(&st).copied()))
            .map(|(u, _)| *u)
            .collect();
        let got: std::collections::BTreeSet<usize> = after.ws.iter().flatten().copied().collect();
        if want != got {
            self.problems.push(format!("{what}: working set {:?} but the pending/recurring tasks are {:?}", after.ws, want));
            return;
        }
        let pos = |ws: &[Option<usize>], u: usize| ws.iter().position(|x| *x == Some(u));
        let survivors: Vec<usize> = before.ws.iter().flatten().copied().filter(|u| want.contains(u)).collect();
        let newcomers: Vec<usize> = want.iter().copied().filter(|u| !survivors.contains(u)).collect();
        if !renumber {
            for u in &survivors {
                if pos(&before.ws, *u) != pos(&after.ws, *u) {
                    self.problems.push(format!("{what} without renumbering: task {u} moved from {:?} to {:?} ({:?} -> {:?})",
                        pos(&before.ws, *u), pos(&after.ws, *u), before.ws, after.ws));
                }
            }
            let max_used = survivors.iter().filter_map(|u| pos(&before.ws, *u)).max().unwrap_or(0);
            for u in &newcomers {
                if pos(&after.ws, *u).unwrap() <= max_used {
                    self.problems.push(format!("{what} without renumbering: newcomer {u} got number {:?}, not after the numbers in use (max {max_used}): {:?} -> {:?}",
                        pos(&after.ws, *u), before.ws, after.ws));
                }
            }
        } else {
            let nn = want.len();
            if after.ws.len() != nn + 1 || after.ws[1..].iter().any(|x| x.is_none()) {
                self.problems.push(format!("{what} with renumbering: tasks do not occupy 1..{nn}: {:?} -> {:?}", before.ws, after.ws));
            }
            let order_after: Vec<usize> = after.ws.iter().flatten().copied().filter(|u| survivors.contains(u)).collect();
            if order_after != survivors {
                self.problems.push(format!("{what} with renumbering: relative order of remaining tasks changed: {:?} -> {:?}", before.ws, after.ws));
            }
            let max_surv = survivors.iter().filter_map(|u| pos(&after.ws, *u)).max().unwrap_or(0);
            for u in &newcomers {
                if pos(&after.ws, *u).unwrap() <= max_surv {
                    self.problems.push(format!("{what} with renumbering: newcomer {u} placed before a remaining task: {:?} -> {:?}", before.ws, after.ws));
                }
            }
        }
    }

    pub fn finish(mut self, seed: u64, id: usize, fam: &str) -> crate::synchist::CaseOut {
        let pools = &self.db.pools;
        let st = pools.prop_index("status").unwrap();
        let pr: Vec<Value> = pools
            .values
            .iter()
            .enumerate()
            .filter(|(_, v)| *v == "pending" || *v == "recurring")
            .map(|(i, _)| n(i as u64))
            .collect();
        let coq = ctor("Build_dcase", vec![n(st as u64), list(pr), list(std::mem::take(&mut self.items))]);
        let ok = self.problems.is_empty();
        let feats: serde_json::Map<String, Value> = self.feats.iter().map(|(k, v)| (k.clone(), json!(v))).collect();
        crate::synchist::CaseOut {
            coq,
            script: json!({"family": fam, "exec": "dbhist-exec", "sqlite": self.db.sqlite, "seed": seed, "id": id, "actions": self.script}),
            oracle: json!({"ok": ok, "problems": self.problems}),
            features: Value::Object(feats),
        }
    }
}

// ------------------------------------------------------------------------------------------
// generators

pub struct DbGen {
    pub rng: Rng,
}

impl DbGen {
    fn value(&mut self, p: usize, pools: &Pools) -> Option<usize> {
        if self.rng.chance(12) {
            return None;
        }
        if pools.props[p] == "status" {
            let names = ["pending", "recurring", "completed", "deleted", "x"];
            pools.value_index(names[self.rng.below(names.len())])
        } else {
            Some(self.rng.below(3))
        }
    }

    /// a batch; `invalid_pct` of the operations ignore validity (missing tasks, double creates)
    pub fn batch(&mut self, cur: &Tasks, pools: &Pools, max: usize, invalid_pct: usize, status_bias: usize) -> Vec<LOp> {
        self.batch_n(cur, pools, max, invalid_pct, status_bias, 3)
    }

    /// the same over the first `nu` uuids
    pub fn batch_n(&mut self, cur: &Tasks, pools: &Pools, max: usize, invalid_pct: usize, status_bias: usize, nu: usize) -> Vec<LOp> {
        let mut t = cur.clone();
        let mut out = vec![];
        let k = self.rng.range(1, max);
        for _ in 0..k {
            let u = self.rng.below(NUUID.min(nu));
            let wild = self.rng.chance(invalid_pct);
            let kind = self.rng.below(10);
            let o = if (!t.contains_key(&u) && !wild) || (wild && kind < 2) {
                LOp::Create(u)
            } else if kind < 2 || (wild && kind < 4) {
                LOp::Delete(u, t.get(&u).cloned().unwrap_or_default())
            } else if kind == 9 {
                LOp::Undo
            } else {
                let p = if self.rng.chance(status_bias) { pools.prop_index("status").unwrap() } else { self.rng.below(3) };
                let v = self.value(p, pools);
                let mut old = t.get(&u).and_then(|tk| tk.get(&p)).copied();
                if wild && self.rng.chance(60) {
                    // a recorded old value that is not what is stored (a stale handle): the same as
                    // the new value, or anything
                    old = if self.rng.chance(60) { v } else { self.value(p, pools) };
                }
                LOp::Update(u, p, old, v, 1_000_000_000 * (1 + self.rng.below(4) as i64))
            };
            apply_shadow(&mut t, &lop_sync(&o));
            out.push(o);
        }
        out
    }
}

pub fn gen_db(seed: u64, id: usize, sqlite: bool, focus: &str, maxlen: usize) -> crate::synchist::CaseOut {
    let mut rng = Rng::new(seed ^ (id as u64).wrapping_mul(0xD6E8FEB86659FD93) ^ (focus.len() as u64) << 40 ^ if sqlite { 0x51 } else { 0 });
    let mut r = DbRunner::new(sqlite, &format!("db-{focus}-{id}"));
    let mut g = DbGen { rng: rng.fork() };
    let k = rng.range(3, maxlen);
    let (invalid_pct, status_bias) = match focus {
        "commit" => (25, 25),
        "undo" => (0, 25),
        _ => (5, 60),
    };
    if focus == "ws" && rng.chance(80) {
        // start from several pending tasks, so that working sets with inner entries occur
        let pools = db_pools();
        let st = pools.prop_index("status").unwrap();
        let n0 = rng.range(2, 5);
        let mut ops = vec![];
        for u in 0..n0 {
            ops.push(LOp::Create(u));
            ops.push(LOp::Update(u, st, None, pools.value_index(if rng.chance(80) { "pending" } else { "recurring" }), 1_000_000_000));
        }
        r.perform(&DAct::Commit(ops));
    }
    for _ in 0..k {
        let c = rng.below(100);
        let cur = r.db.view().tasks;
        let pools = db_pools();
        let act = match focus {
            "commit" => {
                if c < 80 {
                    DAct::Commit(g.batch(&cur, &pools, 5, invalid_pct, status_bias))
                } else if c < 88 {
                    DAct::Sync(vec![])
                } else if c < 94 {
                    DAct::Rebuild(rng.chance(50))
                } else {
                    DAct::Reopen
                }
            }
            "undo" => {
                if c < 50 {
                    DAct::Commit(g.batch(&cur, &pools, 4, 0, status_bias))
                } else if c < 85 {
                    let m = rng.below(100);
                    if m < 65 {
                        DAct::Undo { between: vec![], mode: 0, given: vec![] }
                    } else if m < 80 {
                        DAct::Undo { between: g.batch(&cur, &pools, 2, 0, 10), mode: 0, given: vec![] }
                    } else if m < 90 {
                        DAct::Undo { between: vec![], mode: 1, given: vec![] }
                    } else {
                        DAct::Undo { between: vec![], mode: 2, given: g.batch(&cur, &pools, 2, 0, 10) }
                    }
                } else if c < 93 {
                    DAct::Sync(if rng.chance(40) { g.batch(&cur, &pools, 2, 0, 30).iter().map(lop_sync).collect() } else { vec![] })
                } else {
                    DAct::Reopen
                }
            }
            _ => {
                let view = r.db.view();
                let inner: Vec<usize> = view.ws.iter().take(view.ws.len().saturating_sub(1)).flatten().copied().collect();
                if c < 14 && !inner.is_empty() {
                    // take a task that is not the last entry out of the working set: completed, or
                    // deleted outright, so that the next rebuild starts from a gap or a dangling entry
                    let u = inner[rng.below(inner.len())];
                    let st = pools.prop_index("status").unwrap();
                    if rng.chance(60) {
                        DAct::Commit(vec![LOp::Update(u, st, view.tasks.get(&u).and_then(|t| t.get(&st)).copied(), pools.value_index("completed"), 5_000_000_000)])
                    } else {
                        DAct::Commit(vec![LOp::Delete(u, view.tasks.get(&u).cloned().unwrap_or_default())])
                    }
                } else if c < 45 {
                    DAct::Commit(g.batch_n(&cur, &pools, 3, invalid_pct, status_bias, 5))
                } else if c < 75 {
                    DAct::Rebuild(rng.chance(45))
                } else if c < 85 {
                    DAct::Undo { between: vec![], mode: 0, given: vec![] }
                } else if c < 96 {
                    DAct::Sync(if rng.chance(70) { g.batch(&cur, &pools, 3, 0, 50).iter().map(lop_sync).collect() } else { vec![] })
                } else {
                    DAct::Reopen
                }
            }
        };
        r.perform(&act);
    }
    r.finish(seed, id, focus)
}

pub fn exec_db(script: &Value) -> crate::synchist::CaseOut {
    let sqlite = script["sqlite"].as_bool().unwrap_or(false);
    let mut r = DbRunner::new(sqlite, "db-exec");
    for a in script["actions"].as_array().unwrap() {
        r.perform(&dact_of_json(a));
    }
    r.finish(script["seed"].as_u64().unwrap_or(0), script["id"].as_u64().unwrap_or(0) as usize, script["family"].as_str().unwrap_or("db"))
}
