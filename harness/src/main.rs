mod backendfam;
mod chain;
mod concfam;
mod crashfam;
mod faultstore;
mod httpsrv;
mod cloudfam;
mod cryptofam;
mod dbhist;
mod docver;
mod legacy;
mod storagefam;
mod taskfam;
mod pools;
mod synchist;
mod util;

use serde_json::{json, Value};
use std::io::Write;

fn arg(args: &[String], name: &str) -> Option<String> {
    args.iter().position(|a| a == name).and_then(|i| args.get(i + 1).cloned())
}

fn emit(out: &mut dyn Write, c: synchist::CaseOut) {
    let v = json!({"coq": c.coq, "script": c.script, "oracle": c.oracle, "features": c.features});
    writeln!(out, "{}", v).unwrap();
}

struct StderrLog;
impl log::Log for StderrLog {
    fn enabled(&self, _: &log::Metadata) -> bool {
        true
    }
    fn log(&self, r: &log::Record) {
        eprintln!("[{}] {}", r.level(), r.args());
    }
    fn flush(&self) {}
}
static LOGGER: StderrLog = StderrLog;

fn main() {
    // the HTTP backend talks to 127.0.0.1 only: no proxy from the environment
    for v in ["http_proxy", "HTTP_PROXY", "https_proxy", "HTTPS_PROXY", "all_proxy", "ALL_PROXY"] {
        std::env::remove_var(v);
    }
    std::env::set_var("NO_PROXY", "127.0.0.1,localhost");
    // git-backed servers are created below the work directory, which may itself lie inside a git
    // repository: stop git from discovering that one
    let base = std::env::var("TCVERIF_WORK").unwrap_or_else(|_| "/verif/work/tmp".to_string());
    std::env::set_var("GIT_CEILING_DIRECTORIES", &base);
    std::env::set_var("GIT_CONFIG_NOSYSTEM", "1");
    if std::env::var("TCVERIF_LOG").is_ok() {
        log::set_logger(&LOGGER).unwrap();
        log::set_max_level(log::LevelFilter::Trace);
    }
    let args: Vec<String> = std::env::args().collect();
    let fam = args.get(1).cloned().unwrap_or_default();
    let seed: u64 = arg(&args, "--seed").and_then(|s| s.parse().ok()).unwrap_or(0);
    let count: usize = arg(&args, "--count").and_then(|s| s.parse().ok()).unwrap_or(10);
    let first: usize = arg(&args, "--first").and_then(|s| s.parse().ok()).unwrap_or(0);
    let maxlen: usize = arg(&args, "--maxlen").and_then(|s| s.parse().ok()).unwrap_or(12);
    let out_path = arg(&args, "--out");
    let mut out: Box<dyn Write> = match out_path {
        Some(p) => Box::new(std::io::BufWriter::new(std::fs::File::create(p).unwrap())),
        None => Box::new(std::io::stdout()),
    };
    // a panic inside a case is an observation, not a crash of the harness
    match fam.as_str() {
        "synchist-seq" => {
            for id in first..first + count {
                emit(&mut out, util::guarded(|| synchist::gen_seq(seed, id, maxlen)));
            }
        }
        "synchist-sched" => {
            for id in first..first + count {
                emit(&mut out, util::guarded(|| synchist::gen_sched(seed, id, maxlen)));
            }
        }
        "synchist-snap" => {
            for id in first..first + count {
                emit(&mut out, util::guarded(|| synchist::gen_snap(seed, id, maxlen)));
            }
        }
        "synchist-wire" => {
            for id in first..first + count {
                emit(&mut out, util::guarded(|| synchist::gen_wire(seed, id, maxlen)));
            }
        }
        "synchist-fault" => {
            for id in first..first + count {
                emit(&mut out, util::guarded(|| synchist::gen_fault(seed, id, maxlen)));
            }
        }
        "orders" => {
            for id in first..first + count {
                emit(&mut out, util::guarded(|| synchist::gen_orders(seed, id)));
            }
        }
        "orders-exec" => {
            let p = arg(&args, "--script").expect("--script");
            let s: Value = serde_json::from_str(&std::fs::read_to_string(p).unwrap()).unwrap();
            emit(&mut out, util::guarded(|| synchist::run_orders(&s)));
        }
        "db-commit" | "db-undo" | "db-ws" => {
            let sqlite = args.iter().any(|a| a == "--sqlite");
            let focus = &fam[3..];
            for id in first..first + count {
                // every other case runs on SQLite when asked for "both"
                let sq = sqlite || (args.iter().any(|a| a == "--both") && id % 2 == 1);
                emit(&mut out, util::guarded(|| dbhist::gen_db(seed, id, sq, focus, maxlen)));
            }
        }
        "dbhist-exec" => {
            let p = arg(&args, "--script").expect("--script");
            let s: Value = serde_json::from_str(&std::fs::read_to_string(p).unwrap()).unwrap();
            emit(&mut out, util::guarded(|| dbhist::exec_db(&s)));
        }
        "storage" => {
            for id in first..first + count {
                emit(&mut out, util::guarded(|| storagefam::gen_storage(seed, id, maxlen)));
            }
        }
        "task-read" => {
            for id in first..first + count {
                emit(&mut out, util::guarded(|| taskfam::gen_read(seed, id)));
            }
        }
        "cloud-cleanup-writer" => {
            for id in first..first + count {
                emit(&mut out, util::guarded(|| cloudfam::gen_cleanup_writer(seed, id)));
            }
        }
        "cloud-reader" => {
            for id in first..first + count {
                emit(&mut out, util::guarded(|| cloudfam::gen_reader(seed, id)));
            }
        }
        "cloud-race" | "cloud-cleanup" | "cloud-fault" => {
            let mode = fam[6..].to_string();
            for id in first..first + count {
                emit(&mut out, util::guarded(|| cloudfam::gen_cloud(seed, id, &mode)));
            }
        }
        "backend" => {
            let kind = arg(&args, "--kind").unwrap_or_else(|| "local".into());
            let faults = args.iter().any(|a| a == "--faults");
            let big = args.iter().any(|a| a == "--big");
            for id in first..first + count {
                emit(&mut out, util::guarded(|| backendfam::gen_backend(seed, id, &kind, faults, big)));
            }
        }
        "task-mut" => {
            for id in first..first + count {
                emit(&mut out, util::guarded(|| taskfam::gen_mut(seed, id)));
            }
        }
        "task-depmap" => {
            for id in first..first + count {
                emit(&mut out, util::guarded(|| taskfam::gen_depmap(seed, id)));
            }
        }
        "task-expire" => {
            for id in first..first + count {
                emit(&mut out, util::guarded(|| taskfam::gen_expire(seed, id)));
            }
        }
        "crypto" => {
            // --model-sealed file: lines "vidhex payloadhex sealedhex" produced by the Coq model
            let ms: Vec<(String, String, String)> = arg(&args, "--model-sealed")
                .map(|p| std::fs::read_to_string(p).unwrap().lines().filter_map(|l| {
                    let f: Vec<&str> = l.split_whitespace().collect();
                    if f.len() == 3 { Some((f[0].to_string(), f[1].to_string(), f[2].to_string())) } else { None }
                }).collect())
                .unwrap_or_default();
            writeln!(out, "{}", cryptofam::run(seed, count, &ms)).unwrap();
        }
        "sqlite-crash" => {
            for id in first..first + count {
                emit(&mut out, util::guarded(|| crashfam::gen_crash(seed, id, maxlen)));
            }
        }
        "sqlite-crash-exec" => {
            let p = arg(&args, "--script").expect("--script");
            let s: Value = serde_json::from_str(&std::fs::read_to_string(p).unwrap()).unwrap();
            emit(&mut out, util::guarded(|| crashfam::exec_crash(&s)));
        }
        "sqlite-conc-gated" | "sqlite-conc-free" => {
            for id in first..first + count {
                emit(&mut out, util::guarded(|| concfam::gen_conc(seed, id, fam == "sqlite-conc-gated", maxlen)));
            }
        }
        "sqlite-conc-exec" => {
            let p = arg(&args, "--script").expect("--script");
            let s: Value = serde_json::from_str(&std::fs::read_to_string(p).unwrap()).unwrap();
            emit(&mut out, util::guarded(|| concfam::exec_conc(&s)));
        }
        "sqlite-proc-child" => {
            concfam::proc_child(&arg(&args, "--dir").expect("--dir"), first, count);
        }
        "sqlite-procs" => {
            writeln!(out, "{}", concfam::proc_runs(seed, count)).unwrap();
        }
        "sqlite-child" => {
            crashfam::child(&arg(&args, "--dir").expect("--dir"), count);
        }
        "sqlite-kill" => {
            writeln!(out, "{}", crashfam::kill_runs(seed, count)).unwrap();
        }
        "storage-legacy" => {
            writeln!(out, "{}", legacy::run(seed, count.max(40))).unwrap();
        }
        "doc-versions" => {
            // --examples <file>: one documented example version per line
            let p = arg(&args, "--examples").expect("--examples");
            let ex: Vec<String> = std::fs::read_to_string(p).unwrap().lines().filter(|l| !l.trim().is_empty()).map(|l| l.to_string()).collect();
            std::panic::set_hook(Box::new(|_| {}));
            writeln!(out, "{}", docver::run(&ex)).unwrap();
        }
        "synchist-exec" => {
            let p = arg(&args, "--script").expect("--script");
            let s: Value = serde_json::from_str(&std::fs::read_to_string(p).unwrap()).unwrap();
            emit(&mut out, util::guarded(|| synchist::exec_script(&s)));
        }
        _ => {
            eprintln!("unknown family {fam}");
            std::process::exit(2);
        }
    }
}
