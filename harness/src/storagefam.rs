//! C16: sequences of StorageTxn calls run on the in-memory and the SQLite storage; every
//! result of both is recorded (collections sorted) for comparison with the specification model
//! and with each other; SQLite is closed and reopened at random points.
use crate::dbhist::{db_pools, lop_lit, lop_to_operation, operation_to_lop, LOp};
use crate::pools::*;
use crate::synchist::{task_lit, CaseOut};
use crate::util::*;
use serde_json::{json, Value};
use std::collections::BTreeMap;
use taskchampion::storage::inmemory::InMemoryStorage;
use taskchampion::storage::{AccessMode, Storage, StorageTxn, TaskMap};
use taskchampion::{SqliteStorage, Uuid};

#[derive(Clone, Debug)]
pub enum Call {
    GetTask(usize),
    CreateTask(usize),
    SetTask(usize, BTreeMap<usize, usize>),
    DeleteTask(usize),
    AllTasks,
    AllUuids,
    BaseVersion,
    SetBaseVersion(usize),
    TaskOps(usize),
    Unsynced,
    NumUnsynced,
    AddOp(LOp),
    RemoveOp(LOp),
    SyncComplete,
    GetWs,
    AddWs(usize),
    SetWs(usize, Option<usize>),
    ClearWs,
    PendingTasks,
    IsEmpty,
}

#[derive(Clone, Debug)]
pub enum Step {
    Begin,
    Call(Call),
    Commit,
    Abandon,
    Reopen,
}

fn version_of(k: usize) -> Uuid {
    if k == 0 {
        Uuid::nil()
    } else {
        Uuid::from_u128(0xbabe_0000_0000_4000_8000_0000_0000_0000u128 + k as u128)
    }
}
fn version_index(u: Uuid) -> usize {
    if u.is_nil() {
        0
    } else {
        (u.as_u128() - 0xbabe_0000_0000_4000_8000_0000_0000_0000u128) as usize
    }
}

fn tm_of(pools: &Pools, t: &BTreeMap<usize, usize>) -> TaskMap {
    t.iter().map(|(p, v)| (pools.props[*p].clone(), pools.values[*v].clone())).collect()
}
fn tm_to(pools: &Pools, t: &TaskMap) -> BTreeMap<usize, usize> {
    t.iter().map(|(p, v)| (pools.prop_index(p).unwrap(), pools.value_index(v).unwrap())).collect()
}

fn tasks_res(pools: &Pools, v: Vec<(Uuid, TaskMap)>) -> Value {
    let mut m: BTreeMap<usize, BTreeMap<usize, usize>> = BTreeMap::new();
    let n = v.len();
    for (u, t) in v {
        m.insert(uuid_index(u, 64).unwrap(), tm_to(pools, &t));
    }
    // a duplicate would be lost in the map: report the count as well
    ctor("RTasks", vec![nat(n), list(m.iter().map(|(u, t)| pair(n_(*u), task_lit(t))).collect())])
}
fn n_(x: usize) -> Value {
    n(x as u64)
}

pub async fn do_call(pools: &Pools, txn: &mut dyn StorageTxn, c: &Call) -> Value {
    let err = || c0("RErr");
    match c {
        Call::GetTask(u) => match txn.get_task(uuid_of(*u)).await {
            Ok(t) => ctor("ROptTask", vec![opt(t.map(|t| task_lit(&tm_to(pools, &t))))]),
            Err(_) => err(),
        },
        Call::CreateTask(u) => txn.create_task(uuid_of(*u)).await.map(|r| ctor("RBool", vec![b(r)])).unwrap_or_else(|_| err()),
        Call::SetTask(u, t) => txn.set_task(uuid_of(*u), tm_of(pools, t)).await.map(|_| c0("RUnit")).unwrap_or_else(|_| err()),
        Call::DeleteTask(u) => txn.delete_task(uuid_of(*u)).await.map(|r| ctor("RBool", vec![b(r)])).unwrap_or_else(|_| err()),
        Call::AllTasks => txn.all_tasks().await.map(|v| tasks_res(pools, v)).unwrap_or_else(|_| err()),
        Call::AllUuids => txn
            .all_task_uuids()
            .await
            .map(|v| {
                let mut x: Vec<usize> = v.iter().map(|u| uuid_index(*u, 64).unwrap()).collect();
                x.sort();
                ctor("RUuids", vec![list(x.into_iter().map(n_).collect())])
            })
            .unwrap_or_else(|_| err()),
        Call::BaseVersion => txn.base_version().await.map(|v| ctor("RNat", vec![nat(version_index(v))])).unwrap_or_else(|_| err()),
        Call::SetBaseVersion(k) => txn.set_base_version(version_of(*k)).await.map(|_| c0("RUnit")).unwrap_or_else(|_| err()),
        Call::TaskOps(u) => txn
            .get_task_operations(uuid_of(*u))
            .await
            .map(|v| ctor("ROps", vec![list(v.iter().map(|o| lop_lit(&operation_to_lop(pools, o))).collect())]))
            .unwrap_or_else(|_| err()),
        Call::Unsynced => txn
            .unsynced_operations()
            .await
            .map(|v| ctor("ROps", vec![list(v.iter().map(|o| lop_lit(&operation_to_lop(pools, o))).collect())]))
            .unwrap_or_else(|_| err()),
        Call::NumUnsynced => txn.num_unsynced_operations().await.map(|k| ctor("RNat", vec![nat(k)])).unwrap_or_else(|_| err()),
        Call::AddOp(o) => txn.add_operation(lop_to_operation(pools, o)).await.map(|_| c0("RUnit")).unwrap_or_else(|_| err()),
        Call::RemoveOp(o) => txn.remove_operation(lop_to_operation(pools, o)).await.map(|_| c0("RUnit")).unwrap_or_else(|_| err()),
        Call::SyncComplete => txn.sync_complete().await.map(|_| c0("RUnit")).unwrap_or_else(|_| err()),
        Call::GetWs => txn
            .get_working_set()
            .await
            .map(|v| ctor("RWs", vec![list(v.iter().map(|x| opt(x.map(|u| n_(uuid_index(u, 64).unwrap())))).collect())]))
            .unwrap_or_else(|_| err()),
        Call::AddWs(u) => txn.add_to_working_set(uuid_of(*u)).await.map(|k| ctor("RNat", vec![nat(k)])).unwrap_or_else(|_| err()),
        Call::SetWs(i, x) => txn.set_working_set_item(*i, x.map(uuid_of)).await.map(|_| c0("RUnit")).unwrap_or_else(|_| err()),
        Call::ClearWs => txn.clear_working_set().await.map(|_| c0("RUnit")).unwrap_or_else(|_| err()),
        Call::PendingTasks => txn.get_pending_tasks().await.map(|v| tasks_res(pools, v)).unwrap_or_else(|_| err()),
        Call::IsEmpty => txn.is_empty().await.map(|r| ctor("RBool", vec![b(r)])).unwrap_or_else(|_| err()),
    }
}

pub fn call_lit(c: &Call) -> Value {
    match c {
        Call::GetTask(u) => ctor("CGetTask", vec![n_(*u)]),
        Call::CreateTask(u) => ctor("CCreateTask", vec![n_(*u)]),
        Call::SetTask(u, t) => ctor("CSetTask", vec![n_(*u), task_lit(t)]),
        Call::DeleteTask(u) => ctor("CDeleteTask", vec![n_(*u)]),
        Call::AllTasks => c0("CAllTasks"),
        Call::AllUuids => c0("CAllUuids"),
        Call::BaseVersion => c0("CBaseVersion"),
        Call::SetBaseVersion(k) => ctor("CSetBaseVersion", vec![nat(*k)]),
        Call::TaskOps(u) => ctor("CTaskOps", vec![n_(*u)]),
        Call::Unsynced => c0("CUnsynced"),
        Call::NumUnsynced => c0("CNumUnsynced"),
        Call::AddOp(o) => ctor("CAddOp", vec![lop_lit(o)]),
        Call::RemoveOp(o) => ctor("CRemoveOp", vec![lop_lit(o)]),
        Call::SyncComplete => c0("CSyncComplete"),
        Call::GetWs => c0("CGetWs"),
        Call::AddWs(u) => ctor("CAddWs", vec![n_(*u)]),
        Call::SetWs(i, x) => ctor("CSetWs", vec![nat(*i), opt(x.map(n_))]),
        Call::ClearWs => c0("CClearWs"),
        Call::PendingTasks => c0("CPendingTasks"),
        Call::IsEmpty => c0("CIsEmpty"),
    }
}

pub fn step_json(s: &Step) -> Value {
    match s {
        Step::Begin => json!("begin"),
        Step::Commit => json!("commit"),
        Step::Abandon => json!("abandon"),
        Step::Reopen => json!("reopen"),
        Step::Call(c) => json!({"call": format!("{:?}", c), "lit": call_lit(c)}),
    }
}

/// a shadow just precise enough to generate contract-respecting calls
struct Shadow {
    ws: Vec<Option<usize>>,
    unsynced: Vec<LOp>,
    tasks: BTreeMap<usize, BTreeMap<usize, usize>>,
}

pub fn gen_storage(seed: u64, id: usize, maxlen: usize) -> CaseOut {
    let mut rng = Rng::new(seed ^ (id as u64).wrapping_mul(0xA0761D6478BD642F) ^ 0x16);
    let pools = db_pools();
    let dir = work_dir(&format!("stor-{id}"));
    let mut mem = InMemoryStorage::new();
    let mut sql = Some(block_on(SqliteStorage::new(&dir, AccessMode::ReadWrite, true)).expect("sqlite"));
    let mut items: Vec<Value> = vec![];
    let mut script: Vec<Value> = vec![];
    let mut problems: Vec<String> = vec![];
    let mut feats: BTreeMap<String, u64> = BTreeMap::new();
    let mut committed = Shadow { ws: vec![None], unsynced: vec![], tasks: BTreeMap::new() };
    let ntx = rng.range(2, maxlen.max(2));
    for _ in 0..ntx {
        if rng.chance(15) {
            // close and reopen SQLite between transactions
            sql = None;
            sql = Some(block_on(SqliteStorage::new(&dir, AccessMode::ReadWrite, false)).expect("sqlite reopen"));
            items.push(c0("SReopen"));
            script.push(step_json(&Step::Reopen));
            *feats.entry("reopens".into()).or_insert(0) += 1;
        }
        items.push(c0("SBegin"));
        script.push(step_json(&Step::Begin));
        let mut sh = Shadow { ws: committed.ws.clone(), unsynced: committed.unsynced.clone(), tasks: committed.tasks.clone() };
        let ncalls = rng.range(1, 8);
        let mut calls = vec![];
        for _ in 0..ncalls {
            let u = rng.below(3);
            let c = match rng.below(24) {
                0 => Call::GetTask(u),
                1 | 2 => Call::CreateTask(u),
                3 | 4 => {
                    let mut t = BTreeMap::new();
                    for p in 0..3 {
                        if rng.chance(40) {
                            t.insert(p, rng.below(pools.values.len()));
                        }
                    }
                    Call::SetTask(u, t)
                }
                5 => Call::DeleteTask(u),
                6 => Call::AllTasks,
                7 => Call::AllUuids,
                8 => Call::BaseVersion,
                9 => Call::SetBaseVersion(rng.below(4)),
                10 => Call::TaskOps(u),
                11 => Call::Unsynced,
                12 => Call::NumUnsynced,
                13 | 14 | 15 => {
                    let o = match rng.below(5) {
                        0 => LOp::Create(u),
                        1 => LOp::Delete(u, sh.tasks.get(&u).cloned().unwrap_or_default()),
                        2 => LOp::Undo,
                        _ => LOp::Update(u, rng.below(3), if rng.chance(50) { Some(rng.below(3)) } else { None },
                                          if rng.chance(80) { Some(rng.below(pools.values.len())) } else { None },
                                          1_000_000_000 * (1 + rng.below(3) as i64) + if rng.chance(30) { 123_456_789 } else { 0 }),
                    };
                    Call::AddOp(o)
                }
                16 => match sh.unsynced.last() {
                    // the contract: the most recent operation, which is not synced
                    Some(o) if rng.chance(85) => Call::RemoveOp(o.clone()),
                    _ => Call::RemoveOp(LOp::Create(7)), // never matches: both must refuse
                },
                17 => Call::SyncComplete,
                18 => Call::GetWs,
                19 | 20 => Call::AddWs(u),
                21 => {
                    if sh.ws.len() > 1 {
                        Call::SetWs(rng.range(1, sh.ws.len() - 1), if rng.chance(50) { Some(u) } else { None })
                    } else {
                        Call::GetWs
                    }
                }
                22 => {
                    if rng.chance(30) { Call::ClearWs } else { Call::PendingTasks }
                }
                _ => Call::IsEmpty,
            };
            match &c {
                Call::AddWs(u) => sh.ws.push(Some(*u)),
                Call::ClearWs => sh.ws = vec![None],
                Call::SetWs(i, x) => {
                    sh.ws[*i] = *x;
                    while sh.ws.len() > 1 && sh.ws.last() == Some(&None) {
                        sh.ws.pop();
                    }
                }
                Call::AddOp(o) => sh.unsynced.push(o.clone()),
                Call::RemoveOp(o) => {
                    if sh.unsynced.last() == Some(o) {
                        sh.unsynced.pop();
                    }
                }
                Call::SyncComplete => sh.unsynced.clear(),
                Call::SetTask(u, t) => {
                    sh.tasks.insert(*u, t.clone());
                }
                Call::CreateTask(u) => {
                    sh.tasks.entry(*u).or_default();
                }
                Call::DeleteTask(u) => {
                    sh.tasks.remove(u);
                }
                _ => {}
            }
            calls.push(c);
        }
        let commit = rng.chance(75);
        // run the transaction on both backends
        let (rm, rs) = block_on(async {
            let mut rm = vec![];
            let mut rs = vec![];
            let mut tm = mem.txn().await.expect("mem txn");
            let mut ts = sql.as_mut().unwrap().txn().await.expect("sql txn");
            for c in &calls {
                rm.push(do_call(&pools, tm.as_mut(), c).await);
                rs.push(do_call(&pools, ts.as_mut(), c).await);
            }
            if commit {
                tm.commit().await.expect("mem commit");
                ts.commit().await.expect("sql commit");
            }
            (rm, rs)
        });
        for (k, c) in calls.iter().enumerate() {
            *feats.entry("calls".into()).or_insert(0) += 1;
            items.push(ctor("SCall", vec![call_lit(c), rm[k].clone(), rs[k].clone()]));
            script.push(step_json(&Step::Call(c.clone())));
            if rm[k] != rs[k] {
                problems.push(format!("{:?}: in-memory returned {}, SQLite returned {}", c, rm[k], rs[k]));
            }
        }
        if commit {
            items.push(c0("SCommit"));
            script.push(step_json(&Step::Commit));
            committed = sh;
            *feats.entry("commits".into()).or_insert(0) += 1;
        } else {
            items.push(c0("SAbandon"));
            script.push(step_json(&Step::Abandon));
            *feats.entry("abandons".into()).or_insert(0) += 1;
        }
    }
    drop(sql);
    let _ = std::fs::remove_dir_all(&dir);
    let ok = problems.is_empty();
    CaseOut {
        coq: list(items),
        script: json!({"family": "storage", "seed": seed, "id": id, "steps": script}),
        oracle: json!({"ok": ok, "problems": problems}),
        features: Value::Object(feats.iter().map(|(k, v)| (k.clone(), json!(v))).collect()),
    }
}
