//! C14, "conversely": the examples of a version in docs/src/sync-protocol.md, taken from the
//! markdown at run time, are served to a replica as versions written by another implementation.
use crate::chain::{ChainState, Handle};
use crate::util::*;
use serde_json::{json, Value};
use std::collections::BTreeMap;
use taskchampion::server::Server;
use taskchampion::storage::inmemory::InMemoryStorage;
use taskchampion::Replica;

type Plain = BTreeMap<String, BTreeMap<String, String>>;

fn interpret(doc: &Value, t: &mut Plain) -> Result<(), String> {
    // the documented form: the operations in order, either as the document itself or under
    // "operations"
    let ops = match doc {
        Value::Array(a) => a.clone(),
        Value::Object(o) => o.get("operations").and_then(|x| x.as_array()).cloned().ok_or("no operations")?,
        _ => return Err("not an array or object".into()),
    };
    for o in ops {
        let (k, b) = o.as_object().and_then(|m| m.iter().next()).ok_or("bad operation")?;
        let u = b["uuid"].as_str().ok_or("uuid")?.to_lowercase();
        match k.as_str() {
            "Create" => {
                t.entry(u).or_default();
            }
            "Delete" => {
                t.remove(&u);
            }
            "Update" => {
                if let Some(tk) = t.get_mut(&u) {
                    let p = b["property"].as_str().ok_or("property")?.to_string();
                    match b["value"].as_str() {
                        Some(v) => {
                            tk.insert(p, v.to_string());
                        }
                        None => {
                            tk.remove(&p);
                        }
                    }
                }
            }
            other => return Err(format!("unknown operation {other}")),
        }
    }
    Ok(())
}

pub fn run(examples: &[String]) -> Value {
    let mut results = vec![];
    let mut problems = vec![];
    for ex in examples {
        let doc: Value = match serde_json::from_str(ex) {
            Ok(v) => v,
            Err(e) => {
                problems.push(format!("documentation example is not JSON: {ex}: {e}"));
                continue;
            }
        };
        // version 1 (this implementation's own format) creates the task the examples talk about
        let uuid = ex.split("\"uuid\":\"").nth(1).and_then(|s| s.split('"').next()).unwrap_or("").to_string();
        let setup = format!("{{\"operations\":[{{\"Create\":{{\"uuid\":\"{uuid}\"}}}},{{\"Update\":{{\"uuid\":\"{uuid}\",\"property\":\"prop\",\"value\":\"old\",\"timestamp\":\"2020-01-01T00:00:00Z\"}}}}]}}");
        let is_create = ex.contains("\"Create\"");
        let chain = ChainState::new(1);
        let mut expect = Plain::new();
        {
            let mut st = chain.borrow_mut();
            let mut parent = taskchampion::server::NIL_VERSION_ID;
            if !is_create {
                let id = taskchampion::Uuid::from_u128(0xd0c0_0000_0000_4000_8000_0000_0000_0001);
                st.versions.push((id, parent, setup.clone().into_bytes()));
                parent = id;
                interpret(&serde_json::from_str(&setup).unwrap(), &mut expect).unwrap();
            }
            let id = taskchampion::Uuid::from_u128(0xd0c0_0000_0000_4000_8000_0000_0000_0002);
            st.versions.push((id, parent, ex.clone().into_bytes()));
        }
        if let Err(e) = interpret(&doc, &mut expect) {
            problems.push(format!("documentation example {ex} cannot be interpreted: {e}"));
            continue;
        }
        let ex2 = ex.clone();
        let outcome = std::panic::catch_unwind(std::panic::AssertUnwindSafe(move || {
            let mut rep = Replica::new(InMemoryStorage::new());
            let mut srv: Box<dyn Server> = Box::new(Handle { id: 0, st: chain });
            let r = block_on(rep.sync(&mut srv, false));
            let mut got = Plain::new();
            for (u, td) in block_on(rep.all_task_data()).unwrap() {
                got.insert(u.to_string(), td.iter().map(|(p, v)| (p.clone(), v.clone())).collect());
            }
            (r.map_err(|e| format!("{e:#}")), got)
        }));
        match outcome {
            Err(_) => problems.push(format!("a replica pulling the documented example version {ex2} panicked")),
            Ok((Err(e), _)) => problems.push(format!("a replica pulling the documented example version {ex2} failed: {e}")),
            Ok((Ok(()), got)) => {
                if got != expect {
                    problems.push(format!("after pulling {ex2}: tasks {got:?}, the documented meaning gives {expect:?}"));
                }
                results.push(json!({"example": ex2, "tasks": format!("{got:?}")}));
            }
        }
    }
    json!({"ok": problems.is_empty(), "problems": problems, "examples": examples.len(), "applied": results})
}
