(** Common imports, type notations and small tactics.  No axioms. *)
From stdpp Require Export base option list gmap fin_maps.
From Coq Require Export ZArith NArith Lia.
Export ListNotations.

(** Identifiers are interned by the harness: task uuids, property names and
    values are [N]; the interning of values is order preserving (byte-wise
    string order), the others only injective.  Timestamps are [Z]
    (nanoseconds since the epoch).  These are [Notation]s, not [Definition]s,
    so that std++'s map lemmas rewrite under them. *)
Notation uuid := N (only parsing).
Notation prop := N (only parsing).
Notation value := N (only parsing).
Notation task := (gmap N N) (only parsing).
Notation db := (gmap N (gmap N N)) (only parsing).

Global Arguments N.add : simpl never.
Global Arguments N.sub : simpl never.
Global Arguments N.mul : simpl never.
Global Arguments N.eqb : simpl never.
Global Arguments N.ltb : simpl never.
Global Arguments N.leb : simpl never.
Global Arguments Z.add : simpl never.
Global Arguments Z.sub : simpl never.
Global Arguments Z.ltb : simpl never.
Global Arguments Z.leb : simpl never.
Global Arguments Z.eqb : simpl never.

Ltac inv H := inversion H; subst; clear H.
Ltac case_if :=
  match goal with
  | |- context [if ?b then _ else _] => destruct b eqn:?
  | H : context [if ?b then _ else _] |- _ => destruct b eqn:?
  end.
