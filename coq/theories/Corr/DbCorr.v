(** Correspondence entry points for single-replica TaskDb histories
    (commits, undo, working-set rebuilds; C05, C07, C15). *)
From TC Require Export Model.TaskDb Corr.SyncCorr.

Record dview := { dv_tasks : dblit; dv_unsynced : list op; dv_ws : list (option N) }.

Inductive ditem :=
| DCommit (ops : list op)
| DExpect (v : dview)
| DGetUndo (l : list op)
| DUndo (l : list op) (code : N) (obs_ws : list (option N))
| DRebuild (renumber : bool) (obs_ws : list (option N))
| DSync (tasks_after : dblit) (obs_ws : list (option N)).

Record dcase := { dc_status : N; dc_pr : list N; dc_items : list ditem }.

Section Run.
Variable status : N.
Variable pr : list N.

Definition is_pr (v : N) : bool := bool_decide (v ∈ pr).
Definition in_ws (t : gmap N N) : bool :=
  match t !! status with Some v => is_pr v | None => false end.

(** the order in which [all_tasks] must have listed the tasks for the observed
    working set to come out: tasks in observed order first, then the others *)
Definition order_from (obs : list (option N)) (t : db) : list (N * gmap N N) :=
  omap (fun x => match x with Some u => match t !! u with Some tk => Some (u, tk) | None => None end
                            | None => None end) obs
  ++ filter (fun '(u, _) => negb (bool_decide (Some u ∈ obs))) (map_to_list t).

Definition rebuild_obs (s : store) (renumber : bool) (obs : list (option N)) : option store :=
  rebuild_with in_ws (order_from obs (st_tasks s)) s renumber.

Definition view_ok (s : store) (v : dview) : bool :=
  bool_decide (st_tasks s = db_of_list (dv_tasks v))
  && bool_decide (unsynced s = dv_unsynced v)
  && bool_decide (st_ws s = dv_ws v).

Fixpoint check_ditems (s : store) (k : N) (l : list ditem) : N :=
  match l with
  | [] => 0%N
  | it :: l' =>
      let k' := (k + 1)%N in
      match it with
      | DCommit ops => check_ditems (commit_operations status is_pr s ops) k' l'
      | DExpect v => if view_ok s v then check_ditems s k' l' else k'
      | DGetUndo ul =>
          if bool_decide (get_undo_operations s = ul) then check_ditems s k' l' else k'
      | DUndo ul code obs =>
          match commit_reversed_operations s ul with
          | UndoDone applied s1 =>
              if applied then
                if (code =? 1)%N then
                  match rebuild_obs s1 false obs with
                  | Some s2 => check_ditems s2 k' l'
                  | None => k'
                  end
                else k'
              else if (code =? 0)%N then check_ditems s1 k' l' else k'
          | UndoRefused => if (code =? 0)%N then check_ditems s k' l' else k'
          | UndoError => if (code =? 2)%N then check_ditems s k' l' else k'
          end
      | DRebuild renumber obs =>
          match rebuild_obs s renumber obs with
          | Some s1 => check_ditems s1 k' l'
          | None => k'
          end
      | DSync t obs =>
          let s1 := sync_complete (set_tasks s (db_of_list t)) in
          match rebuild_obs s1 false obs with
          | Some s2 => check_ditems s2 k' l'
          | None => k'
          end
      end
  end.
End Run.

Definition check_dcase (c : dcase) : N :=
  check_ditems (dc_status c) (dc_pr c) store0 0%N (dc_items c).

Definition wf_dcase (c : dcase) : bool := true.

(** the model's store after the first k items, for replay files *)
Fixpoint run_ditems (status : N) (pr : list N) (s : store) (l : list ditem) : store :=
  match l with
  | [] => s
  | it :: l' =>
      let s' :=
        match it with
        | DCommit ops => commit_operations status (is_pr pr) s ops
        | DUndo ul _ obs =>
            match commit_reversed_operations s ul with
            | UndoDone true s1 => default s1 (rebuild_obs status pr s1 false obs)
            | UndoDone false s1 => s1
            | _ => s
            end
        | DRebuild r obs => default s (rebuild_obs status pr s r obs)
        | DSync t obs =>
            let s1 := sync_complete (set_tasks s (db_of_list t)) in
            default s1 (rebuild_obs status pr s1 false obs)
        | _ => s
        end in
      run_ditems status pr s' l'
  end.

Definition dmodel_view (c : dcase) (k : nat) :=
  let s := run_ditems (dc_status c) (dc_pr c) store0 (take k (dc_items c)) in
  (map (fun '(u, tk) => (u, map_to_list tk)) (map_to_list (st_tasks s)), unsynced s, st_ws s,
   get_undo_operations s).
