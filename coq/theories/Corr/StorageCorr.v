(** Correspondence entry points for sequences of StorageTxn calls (C16): the
    specification model is run and each call's result is compared with what
    the in-memory and the SQLite storage returned. *)
From TC Require Export Model.Storage Corr.SyncCorr.

Inductive scall :=
| CGetTask (u : N) | CCreateTask (u : N) | CSetTask (u : N) (t : list (N * N)) | CDeleteTask (u : N)
| CAllTasks | CAllUuids | CBaseVersion | CSetBaseVersion (b : nat)
| CTaskOps (u : N) | CUnsynced | CNumUnsynced | CAddOp (o : op) | CRemoveOp (o : op) | CSyncComplete
| CGetWs | CAddWs (u : N) | CSetWs (i : nat) (x : option N) | CClearWs | CPendingTasks | CIsEmpty.

Inductive sres :=
| RUnit | RBool (b : bool) | RNat (n : nat) | ROptTask (t : option (list (N * N)))
| RTasks (count : nat) (l : dblit) | RUuids (l : list N) | ROps (l : list op)
| RWs (l : list (option N)) | RErr.

Inductive sitem := SBegin | SCall (c : scall) (mem sql : sres) | SCommit | SAbandon | SReopen.

(** comparable forms of the spec's results *)
Inductive sval :=
| VUnit | VBool (b : bool) | VNat (n : nat) | VOptTask (t : option (gmap N N))
| VTasks (count : nat) (d : db) | VUuids (s : gset N) | VOps (l : list op) | VWs (l : list (option N)) | VErr.

Global Instance sval_eq_dec : EqDecision sval.
Proof. solve_decision. Defined.

Definition sval_of (r : sres) : sval :=
  match r with
  | RUnit => VUnit | RBool b => VBool b | RNat n => VNat n
  | ROptTask t => VOptTask (list_to_map <$> t)
  | RTasks k l => VTasks k (db_of_list l)
  | RUuids l => VUuids (list_to_set l)
  | ROps l => VOps l | RWs l => VWs l | RErr => VErr
  end.

Definition spec_call (s : store) (c : scall) : sval * store :=
  match c with
  | CGetTask u => (VOptTask (get_task s u), s)
  | CCreateTask u => let '(b, s') := create_task s u in (VBool b, s')
  | CSetTask u t => (VUnit, set_task s u (list_to_map t))
  | CDeleteTask u => let '(b, s') := delete_task s u in (VBool b, s')
  | CAllTasks => (VTasks (size (st_tasks s)) (st_tasks s), s)
  | CAllUuids => (VUuids (dom (st_tasks s)), s)
  | CBaseVersion => (VNat (st_base s), s)
  | CSetBaseVersion b => (VUnit, set_base s b)
  | CTaskOps u => (VOps (task_operations s u), s)
  | CUnsynced => (VOps (unsynced s), s)
  | CNumUnsynced => (VNat (length (unsynced s)), s)
  | CAddOp o => (VUnit, add_operation s o)
  | CRemoveOp o => match remove_operation s o with Some s' => (VUnit, s') | None => (VErr, s) end
  | CSyncComplete => (VUnit, sync_complete s)
  | CGetWs => (VWs (st_ws s), s)
  | CAddWs u => let '(k, s') := add_to_working_set s u in (VNat k, s')
  | CSetWs i x => match set_working_set_item s i x with Some s' => (VUnit, s') | None => (VErr, s) end
  | CClearWs => (VUnit, clear_working_set s)
  | CPendingTasks =>
      let l := pending_tasks s in
      (VTasks (length l) (list_to_map l), s)
  | CIsEmpty => (VBool (is_empty s), s)
  end.

(** persistent store, store inside the open transaction; which backend
    disagreed is encoded in the verdict: k+1 = in-memory differs at item k,
    1000000+k+1 = SQLite differs *)
Fixpoint check_sitems (p t : store) (k : N) (l : list sitem) : N :=
  match l with
  | [] => 0%N
  | it :: l' =>
      let k' := (k + 1)%N in
      match it with
      | SBegin => check_sitems p p k' l'
      | SCommit => check_sitems t t k' l'
      | SAbandon => check_sitems p p k' l'
      | SReopen => check_sitems p p k' l'
      | SCall c rm rs =>
          let '(v, t') := spec_call t c in
          if negb (bool_decide (sval_of rm = v)) then k'
          else if negb (bool_decide (sval_of rs = v)) then (1000000 + k')%N
          else check_sitems p t' k' l'
      end
  end.

Definition check_stcase (l : list sitem) : N := check_sitems store0 store0 0%N l.
Definition wf_stcase (l : list sitem) : bool := true.

Definition st_model_view (l : list sitem) (k : nat) :=
  let fix go (p t : store) (l : list sitem) :=
    match l with
    | [] => t
    | SBegin :: l' => go p p l'
    | SCommit :: l' => go t t l'
    | SAbandon :: l' => go p p l'
    | SReopen :: l' => go p p l'
    | SCall c _ _ :: l' => go p (spec_call t c).2 l'
    end in
  let s := go store0 store0 (take k l) in
  (map (fun '(u, tk) => (u, map_to_list tk)) (map_to_list (st_tasks s)), st_base s, st_ops s, st_ws s,
   match l !! k with Some (SCall c _ _) => Some (spec_call s c).1 | _ => None end).
