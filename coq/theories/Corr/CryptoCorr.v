(** Correspondence entry points for sealing (C13): values sealed by the
    implementation are recomputed byte for byte. *)
From Coq Require Import List NArith Bool.
From TC Require Export Model.Crypto.Bytes Model.Crypto.Envelope.
Import ListNotations.

Fixpoint list_N_eqb (a b : list N) : bool :=
  match a, b with
  | [], [] => true
  | x :: a', y :: b' => N.eqb x y && list_N_eqb a' b'
  | _, _ => false
  end.

(** (version id, payload, sealed by the implementation) under a fixed key:
    0 = the model reproduces the sealed bytes from the nonce found in them and
    opens them to the payload; 1 = bytes differ; 2 = does not open *)
Definition check_sealed (key : list N) (c : list N * list N * list N) : N :=
  let '(vid, payload, sealed) := c in
  let nonce := firstn 12 (skipn 1 sealed) in
  if negb (list_N_eqb (seal key nonce vid payload) sealed) then 1%N
  else match unseal key vid sealed with
       | Some p => if list_N_eqb p payload then 0%N else 2%N
       | None => 2%N
       end.
