(** Entry points for the correspondence check of the sync families: a case is
    a list of events interleaved with what the implementation was observed to
    do; [check_scase] runs the model and reports the first expectation the
    model does not share. *)
From TC Require Export Model.Sync.

Notation dblit := (list (N * list (N * N))) (only parsing).

Definition db_of_list (l : dblit) : db :=
  list_to_map (map (fun '(u, tk) => (u, list_to_map tk)) l).

Inductive lreq :=
| LGetSnapshot
| LGetChild (b : nat)
| LAddVersion (b : nat) (ops : list sop)
| LAddSnapshot (v : nat) (d : dblit).

Definition req_of_lreq (q : lreq) : req :=
  match q with
  | LGetSnapshot => RGetSnapshot
  | LGetChild b => RGetChild b
  | LAddVersion b ops => RAddVersion b ops
  | LAddSnapshot v d => RAddSnapshot v (db_of_list d)
  end.

Global Instance req_eq_dec : EqDecision req.
Proof. solve_decision. Defined.
Global Instance sync_result_eq_dec : EqDecision sync_result.
Proof. solve_decision. Defined.

Inductive expect :=
| XTasks (i : nat) (d : dblit)          (* persistent tasks of replica i *)
| XReq (i : nat) (q : lreq)             (* the request replica i is about to issue *)
| XResult (i : nat) (r : sync_result)   (* the sync of replica i has just finished with r *)
| XChain (c : list (list sop)).         (* the versions the server holds *)

Inductive item := IEv (e : event) | IEx (x : expect).

Record scase := { sc_n : nat; sc_sz : list (sop * N); sc_items : list item }.

Definition sz_of (tab : list (sop * N)) (o : sop) : N :=
  match find (fun '(o', _) => bool_decide (o = o')) tab with
  | Some (_, k) => k
  | None => 0%N
  end.

Definition batch_limit : N := 1000000%N.

Definition holds (szf : sop -> N) (s : sys) (x : expect) : bool :=
  match x with
  | XTasks i d =>
      match nodes s !! i with
      | Some nd => bool_decide (r_tasks (n_rep nd) = db_of_list d)
      | None => false
      end
  | XReq i q =>
      match nodes s !! i with
      | Some {| n_sync := Some x |} =>
          match sync_next szf batch_limit x with
          | inl q' => bool_decide (q' = req_of_lreq q)
          | inr _ => false
          end
      | _ => false
      end
  | XResult i r =>
      match results s with
      | (j, r') :: _ => bool_decide (j = i) && bool_decide (r' = r)
      | [] => false
      end
  | XChain c => bool_decide (chain (srv s) = c)
  end.

Fixpoint check_items (szf : sop -> N) (s : sys) (k : N) (l : list item) : N :=
  match l with
  | [] => 0%N
  | IEv e :: l' => check_items szf (sys_step szf batch_limit s e) (k + 1)%N l'
  | IEx x :: l' => if holds szf s x then check_items szf s (k + 1)%N l' else (k + 1)%N
  end.

(** 0 = the model agrees with every observation; k+1 = item k is the first
    observation the model does not share *)
Definition check_scase (c : scase) : N :=
  check_items (sz_of (sc_sz c)) (sys0 (sc_n c)) 0%N (sc_items c).

(** also the history must be well formed (valid commits) for the theorems to
    apply to it: 1 = yes *)
Definition wf_scase (c : scase) : bool :=
  wf_history (sz_of (sc_sz c)) batch_limit (sys0 (sc_n c))
    (omap (fun it => match it with IEv e => Some e | IEx _ => None end) (sc_items c)).

(** what the model holds at the point where the check stopped, for the replay *)
Definition model_view (c : scase) (k : nat) :=
  let evs := omap (fun it => match it with IEv e => Some e | IEx _ => None end)
                  (take k (sc_items c)) in
  let s := run (sz_of (sc_sz c)) batch_limit (sys0 (sc_n c)) evs in
  (map (fun nd => (map (fun '(u, tk) => (u, map_to_list tk)) (map_to_list (r_tasks (n_rep nd))),
                   r_base (n_rep nd), length (r_pend (n_rep nd)),
                   match n_sync nd with
                   | Some x => Some (x_base x, x_local x, x_pc x)
                   | None => None
                   end)) (nodes s),
   chain (srv s), results s).

(** a group of cases checked together (all sync orders of one scenario):
    0 = all agree; otherwise 1000000 * (1 + index of the case) + its verdict *)
Fixpoint check_group_aux (k : N) (l : list scase) : N :=
  match l with
  | [] => 0%N
  | c :: l' =>
      let v := check_scase c in
      if (v =? 0)%N then check_group_aux (k + 1)%N l' else (1000000 * (k + 1) + v)%N
  end.
Definition check_group (l : list scase) : N := check_group_aux 0%N l.
Definition wf_group (l : list scase) : bool := forallb wf_scase l.
