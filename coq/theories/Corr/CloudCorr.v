(** Correspondence entry points for the object-store server (C08-C11): a case
    is a schedule of single object-store requests of several clients, with the
    requests the implementation issued and the results it returned. *)
From TC Require Export Model.Cloud.

Inductive ccall :=
| KAddVersion (p c pl : N)        (* c = the id the implementation generated (0 if it never got that far) *)
| KGetChild (p : N)
| KAddSnapshot (v pl : N)
| KGetSnapshot
| KCleanup.

Definition start_call (k : ccall) : cpc :=
  match k with
  | KAddVersion p c pl => A0 p c pl
  | KGetChild p => G0 p [] None
  | KAddSnapshot v pl => S0 v pl
  | KGetSnapshot => T0
  | KCleanup => K0
  end.

Inductive cevent :=
| CStart (i : nat) (k : ccall)
| CStep (i : nat) (now : N)              (* the next request of client i is performed *)
| CFailBefore (i : nat)                  (* it fails before taking effect; the call returns an error *)
| CFailAfter (i : nat) (now : N)         (* it takes effect, the reply is an error *)
| CExpReq (i : nat) (q : sreq)           (* observation: the request client i is about to issue *)
| CExpRes (i : nat) (r : cres)           (* observation: its call has just returned r *)
| CExpStore (latest : option N) (vers : list (N * N * N)) (snaps : list (N * N)).   (* (p, c, payload), (v, payload) *)

Record ccase := {
  cc_rank : list (N * N);        (* id -> rank of its name *)
  cc_pagesz : nat;
  cc_threshold : N;
  cc_events : list cevent
}.

Global Instance sreq_eq_dec : EqDecision sreq.
Proof. solve_decision. Defined.
Global Instance cres_eq_dec : EqDecision cres.
Proof. solve_decision. Defined.

Record csys := { cs_store : ostore; cs_clients : gmap nat cpc; cs_last : gmap nat cres }.

Section Run.
Variable rankf : N -> N.
Variable pagesz : nat.
Variable threshold : N.

Definition csys_step (s : csys) (e : cevent) : csys + unit :=
  match e with
  | CStart i k => inl {| cs_store := cs_store s; cs_clients := <[i := start_call k]> (cs_clients s); cs_last := cs_last s |}
  | CStep i now =>
      match cs_clients s !! i with
      | Some c =>
          match cl_next c with
          | inl q =>
              let '(r, st') := ostore_step rankf pagesz now (cs_store s) q in
              let c' := cl_resume rankf threshold c r in
              match c' with
              | CDone res => inl {| cs_store := st'; cs_clients := delete i (cs_clients s); cs_last := <[i := res]> (cs_last s) |}
              | _ => inl {| cs_store := st'; cs_clients := <[i := c']> (cs_clients s); cs_last := cs_last s |}
              end
          | inr _ => inr tt
          end
      | None => inr tt
      end
  | CFailBefore i =>
      inl {| cs_store := cs_store s; cs_clients := delete i (cs_clients s); cs_last := <[i := CError]> (cs_last s) |}
  | CFailAfter i now =>
      match cs_clients s !! i with
      | Some c =>
          match cl_next c with
          | inl q =>
              let '(_, st') := ostore_step rankf pagesz now (cs_store s) q in
              inl {| cs_store := st'; cs_clients := delete i (cs_clients s); cs_last := <[i := CError]> (cs_last s) |}
          | inr _ => inr tt
          end
      | None => inr tt
      end
  | CExpReq i q =>
      match cs_clients s !! i with
      | Some c => match cl_next c with
                  | inl q' => if bool_decide (q' = q) then inl s else inr tt
                  | inr _ => inr tt
                  end
      | None => inr tt
      end
  | CExpRes i r =>
      match cs_last s !! i with
      | Some r' => if bool_decide (r' = r) then inl s else inr tt
      | None => inr tt
      end
  | CExpStore l vers snaps =>
      if bool_decide (o_latest (cs_store s) = l)
         && bool_decide ((fst <$> o_vers (cs_store s)) = list_to_map (map (fun '(p, c, pl) => ((p, c), pl)) vers))
         && bool_decide (o_snaps (cs_store s) = list_to_map snaps)
      then inl s else inr tt
  end.

Fixpoint crun (s : csys) (k : N) (l : list cevent) : N :=
  match l with
  | [] => 0%N
  | e :: l' => match csys_step s e with
               | inl s' => crun s' (k + 1)%N l'
               | inr _ => (k + 1)%N
               end
  end.
End Run.

Definition rank_of (tab : list (N * N)) (x : N) : N :=
  match find (fun kv => N.eqb kv.1 x) tab with Some kv => kv.2 | None => (1000000 + x)%N end.

Definition check_ccase (c : ccase) : N :=
  crun (rank_of (cc_rank c)) (cc_pagesz c) (cc_threshold c)
       {| cs_store := ostore0; cs_clients := ∅; cs_last := ∅ |} 0%N (cc_events c).
Definition wf_ccase (c : ccase) : bool := true.

Definition cmodel_view (c : ccase) (k : nat) :=
  let fix go (s : csys) (l : list cevent) :=
    match l with
    | [] => s
    | e :: l' => match csys_step (rank_of (cc_rank c)) (cc_pagesz c) (cc_threshold c) s e with
                 | inl s' => go s' l'
                 | inr _ => s
                 end
    end in
  let s := go {| cs_store := ostore0; cs_clients := ∅; cs_last := ∅ |} (take k (cc_events c)) in
  (o_latest (cs_store s), map_to_list (o_vers (cs_store s)), map_to_list (o_snaps (cs_store s)),
   map (fun '(i, c) => (i, cl_next c)) (map_to_list (cs_clients s)), map_to_list (cs_last s)).
