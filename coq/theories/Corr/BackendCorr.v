(** Correspondence entry points for the server backends (C08, C11): sequences
    of Server calls and their observed results against the chain protocol. *)
From TC Require Export Model.ChainSpec.

(** 0 = every result conforms; k = the k-th call's result does not *)
Fixpoint check_bitems (s : chain_state) (k : N) (l : list (bcall * bres)) : N :=
  match l with
  | [] => 0%N
  | (c, r) :: l' =>
      if conforms s c r then check_bitems (chain_after s c r) (k + 1)%N l' else (k + 1)%N
  end.
Definition check_bcase (l : list (bcall * bres)) : N := check_bitems chain0 0%N l.
Definition wf_bcase (l : list (bcall * bres)) : bool := true.
Definition bmodel_view (l : list (bcall * bres)) (k : nat) :=
  let s := fold_left (fun s cr => chain_after s cr.1 cr.2) (take k l) chain0 in
  (cs_versions s, cs_snapshots s, match l !! k with Some (c, _) => Some (chain_step s c).1 | None => None end).
