(** Correspondence entry points for several handles on one SQLite directory
    (C17).  Two layers are checked on what a concurrent run recorded:
    - the global trace of storage calls (every transaction boundary and every
      call with its result, tagged with the handle that made it, in the order in
      which they happened) must be serial -- no event of one handle inside the
      transaction of another -- and, read as one single-handle history, must
      conform to the storage specification;
    - the replica actions whose transaction committed, in commit order, applied
      one at a time by the TaskDb model, must give what the handles read. *)
From TC Require Export Corr.StorageCorr Corr.DbCorr Model.Conc.

(** index (from 1) of the first event that breaks seriality; 0 if none *)
Fixpoint first_overlap (open : option nat) (k : N) (l : list (nat * sitem)) : N :=
  match l with
  | [] => 0%N
  | (h, it) :: l' =>
      let k' := (k + 1)%N in
      match it with
      | SReopen => first_overlap open k' l'
      | SBegin => match open with None => first_overlap (Some h) k' l' | Some _ => k' end
      | SCall _ _ _ => match open with
                       | Some h' => if (h =? h')%nat then first_overlap open k' l' else k'
                       | None => k' end
      | SCommit | SAbandon => match open with
                       | Some h' => if (h =? h')%nat then first_overlap None k' l' else k'
                       | None => k' end
      end
  end.

Inductive kitem :=
| KCommit (ops : list op)
| KUndo (ul : list op) (code : N)
| KRebuild (renumber : bool) (order : list N)
| KGetUndo (ul : list op)
| KExpect (v : dview).

Record ccase := { cc_status : N; cc_pr : list N; cc_trace : list (nat * sitem); cc_items : list kitem }.

Section Run.
Variable status : N.
Variable pr : list N.

Definition kstep (s : store) (it : kitem) : option store :=
  match it with
  | KCommit ops => Some (commit_operations status (is_pr pr) s ops)
  | KUndo ul code =>
      match commit_reversed_operations s ul with
      | UndoDone applied s1 => if (code =? (if applied then 1 else 0))%N then Some s1 else None
      | UndoRefused => if (code =? 0)%N then Some s else None
      | UndoError => if (code =? 2)%N then Some s else None
      end
  | KRebuild renumber order => rebuild_obs status pr s renumber (map Some order)
  | KGetUndo ul => if bool_decide (get_undo_operations s = ul) then Some s else None
  | KExpect v => if view_ok s v then Some s else None
  end.

Fixpoint check_kitems (s : store) (k : N) (l : list kitem) : N :=
  match l with
  | [] => 0%N
  | it :: l' => match kstep s it with
                | Some s' => check_kitems s' (k + 1)%N l'
                | None => (k + 1)%N
                end
  end.
End Run.

(** verdict: 0 ok; k: storage call k of the trace disagrees with the
    specification (1000000+k as in StorageCorr); 2000000+k: event k overlaps
    another handle's transaction; 3000000+k: action item k disagrees with the
    one-at-a-time model *)
Definition check_ccase (c : ccase) : N :=
  match first_overlap None 0%N (cc_trace c) with
  | 0%N =>
      match check_stcase (map snd (cc_trace c)) with
      | 0%N => match check_kitems (cc_status c) (cc_pr c) store0 0%N (cc_items c) with
               | 0%N => 0%N
               | k => (3000000 + k)%N
               end
      | k => k
      end
  | k => (2000000 + k)%N
  end.

Definition wf_ccase (c : ccase) : bool := true.

(** [k] is the verdict minus one *)
Definition cmodel_view_N (c : ccase) (k : N) :=
  if (3000000 <=? k)%N then
    let j := N.to_nat (k - 3000000)%N in
    let s := fold_left (fun s it => default s (kstep (cc_status c) (cc_pr c) s it)) (take j (cc_items c)) store0 in
    inl (map (fun '(u, tk) => (u, map_to_list tk)) (map_to_list (st_tasks s)), unsynced s, st_ws s, cc_items c !! j)
  else if (2000000 <=? k)%N then
    inr (inl (take 12 (drop (N.to_nat (k - 2000000 - 7)%N) (cc_trace c))))
  else inr (inr (st_model_view (map snd (cc_trace c)) (N.to_nat (k mod 1000000)%N))).
