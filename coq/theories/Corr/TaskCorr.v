(** Correspondence entry points for the task readers (C18), mutators (C19) and
    expiration (C20). *)
From stdpp Require Import gmultiset.
From TC Require Export Model.Task.
From Coq Require Import Strings.String.
Local Open Scope string_scope.

Record tview := {
  tv_status : status; tv_desc : list N; tv_prio : list N;
  tv_entry : option Z; tv_wait : option Z; tv_modified : option Z; tv_due : option Z;
  tv_waiting : bool; tv_active : bool; tv_blocked : bool; tv_blocking : bool;
  tv_user_tags : list (list N); tv_synth_tags : list (list N);
  tv_annotations : list (Z * list N); tv_udas : list (list N * list N); tv_deps : list N
}.

Record tcase := {
  tc_min : Z; tc_max : Z; tc_now : Z;
  tc_uuids : list (list N * N);                    (* texts that Uuid::parse_str accepts *)
  tc_tasks : list (N * list (list N * list N));
  tc_ws : list (option N);
  tc_edges : list (N * N);                          (* the dependency map the replica computed *)
  tc_views : list (N * option tview)
}.

Definition ms {A} `{Countable A} (l : list A) : gmultiset A := list_to_set_disj l.

Definition parse_uuid_tab (tab : list (list N * N)) (s : list N) : option N :=
  match find (fun kv => bool_decide (kv.1 = s)) tab with Some kv => Some kv.2 | None => None end.

Definition tasks_of (l : list (N * list (list N * list N))) : gmap N (gmap (list N) (list N)) :=
  list_to_map (map (fun '(u, kv) => (u, list_to_map kv)) l).

Definition view_matches (c : tcase) (tasks : gmap N (gmap (list N) (list N))) (dm : list (N * N))
    (u : N) (v : tview) : bool :=
  match tasks !! u with
  | None => false
  | Some t =>
      let gt := get_timestamp (tc_min c) (tc_max c) t in
      let pu := parse_uuid_tab (tc_uuids c) in
      let ut := user_tags t in
      bool_decide (get_status t = tv_status v)
      && bool_decide (get_str t (s2l "description") = tv_desc v)
      && bool_decide (get_str t (s2l "priority") = tv_prio v)
      && bool_decide (gt (s2l "entry") = tv_entry v)
      && bool_decide (gt (s2l "wait") = tv_wait v)
      && bool_decide (gt (s2l "modified") = tv_modified v)
      && bool_decide (gt (s2l "due") = tv_due v)
      && bool_decide (is_waiting (tc_min c) (tc_max c) (tc_now c) t = tv_waiting v)
      && bool_decide (is_active t = tv_active v)
      && bool_decide (is_blocked dm u = tv_blocked v)
      && bool_decide (is_blocking dm u = tv_blocking v)
      && bool_decide (ms (omap (fun x => match x with TUser s => Some s | _ => None end) ut) = ms (tv_user_tags v))
      && bool_decide (ms (omap (fun x => match x with TSynthetic s => Some s | _ => None end) ut
                          ++ synthetic_tags (tc_min c) (tc_max c) (tc_now c) t dm u) = ms (tv_synth_tags v))
      && bool_decide (ms (annotations (tc_min c) (tc_max c) t) = ms (tv_annotations v))
      && bool_decide (ms (udas t) = ms (tv_udas v))
      && bool_decide (ms (dependencies pu t) = ms (tv_deps v))
  end.

(** 0 = agreement; 1 = the dependency map differs; 10+k = the readers of the k-th task differ *)
Definition check_tcase (c : tcase) : N :=
  let tasks := tasks_of (tc_tasks c) in
  let dm := depmap (parse_uuid_tab (tc_uuids c)) tasks (tc_ws c) in
  if negb (bool_decide (ms dm = ms (tc_edges c))) then 1%N
  else
    (fix go (k : N) (l : list (N * option tview)) : N :=
       match l with
       | [] => 0%N
       | (u, None) :: l' => go (k + 1)%N l'
       | (u, Some v) :: l' => if view_matches c tasks dm u v then go (k + 1)%N l' else (10 + k)%N
       end) 0%N (tc_views c).

Definition wf_tcase (c : tcase) : bool := true.

Definition tmodel_view (c : tcase) (k : nat) :=
  let tasks := tasks_of (tc_tasks c) in
  let dm := depmap (parse_uuid_tab (tc_uuids c)) tasks (tc_ws c) in
  let u := N.of_nat (k - 9) in
  (dm,
   match tasks !! u with
   | Some t =>
       Some (get_status t, get_timestamp (tc_min c) (tc_max c) t (s2l "entry"),
             get_timestamp (tc_min c) (tc_max c) t (s2l "wait"),
             get_timestamp (tc_min c) (tc_max c) t (s2l "modified"),
             get_timestamp (tc_min c) (tc_max c) t (s2l "due"),
             is_waiting (tc_min c) (tc_max c) (tc_now c) t,
             user_tags t, synthetic_tags (tc_min c) (tc_max c) (tc_now c) t dm u,
             annotations (tc_min c) (tc_max c) t, udas t,
             dependencies (parse_uuid_tab (tc_uuids c)) t)
   | None => None
   end).

(** ** expiration (C20) *)
Record ecase := {
  ec_min : Z; ec_max : Z; ec_now : Z;
  ec_tasks : list (N * list (list N * list N));
  ec_after : list N                                 (* the tasks that survive expire_tasks *)
}.

Definition check_ecase (c : ecase) : N :=
  let after := expire_tasks (ec_min c) (ec_max c) (ec_now c) (tasks_of (ec_tasks c)) in
  if bool_decide (dom after = (list_to_set (ec_after c) : gset N)) then 0%N else 1%N.
Definition wf_ecase (c : ecase) : bool := true.
Definition emodel_view (c : ecase) (k : nat) :=
  map fst (map_to_list (expire_tasks (ec_min c) (ec_max c) (ec_now c) (tasks_of (ec_tasks c)))).

(** ** mutators (C19) *)
From TC Require Export Model.TaskMut.

Record mcase := {
  mc_now : list N;                                       (* the canonical "now" string *)
  mc_init : list (list N * list N);                      (* the task as stored before *)
  mc_steps : list (mutator * bool);                      (* each call and whether it was accepted *)
  mc_held : list (list N * list N);                      (* the task the caller holds afterwards *)
  mc_log : list (list N * option (list N) * option (list N))   (* recorded updates *)
}.

Fixpoint run_steps (nowstr : list N) (s : tstate) (k : N) (l : list (mutator * bool)) : tstate + N :=
  match l with
  | [] => inl s
  | (m, ok) :: l' =>
      match run_mutator nowstr s m with
      | Some s' => if ok then run_steps nowstr s' (k + 1)%N l' else inr (k + 1)%N
      | None => if ok then inr (k + 1)%N else run_steps nowstr s (k + 1)%N l'
      end
  end.

(** 0 = agreement; k = the k-th call was accepted/refused differently;
    1000 = held task differs; 2000 = recorded updates differ *)
Definition check_mcase (c : mcase) : N :=
  match run_steps (mc_now c) {| ts_map := list_to_map (mc_init c); ts_um := false; ts_log := [] |} 0%N (mc_steps c) with
  | inr k => k
  | inl s =>
      if negb (bool_decide (ts_map s = list_to_map (mc_held c))) then 1000%N
      else if negb (bool_decide (ts_log s = mc_log c)) then 2000%N
      else 0%N
  end.
Definition wf_mcase (c : mcase) : bool := true.
Definition mmodel_view (c : mcase) (k : nat) :=
  match run_steps (mc_now c) {| ts_map := list_to_map (mc_init c); ts_um := false; ts_log := [] |} 0%N (mc_steps c) with
  | inl s => (map_to_list (ts_map s), ts_log s)
  | inr _ => ([], [])
  end.
