(** * PBKDF2-HMAC-SHA256 (RFC 8018 section 5.2), 32-byte output.

    With hLen = dkLen = 32 the derived key is the single block
      T_1 = U_1 xor U_2 xor ... xor U_c,
      U_1 = HMAC(P, S || INT(1)),   U_j = HMAC(P, U_{j-1}).

    Two definitions are given:
    - [pbkdf2_sha256_32_ref], the literal transcription on byte strings using
      [hmac_sha256] (slow: for small iteration counts only);
    - [pbkdf2_sha256_32], the fast one used by the envelope model.  It absorbs
      the HMAC inner and outer pad blocks ONCE, keeps U_j and the running XOR
      as eight 32-bit words each, and performs exactly two SHA-256
      compressions per iteration.  The loop is [N.iter] (binary recursion on
      the iteration count, recursion depth log2 c), never a unary [nat].
    Both are checked against the RFC 7914 section 11 vectors, and against each
    other, in [Proofs/Crypto/Vectors.v].

    RFC 8018 requires c >= 1.  For c = 0 both definitions behave as for c = 1. *)

From Coq Require Import List NArith ZArith Uint63.
From TC Require Import Model.Crypto.Bytes Model.Crypto.Sha256 Model.Crypto.Hmac.
Import ListNotations.

(** ** Reference definition *)

Fixpoint pbkdf2_ref_loop (password : list N) (n : nat) (u t : list N) : list N :=
  match n with
  | O => t
  | S n' =>
      let u' := hmac_sha256 password u in
      pbkdf2_ref_loop password n' u' (xor_list t u')
  end.

Definition pbkdf2_sha256_32_ref (password salt : list N) (c : N) : list N :=
  let u1 := hmac_sha256 password (salt ++ [0; 0; 0; 1]%N) in
  pbkdf2_ref_loop password (N.to_nat (N.pred c)) u1 u1.

(** ** Fast definition *)

(** SHA-256 chaining value after absorbing one 64-byte block. *)
Definition pad_state (block : list N) : st :=
  absorb IV (be_words_of_bytes block).

(** HMAC of a 32-byte message given as eight words [u], from the precomputed
    pad states.  The inner message is (64-byte ipad block) || u, so the final
    inner block is u || 0x80 || zeros || bitlen with bitlen = (64+32)*8 = 768;
    likewise for the outer hash, whose message is the 32-byte inner digest. *)
Definition hmac32 (si so : st) (u : st) : st :=
  let inner :=
    compress si (s0 u) (s1 u) (s2 u) (s3 u) (s4 u) (s5 u) (s6 u) (s7 u)
             0x80000000 0 0 0 0 0 0 768 in
  compress so (s0 inner) (s1 inner) (s2 inner) (s3 inner)
              (s4 inner) (s5 inner) (s6 inner) (s7 inner)
           0x80000000 0 0 0 0 0 0 768.

Definition xor_st (a b : st) : st :=
  St (s0 a lxor s0 b) (s1 a lxor s1 b) (s2 a lxor s2 b) (s3 a lxor s3 b)
     (s4 a lxor s4 b) (s5 a lxor s5 b) (s6 a lxor s6 b) (s7 a lxor s7 b).

(** Loop state: the last U_j and the running XOR T. *)
Record acc : Set := Acc { acc_u : st; acc_t : st }.

Definition pbkdf2_step (si so : st) (a : acc) : acc :=
  let u' := hmac32 si so (acc_u a) in
  Acc u' (xor_st (acc_t a) u').

(** Eight big-endian words of a 32-byte string. *)
Definition st_of_bytes (l : list N) : st :=
  match be_words_of_bytes l with
  | [a; b; c; d; e; f; g; h] => St a b c d e f g h
  | _ => IV (* unreachable for 32-byte inputs *)
  end.

Definition pbkdf2_sha256_32 (password salt : list N) (c : N) : list N :=
  let si := pad_state (hmac_ipad password) in
  let so := pad_state (hmac_opad password) in
  let u1 := st_of_bytes (hmac_sha256 password (salt ++ [0; 0; 0; 1]%N)) in
  let r := N.iter (N.pred c) (pbkdf2_step si so) (Acc u1 u1) in
  digest_bytes (acc_t r).

Lemma pbkdf2_sha256_32_length password salt c :
  length (pbkdf2_sha256_32 password salt c) = 32.
Proof. apply digest_bytes_length. Qed.
