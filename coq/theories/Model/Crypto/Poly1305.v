(** * Poly1305 (RFC 8439 section 2.5), on [N] arithmetic modulo 2^130 - 5. *)

From Coq Require Import List NArith ZArith Lia.
From TC Require Import Model.Crypto.Bytes.
Import ListNotations.

Definition P1305 : N := Eval vm_compute in (2 ^ 130 - 5)%N.
Definition TWO128 : N := Eval vm_compute in (2 ^ 128)%N.

(** r &= 0x0ffffffc0ffffffc0ffffffc0fffffff *)
Definition clamp (r : N) : N :=
  N.land r 0x0ffffffc0ffffffc0ffffffc0fffffff%N.

(** Process the message in 16-byte blocks (the last one may be shorter):
    each block is read as a little-endian number with an extra 0x01 byte
    appended, added to the accumulator, and the sum multiplied by r mod p.
    [fuel] only needs to be >= the number of blocks; [length msg] is used. *)
Fixpoint poly_loop (fuel : nat) (r acc : N) (msg : list N) : N :=
  match fuel with
  | O => acc
  | S f =>
      match msg with
      | [] => acc
      | _ =>
          let blk := firstn 16 msg in
          let n := (le_num blk + 2 ^ (8 * N.of_nat (length blk)))%N in
          poly_loop f r (((acc + n) * r) mod P1305)%N (skipn 16 msg)
      end
  end.

(** key = r (16 bytes, clamped) || s (16 bytes); tag = (acc + s) mod 2^128,
    serialized as 16 little-endian bytes. *)
Definition poly1305 (key msg : list N) : list N :=
  let r := clamp (le_num (firstn 16 key)) in
  let s := le_num (firstn 16 (skipn 16 key)) in
  let a := poly_loop (length msg) r 0%N msg in
  le_bytes 16 ((a + s) mod TWO128)%N.

Lemma poly1305_length key msg : length (poly1305 key msg) = 16.
Proof. apply le_bytes_length. Qed.

Lemma poly1305_bytes key msg : Forall (fun b => (b < 256)%N) (poly1305 key msg).
Proof. apply le_bytes_lt. Qed.
