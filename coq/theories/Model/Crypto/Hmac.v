(** * HMAC-SHA256 (RFC 2104) *)

From Coq Require Import List NArith ZArith.
From TC Require Import Model.Crypto.Bytes Model.Crypto.Sha256.
Import ListNotations.

(** The 64-byte key block K0: keys longer than the block size are hashed
    first, then the key is zero-padded to 64 bytes. *)
Definition hmac_key_block (key : list N) : list N :=
  let k := if (64 <? length key)%nat then sha256 key else key in
  k ++ repeat 0%N (64 - length k).

Definition hmac_ipad (key : list N) : list N :=
  map (N.lxor 54 (* 0x36 *)) (hmac_key_block key).

Definition hmac_opad (key : list N) : list N :=
  map (N.lxor 92 (* 0x5c *)) (hmac_key_block key).

(** HMAC(K, m) = H((K0 xor opad) || H((K0 xor ipad) || m)) *)
Definition hmac_sha256 (key msg : list N) : list N :=
  sha256 (hmac_opad key ++ sha256 (hmac_ipad key ++ msg)).

Lemma hmac_sha256_length key msg : length (hmac_sha256 key msg) = 32.
Proof. apply sha256_length. Qed.
