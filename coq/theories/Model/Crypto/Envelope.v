(** * The sealed-envelope format of the TaskChampion sync protocol.

      key    = PBKDF2-HMAC-SHA256(secret, salt, 600000 iterations, 32 bytes)
      AAD    = 0x01 (application id) || version id (16 bytes)
      sealed = 0x01 (format version) || nonce (12 bytes) || C || T
    where (C, T) = ChaCha20-Poly1305(key, nonce, AAD, payload). *)

From Coq Require Import List NArith ZArith Lia.
From TC Require Import Model.Crypto.Bytes Model.Crypto.Pbkdf2 Model.Crypto.Aead.
Import ListNotations.

Definition PBKDF2_ITERATIONS : N := 600000.
Definition APP_ID : N := 1.
Definition ENVELOPE_VERSION : N := 1.
Definition NONCE_LEN : nat := 12.
Definition TAG_LEN : nat := 16.

Definition derive_key (secret salt : list N) : list N :=
  pbkdf2_sha256_32 secret salt PBKDF2_ITERATIONS.

Definition make_aad (version_id : list N) : list N := APP_ID :: version_id.

Definition seal (key nonce version_id payload : list N) : list N :=
  let ct := aead_seal key nonce (make_aad version_id) payload in
  ENVELOPE_VERSION :: nonce ++ fst ct ++ snd ct.

(** Opening, step by step as documented:
    - a value of length <= 13 (= 1 + nonce length) is rejected;
    - the first byte must be the format version 1;
    - the next 12 bytes are the nonce;
    - the remainder is ciphertext || tag, the tag being its last 16 bytes;
      a remainder shorter than 16 bytes is rejected;
    - the AEAD is opened with the AAD built from the caller's version id. *)
Definition unseal (key version_id sealed : list N) : option (list N) :=
  if (length sealed <=? 1 + NONCE_LEN)%nat then None else
  match sealed with
  | [] => None
  | v :: body =>
      if negb (N.eqb v ENVELOPE_VERSION) then None else
      let nonce := firstn NONCE_LEN body in
      let ct := skipn NONCE_LEN body in
      if (length ct <? TAG_LEN)%nat then None else
      let clen := (length ct - TAG_LEN)%nat in
      aead_open key nonce (make_aad version_id) (firstn clen ct) (skipn clen ct)
  end.
