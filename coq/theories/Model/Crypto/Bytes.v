(** * Byte-level helpers shared by the crypto model.

    Interface convention: a byte string is a [list N] whose elements are
    meant to be < 256.  Every function below is total on arbitrary [list N];
    nothing in the development relies on the < 256 side condition for its
    structural theorems (lengths, round trips).

    Word-level computations (SHA-256, ChaCha20) are carried out on Coq's
    primitive 63-bit integers ([Uint63.int]); a 32-bit word is an [int] whose
    value is < 2^32, re-normalised with [land M32] after every operation that
    can carry out of 32 bits. *)

From Coq Require Import String Ascii.
From Coq Require Import List NArith ZArith Lia Bool Uint63.
Import ListNotations.

(** ** Conversions between interface bytes and primitive integers *)

Definition M32 : int := 0xFFFFFFFF%uint63.

Definition byte_to_int (b : N) : int :=
  (Uint63.of_Z (Z.of_N b) land 255)%uint63.

Definition int_to_byte (x : int) : N :=
  Z.to_N (Uint63.to_Z (x land 255)%uint63).

(** Big-endian / little-endian assembly of a 32-bit word from four bytes. *)
Definition be32 (a b c d : int) : int :=
  ((a << 24) lor (b << 16) lor (c << 8) lor d)%uint63.

Definition le32 (a b c d : int) : int := be32 d c b a.

Definition word_be_bytes (w : int) : list N :=
  [ int_to_byte (w >> 24)%uint63; int_to_byte (w >> 16)%uint63;
    int_to_byte (w >> 8)%uint63;  int_to_byte w ].

Definition word_le_bytes (w : int) : list N :=
  [ int_to_byte w; int_to_byte (w >> 8)%uint63;
    int_to_byte (w >> 16)%uint63; int_to_byte (w >> 24)%uint63 ].

(** Group a list of (already converted) bytes four by four into words.  A
    trailing group of fewer than four bytes is dropped; callers only use
    these on inputs whose length is a multiple of four. *)
Fixpoint words_be (l : list int) : list int :=
  match l with
  | a :: b :: c :: d :: r => be32 a b c d :: words_be r
  | _ => []
  end.

Fixpoint words_le (l : list int) : list int :=
  match l with
  | a :: b :: c :: d :: r => le32 a b c d :: words_le r
  | _ => []
  end.

Lemma word_be_bytes_length w : length (word_be_bytes w) = 4.
Proof. reflexivity. Qed.

Lemma word_le_bytes_length w : length (word_le_bytes w) = 4.
Proof. reflexivity. Qed.

Lemma flat_map_const_length {A B} (f : A -> list B) (n : nat) (l : list A) :
  (forall x, length (f x) = n) ->
  length (flat_map f l) = n * length l.
Proof.
  intros Hf. induction l as [|x l IH]; simpl.
  - lia.
  - rewrite app_length, Hf, IH. lia.
Qed.

(** ** Little-endian numbers over [N] (used by Poly1305 and length fields) *)

Fixpoint le_num (l : list N) : N :=
  match l with
  | [] => 0
  | b :: r => b + 256 * le_num r
  end%N.

Fixpoint le_bytes (n : nat) (x : N) : list N :=
  match n with
  | O => []
  | S k => (x mod 256)%N :: le_bytes k (x / 256)%N
  end.

Definition be_bytes (n : nat) (x : N) : list N := rev (le_bytes n x).

Lemma le_bytes_length n x : length (le_bytes n x) = n.
Proof. revert x. induction n; intros; simpl; auto. Qed.

Lemma be_bytes_length n x : length (be_bytes n x) = n.
Proof. unfold be_bytes. rewrite rev_length. apply le_bytes_length. Qed.

Lemma le_bytes_lt n x : Forall (fun b => (b < 256)%N) (le_bytes n x).
Proof.
  revert x. induction n; intros; simpl; constructor; auto.
  apply N.mod_lt. discriminate.
Qed.

(** ** XOR of a data string with a key stream.

    The result always has the length of the DATA argument.  If the key
    stream were shorter than the data the remaining data would be copied
    unchanged; [Chacha20.keystream_covers] shows that this never happens for
    the key streams used in this development. *)

Fixpoint xor_list (d k : list N) : list N :=
  match d, k with
  | [], _ => []
  | _, [] => d
  | x :: d', y :: k' => N.lxor x y :: xor_list d' k'
  end.

Lemma xor_list_length d k : length (xor_list d k) = length d.
Proof.
  revert k. induction d as [|x d IH]; intros [|y k]; simpl; auto.
Qed.

Lemma xor_list_involutive d k : xor_list (xor_list d k) k = d.
Proof.
  revert k. induction d as [|x d IH]; intros [|y k]; simpl; auto.
  rewrite IH. f_equal.
  rewrite N.lxor_assoc, N.lxor_nilpotent, N.lxor_0_r. reflexivity.
Qed.

(** When the key stream is long enough, [xor_list] is the pointwise XOR. *)
Lemma xor_list_nth d k i :
  (length d <= length k)%nat -> (i < length d)%nat ->
  nth i (xor_list d k) 0%N = N.lxor (nth i d 0%N) (nth i k 0%N).
Proof.
  revert k i. induction d as [|x d IH]; intros [|y k] i Hk Hi; simpl in *; try lia.
  destruct i; auto. apply IH; lia.
Qed.

(** ** Equality test on byte strings (tag comparison) *)

Fixpoint bytes_eqb (a b : list N) : bool :=
  match a, b with
  | [], [] => true
  | x :: a', y :: b' => N.eqb x y && bytes_eqb a' b'
  | _, _ => false
  end.

Lemma bytes_eqb_eq a b : bytes_eqb a b = true <-> a = b.
Proof.
  revert b. induction a as [|x a IH]; intros [|y b]; simpl; split; intros H;
    try reflexivity; try discriminate.
  - apply andb_true_iff in H. destruct H as [H1 H2].
    apply N.eqb_eq in H1. apply IH in H2. subst. reflexivity.
  - inversion H; subst. rewrite N.eqb_refl. simpl. apply IH. reflexivity.
Qed.

Lemma bytes_eqb_refl a : bytes_eqb a a = true.
Proof. apply bytes_eqb_eq. reflexivity. Qed.

(** ** Splitting lemmas used by the envelope proofs *)

Lemma firstn_app_exact {A} (l1 l2 : list A) n :
  length l1 = n -> firstn n (l1 ++ l2) = l1.
Proof.
  intros <-. rewrite firstn_app, Nat.sub_diag, firstn_all. simpl.
  apply app_nil_r.
Qed.

Lemma skipn_app_exact {A} (l1 l2 : list A) n :
  length l1 = n -> skipn n (l1 ++ l2) = l2.
Proof.
  intros <-. rewrite skipn_app, Nat.sub_diag, skipn_all. reflexivity.
Qed.

(** ** Literals for test vectors *)

Definition hex_digit (c : ascii) : N :=
  let n := N_of_ascii c in
  if (48 <=? n)%N && (n <=? 57)%N then n - 48
  else if (97 <=? n)%N && (n <=? 102)%N then n - 87
  else if (65 <=? n)%N && (n <=? 70)%N then n - 55
  else 0.

(** [hex "0a1b"] = [[10; 27]].  Digits are consumed in pairs; an odd trailing
    digit is ignored. *)
Fixpoint hex (s : string) : list N :=
  match s with
  | String a (String b r) => (16 * hex_digit a + hex_digit b)%N :: hex r
  | _ => []
  end.

Definition bytes_of_string (s : string) : list N :=
  List.map N_of_ascii (list_ascii_of_string s).
