(** * SHA-256 (FIPS 180-4), executable model on primitive 63-bit integers.

    A 32-bit word is an [int] < 2^32.  Sums of up to five words fit easily in
    63 bits, so additions are performed exactly and reduced with one
    [land 0xFFFFFFFF] where FIPS 180-4 says "addition modulo 2^32".

    Rotations: for a word [x], [x lor (x << 32)] holds two adjacent copies of
    [x] (the copy in the high half loses its top bit to the 63-bit
    truncation, which is harmless because only rotation amounts <= 25 are
    used, i.e. only bits 0..24 of the upper copy are ever shifted into the
    low 32 bits).  [ROTR n x] is then the low 32 bits of that value shifted
    right by [n].

    The compression function is written out as 64 straight-line rounds over
    the "shift register" formulation of the working variables: at round t
      a = x(t+3), b = x(t+2), c = x(t+1), d = x(t),
      e = y(t+3), f = y(t+2), g = y(t+1), h = y(t),
    and the round computes x(t+4) (new a) and y(t+4) (new e).  The small
    functions are [Notation]s so that no closure/function-call overhead is
    paid inside [vm_compute]; PBKDF2 performs 1.2 million compressions. *)

From Coq Require Import List NArith ZArith Uint63.
From TC Require Import Model.Crypto.Bytes.
Import ListNotations.

Local Open Scope uint63_scope.

Local Notation MASK := 0xFFFFFFFF (only parsing).

(** Sigma0(x) = ROTR2 ^ ROTR13 ^ ROTR22 ; Sigma1(x) = ROTR6 ^ ROTR11 ^ ROTR25 *)
Local Notation BSIG0 x :=
  (let xx := x lor (x << 32) in
   ((xx >> 2) lxor (xx >> 13) lxor (xx >> 22)) land MASK) (only parsing).
Local Notation BSIG1 x :=
  (let xx := x lor (x << 32) in
   ((xx >> 6) lxor (xx >> 11) lxor (xx >> 25)) land MASK) (only parsing).
(** sigma0(x) = ROTR7 ^ ROTR18 ^ SHR3 ; sigma1(x) = ROTR17 ^ ROTR19 ^ SHR10 *)
Local Notation SSIG0 x :=
  (let xx := x lor (x << 32) in
   (((xx >> 7) lxor (xx >> 18)) land MASK) lxor (x >> 3)) (only parsing).
Local Notation SSIG1 x :=
  (let xx := x lor (x << 32) in
   (((xx >> 17) lxor (xx >> 19)) land MASK) lxor (x >> 10)) (only parsing).
(** Ch(e,f,g) = (e & f) ^ (~e & g) = g ^ (e & (f ^ g));
    Maj(a,b,c) = (a & b) ^ (a & c) ^ (b & c) = (a & b) | (c & (a | b)). *)
Local Notation CH e f g := (g lxor (e land (f lxor g))) (only parsing).
Local Notation MAJ a b c := ((a land b) lor (c land (a lor b))) (only parsing).

(** T1 = h + Sigma1(e) + Ch(e,f,g) + K_t + W_t (not reduced: < 5 * 2^32);
    T2 = Sigma0(a) + Maj(a,b,c). *)
Local Notation T1 h e f g k w := (h + BSIG1 e + CH e f g + k + w) (only parsing).
Local Notation T2 a b c := (BSIG0 a + MAJ a b c) (only parsing).
(** W_t = sigma1(W_{t-2}) + W_{t-7} + sigma0(W_{t-15}) + W_{t-16} mod 2^32 *)
Local Notation SCHED w2 w7 w15 w16 :=
  ((SSIG1 w2 + w7 + SSIG0 w15 + w16) land MASK) (only parsing).

(** Chaining value: eight 32-bit words. *)
Record st : Set := St { s0 : int; s1 : int; s2 : int; s3 : int;
                        s4 : int; s5 : int; s6 : int; s7 : int }.

Definition IV : st :=
  St 0x6a09e667 0xbb67ae85 0x3c6ef372 0xa54ff53a
     0x510e527f 0x9b05688c 0x1f83d9ab 0x5be0cd19.

(** One application of the compression function to a 16-word block. *)
Definition compress (s : st)
  (w0 w1 w2 w3 w4 w5 w6 w7 w8 w9 w10 w11 w12 w13 w14 w15 : int) : st :=
  let 'St x3 x2 x1 x0 y3 y2 y1 y0 := s in
  let t1 := T1 y0 y3 y2 y1 0x428a2f98 w0 in
  let y4 := (x0 + t1) land MASK in
  let x4 := (t1 + T2 x3 x2 x1) land MASK in
  let t1 := T1 y1 y4 y3 y2 0x71374491 w1 in
  let y5 := (x1 + t1) land MASK in
  let x5 := (t1 + T2 x4 x3 x2) land MASK in
  let t1 := T1 y2 y5 y4 y3 0xb5c0fbcf w2 in
  let y6 := (x2 + t1) land MASK in
  let x6 := (t1 + T2 x5 x4 x3) land MASK in
  let t1 := T1 y3 y6 y5 y4 0xe9b5dba5 w3 in
  let y7 := (x3 + t1) land MASK in
  let x7 := (t1 + T2 x6 x5 x4) land MASK in
  let t1 := T1 y4 y7 y6 y5 0x3956c25b w4 in
  let y8 := (x4 + t1) land MASK in
  let x8 := (t1 + T2 x7 x6 x5) land MASK in
  let t1 := T1 y5 y8 y7 y6 0x59f111f1 w5 in
  let y9 := (x5 + t1) land MASK in
  let x9 := (t1 + T2 x8 x7 x6) land MASK in
  let t1 := T1 y6 y9 y8 y7 0x923f82a4 w6 in
  let y10 := (x6 + t1) land MASK in
  let x10 := (t1 + T2 x9 x8 x7) land MASK in
  let t1 := T1 y7 y10 y9 y8 0xab1c5ed5 w7 in
  let y11 := (x7 + t1) land MASK in
  let x11 := (t1 + T2 x10 x9 x8) land MASK in
  let t1 := T1 y8 y11 y10 y9 0xd807aa98 w8 in
  let y12 := (x8 + t1) land MASK in
  let x12 := (t1 + T2 x11 x10 x9) land MASK in
  let t1 := T1 y9 y12 y11 y10 0x12835b01 w9 in
  let y13 := (x9 + t1) land MASK in
  let x13 := (t1 + T2 x12 x11 x10) land MASK in
  let t1 := T1 y10 y13 y12 y11 0x243185be w10 in
  let y14 := (x10 + t1) land MASK in
  let x14 := (t1 + T2 x13 x12 x11) land MASK in
  let t1 := T1 y11 y14 y13 y12 0x550c7dc3 w11 in
  let y15 := (x11 + t1) land MASK in
  let x15 := (t1 + T2 x14 x13 x12) land MASK in
  let t1 := T1 y12 y15 y14 y13 0x72be5d74 w12 in
  let y16 := (x12 + t1) land MASK in
  let x16 := (t1 + T2 x15 x14 x13) land MASK in
  let t1 := T1 y13 y16 y15 y14 0x80deb1fe w13 in
  let y17 := (x13 + t1) land MASK in
  let x17 := (t1 + T2 x16 x15 x14) land MASK in
  let t1 := T1 y14 y17 y16 y15 0x9bdc06a7 w14 in
  let y18 := (x14 + t1) land MASK in
  let x18 := (t1 + T2 x17 x16 x15) land MASK in
  let t1 := T1 y15 y18 y17 y16 0xc19bf174 w15 in
  let y19 := (x15 + t1) land MASK in
  let x19 := (t1 + T2 x18 x17 x16) land MASK in
  let w16 := SCHED w14 w9 w1 w0 in
  let t1 := T1 y16 y19 y18 y17 0xe49b69c1 w16 in
  let y20 := (x16 + t1) land MASK in
  let x20 := (t1 + T2 x19 x18 x17) land MASK in
  let w17 := SCHED w15 w10 w2 w1 in
  let t1 := T1 y17 y20 y19 y18 0xefbe4786 w17 in
  let y21 := (x17 + t1) land MASK in
  let x21 := (t1 + T2 x20 x19 x18) land MASK in
  let w18 := SCHED w16 w11 w3 w2 in
  let t1 := T1 y18 y21 y20 y19 0x0fc19dc6 w18 in
  let y22 := (x18 + t1) land MASK in
  let x22 := (t1 + T2 x21 x20 x19) land MASK in
  let w19 := SCHED w17 w12 w4 w3 in
  let t1 := T1 y19 y22 y21 y20 0x240ca1cc w19 in
  let y23 := (x19 + t1) land MASK in
  let x23 := (t1 + T2 x22 x21 x20) land MASK in
  let w20 := SCHED w18 w13 w5 w4 in
  let t1 := T1 y20 y23 y22 y21 0x2de92c6f w20 in
  let y24 := (x20 + t1) land MASK in
  let x24 := (t1 + T2 x23 x22 x21) land MASK in
  let w21 := SCHED w19 w14 w6 w5 in
  let t1 := T1 y21 y24 y23 y22 0x4a7484aa w21 in
  let y25 := (x21 + t1) land MASK in
  let x25 := (t1 + T2 x24 x23 x22) land MASK in
  let w22 := SCHED w20 w15 w7 w6 in
  let t1 := T1 y22 y25 y24 y23 0x5cb0a9dc w22 in
  let y26 := (x22 + t1) land MASK in
  let x26 := (t1 + T2 x25 x24 x23) land MASK in
  let w23 := SCHED w21 w16 w8 w7 in
  let t1 := T1 y23 y26 y25 y24 0x76f988da w23 in
  let y27 := (x23 + t1) land MASK in
  let x27 := (t1 + T2 x26 x25 x24) land MASK in
  let w24 := SCHED w22 w17 w9 w8 in
  let t1 := T1 y24 y27 y26 y25 0x983e5152 w24 in
  let y28 := (x24 + t1) land MASK in
  let x28 := (t1 + T2 x27 x26 x25) land MASK in
  let w25 := SCHED w23 w18 w10 w9 in
  let t1 := T1 y25 y28 y27 y26 0xa831c66d w25 in
  let y29 := (x25 + t1) land MASK in
  let x29 := (t1 + T2 x28 x27 x26) land MASK in
  let w26 := SCHED w24 w19 w11 w10 in
  let t1 := T1 y26 y29 y28 y27 0xb00327c8 w26 in
  let y30 := (x26 + t1) land MASK in
  let x30 := (t1 + T2 x29 x28 x27) land MASK in
  let w27 := SCHED w25 w20 w12 w11 in
  let t1 := T1 y27 y30 y29 y28 0xbf597fc7 w27 in
  let y31 := (x27 + t1) land MASK in
  let x31 := (t1 + T2 x30 x29 x28) land MASK in
  let w28 := SCHED w26 w21 w13 w12 in
  let t1 := T1 y28 y31 y30 y29 0xc6e00bf3 w28 in
  let y32 := (x28 + t1) land MASK in
  let x32 := (t1 + T2 x31 x30 x29) land MASK in
  let w29 := SCHED w27 w22 w14 w13 in
  let t1 := T1 y29 y32 y31 y30 0xd5a79147 w29 in
  let y33 := (x29 + t1) land MASK in
  let x33 := (t1 + T2 x32 x31 x30) land MASK in
  let w30 := SCHED w28 w23 w15 w14 in
  let t1 := T1 y30 y33 y32 y31 0x06ca6351 w30 in
  let y34 := (x30 + t1) land MASK in
  let x34 := (t1 + T2 x33 x32 x31) land MASK in
  let w31 := SCHED w29 w24 w16 w15 in
  let t1 := T1 y31 y34 y33 y32 0x14292967 w31 in
  let y35 := (x31 + t1) land MASK in
  let x35 := (t1 + T2 x34 x33 x32) land MASK in
  let w32 := SCHED w30 w25 w17 w16 in
  let t1 := T1 y32 y35 y34 y33 0x27b70a85 w32 in
  let y36 := (x32 + t1) land MASK in
  let x36 := (t1 + T2 x35 x34 x33) land MASK in
  let w33 := SCHED w31 w26 w18 w17 in
  let t1 := T1 y33 y36 y35 y34 0x2e1b2138 w33 in
  let y37 := (x33 + t1) land MASK in
  let x37 := (t1 + T2 x36 x35 x34) land MASK in
  let w34 := SCHED w32 w27 w19 w18 in
  let t1 := T1 y34 y37 y36 y35 0x4d2c6dfc w34 in
  let y38 := (x34 + t1) land MASK in
  let x38 := (t1 + T2 x37 x36 x35) land MASK in
  let w35 := SCHED w33 w28 w20 w19 in
  let t1 := T1 y35 y38 y37 y36 0x53380d13 w35 in
  let y39 := (x35 + t1) land MASK in
  let x39 := (t1 + T2 x38 x37 x36) land MASK in
  let w36 := SCHED w34 w29 w21 w20 in
  let t1 := T1 y36 y39 y38 y37 0x650a7354 w36 in
  let y40 := (x36 + t1) land MASK in
  let x40 := (t1 + T2 x39 x38 x37) land MASK in
  let w37 := SCHED w35 w30 w22 w21 in
  let t1 := T1 y37 y40 y39 y38 0x766a0abb w37 in
  let y41 := (x37 + t1) land MASK in
  let x41 := (t1 + T2 x40 x39 x38) land MASK in
  let w38 := SCHED w36 w31 w23 w22 in
  let t1 := T1 y38 y41 y40 y39 0x81c2c92e w38 in
  let y42 := (x38 + t1) land MASK in
  let x42 := (t1 + T2 x41 x40 x39) land MASK in
  let w39 := SCHED w37 w32 w24 w23 in
  let t1 := T1 y39 y42 y41 y40 0x92722c85 w39 in
  let y43 := (x39 + t1) land MASK in
  let x43 := (t1 + T2 x42 x41 x40) land MASK in
  let w40 := SCHED w38 w33 w25 w24 in
  let t1 := T1 y40 y43 y42 y41 0xa2bfe8a1 w40 in
  let y44 := (x40 + t1) land MASK in
  let x44 := (t1 + T2 x43 x42 x41) land MASK in
  let w41 := SCHED w39 w34 w26 w25 in
  let t1 := T1 y41 y44 y43 y42 0xa81a664b w41 in
  let y45 := (x41 + t1) land MASK in
  let x45 := (t1 + T2 x44 x43 x42) land MASK in
  let w42 := SCHED w40 w35 w27 w26 in
  let t1 := T1 y42 y45 y44 y43 0xc24b8b70 w42 in
  let y46 := (x42 + t1) land MASK in
  let x46 := (t1 + T2 x45 x44 x43) land MASK in
  let w43 := SCHED w41 w36 w28 w27 in
  let t1 := T1 y43 y46 y45 y44 0xc76c51a3 w43 in
  let y47 := (x43 + t1) land MASK in
  let x47 := (t1 + T2 x46 x45 x44) land MASK in
  let w44 := SCHED w42 w37 w29 w28 in
  let t1 := T1 y44 y47 y46 y45 0xd192e819 w44 in
  let y48 := (x44 + t1) land MASK in
  let x48 := (t1 + T2 x47 x46 x45) land MASK in
  let w45 := SCHED w43 w38 w30 w29 in
  let t1 := T1 y45 y48 y47 y46 0xd6990624 w45 in
  let y49 := (x45 + t1) land MASK in
  let x49 := (t1 + T2 x48 x47 x46) land MASK in
  let w46 := SCHED w44 w39 w31 w30 in
  let t1 := T1 y46 y49 y48 y47 0xf40e3585 w46 in
  let y50 := (x46 + t1) land MASK in
  let x50 := (t1 + T2 x49 x48 x47) land MASK in
  let w47 := SCHED w45 w40 w32 w31 in
  let t1 := T1 y47 y50 y49 y48 0x106aa070 w47 in
  let y51 := (x47 + t1) land MASK in
  let x51 := (t1 + T2 x50 x49 x48) land MASK in
  let w48 := SCHED w46 w41 w33 w32 in
  let t1 := T1 y48 y51 y50 y49 0x19a4c116 w48 in
  let y52 := (x48 + t1) land MASK in
  let x52 := (t1 + T2 x51 x50 x49) land MASK in
  let w49 := SCHED w47 w42 w34 w33 in
  let t1 := T1 y49 y52 y51 y50 0x1e376c08 w49 in
  let y53 := (x49 + t1) land MASK in
  let x53 := (t1 + T2 x52 x51 x50) land MASK in
  let w50 := SCHED w48 w43 w35 w34 in
  let t1 := T1 y50 y53 y52 y51 0x2748774c w50 in
  let y54 := (x50 + t1) land MASK in
  let x54 := (t1 + T2 x53 x52 x51) land MASK in
  let w51 := SCHED w49 w44 w36 w35 in
  let t1 := T1 y51 y54 y53 y52 0x34b0bcb5 w51 in
  let y55 := (x51 + t1) land MASK in
  let x55 := (t1 + T2 x54 x53 x52) land MASK in
  let w52 := SCHED w50 w45 w37 w36 in
  let t1 := T1 y52 y55 y54 y53 0x391c0cb3 w52 in
  let y56 := (x52 + t1) land MASK in
  let x56 := (t1 + T2 x55 x54 x53) land MASK in
  let w53 := SCHED w51 w46 w38 w37 in
  let t1 := T1 y53 y56 y55 y54 0x4ed8aa4a w53 in
  let y57 := (x53 + t1) land MASK in
  let x57 := (t1 + T2 x56 x55 x54) land MASK in
  let w54 := SCHED w52 w47 w39 w38 in
  let t1 := T1 y54 y57 y56 y55 0x5b9cca4f w54 in
  let y58 := (x54 + t1) land MASK in
  let x58 := (t1 + T2 x57 x56 x55) land MASK in
  let w55 := SCHED w53 w48 w40 w39 in
  let t1 := T1 y55 y58 y57 y56 0x682e6ff3 w55 in
  let y59 := (x55 + t1) land MASK in
  let x59 := (t1 + T2 x58 x57 x56) land MASK in
  let w56 := SCHED w54 w49 w41 w40 in
  let t1 := T1 y56 y59 y58 y57 0x748f82ee w56 in
  let y60 := (x56 + t1) land MASK in
  let x60 := (t1 + T2 x59 x58 x57) land MASK in
  let w57 := SCHED w55 w50 w42 w41 in
  let t1 := T1 y57 y60 y59 y58 0x78a5636f w57 in
  let y61 := (x57 + t1) land MASK in
  let x61 := (t1 + T2 x60 x59 x58) land MASK in
  let w58 := SCHED w56 w51 w43 w42 in
  let t1 := T1 y58 y61 y60 y59 0x84c87814 w58 in
  let y62 := (x58 + t1) land MASK in
  let x62 := (t1 + T2 x61 x60 x59) land MASK in
  let w59 := SCHED w57 w52 w44 w43 in
  let t1 := T1 y59 y62 y61 y60 0x8cc70208 w59 in
  let y63 := (x59 + t1) land MASK in
  let x63 := (t1 + T2 x62 x61 x60) land MASK in
  let w60 := SCHED w58 w53 w45 w44 in
  let t1 := T1 y60 y63 y62 y61 0x90befffa w60 in
  let y64 := (x60 + t1) land MASK in
  let x64 := (t1 + T2 x63 x62 x61) land MASK in
  let w61 := SCHED w59 w54 w46 w45 in
  let t1 := T1 y61 y64 y63 y62 0xa4506ceb w61 in
  let y65 := (x61 + t1) land MASK in
  let x65 := (t1 + T2 x64 x63 x62) land MASK in
  let w62 := SCHED w60 w55 w47 w46 in
  let t1 := T1 y62 y65 y64 y63 0xbef9a3f7 w62 in
  let y66 := (x62 + t1) land MASK in
  let x66 := (t1 + T2 x65 x64 x63) land MASK in
  let w63 := SCHED w61 w56 w48 w47 in
  let t1 := T1 y63 y66 y65 y64 0xc67178f2 w63 in
  let y67 := (x63 + t1) land MASK in
  let x67 := (t1 + T2 x66 x65 x64) land MASK in
  St ((x3 + x67) land MASK) ((x2 + x66) land MASK)
     ((x1 + x65) land MASK) ((x0 + x64) land MASK)
     ((y3 + y67) land MASK) ((y2 + y66) land MASK)
     ((y1 + y65) land MASK) ((y0 + y64) land MASK).

(** Absorb a sequence of words, sixteen at a time.  Callers pass a multiple
    of sixteen words; a shorter trailing group would be ignored. *)
Fixpoint absorb (s : st) (ws : list int) : st :=
  match ws with
  | w0 :: w1 :: w2 :: w3 :: w4 :: w5 :: w6 :: w7 ::
    w8 :: w9 :: w10 :: w11 :: w12 :: w13 :: w14 :: w15 :: r =>
      absorb (compress s w0 w1 w2 w3 w4 w5 w6 w7 w8 w9 w10 w11 w12 w13 w14 w15) r
  | _ => s
  end.

Local Close Scope uint63_scope.

(** Padding (FIPS 180-4 section 5.1.1) for a message that is the tail of a
    stream of [prefix] bytes already absorbed ([prefix] must be a multiple
    of 64; it is 0 for a plain hash and 64 inside HMAC with a precomputed
    pad state): append 0x80, then k zero bytes with
    |msg| + 1 + k + 8 = 0 (mod 64), then the 64-bit big-endian BIT length of
    the whole stream. *)
Definition pad_after (prefix : N) (msg : list N) : list N :=
  let len := N.of_nat (length msg) in
  let k := ((119 - len mod 64) mod 64)%N in
  msg ++ [128%N] ++ repeat 0%N (N.to_nat k) ++ be_bytes 8 (8 * (prefix + len))%N.

Definition pad (msg : list N) : list N := pad_after 0 msg.

Definition st_words (s : st) : list int :=
  [s0 s; s1 s; s2 s; s3 s; s4 s; s5 s; s6 s; s7 s].

Definition digest_bytes (s : st) : list N := flat_map word_be_bytes (st_words s).

(** Words of a byte string (big-endian), for feeding [absorb]. *)
Definition be_words_of_bytes (l : list N) : list int :=
  words_be (map byte_to_int l).

Definition sha256 (msg : list N) : list N :=
  digest_bytes (absorb IV (be_words_of_bytes (pad msg))).

Lemma digest_bytes_length s : length (digest_bytes s) = 32.
Proof. reflexivity. Qed.

Lemma sha256_length msg : length (sha256 msg) = 32.
Proof. apply digest_bytes_length. Qed.
