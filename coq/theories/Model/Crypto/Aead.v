(** * AEAD_CHACHA20_POLY1305 (RFC 8439 section 2.8) *)

From Coq Require Import List NArith ZArith Lia.
From TC Require Import Model.Crypto.Bytes Model.Crypto.Chacha20 Model.Crypto.Poly1305.
Import ListNotations.

(** Zero padding up to the next multiple of 16 bytes (none if already one). *)
Definition pad16 (l : list N) : list N :=
  repeat 0%N (Nat.modulo (16 - Nat.modulo (length l) 16) 16).

(** The Poly1305 input: aad | pad16 | ciphertext | pad16 | len(aad) as 8
    little-endian bytes | len(ciphertext) as 8 little-endian bytes. *)
Definition mac_data (aad c : list N) : list N :=
  aad ++ pad16 aad ++ c ++ pad16 c ++
  le_bytes 8 (N.of_nat (length aad)) ++ le_bytes 8 (N.of_nat (length c)).

(** One-time Poly1305 key (section 2.6): first 32 bytes of the ChaCha20 block
    with counter 0. *)
Definition poly_key (key nonce : list N) : list N :=
  firstn 32 (chacha20_block key 0 nonce).

(** The tag for a given ciphertext. *)
Definition aead_tag (key nonce aad c : list N) : list N :=
  poly1305 (poly_key key nonce) (mac_data aad c).

(** Encryption uses ChaCha20 with initial counter 1. *)
Definition aead_seal (key nonce aad plaintext : list N) : list N * list N :=
  let c := chacha20_xor key 1 nonce plaintext in
  (c, aead_tag key nonce aad c).

(** Decryption: recompute the tag over (aad, ciphertext); release the
    plaintext only if it equals the received tag. *)
Definition aead_open (key nonce aad c tag : list N) : option (list N) :=
  if bytes_eqb (aead_tag key nonce aad c) tag
  then Some (chacha20_xor key 1 nonce c)
  else None.

(** ** Structural facts, valid for arbitrary inputs *)

Lemma aead_tag_length key nonce aad c : length (aead_tag key nonce aad c) = 16.
Proof. apply poly1305_length. Qed.

Lemma aead_seal_fst_length key nonce aad p :
  length (fst (aead_seal key nonce aad p)) = length p.
Proof. apply chacha20_xor_length. Qed.

Lemma aead_seal_snd_length key nonce aad p :
  length (snd (aead_seal key nonce aad p)) = 16.
Proof. apply aead_tag_length. Qed.

Lemma aead_seal_snd key nonce aad p :
  snd (aead_seal key nonce aad p) =
  aead_tag key nonce aad (fst (aead_seal key nonce aad p)).
Proof. reflexivity. Qed.

(** Opening what was sealed (same key, nonce and AAD) returns the plaintext. *)
Lemma aead_open_seal key nonce aad p :
  aead_open key nonce aad (fst (aead_seal key nonce aad p))
                          (snd (aead_seal key nonce aad p)) = Some p.
Proof.
  unfold aead_open, aead_seal; cbn [fst snd].
  rewrite bytes_eqb_refl, chacha20_xor_involutive. reflexivity.
Qed.

(** Acceptance is exactly tag equality, and then the result is the ChaCha20
    decryption of the ciphertext. *)
Lemma aead_open_Some key nonce aad c tag p :
  aead_open key nonce aad c tag = Some p <->
  tag = aead_tag key nonce aad c /\ p = chacha20_xor key 1 nonce c.
Proof.
  unfold aead_open.
  destruct (bytes_eqb (aead_tag key nonce aad c) tag) eqn:E.
  - apply bytes_eqb_eq in E. split.
    + intros H; inversion H; subst; auto.
    + intros [_ ->]. reflexivity.
  - split; [discriminate|]. intros [-> _].
    rewrite bytes_eqb_refl in E. discriminate.
Qed.

(** Whatever [aead_open] accepts is precisely a pair [aead_seal] produces
    for the returned plaintext. *)
Lemma aead_open_is_seal key nonce aad c tag p :
  aead_open key nonce aad c tag = Some p ->
  aead_seal key nonce aad p = (c, tag).
Proof.
  intros H. apply aead_open_Some in H. destruct H as [-> ->].
  unfold aead_seal. rewrite chacha20_xor_involutive. reflexivity.
Qed.
