(** * ChaCha20 (RFC 8439 sections 2.1 - 2.4) *)

From Coq Require Import List NArith ZArith Lia Uint63.
From TC Require Import Model.Crypto.Bytes.
Import ListNotations.

Local Open Scope uint63_scope.

(** 32-bit left rotation, 0 < n < 32.  [x << n] stays below 2^63 and its
    excess high bits are removed by the mask. *)
Definition rotl (x n : int) : int :=
  ((x << n) lor (x >> (32 - n))) land 0xFFFFFFFF.

Definition add32 (a b : int) : int := (a + b) land 0xFFFFFFFF.

(** Quarter round (section 2.1). *)
Definition qr (a b c d : int) : int * int * int * int :=
  let a := add32 a b in let d := rotl (d lxor a) 16 in
  let c := add32 c d in let b := rotl (b lxor c) 12 in
  let a := add32 a b in let d := rotl (d lxor a) 8 in
  let c := add32 c d in let b := rotl (b lxor c) 7 in
  (a, b, c, d).

(** The 4x4 state of 32-bit words. *)
Record cstate : Set := CS {
  c0 : int; c1 : int; c2 : int; c3 : int;
  c4 : int; c5 : int; c6 : int; c7 : int;
  c8 : int; c9 : int; c10 : int; c11 : int;
  c12 : int; c13 : int; c14 : int; c15 : int }.

(** One column round followed by one diagonal round (section 2.3). *)
Definition double_round (s : cstate) : cstate :=
  let 'CS x0 x1 x2 x3 x4 x5 x6 x7 x8 x9 x10 x11 x12 x13 x14 x15 := s in
  let '(x0, x4, x8,  x12) := qr x0 x4 x8  x12 in
  let '(x1, x5, x9,  x13) := qr x1 x5 x9  x13 in
  let '(x2, x6, x10, x14) := qr x2 x6 x10 x14 in
  let '(x3, x7, x11, x15) := qr x3 x7 x11 x15 in
  let '(x0, x5, x10, x15) := qr x0 x5 x10 x15 in
  let '(x1, x6, x11, x12) := qr x1 x6 x11 x12 in
  let '(x2, x7, x8,  x13) := qr x2 x7 x8  x13 in
  let '(x3, x4, x9,  x14) := qr x3 x4 x9  x14 in
  CS x0 x1 x2 x3 x4 x5 x6 x7 x8 x9 x10 x11 x12 x13 x14 x15.

Fixpoint rounds (n : nat) (s : cstate) : cstate :=
  match n with
  | O => s
  | S k => rounds k (double_round s)
  end.

(** Initial state from eight key words, the block counter and three nonce
    words (all little-endian words; missing words of a too-short key or
    nonce read as 0, which keeps the function total). *)
Definition init_state (kw : list int) (ctr : int) (nw : list int) : cstate :=
  CS 0x61707865 0x3320646e 0x79622d32 0x6b206574
     (nth 0 kw 0) (nth 1 kw 0) (nth 2 kw 0) (nth 3 kw 0)
     (nth 4 kw 0) (nth 5 kw 0) (nth 6 kw 0) (nth 7 kw 0)
     ctr (nth 0 nw 0) (nth 1 nw 0) (nth 2 nw 0).

(** The block function on words: 20 rounds, then add the input state. *)
Definition block_words (kw : list int) (ctr : int) (nw : list int) : list int :=
  let s := init_state kw ctr nw in
  let r := rounds 10 s in
  [ add32 (c0 r) (c0 s);   add32 (c1 r) (c1 s);
    add32 (c2 r) (c2 s);   add32 (c3 r) (c3 s);
    add32 (c4 r) (c4 s);   add32 (c5 r) (c5 s);
    add32 (c6 r) (c6 s);   add32 (c7 r) (c7 s);
    add32 (c8 r) (c8 s);   add32 (c9 r) (c9 s);
    add32 (c10 r) (c10 s); add32 (c11 r) (c11 s);
    add32 (c12 r) (c12 s); add32 (c13 r) (c13 s);
    add32 (c14 r) (c14 s); add32 (c15 r) (c15 s) ].

Local Close Scope uint63_scope.

Definition le_words_of_bytes (l : list N) : list int :=
  words_le (map byte_to_int l).

(** Block counter as a 32-bit word (wraps modulo 2^32, as in the RFC). *)
Definition ctr_word (ctr : N) : int :=
  (Uint63.of_Z (Z.of_N (ctr mod 4294967296)%N))%uint63.

(** The 64-byte serialized key-stream block (section 2.3). *)
Definition chacha20_block (key : list N) (ctr : N) (nonce : list N) : list N :=
  flat_map word_le_bytes
    (block_words (le_words_of_bytes key) (ctr_word ctr) (le_words_of_bytes nonce)).

(** Key stream: [nblocks] consecutive blocks starting at counter [ctr]. *)
Fixpoint keystream (key : list N) (ctr : N) (nonce : list N) (nblocks : nat)
  : list N :=
  match nblocks with
  | O => []
  | S n => chacha20_block key ctr nonce ++ keystream key (ctr + 1)%N nonce n
  end.

(** Number of 64-byte blocks needed to cover [len] bytes. *)
Definition blocks_for (len : nat) : nat := Nat.div (len + 63) 64.

(** Encryption = decryption: XOR with the key stream (section 2.4). *)
Definition chacha20_xor (key : list N) (ctr : N) (nonce : list N)
  (data : list N) : list N :=
  xor_list data (keystream key ctr nonce (blocks_for (length data))).

(** ** Structural facts *)

Lemma block_words_length kw ctr nw : length (block_words kw ctr nw) = 16.
Proof.
  (* Only [block_words] and [length] are unfolded: the sixteen output words
     stay symbolic, so no ChaCha arithmetic is ever evaluated here. *)
  cbv beta iota zeta delta [block_words length]. reflexivity.
Qed.

Lemma chacha20_block_length key ctr nonce :
  length (chacha20_block key ctr nonce) = 64.
Proof.
  unfold chacha20_block.
  rewrite (flat_map_const_length _ 4) by apply word_le_bytes_length.
  rewrite block_words_length. reflexivity.
Qed.

Lemma keystream_length key ctr nonce n :
  length (keystream key ctr nonce n) = 64 * n.
Proof.
  revert ctr. induction n; intros; cbn [keystream].
  - reflexivity.
  - rewrite app_length, chacha20_block_length, IHn. lia.
Qed.

(** The key stream used by [chacha20_xor] is at least as long as the data,
    so every data byte really is XORed with a key-stream byte. *)
Lemma keystream_covers key ctr nonce (data : list N) :
  length data <= length (keystream key ctr nonce (blocks_for (length data))).
Proof.
  rewrite keystream_length. unfold blocks_for.
  pose proof (Nat.div_mod (length data + 63) 64 ltac:(lia)) as H.
  pose proof (Nat.mod_upper_bound (length data + 63) 64 ltac:(lia)).
  lia.
Qed.

Lemma chacha20_xor_length key ctr nonce data :
  length (chacha20_xor key ctr nonce data) = length data.
Proof. apply xor_list_length. Qed.

(** Decrypting a ciphertext gives back the plaintext, for arbitrary inputs. *)
Lemma chacha20_xor_involutive key ctr nonce data :
  chacha20_xor key ctr nonce (chacha20_xor key ctr nonce data) = data.
Proof.
  unfold chacha20_xor at 1. rewrite chacha20_xor_length.
  apply xor_list_involutive.
Qed.

Lemma chacha20_xor_nth key ctr nonce data i :
  i < length data ->
  nth i (chacha20_xor key ctr nonce data) 0%N =
  N.lxor (nth i data 0%N)
         (nth i (keystream key ctr nonce (blocks_for (length data))) 0%N).
Proof. intros. apply xor_list_nth; auto. apply keystream_covers. Qed.
