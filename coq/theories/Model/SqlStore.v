(** The SQLite storage (src/storage/sqlite/inner.rs) at the level of its
    tables: [tasks] (uuid -> data), [sync_meta] (base_version), [operations]
    (rows in id order with their synced flag; the generated uuid column is
    [op_uuid]), [working_set] (id -> uuid).  Each [StorageTxn] method is the
    effect of its SQL statements.  Executable definitions only. *)
From TC Require Export Model.Storage.

Record sqlst := {
  q_tasks : db;
  q_base : option nat;                  (* sync_meta row 'base_version', if any *)
  q_ops : list (bool * op);             (* operations ORDER BY id *)
  q_ws : gmap nat N;                    (* working_set rows *)
  q_readonly : bool
}.

Definition sql0 : sqlst :=
  {| q_tasks := ∅; q_base := None; q_ops := []; q_ws := ∅; q_readonly := false |}.

(** SELECT COALESCE(MAX(id), 0) + 1 FROM working_set *)
Definition ws_next (m : gmap nat N) : nat := S (map_fold (fun k _ acc => Nat.max k acc) 0 m).

(** get_working_set: a vector of [ws_next] entries filled from the rows *)
Definition ws_vector (m : gmap nat N) : list (option N) := map (fun i => m !! i) (seq 0 (ws_next m)).

Definition absq (q : sqlst) : store :=
  {| st_tasks := q_tasks q; st_base := default 0 (q_base q); st_ops := q_ops q; st_ws := ws_vector (q_ws q) |}.

Definition upd (q : sqlst) (t : db) (b : option nat) (o : list (bool * op)) (w : gmap nat N) : sqlst :=
  {| q_tasks := t; q_base := b; q_ops := o; q_ws := w; q_readonly := q_readonly q |}.

(** every mutator first checks the access mode *)
Definition rw_guard {A} (q : sqlst) (r : A * sqlst) : option (A * sqlst) :=
  if q_readonly q then None else Some r.

Definition q_create_task (q : sqlst) (u : N) : option (bool * sqlst) :=
  rw_guard q (match q_tasks q !! u with
           | Some _ => (false, q)
           | None => (true, upd q (<[u := ∅]> (q_tasks q)) (q_base q) (q_ops q) (q_ws q))
           end).
Definition q_set_task (q : sqlst) (u : N) (t : task) : option (unit * sqlst) :=
  rw_guard q (tt, upd q (<[u := t]> (q_tasks q)) (q_base q) (q_ops q) (q_ws q)).
Definition q_delete_task (q : sqlst) (u : N) : option (bool * sqlst) :=
  rw_guard q (match q_tasks q !! u with
           | Some _ => (true, upd q (delete u (q_tasks q)) (q_base q) (q_ops q) (q_ws q))
           | None => (false, q)
           end).
Definition q_set_base (q : sqlst) (b : nat) : option (unit * sqlst) :=
  rw_guard q (tt, upd q (q_tasks q) (Some b) (q_ops q) (q_ws q)).
Definition q_add_operation (q : sqlst) (o : op) : option (unit * sqlst) :=
  rw_guard q (tt, upd q (q_tasks q) (q_base q) (q_ops q ++ [(false, o)]) (q_ws q)).

(** SELECT ... WHERE NOT synced ORDER BY id DESC LIMIT 1; DELETE that row if it matches *)
Fixpoint remove_last_unsynced (l : list (bool * op)) (o : op) : option (list (bool * op)) :=
  match l with
  | [] => None
  | (b, x) :: l' =>
      match remove_last_unsynced l' o with
      | Some r => Some ((b, x) :: r)
      | None =>
          if existsb (fun '(b', _) => negb b') l' then None   (* a later unsynced row did not match *)
          else if negb b && bool_decide (x = o) then Some l'
          else None
      end
  end.
Definition q_remove_operation (q : sqlst) (o : op) : option (option (unit * sqlst)) :=
  if q_readonly q then None
  else Some (match remove_last_unsynced (q_ops q) o with
             | Some l => Some (tt, upd q (q_tasks q) (q_base q) l (q_ws q))
             | None => None
             end).

(** UPDATE operations SET synced = true ...; DELETE ... WHERE uuid IN (uuids without a task) *)
Definition q_sync_complete (q : sqlst) : option (unit * sqlst) :=
  rw_guard q (tt, upd q (q_tasks q) (q_base q)
    (omap (fun '(_, o) =>
             match op_uuid o with
             | Some u => match q_tasks q !! u with Some _ => Some (true, o) | None => None end
             | None => Some (true, o)
             end) (q_ops q)) (q_ws q)).

Definition q_add_to_working_set (q : sqlst) (u : N) : option (nat * sqlst) :=
  rw_guard q (ws_next (q_ws q), upd q (q_tasks q) (q_base q) (q_ops q) (<[ws_next (q_ws q) := u]> (q_ws q))).
Definition q_set_working_set_item (q : sqlst) (i : nat) (x : option N) : option (unit * sqlst) :=
  rw_guard q (tt, upd q (q_tasks q) (q_base q) (q_ops q)
                   (match x with Some u => <[i := u]> (q_ws q) | None => delete i (q_ws q) end)).
Definition q_clear_working_set (q : sqlst) : option (unit * sqlst) :=
  rw_guard q (tt, upd q (q_tasks q) (q_base q) (q_ops q) ∅).
