(** The replica side of synchronisation ([taskdb::sync::sync],
    src/taskdb/sync.rs) as a small-step machine over server requests, the
    abstract version-chain server it talks to, and the global system of any
    number of replicas whose syncs may interleave, fail or be abandoned.

    Version ids are canonicalised: the k-th version accepted by the server has
    id k (1-based); the nil version is 0.  The chain is the list of the
    versions' operation lists. *)
From TC Require Export Model.Rebase.

Inductive urgency := UNone | ULow | UHigh.
Definition urg_geb (a b : urgency) : bool :=
  match a, b with
  | _, UNone => true
  | UNone, _ => false
  | _, ULow => true
  | ULow, UHigh => false
  | UHigh, UHigh => true
  end.

(** ** Requests and replies of the [Server] trait *)
Inductive req :=
| RGetSnapshot
| RGetChild (b : nat)
| RAddVersion (b : nat) (ops : list sop)
| RAddSnapshot (v : nat) (d : db).

Inductive resp :=
| PSnapshot (o : option (nat * db))
| PVersion (v : nat) (ops : list sop)
| PNoVersion
| PAddOk (v : nat) (g : urgency)
| PExpected (v : nat) (g : urgency)
| PUnit.

(** ** The abstract chain server (docs/sync-protocol.md) *)
Record server := { chain : list (list sop); snap : option (nat * db) }.

Definition srv_step (s : server) (g : urgency) (r : req) : resp * server :=
  match r with
  | RGetSnapshot => (PSnapshot (snap s), s)
  | RGetChild b =>
      match chain s !! b with
      | Some ops => (PVersion (S b) ops, s)
      | None => (PNoVersion, s)
      end
  | RAddVersion b ops =>
      let n := length (chain s) in
      if (n =? 0)%nat || (b =? n)%nat
      then (PAddOk (S n) g, {| chain := chain s ++ [ops]; snap := snap s |})
      else (PExpected n g, s)
  | RAddSnapshot v d =>
      (* keep the snapshot of the newest version *)
      let keep := match snap s with Some (v0, _) => (v <=? v0)%nat | None => false end in
      (PUnit, if keep then s else {| chain := chain s; snap := Some (v, d) |})
  end.

(** ** Batching *)
Section Batching.
Variable sz : sop -> N.
Variable limit : N.

(** the code's rule: take the next operation if the batch is empty or the
    running total, this operation included, does not exceed the limit *)
Fixpoint take_batch_aux (acc : N) (first : bool) (l : list sop) : list sop :=
  match l with
  | [] => []
  | o :: l' =>
      let acc' := (acc + sz o)%N in
      if first || (acc' <=? limit)%N then o :: take_batch_aux acc' false l' else []
  end.
Definition take_batch (l : list sop) : list sop := take_batch_aux 0%N true l.

(** ** The sync machine *)
Inductive sync_result := SyncOk | SyncOutOfSync | SyncProtocolError.

Inductive pc :=
| AtSnap                 (* about to ask for a snapshot (storage was empty) *)
| AtPull                 (* about to ask for the child of [x_base] *)
| AtPush                 (* about to add a version made of a batch of [x_local] *)
| AtSnapUp               (* about to upload a snapshot of [x_base] *)
| Done (r : sync_result).

Record sst := {
  x_tasks : db;          (* tasks inside the transaction *)
  x_base : nat;          (* base version inside the transaction *)
  x_local : list sop;    (* local operations still to send, rebased so far *)
  x_req : option nat;    (* parent the server last insisted on *)
  x_avoid : bool;        (* avoid_snapshots *)
  x_pc : pc
}.

Definition set_pc (x : sst) (p : pc) : sst :=
  {| x_tasks := x_tasks x; x_base := x_base x; x_local := x_local x;
     x_req := x_req x; x_avoid := x_avoid x; x_pc := p |}.

Definition sync_next (x : sst) : req + sync_result :=
  match x_pc x with
  | AtSnap => inl RGetSnapshot
  | AtPull => inl (RGetChild (x_base x))
  | AtPush => inl (RAddVersion (x_base x) (take_batch (x_local x)))
  | AtSnapUp => inl (RAddSnapshot (x_base x) (x_tasks x))
  | Done r => inr r
  end.

Definition sync_resume (x : sst) (p : resp) : sst :=
  match x_pc x, p with
  | AtSnap, PSnapshot None => set_pc x AtPull
  | AtSnap, PSnapshot (Some (v, d)) =>
      {| x_tasks := d; x_base := v; x_local := x_local x; x_req := x_req x;
         x_avoid := x_avoid x; x_pc := AtPull |}
  | AtPull, PVersion v ops =>
      let '(v', l') := rebase transform ops (x_local x) in
      {| x_tasks := applyl (x_tasks x) v'; x_base := v; x_local := l';
         x_req := x_req x; x_avoid := x_avoid x; x_pc := AtPull |}
  | AtPull, PNoVersion =>
      match x_local x with
      | [] => set_pc x (Done SyncOk)
      | _ :: _ => set_pc x AtPush
      end
  | AtPush, PAddOk v g =>
      let rest := drop (length (take_batch (x_local x))) (x_local x) in
      let thr := if x_avoid x then UHigh else ULow in
      {| x_tasks := x_tasks x; x_base := v; x_local := rest; x_req := x_req x;
         x_avoid := x_avoid x;
         x_pc := match rest with
                 | [] => if urg_geb g thr then AtSnapUp else AtPull
                 | _ :: _ => AtPull
                 end |}
  | AtPush, PExpected v _ =>
      match x_req x with
      | Some q => if (q =? v)%nat then set_pc x (Done SyncOutOfSync)
                  else {| x_tasks := x_tasks x; x_base := x_base x; x_local := x_local x;
                          x_req := Some v; x_avoid := x_avoid x; x_pc := AtPull |}
      | None => {| x_tasks := x_tasks x; x_base := x_base x; x_local := x_local x;
                   x_req := Some v; x_avoid := x_avoid x; x_pc := AtPull |}
      end
  | AtSnapUp, PUnit => set_pc x AtPull
  | _, _ => set_pc x (Done SyncProtocolError)
  end.

(** ** Replicas and the global system *)
Record replica := {
  r_tasks : db;
  r_base : nat;
  r_pend : list op       (* unsynced operations, oldest first *)
}.

Definition replica0 : replica := {| r_tasks := ∅; r_base := 0; r_pend := [] |}.

Record node := { n_rep : replica; n_sync : option sst }.

Record sys := {
  srv : server;
  nodes : list node;
  results : list (nat * sync_result)   (* finished syncs, newest first *)
}.

Definition sys0 (n : nat) : sys :=
  {| srv := {| chain := []; snap := None |};
     nodes := replicate n {| n_rep := replica0; n_sync := None |};
     results := [] |}.

(** [StorageTxn::is_empty]; [ws_trivial] says the working set is [[None]] *)
Definition rep_is_empty (r : replica) (ws_trivial : bool) : bool :=
  bool_decide (r_tasks r = ∅) && ws_trivial && (r_base r =? 0)%nat
  && match r_pend r with [] => true | _ => false end.

Definition start_sync (r : replica) (avoid ws_trivial : bool) : sst :=
  {| x_tasks := r_tasks r; x_base := r_base r; x_local := sync_form (r_pend r);
     x_req := None; x_avoid := avoid;
     x_pc := if rep_is_empty r ws_trivial then AtSnap else AtPull |}.

(** what [commit] at the end of a successful sync makes persistent *)
Definition finish_sync (x : sst) : replica :=
  {| r_tasks := x_tasks x; r_base := x_base x; r_pend := [] |}.

Inductive event :=
| ECommit (i : nat) (ops : list op)            (* Replica::commit_operations *)
| EStart (i : nat) (avoid ws_trivial : bool)   (* a sync call begins *)
| EStep (i : nat) (g : urgency)                (* its next server request, and what follows locally *)
| EAbandon (i : nat)                           (* error before effect / process stop *)
| ELost (i : nat) (g : urgency)                (* server performs the request, the reply is lost *)
| EForeign (ops : list sop).                   (* another implementation adds a version on top of the latest *)

Definition set_node (s : sys) (i : nat) (n : node) : sys :=
  {| srv := srv s; nodes := <[i := n]> (nodes s); results := results s |}.

Definition sys_step (s : sys) (e : event) : sys :=
  match e with
  | ECommit i ops =>
      match nodes s !! i with
      | Some {| n_rep := r; n_sync := None |} =>
          set_node s i {| n_rep := {| r_tasks := applyl (r_tasks r) (sync_form ops);
                                       r_base := r_base r;
                                       r_pend := r_pend r ++ ops |};
                          n_sync := None |}
      | _ => s
      end
  | EStart i avoid wst =>
      match nodes s !! i with
      | Some {| n_rep := r; n_sync := None |} =>
          set_node s i {| n_rep := r; n_sync := Some (start_sync r avoid wst) |}
      | _ => s
      end
  | EStep i g =>
      match nodes s !! i with
      | Some {| n_rep := r; n_sync := Some x |} =>
          match sync_next x with
          | inl q =>
              let '(p, srv') := srv_step (srv s) g q in
              let x' := sync_resume x p in
              match x_pc x' with
              | Done SyncOk =>
                  {| srv := srv';
                     nodes := <[i := {| n_rep := finish_sync x'; n_sync := None |}]> (nodes s);
                     results := (i, SyncOk) :: results s |}
              | Done e =>
                  {| srv := srv';
                     nodes := <[i := {| n_rep := r; n_sync := None |}]> (nodes s);
                     results := (i, e) :: results s |}
              | _ =>
                  {| srv := srv';
                     nodes := <[i := {| n_rep := r; n_sync := Some x' |}]> (nodes s);
                     results := results s |}
              end
          | inr _ => s
          end
      | _ => s
      end
  | EAbandon i =>
      match nodes s !! i with
      | Some {| n_rep := r; n_sync := Some _ |} =>
          set_node s i {| n_rep := r; n_sync := None |}
      | _ => s
      end
  | ELost i g =>
      match nodes s !! i with
      | Some {| n_rep := r; n_sync := Some x |} =>
          match sync_next x with
          | inl q =>
              let '(_, srv') := srv_step (srv s) g q in
              {| srv := srv';
                 nodes := <[i := {| n_rep := r; n_sync := None |}]> (nodes s);
                 results := results s |}
          | inr _ => s
          end
      | _ => s
      end
  | EForeign ops =>
      {| srv := {| chain := chain (srv s) ++ [ops]; snap := snap (srv s) |};
         nodes := nodes s; results := results s |}
  end.

Definition run (s : sys) (h : list event) : sys := fold_left sys_step h s.

(** A history is well formed when every committed batch is valid, in order,
    on the replica's tasks at that time (docs/storage.md: "a replica must not
    create invalid operations"). *)
Fixpoint wf_history (s : sys) (h : list event) : bool :=
  match h with
  | [] => true
  | e :: h' =>
      match e with
      | ECommit i ops =>
          match nodes s !! i with
          | Some {| n_rep := r; n_sync := None |} => valid_seqb (r_tasks r) (sync_form ops)
          | _ => true
          end
      | EForeign ops =>
          (* a foreign version must be valid on the state of the latest version *)
          valid_seqb (applyl ∅ (concat (chain (srv s)))) ops
      | _ => true
      end && wf_history (sys_step s e) h'
  end.

End Batching.

(** replaying the server's versions up to version [k] on the empty task set *)
Definition cstate (c : list (list sop)) (k : nat) : db := applyl ∅ (concat (take k c)).
