(** The object-store server ([CloudServer], src/server/cloud/server.rs) as
    small-step machines over single object-store requests (and single pages of
    listings), and the object store itself.  Version ids are numbers; their
    lexicographic order as object names is given by a rank function.  Payloads
    are opaque numbers (the sealed bytes are compared elsewhere, C13).
    Executable definitions only. *)
From TC Require Export Base.Prelude.

Record ostore := {
  o_latest : option N;
  o_vers : gmap (N * N) (N * N);     (* (parent, child) -> (payload, creation time) *)
  o_snaps : gmap N N                   (* version -> payload *)
}.

Definition ostore0 : ostore := {| o_latest := None; o_vers := ∅; o_snaps := ∅ |}.

Inductive sreq :=
| QGetLatest
| QCasLatest (old : option N) (new : N)
| QPutVer (p c : N) (pl : N)
| QGetVer (p c : N)
| QDelVer (p c : N)
| QListVer (parent : option N) (after : option (N * N))    (* one page of "v-" / "v-PARENT-" *)
| QPutSnap (v : N) (pl : N)
| QGetSnap (v : N)
| QDelSnap (v : N)
| QListSnap (after : option N).                             (* one page of "s-" *)

Inductive sresp :=
| PLatest (o : option N)
| PBool (b : bool)
| PUnit
| PData (o : option N)
| PVerPage (l : list (N * N * N)) (more : bool)
| PSnapPage (l : list N) (more : bool).

Section Store.
Variable rank : N -> N.          (* order of the ids as object names *)
Variable pagesz : nat.
Variable now : N.                (* creation time given to new objects *)

Definition ver_lt (a b : N * N) : bool :=
  (rank a.1 <? rank b.1)%N || ((rank a.1 =? rank b.1)%N && (rank a.2 <? rank b.2)%N).

(** insertion sort by name order: listings return names in order *)
Fixpoint ins_ver (x : N * N * N) (l : list (N * N * N)) : list (N * N * N) :=
  match l with
  | [] => [x]
  | y :: l' => if ver_lt x.1 y.1 then x :: y :: l' else y :: ins_ver x l'
  end.
Definition sorted_vers (m : gmap (N * N) (N * N)) : list (N * N * N) :=
  foldr ins_ver [] (map (fun '(k, (_, t)) => (k, t)) (map_to_list m)).

Fixpoint ins_snap (x : N) (l : list N) : list N :=
  match l with
  | [] => [x]
  | y :: l' => if (rank x <? rank y)%N then x :: y :: l' else y :: ins_snap x l'
  end.
Definition sorted_snaps (m : gmap N N) : list N := foldr ins_snap [] (map fst (map_to_list m)).

Definition ostore_step (s : ostore) (q : sreq) : sresp * ostore :=
  match q with
  | QGetLatest => (PLatest (o_latest s), s)
  | QCasLatest old new =>
      if bool_decide (o_latest s = old)
      then (PBool true, {| o_latest := Some new; o_vers := o_vers s; o_snaps := o_snaps s |})
      else (PBool false, s)
  | QPutVer p c pl =>
      (PUnit, {| o_latest := o_latest s; o_vers := <[(p, c) := (pl, now)]> (o_vers s); o_snaps := o_snaps s |})
  | QGetVer p c => (PData (fst <$> o_vers s !! (p, c)), s)
  | QDelVer p c =>
      (PUnit, {| o_latest := o_latest s; o_vers := delete (p, c) (o_vers s); o_snaps := o_snaps s |})
  | QListVer parent after =>
      let all := filter (fun x => match parent with Some p => N.eqb x.1.1 p | None => true end = true)
                        (sorted_vers (o_vers s)) in
      let rest := match after with
                  | Some a => filter (fun x => ver_lt a x.1 = true) all
                  | None => all
                  end in
      (PVerPage (take pagesz rest) (pagesz <=? length rest)%nat, s)
  | QPutSnap v pl =>
      (PUnit, {| o_latest := o_latest s; o_vers := o_vers s; o_snaps := <[v := pl]> (o_snaps s) |})
  | QGetSnap v => (PData (o_snaps s !! v), s)
  | QDelSnap v =>
      (PUnit, {| o_latest := o_latest s; o_vers := o_vers s; o_snaps := delete v (o_snaps s) |})
  | QListSnap after =>
      let all := sorted_snaps (o_snaps s) in
      let rest := match after with
                  | Some a => filter (fun x => (rank a <? rank x)%N = true) all
                  | None => all
                  end in
      (PSnapPage (take pagesz rest) (pagesz <=? length rest)%nat, s)
  end.
End Store.

(** ** results of the Server calls *)
Inductive cres :=
| CAddOk (c : N) (high_urgency : bool)
| CExpected (l : N)                      (* 0 = the nil version *)
| CNoSuchVersion
| CVersion (c : N) (pl : N)
| CUnit
| CSnapshot (o : option (N * N))
| CError.

(** ** the machines: program counters with their local data *)
Inductive cpc :=
(* add_version parent new_id payload *)
| A0 (p c pl : N)
| A1 (p c pl : N) (l : option N)
| A2 (p c pl : N) (l : option N)
| A3 (p c : N)
| A4
| A5 (c : N)                                   (* snapshot_urgency: first page of "s-" *)
(* get_child_version parent *)
| G0 (p : N) (acc : list N) (after : option (N * N))
| G1 (p : N) (children : list N)
| G2 (p : N) (todo : list N) (cur : N) (nonempty : bool) (after : option (N * N)) (best : option N)
| G3 (p : N) (c : N)
(* add_snapshot / get_snapshot *)
| S0 (v pl : N)
| T0
| T1 (v : N)
(* cleanup *)
| K0                                            (* read latest *)
| K1 (l : option N) (acc : list (N * N * N)) (after : option (N * N))
| K2 (l : option N) (vers : list (N * N * N)) (dels : list (N * N))   (* delete losers *)
| K3 (l : option N) (vers : list (N * N * N)) (acc : list N) (after : option N)
| K4 (dels : list N) (vdels : list (N * N))    (* delete snapshots, then old versions *)
| K5 (vdels : list (N * N))
| CDone (r : cres).

(** ** pure helpers of the routines *)
Definition parent_of (vers : list (N * N * N)) (c : N) : option N :=
  match find (fun x => N.eqb x.1.2 c) vers with Some x => Some x.1.1 | None => None end.

(** the chain known from a listing, walking back from [l]: (child, parent) pairs, newest first *)
Fixpoint walk_back (fuel : nat) (vers : list (N * N * N)) (c : N) : list (N * N) :=
  match fuel with
  | O => []
  | S f => match parent_of vers c with
           | Some p => (c, p) :: walk_back f vers p
           | None => []
           end
  end.

Fixpoint drop_until (v : N) (xs : list N) : list N :=
  match xs with [] => [] | x :: xs' => if N.eqb x v then x :: xs' else drop_until v xs' end.

Section Routines.
Variable rank : N -> N.
Variable threshold : N.       (* versions created before this time are old *)

Fixpoint ins_child (x : N * N * N) (l : list (N * N * N)) : list (N * N * N) :=
  match l with
  | [] => [x]
  | y :: l' => if (rank x.1.2 <? rank y.1.2)%N then x :: y :: l' else y :: ins_child x l'
  end.
Definition by_child (l : list (N * N * N)) : list (N * N * N) := foldr ins_child [] l.

(** the chain child of [p] known from the walk, if any *)
Definition chain_child (chain : list (N * N)) (p : N) : option N :=
  match find (fun e => N.eqb e.2 p) chain with Some e => Some e.1 | None => None end.

(** versions that lost against a known chain child of their parent: they can
    never be committed *)
Definition losers (vers : list (N * N * N)) (chain : list (N * N)) : list (N * N) :=
  omap (fun x => match chain_child chain x.1.1 with
                 | Some c' => if N.eqb c' x.1.2 then None else Some x.1
                 | None => None
                 end) (by_child vers).

(** the versions on the known chain, newest first *)
Definition chain_versions (l : option N) (chain : list (N * N)) : list N :=
  match l with Some l0 => l0 :: map snd chain | None => [] end.

Definition latest_snapshot (l : option N) (chain : list (N * N)) (snaps : list N) : option N :=
  find (fun v => bool_decide (v ∈ snaps)) (chain_versions l chain).

(** snapshots of versions strictly older on the chain than the newest on-chain snapshot *)
Definition old_snapshots (l : option N) (chain : list (N * N)) (snaps : list N) (s : N) : list N :=
  filter (fun v => bool_decide (v ∈ snaps)) (tail (drop_until s (chain_versions l chain))).

Definition creation_of (vers : list (N * N * N)) (c : N) : option N :=
  match find (fun x => N.eqb x.1.2 c) vers with Some x => Some x.2 | None => None end.

(** versions at or before the snapshot that are older than the threshold *)
Definition old_versions (vers : list (N * N * N)) (chain : list (N * N)) (s : N) : list (N * N) :=
  omap (fun e => match creation_of vers e.1 with
                 | Some t => if (t <? threshold)%N then Some (e.2, e.1) else None
                 | None => None
                 end)
       ((fix from (xs : list (N * N)) := match xs with
                                          | [] => []
                                          | e :: xs' => if N.eqb e.1 s then e :: xs' else from xs'
                                          end) chain).

Definition last_name (l : list (N * N * N)) : option (N * N) := fst <$> last l.

Definition cl_next (c : cpc) : sreq + cres :=
  match c with
  | A0 _ _ _ => inl QGetLatest
  | A1 p c pl _ => inl (QPutVer p c pl)
  | A2 _ c _ l => inl (QCasLatest l c)
  | A3 p c => inl (QDelVer p c)
  | A4 => inl QGetLatest
  | A5 _ => inl (QListSnap None)
  | G0 p _ after => inl (QListVer (Some p) after)
  | G1 _ _ => inl QGetLatest
  | G2 _ _ cur _ after _ => inl (QListVer (Some cur) after)
  | G3 p c => inl (QGetVer p c)
  | S0 v pl => inl (QPutSnap v pl)
  | T0 => inl (QListSnap None)
  | T1 v => inl (QGetSnap v)
  | K0 => inl QGetLatest
  | K1 _ _ after => inl (QListVer None after)
  | K2 _ _ (d :: _) => inl (QDelVer d.1 d.2)
  | K2 _ _ [] => inr CError          (* never stored: see [after_k2] *)
  | K3 _ _ _ after => inl (QListSnap after)
  | K4 (d :: _) _ => inl (QDelSnap d)
  | K4 [] _ => inr CError
  | K5 (d :: _) => inl (QDelVer d.1 d.2)
  | K5 [] => inr CError
  | CDone r => inr r
  end.

(** skipping empty deletion phases *)
Definition after_k5 (vdels : list (N * N)) : cpc :=
  match vdels with [] => CDone CUnit | _ => K5 vdels end.
Definition after_k4 (sdels : list N) (vdels : list (N * N)) : cpc :=
  match sdels with [] => after_k5 vdels | _ => K4 sdels vdels end.
Definition after_k2 (l : option N) (vers : list (N * N * N)) (dels : list (N * N)) : cpc :=
  match dels with [] => K3 l vers [] None | _ => K2 l vers dels end.

Definition next_scan (p : N) (todo : list N) (best : option N) : cpc :=
  match todo with
  | c2 :: rest => G2 p rest c2 false None best
  | [] => match best with Some tc => G3 p tc | None => CDone CNoSuchVersion end
  end.

Definition cl_resume (c : cpc) (r : sresp) : cpc :=
  match c, r with
  | A0 p c pl, PLatest l =>
      match l with
      | Some l0 => if N.eqb l0 p then A1 p c pl l else CDone (CExpected l0)
      | None => A1 p c pl None
      end
  | A1 p c pl l, PUnit => A2 p c pl l
  | A2 p c pl l, PBool true => A5 c
  | A2 p c pl l, PBool false => A3 p c
  | A3 _ _, PUnit => A4
  | A4, PLatest l => CDone (CExpected (default 0%N l))
  | A5 c, PSnapPage l _ => CDone (CAddOk c (match l with [] => true | _ => false end))
  | G0 p acc _, PVerPage l more =>
      let acc' := acc ++ map (fun x => x.1.2) l in
      if more then G0 p acc' (last_name l)
      else match acc' with [] => CDone CNoSuchVersion | _ => G1 p acc' end
  | G1 p children, PLatest l =>
      match l with
      | Some l0 => if bool_decide (l0 ∈ children) then G3 p l0 else next_scan p children None
      | None => next_scan p children None
      end
  | G2 p todo cur ne _ best, PVerPage l more =>
      let ne' := ne || match l with [] => false | _ => true end in
      if more then G2 p todo cur ne' (last_name l) best
      else next_scan p todo (if ne' then Some cur else best)
  | G3 p c, PData (Some pl) => CDone (CVersion c pl)
  | G3 _ _, PData None => CDone CNoSuchVersion
  | S0 _ _, PUnit => CDone CUnit
  | T0, PSnapPage [] _ => CDone (CSnapshot None)
  | T0, PSnapPage (v :: _) _ => T1 v
  | T1 v, PData (Some pl) => CDone (CSnapshot (Some (v, pl)))
  | T1 _, PData None => CDone (CSnapshot None)
  | K0, PLatest l => K1 l [] None
  | K1 l acc _, PVerPage pg more =>
      let acc' := acc ++ pg in
      if more then K1 l acc' (last_name pg)
      else
        let chain := match l with Some l0 => walk_back (S (length acc')) acc' l0 | None => [] end in
        after_k2 l acc' (losers acc' chain)
  | K2 l vers (_ :: dels), PUnit => after_k2 l vers dels
  | K3 l vers acc _, PSnapPage pg more =>
      let acc' := acc ++ pg in
      if more then K3 l vers acc' (last pg)
      else
        let chain := match l with Some l0 => walk_back (S (length vers)) vers l0 | None => [] end in
        (* snapshots of versions that lost the race go first *)
        let lsnaps := filter (fun v => bool_decide (v ∈ acc')) (map snd (losers vers chain)) in
        match latest_snapshot l chain acc' with
        | None => after_k4 lsnaps []
        | Some s => after_k4 (lsnaps ++ old_snapshots l chain acc' s) (old_versions vers chain s)
        end
  | K4 (_ :: ds) vdels, PUnit => after_k4 ds vdels
  | K5 (_ :: ds), PUnit => after_k5 ds
  | _, _ => CDone CError
  end.
End Routines.
