(** The documented wire format of a version (docs/sync-protocol.md,
    src/server/op.rs serde representation, src/taskdb/sync.rs [Version]) at the
    level of JSON values: objects are association lists, strings are lists of
    code points.  The text layer (serde_json) is outside the model. *)
From TC Require Export Model.Ops.

Notation str := (list N) (only parsing).

Inductive jv :=
| JNull
| JStr (s : list N)
| JArr (l : list jv)
| JObj (l : list (list N * jv)).

(** field names, as code points *)
Definition k_uuid : list N := [117; 117; 105; 100]%N.
Definition k_property : list N := [112; 114; 111; 112; 101; 114; 116; 121]%N.
Definition k_value : list N := [118; 97; 108; 117; 101]%N.
Definition k_timestamp : list N := [116; 105; 109; 101; 115; 116; 97; 109; 112]%N.
Definition k_create : list N := [67; 114; 101; 97; 116; 101]%N.
Definition k_delete : list N := [68; 101; 108; 101; 116; 101]%N.
Definition k_update : list N := [85; 112; 100; 97; 116; 101]%N.
Definition k_operations : list N := [111; 112; 101; 114; 97; 116; 105; 111; 110; 115]%N.

Fixpoint str_eqb (a b : list N) : bool :=
  match a, b with
  | [], [] => true
  | x :: a', y :: b' => N.eqb x y && str_eqb a' b'
  | _, _ => false
  end.

Section Codec.
(** how identifiers, strings and timestamps are written: injective encoders
    with their decoders (uuid text form, RFC 3339 UTC) -- contracts of the uuid
    and chrono crates, not modelled further *)
Variable enc_uuid : N -> list N.
Variable dec_uuid : list N -> option N.
Variable enc_str : N -> list N.
Variable dec_str : list N -> option N.
Variable enc_ts : Z -> list N.
Variable dec_ts : list N -> option Z.

Definition op_to_json (o : sop) : jv :=
  match o with
  | SCreate u => JObj [(k_create, JObj [(k_uuid, JStr (enc_uuid u))])]
  | SDelete u => JObj [(k_delete, JObj [(k_uuid, JStr (enc_uuid u))])]
  | SUpdate u p v t =>
      JObj [(k_update, JObj [(k_uuid, JStr (enc_uuid u));
                             (k_property, JStr (enc_str p));
                             (k_value, match v with Some x => JStr (enc_str x) | None => JNull end);
                             (k_timestamp, JStr (enc_ts t))])]
  end.

Definition version_to_json (ops : list sop) : jv :=
  JObj [(k_operations, JArr (map op_to_json ops))].

(** the tolerant reader: fields are found by name, in any order; fields it
    does not know are ignored (as serde does) *)
Fixpoint field (k : list N) (l : list (list N * jv)) : option jv :=
  match l with
  | [] => None
  | (k', v) :: l' => if str_eqb k' k then Some v else field k l'
  end.

Definition get_str (v : option jv) : option (list N) :=
  match v with Some (JStr s) => Some s | _ => None end.

Definition op_of_json (j : jv) : option sop :=
  match j with
  | JObj [(k, JObj body)] =>
      if str_eqb k k_create then
        u ← get_str (field k_uuid body) ≫= dec_uuid; Some (SCreate u)
      else if str_eqb k k_delete then
        u ← get_str (field k_uuid body) ≫= dec_uuid; Some (SDelete u)
      else if str_eqb k k_update then
        u ← get_str (field k_uuid body) ≫= dec_uuid;
        p ← get_str (field k_property body) ≫= dec_str;
        t ← get_str (field k_timestamp body) ≫= dec_ts;
        match field k_value body with
        | Some JNull => Some (SUpdate u p None t)
        | Some (JStr s) => x ← dec_str s; Some (SUpdate u p (Some x) t)
        | None => Some (SUpdate u p None t)   (* a missing optional field reads as null *)
        | _ => None
        end
      else None
  | _ => None
  end.

Definition version_of_json (j : jv) : option (list sop) :=
  match j with
  | JObj l =>
      match field k_operations l with
      | Some (JArr ops) => mapM op_of_json ops
      | _ => None
      end
  | _ => None
  end.
End Codec.
