(** Several handles on one store under the lock discipline of the SQLite
    storage (src/storage/sqlite/inner.rs: every StorageTxn is BEGIN IMMEDIATE,
    i.e. takes the database write lock for its whole life; a begin that cannot
    get the lock fails (busy) and nothing happens).  An event that the
    discipline does not allow is refused and changes nothing. *)
From TC Require Export Base.Prelude.

Section Conc.
Context {S C : Type}.
Variable step : S -> C -> S.

Record cstate := { cpersist : S; cholder : option (nat * S) }.

Inductive hev := HBegin | HCall (c : C) | HCommit | HAbandon.

Definition cstep (st : cstate) (e : nat * hev) : option cstate :=
  let '(h, ev) := e in
  match cholder st with
  | None =>
      match ev with
      | HBegin => Some {| cpersist := cpersist st; cholder := Some (h, cpersist st) |}
      | _ => None
      end
  | Some (h', w) =>
      if negb (h =? h')%nat then None else
      match ev with
      | HBegin => None
      | HCall c => Some {| cpersist := cpersist st; cholder := Some (h, step w c) |}
      | HCommit => Some {| cpersist := w; cholder := None |}
      | HAbandon => Some {| cpersist := cpersist st; cholder := None |}
      end
  end.

Definition cstep' (st : cstate) (e : nat * hev) : cstate := default st (cstep st e).
Definition crun (st : cstate) (l : list (nat * hev)) : cstate := fold_left cstep' l st.

(** the committed transactions of a schedule, in commit order: each is the list
    of calls its handle made between its begin and its commit *)
Fixpoint committed (open : option (nat * list C)) (l : list (nat * hev)) : list (list C) :=
  match l with
  | [] => []
  | (h, ev) :: l' =>
      match open with
      | None =>
          match ev with
          | HBegin => committed (Some (h, [])) l'
          | _ => committed None l'
          end
      | Some (h', cs) =>
          if negb (h =? h')%nat then committed open l' else
          match ev with
          | HBegin => committed open l'
          | HCall c => committed (Some (h, cs ++ [c])) l'
          | HCommit => cs :: committed None l'
          | HAbandon => committed None l'
          end
      end
  end.

(** one whole transaction applied at once *)
Definition atomic (s : S) (cs : list C) : S := fold_left step cs s.

(** a schedule in which no event is refused: transactions do not overlap *)
Fixpoint serial (open : option nat) (l : list (nat * hev)) : bool :=
  match l with
  | [] => true
  | (h, ev) :: l' =>
      match open with
      | None => match ev with HBegin => serial (Some h) l' | _ => false end
      | Some h' =>
          (h =? h')%nat &&
          match ev with
          | HBegin => false
          | HCall _ => serial open l'
          | HCommit | HAbandon => serial None l'
          end
      end
  end.
End Conc.
