(** The mutators of [Task] and [TaskData] (src/task/task.rs, src/task/data.rs):
    what they do to the task held by the caller and which operations they
    record.  Executable definitions only. *)
From TC Require Export Model.Task.
From Coq Require Import Strings.String.

Record tstate := {
  ts_map : gmap (list N) (list N);      (* the task as the caller holds it *)
  ts_um : bool;                          (* updated_modified *)
  ts_log : list (list N * option (list N) * option (list N))   (* recorded updates: property, old, new *)
}.

Definition upd_map (m : gmap (list N) (list N)) (p : list N) (v : option (list N)) :=
  match v with Some x => <[p := x]> m | None => delete p m end.

(** [TaskData::update] *)
Definition td_update (s : tstate) (p : list N) (v : option (list N)) : tstate :=
  {| ts_map := upd_map (ts_map s) p v; ts_um := ts_um s;
     ts_log := ts_log s ++ [(p, ts_map s !! p, v)] |}.

Section Mut.
Variable nowstr : list N.      (* what [Utc::now().timestamp()] prints as *)

(** [Task::set_value] *)
Definition set_value (s : tstate) (p : list N) (v : option (list N)) : tstate :=
  let s1 := if negb (bool_decide (p = s2l "modified")) && negb (ts_um s)
            then td_update s (s2l "modified") (Some nowstr) else s in
  td_update {| ts_map := ts_map s1; ts_um := true; ts_log := ts_log s1 |} p v.

Definition status_str (st : status) : list N :=
  match st with
  | StPending => s2l "pending" | StCompleted => s2l "completed" | StDeleted => s2l "deleted"
  | StRecurring => s2l "recurring" | StUnknown v => v
  end.

Definition has (s : tstate) (p : list N) : bool := bool_decide (is_Some (ts_map s !! p)).

(** [Task::set_status] *)
Definition set_status (s : tstate) (st : status) : tstate :=
  let s1 :=
    match st with
    | StPending | StRecurring => if has s (s2l "end") then set_value s (s2l "end") None else s
    | StCompleted | StDeleted => if has s (s2l "end") then s else set_value s (s2l "end") (Some nowstr)
    | StUnknown _ => s
    end in
  set_value s1 (s2l "status") (Some (status_str st)).

Inductive mutator :=
| MSetStatus (st : status)
| MSetValue (p : list N) (v : option (list N))   (* set_value, set_description, set_priority, set_entry/wait/due/modified *)
| MStart | MStop
| MAddTag (t : list N) | MRemoveTag (t : list N)
| MAddAnnotation (ts : list N) (d : list N) | MRemoveAnnotation (ts : list N)
| MSetUda (k v : list N) | MRemoveUda (k : list N)
| MAddDep (u : list N) | MRemoveDep (u : list N)
| MDataUpdate (p : list N) (v : option (list N)).   (* TaskData::update *)

(** [None] = the call is refused with a usage error and nothing changes *)
Definition run_mutator (s : tstate) (m : mutator) : option tstate :=
  match m with
  | MSetStatus st => Some (set_status s st)
  | MSetValue p v => Some (set_value s p v)
  | MStart => Some (if has s (s2l "start") then s else set_value s (s2l "start") (Some nowstr))
  | MStop => Some (set_value s (s2l "start") None)
  | MAddTag t =>
      match parse_tag t with
      | Some (TUser x) => Some (set_value s (s2l "tag_" ++ x) (Some []))
      | _ => None
      end
  | MRemoveTag t =>
      match parse_tag t with
      | Some (TUser x) => Some (set_value s (s2l "tag_" ++ x) None)
      | _ => None
      end
  | MAddAnnotation ts d => Some (set_value s (s2l "annotation_" ++ ts) (Some d))
  | MRemoveAnnotation ts => Some (set_value s (s2l "annotation_" ++ ts) None)
  | MSetUda k v => if is_known_key k then None else Some (set_value s k (Some v))
  | MRemoveUda k => if is_known_key k then None else Some (set_value s k None)
  | MAddDep u => Some (set_value s (s2l "dep_" ++ u) (Some []))
  | MRemoveDep u => Some (set_value s (s2l "dep_" ++ u) None)
  | MDataUpdate p v => Some (td_update s p v)
  end.

Definition run_mutators (s : tstate) (l : list mutator) : tstate :=
  fold_left (fun s m => default s (run_mutator s m)) l s.
End Mut.

(** committing the recorded updates, one at a time, to the stored task *)
Definition replay_log (m0 : gmap (list N) (list N)) (l : list (list N * option (list N) * option (list N))) :=
  fold_left (fun m e => upd_map m e.1.1 e.2) l m0.

(** every recorded update carries the value the property really had before it *)
Fixpoint true_old_values (m : gmap (list N) (list N)) (l : list (list N * option (list N) * option (list N))) : Prop :=
  match l with
  | [] => True
  | (p, old, v) :: l' => m !! p = old /\ true_old_values (upd_map m p v) l'
  end.
