(** The version-chain protocol every server backend must implement
    (docs/sync-protocol.md, src/server/types.rs), over opaque payloads. *)
From TC Require Export Base.Prelude.

(** versions in order of acceptance: (id, parent, payload) *)
Record chain_state := { cs_versions : list (N * N * N); cs_snapshots : list (N * N) }.
Definition chain0 : chain_state := {| cs_versions := []; cs_snapshots := [] |}.

Definition head (s : chain_state) : N :=
  match last (cs_versions s) with Some v => v.1.1 | None => 0%N end.

Inductive bcall :=
| BAddVersion (parent newid payload : N)   (* newid: the id the backend will choose if it accepts *)
| BGetChild (parent : N)
| BAddSnapshot (v payload : N)
| BGetSnapshot.

Inductive bres :=
| BOk (id : N) | BExpected (id : N) | BNoSuch | BVersion (id payload : N) | BUnit
| BSnapshot (o : option (N * N)) | BErr.

Global Instance bres_eq_dec : EqDecision bres.
Proof. solve_decision. Defined.

Definition child_of (s : chain_state) (parent : N) : option (N * N * N) :=
  find (fun v => N.eqb v.1.2 parent) (cs_versions s).

(** the result the protocol prescribes, and the new state; for get_snapshot
    the protocol leaves the server free to have kept or discarded snapshots *)
Definition chain_step (s : chain_state) (c : bcall) : bres * chain_state :=
  match c with
  | BAddVersion parent newid payload =>
      match cs_versions s with
      | [] => (BOk newid, {| cs_versions := [(newid, parent, payload)]; cs_snapshots := cs_snapshots s |})
      | _ =>
          if N.eqb parent (head s)
          then (BOk newid, {| cs_versions := cs_versions s ++ [(newid, parent, payload)]; cs_snapshots := cs_snapshots s |})
          else (BExpected (head s), s)
      end
  | BGetChild parent =>
      match child_of s parent with
      | Some v => (BVersion v.1.1 v.2, s)
      | None => (BNoSuch, s)
      end
  | BAddSnapshot v payload =>
      (BUnit, {| cs_versions := cs_versions s; cs_snapshots := (v, payload) :: cs_snapshots s |})
  | BGetSnapshot => (BSnapshot None, s)
  end.

(** an observed result conforms to the protocol *)
Definition conforms (s : chain_state) (c : bcall) (r : bres) : bool :=
  match c, r with
  | BGetSnapshot, BSnapshot None => true
  | BGetSnapshot, BSnapshot (Some vp) => bool_decide (vp ∈ cs_snapshots s)
  (* a rejection naming the latest version is always within the letter of the
     protocol ("accepts only if ..."), also when the parent was the latest: the
     client pulls, finds nothing and asks again *)
  | BAddVersion _ _ _, BExpected h => bool_decide (h = head s) && negb (bool_decide (cs_versions s = []))
  | _, _ => bool_decide ((chain_step s c).1 = r)
  end.

(** the state after an observed, conforming result *)
Definition chain_after (s : chain_state) (c : bcall) (r : bres) : chain_state :=
  match c, r with
  | BAddVersion _ _ _, BExpected _ => s
  | _, _ => (chain_step s c).2
  end.
