(** The task model over string keys and values (src/task/task.rs,
    src/task/data.rs, src/task/tag.rs, src/task/time.rs, src/depmap.rs and the
    readers of src/replica.rs).  Strings are lists of Unicode code points.
    Executable definitions only. *)
From TC Require Export Base.Prelude.
From Coq Require Import Strings.String Strings.Ascii.

Notation str := (list N) (only parsing).
Notation tmap := (gmap (list N) (list N)) (only parsing).

Fixpoint s2l (s : string) : list N :=
  match s with
  | EmptyString => []
  | String a s' => N_of_ascii a :: s2l s'
  end.

Fixpoint strip_prefix (p s : list N) : option (list N) :=
  match p, s with
  | [], _ => Some s
  | x :: p', y :: s' => if N.eqb x y then strip_prefix p' s' else None
  | _ :: _, [] => None
  end.

(** ** [str::parse::<i64>] *)
Definition is_digit (c : N) : bool := (48 <=? c)%N && (c <=? 57)%N.
Fixpoint digits_val (acc : Z) (l : list N) : option Z :=
  match l with
  | [] => Some acc
  | c :: l' => if is_digit c then digits_val (acc * 10 + Z.of_N (c - 48)) l' else None
  end.
Definition parse_i64 (s : list N) : option Z :=
  let body sign l :=
    match l with
    | [] => None
    | _ => match digits_val 0 l with
           | Some z => let v := (sign * z)%Z in
                       if (Z.leb (-9223372036854775808) v && Z.leb v 9223372036854775807)%bool
                       then Some v else None
           | None => None
           end
    end in
  match s with
  | [] => None
  | 43%N :: l => body 1%Z l
  | 45%N :: l => body (-1)%Z l
  | _ => body 1%Z s
  end.

Inductive status := StPending | StCompleted | StDeleted | StRecurring | StUnknown (s : list N).
Inductive tag := TUser (s : list N) | TSynthetic (s : list N).
Global Instance status_eq_dec : EqDecision status.
Proof. solve_decision. Defined.
Global Instance tag_eq_dec : EqDecision tag.
Proof. solve_decision. Defined.

Section Model.
(** chrono's representable range of whole seconds, and the current time *)
Variable ts_min ts_max : Z.
Variable now : Z.
(** [Uuid::parse_str], abstractly: the task index a uuid text denotes, if it is one *)
Variable parse_uuid : list N -> option N.

(** [Utc.timestamp_opt(secs, 0).single()] *)
Definition timestamp_opt (z : Z) : option Z :=
  if (Z.leb ts_min z && Z.leb z ts_max)%bool then Some z else None.

Definition get_timestamp (t : tmap) (p : list N) : option Z :=
  match t !! p with
  | Some v => match parse_i64 v with Some z => timestamp_opt z | None => None end
  | None => None
  end.

(** ** statuses *)
Definition k_status := s2l "status".
Definition status_of (v : list N) : status :=
  if bool_decide (v = s2l "pending") then StPending
  else if bool_decide (v = s2l "completed") then StCompleted
  else if bool_decide (v = s2l "deleted") then StDeleted
  else if bool_decide (v = s2l "recurring") then StRecurring
  else StUnknown v.
Definition get_status (t : tmap) : status :=
  match t !! k_status with Some v => status_of v | None => StPending end.

Definition get_str (t : tmap) (p : list N) : list N := default [] (t !! p).
Definition is_active (t : tmap) : bool := bool_decide (is_Some (t !! s2l "start")).
Definition is_waiting (t : tmap) : bool :=
  match get_timestamp t (s2l "wait") with Some z => Z.ltb now z | None => false end.

(** ** tags *)
Definition is_whitespace (c : N) : bool :=
  ((9 <=? c) && (c <=? 13) || (c =? 32) || (c =? 133) || (c =? 160) || (c =? 5760)
   || (8192 <=? c) && (c <=? 8202) || (c =? 8232) || (c =? 8233) || (c =? 8239) || (c =? 8287)
   || (c =? 12288))%N.
Definition is_upper (c : N) : bool := (65 <=? c)%N && (c <=? 90)%N.
Definition invalid_first : list N := s2l "+-*/()<>^!%=~".
Definition synthetic_names : list (list N) :=
  map s2l ["WAITING"; "ACTIVE"; "PENDING"; "COMPLETED"; "DELETED"; "BLOCKED"; "UNBLOCKED"; "BLOCKING"]%string.


(** [Tag::from_str] *)
Definition parse_tag (v : list N) : option tag :=
  if forallb is_upper v then
    (if bool_decide (v ∈ synthetic_names) then Some (TSynthetic v) else None)
  else match v with
       | [] => None
       | c :: rest =>
           if is_whitespace c || is_digit c || bool_decide (c ∈ invalid_first) then None
           else if forallb (fun c => negb (is_whitespace c || (c =? 58)%N)) rest then Some (TUser v)
           else None
       end.

(** the user tags: keys [tag_X] whose X is a valid user or synthetic tag name *)
Definition user_tags (t : tmap) : list tag :=
  omap (fun '(k, _) => match strip_prefix (s2l "tag_") k with
                       | Some x => parse_tag x
                       | None => None
                       end) (map_to_list t).

(** annotations: keys [annotation_N] with N an integer inside the range *)
Definition annotations (t : tmap) : list (Z * list N) :=
  omap (fun '(k, v) => match strip_prefix (s2l "annotation_") k with
                       | Some x => match parse_i64 x with
                                   | Some z => match timestamp_opt z with Some z' => Some (z', v) | None => None end
                                   | None => None
                                   end
                       | None => None
                       end) (map_to_list t).

Definition dependencies (t : tmap) : list N :=
  omap (fun '(k, _) => match strip_prefix (s2l "dep_") k with
                       | Some x => parse_uuid x
                       | None => None
                       end) (map_to_list t).

Definition known_props : list (list N) :=
  map s2l ["description"; "due"; "modified"; "start"; "status"; "priority"; "wait"; "end"; "entry"]%string.
Definition is_known_key (k : list N) : bool :=
  bool_decide (k ∈ known_props)
  || bool_decide (is_Some (strip_prefix (s2l "tag_") k))
  || bool_decide (is_Some (strip_prefix (s2l "annotation_") k))
  || bool_decide (is_Some (strip_prefix (s2l "dep_") k)).

Definition udas (t : tmap) : list (list N * list N) :=
  filter (fun kv => is_known_key kv.1 = false) (map_to_list t).

(** ** the dependency map ([Replica::dependency_map]) *)
Definition is_pending_task (tasks : gmap N tmap) (u : N) : bool :=
  match tasks !! u with
  | Some t => match t !! k_status with
              | Some v => bool_decide (status_of v = StPending)
              | None => false
              end
  | None => false
  end.

Definition depmap (tasks : gmap N tmap) (ws : list (option N)) : list (N * N) :=
  flat_map (fun x => match x with
                     | Some u => match tasks !! u with
                                 | Some t => omap (fun d => if is_pending_task tasks d then Some (u, d) else None)
                                                  (dependencies t)
                                 | None => []
                                 end
                     | None => []
                     end) (tail ws).

Definition is_blocked (dm : list (N * N)) (u : N) : bool := existsb (fun e => N.eqb e.1 u) dm.
Definition is_blocking (dm : list (N * N)) (u : N) : bool := existsb (fun e => N.eqb e.2 u) dm.

(** the synthetic tags a task carries *)
Definition synthetic_tags (t : tmap) (dm : list (N * N)) (u : N) : list (list N) :=
  filter (fun nme =>
    (bool_decide (nme = s2l "WAITING") && is_waiting t)
    || (bool_decide (nme = s2l "ACTIVE") && is_active t)
    || (bool_decide (nme = s2l "PENDING") && bool_decide (get_status t = StPending))
    || (bool_decide (nme = s2l "COMPLETED") && bool_decide (get_status t = StCompleted))
    || (bool_decide (nme = s2l "DELETED") && bool_decide (get_status t = StDeleted))
    || (bool_decide (nme = s2l "BLOCKED") && is_blocked dm u)
    || (bool_decide (nme = s2l "UNBLOCKED") && negb (is_blocked dm u))
    || (bool_decide (nme = s2l "BLOCKING") && is_blocking dm u) = true) synthetic_names.

(** ** expiration ([Replica::expire_tasks]) *)
Definition expires (t : tmap) : bool :=
  bool_decide (t !! k_status = Some (s2l "deleted"))
  && match t !! s2l "modified" with
     | Some m => match parse_i64 m with
                 | Some z => match timestamp_opt z with
                             | Some z' => Z.ltb z' (now - 180 * 86400)
                             | None => false
                             end
                 | None => false
                 end
     | None => false
     end.

Definition expire_tasks (tasks : gmap N tmap) : gmap N tmap := filter (fun kv => expires kv.2 = false) tasks.
End Model.

