(** Synchronised operations and their (tolerant) application to a task
    database: the model of [SyncOp] (src/server/op.rs) and of
    [taskdb::apply::apply_op] with its error ignored, as [apply_version] does
    (src/taskdb/sync.rs).  Executable definitions only. *)
From TC Require Export Base.Prelude.

Inductive sop :=
| SCreate (u : uuid)
| SDelete (u : uuid)
| SUpdate (u : uuid) (p : prop) (v : option value) (t : Z).

Global Instance sop_eq_dec : EqDecision sop.
Proof. solve_decision. Defined.

Definition sop_uuid (o : sop) : uuid :=
  match o with SCreate u | SDelete u | SUpdate u _ _ _ => u end.

(** One property edit of a task map. *)
Definition upd_task (tk : task) (p : prop) (v : option value) : task :=
  match v with Some x => <[p := x]> tk | None => delete p tk end.

(** docs/storage.md "Operations": create makes an empty task unless it exists,
    delete removes it, update edits one property of an existing task;
    operations on missing tasks change nothing. *)
Definition apply (s : db) (o : sop) : db :=
  match o with
  | SCreate u => match s !! u with Some _ => s | None => <[u := ∅]> s end
  | SDelete u => delete u s
  | SUpdate u p v _ =>
      match s !! u with
      | Some tk => <[u := upd_task tk p v]> s
      | None => s
      end
  end.

Definition applyl (s : db) (l : list sop) : db := fold_left apply l s.

(** docs/storage.md validity: create needs absence, update and delete need
    presence. *)
Definition validb (s : db) (o : sop) : bool :=
  match o with
  | SCreate u => match s !! u with None => true | Some _ => false end
  | SDelete u | SUpdate u _ _ _ => match s !! u with None => false | Some _ => true end
  end.

Fixpoint valid_seqb (s : db) (l : list sop) : bool :=
  match l with
  | [] => true
  | o :: l' => validb s o && valid_seqb (apply s o) l'
  end.

(** Local operations ([Operation], src/operation.rs): they carry the old
    value / the old task so that they can be undone, and undo points. *)
Inductive op :=
| OCreate (u : uuid)
| ODelete (u : uuid) (old : task)
| OUpdate (u : uuid) (p : prop) (old : option value) (v : option value) (t : Z)
| OUndoPoint.

Global Instance op_eq_dec : EqDecision op.
Proof. solve_decision. Defined.

(** [SyncOp::from_op]: old values and undo points never leave the replica. *)
Definition from_op (o : op) : option sop :=
  match o with
  | OCreate u => Some (SCreate u)
  | ODelete u _ => Some (SDelete u)
  | OUpdate u p _ v t => Some (SUpdate u p v t)
  | OUndoPoint => None
  end.

Definition sync_form (l : list op) : list sop := omap from_op l.

(** [SyncOp::into_op] *)
Definition into_op (o : sop) : op :=
  match o with
  | SCreate u => OCreate u
  | SDelete u => ODelete u ∅
  | SUpdate u p v t => OUpdate u p None v t
  end.
