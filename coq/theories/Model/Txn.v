(** The transaction envelope of the storage contract (src/storage/mod.rs:
    "A transaction is not visible to other readers until it is committed ...
    Transactions are aborted if they are dropped"): calls act on a private
    copy; commit installs it; dropping it -- by an error, an early return, a
    process kill -- discards it. *)
From TC Require Export Base.Prelude.

Section Txn.
Context {S C : Type}.
Variable step : S -> C -> S.

Record tstate := { persistent : S; working : option S }.

Inductive tev := TBegin | TCall (c : C) | TCommit | TAbandon.

Definition tstep (t : tstate) (e : tev) : tstate :=
  match e with
  | TBegin => {| persistent := persistent t; working := Some (persistent t) |}
  | TCall c => {| persistent := persistent t; working := (fun w => step w c) <$> working t |}
  | TCommit => match working t with
               | Some w => {| persistent := w; working := None |}
               | None => t
               end
  | TAbandon => {| persistent := persistent t; working := None |}
  end.

Definition trun (t : tstate) (l : list tev) : tstate := fold_left tstep l t.

(** one action: a transaction of some calls *)
Definition action (calls : list C) (finish : tev) : list tev := TBegin :: map TCall calls ++ [finish].
End Txn.
