(** [TaskDb] routines over the storage contract: batch application with its
    write cache (src/taskdb/apply.rs), [commit_operations] (src/taskdb/mod.rs),
    undo (src/taskdb/undo.rs) and the working-set rebuild
    (src/taskdb/working_set.rs).  Executable definitions only. *)
From TC Require Export Model.Storage.

(** ** [apply_op]: strict application of one sync operation *)
Definition apply_op (s : store) (o : sop) : option store :=
  match o with
  | SCreate u => let '(b, s') := create_task s u in if b then Some s' else None
  | SDelete u => let '(b, s') := delete_task s u in if b then Some s' else None
  | SUpdate u p v _ =>
      match get_task s u with
      | Some t => Some (set_task s u (upd_task t p v))
      | None => None
      end
  end.

(** ** [apply_operations] with its cache of task maps not yet written *)
Notation cache := (gmap N (option (gmap N N))) (only parsing).

Definition flush_cache (c : cache) (s : store) (u : N) : cache * store :=
  match c !! u with
  | Some (Some t) => (delete u c, set_task s u t)
  | Some None => (delete u c, s)
  | None => (c, s)
  end.

Definition apply_cached (cs : cache * store) (o : op) : cache * store :=
  let '(c, s) := cs in
  match o with
  | OCreate u =>
      let '(c', s') := flush_cache c s u in (c', (create_task s' u).2)
  | ODelete u _ => (<[u := None]> c, (delete_task s u).2)
  | OUpdate u p _ v _ =>
      let e := match c !! u with Some e => e | None => get_task s u end in
      match e with
      | Some t => (<[u := Some (upd_task t p v)]> c, s)
      | None => (<[u := None]> c, s)
      end
  | OUndoPoint => (c, s)
  end.

(** the final flush visits the cached tasks in some order [keys] *)
Definition flush_all (keys : list N) (cs : cache * store) : cache * store :=
  fold_left (fun '(c, s) u => flush_cache c s u) keys cs.

Definition apply_operations_with (keys : list N) (s : store) (ops : list op) : store :=
  (flush_all keys (fold_left apply_cached ops (∅, s))).2.

(** the order the model uses when it is run: that of the cache's key list *)
Definition apply_operations (s : store) (ops : list op) : store :=
  let cs := fold_left apply_cached ops (∅, s) in
  (flush_all (map fst (map_to_list cs.1)) cs).2.

(** ** [commit_operations] *)
Section Commit.
(** [Replica::commit_operations]' closure: an update of the status property
    from anything but pending/recurring to pending or recurring *)
Variable status_prop : N.
Variable is_pr : N -> bool.

Definition opt_pr (v : option N) : bool := match v with Some x => is_pr x | None => false end.

Definition adds_to_ws (o : op) : option N :=
  match o with
  | OUpdate u p old v _ =>
      if N.eqb p status_prop && negb (opt_pr old) && opt_pr v then Some u else None
  | _ => None
  end.

Definition ws_add_missing (s : store) (us : list N) : store :=
  fold_left (fun s u => if bool_decide (Some u ∈ st_ws s) then s else (add_to_working_set s u).2) us s.

Definition commit_operations (s : store) (ops : list op) : store :=
  let s1 := apply_operations s ops in
  let s2 := ws_add_missing s1 (omap adds_to_ws ops) in
  fold_left add_operation ops s2.
End Commit.

(** ** undo *)
Definition is_undo_point (o : op) : bool := match o with OUndoPoint => true | _ => false end.

(** suffix starting at the last undo point, or everything if there is none *)
Fixpoint from_last_undo_point (l : list op) : list op :=
  match l with
  | [] => []
  | o :: l' =>
      if existsb is_undo_point l' then from_last_undo_point l'
      else o :: l'
  end.
Definition get_undo_operations (s : store) : list op :=
  let l := unsynced s in
  if existsb is_undo_point l then from_last_undo_point l else l.

(** [reverse_ops]; [order] lists the properties of a deleted task in the order
    in which they are re-inserted (the code iterates a hash map) *)
Definition reverse_ops (o : op) : list sop :=
  match o with
  | OCreate u => [SDelete u]
  | ODelete u old => SCreate u :: map (fun '(p, v) => SUpdate u p (Some v) 0%Z) (map_to_list old)
  | OUpdate u p old _ t => [SUpdate u p old t]
  | OUndoPoint => []
  end.

Inductive undo_result := UndoDone (applied : bool) (s : store) | UndoRefused | UndoError.

Fixpoint apply_ops_strict (s : store) (l : list sop) : option store :=
  match l with
  | [] => Some s
  | o :: l' => match apply_op s o with Some s' => apply_ops_strict s' l' | None => None end
  end.

Fixpoint undo_loop (s : store) (applied : bool) (rev : list op) : undo_result :=
  match rev with
  | [] => UndoDone applied s
  | o :: rest =>
      let r := reverse_ops o in
      match apply_ops_strict s r with
      | None => UndoError
      | Some s1 =>
          match remove_operation s1 o with
          | None => UndoError
          | Some s2 => undo_loop s2 (applied || match r with [] => false | _ => true end) rest
          end
      end
  end.

Definition commit_reversed_operations (s : store) (undo_ops : list op) : undo_result :=
  match undo_ops with
  | [] => UndoRefused
  | _ =>
      let local := unsynced s in
      if (length undo_ops <=? length local)%nat
         && bool_decide (drop (length local - length undo_ops) local = undo_ops)
      then undo_loop s false (rev undo_ops)
      else UndoRefused
  end.

(** ** working-set rebuild *)
Section Rebuild.
Variable in_ws : task -> bool.

Definition keep_entry (s : store) (x : option N) : bool :=
  match x with
  | Some u => match get_task s u with Some t => in_ws t | None => false end
  | None => false
  end.

(** scan of the old entries (positions 1..): kept, blanked or dropped *)
Fixpoint scan_old (s : store) (renumber : bool) (old : list (option N)) : list (option N) :=
  match old with
  | [] => []
  | x :: old' =>
      if keep_entry s x then x :: scan_old s renumber old'
      else if renumber then scan_old s renumber old'
      else None :: scan_old s renumber old'
  end.

(** [all] is the order in which [all_tasks] lists the tasks *)
Definition newcomers (s : store) (seen : list (option N)) (all : list (N * task)) : list (option N) :=
  omap (fun '(u, t) => if negb (bool_decide (Some u ∈ seen)) && in_ws t then Some (Some u) else None) all.

(** the write-back through [set_working_set_item] / [add_to_working_set] *)
Fixpoint write_zip (s : store) (i : nat) (old new : list (option N)) : option store :=
  match old, new with
  | o :: old', n :: new' =>
      if bool_decide (o = n) then write_zip s (S i) old' new'
      else match set_working_set_item s i n with
           | Some s' => write_zip s' (S i) old' new'
           | None => None
           end
  | _, _ => Some s
  end.

Fixpoint blank_rest (s : store) (i : nat) (old : list (option N)) : option store :=
  match old with
  | [] => Some s
  | Some _ :: old' =>
      match set_working_set_item s i None with
      | Some s' => blank_rest s' (S i) old'
      | None => None
      end
  | None :: old' => blank_rest s (S i) old'
  end.

Fixpoint append_rest (s : store) (new : list (option N)) : option store :=
  match new with
  | [] => Some s
  | Some u :: new' => append_rest (add_to_working_set s u).2 new'
  | None :: _ => None   (* "new ws items should not be None": a panic *)
  end.

Definition rebuild_with (all : list (N * task)) (s : store) (renumber : bool) : option store :=
  let old := st_ws s in
  let kept := scan_old s renumber (tail old) in
  let new := None :: kept ++ newcomers s kept all in
  match write_zip s 0 old new with
  | None => None
  | Some s1 =>
      if (length new <? length old)%nat then blank_rest s1 (length new) (drop (length new) old)
      else append_rest s1 (drop (length old) new)
  end.

Definition rebuild (s : store) (renumber : bool) : option store :=
  rebuild_with (map_to_list (st_tasks s)) s renumber.
End Rebuild.
