(** The inner loops of [apply_version] (src/taskdb/sync.rs): carry one server
    operation through the list of local operations, then a whole version. *)
From TC Require Export Model.Transform.

Section WithTransform.
Variable tf : sop -> sop -> option sop * option sop.

(** [rebase_one so L] = (what is left of the server operation, new local list).
    Once the server operation is consumed the remaining local operations are
    copied unchanged. *)
Fixpoint rebase_one (so : option sop) (l : list sop) : option sop * list sop :=
  match l with
  | [] => (so, [])
  | lo :: l' =>
      match so with
      | None => (None, lo :: l')
      | Some o =>
          let '(so', lo') := tf o lo in
          let '(r, l'') := rebase_one so' l' in
          (r, match lo' with Some x => x :: l'' | None => l'' end)
      end
  end.

(** [rebase V L] = (V', L'): [V'] are the transformed server operations that
    are applied locally (and kept as synced operations), [L'] the rebased
    local operations. *)
Fixpoint rebase (v : list sop) (l : list sop) : list sop * list sop :=
  match v with
  | [] => ([], l)
  | so :: v' =>
      let '(r, l1) := rebase_one (Some so) l in
      let '(vr, l2) := rebase v' l1 in
      (match r with Some x => x :: vr | None => vr end, l2)
  end.
End WithTransform.
