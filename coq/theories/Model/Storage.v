(** The [StorageTxn] contract (src/storage/mod.rs) as functions on the
    documented storage record (docs/storage.md): tasks, base version, the
    operation log with its synced flags, and the working set.  This is the
    specification both backends are compared with (C16), and the substrate of
    the TaskDb-level models (C05, C07, C15). *)
From TC Require Export Model.Ops.

Record store := {
  st_tasks : db;
  st_base : nat;
  st_ops : list (bool * op);          (* (synced, operation), oldest first *)
  st_ws : list (option N)             (* element 0 is always None *)
}.

Definition store0 : store :=
  {| st_tasks := ∅; st_base := 0; st_ops := []; st_ws := [None] |}.

Definition set_tasks (s : store) (t : db) : store :=
  {| st_tasks := t; st_base := st_base s; st_ops := st_ops s; st_ws := st_ws s |}.
Definition set_base (s : store) (b : nat) : store :=
  {| st_tasks := st_tasks s; st_base := b; st_ops := st_ops s; st_ws := st_ws s |}.
Definition set_ops (s : store) (o : list (bool * op)) : store :=
  {| st_tasks := st_tasks s; st_base := st_base s; st_ops := o; st_ws := st_ws s |}.
Definition set_ws (s : store) (w : list (option N)) : store :=
  {| st_tasks := st_tasks s; st_base := st_base s; st_ops := st_ops s; st_ws := w |}.

(** ** tasks *)
Definition get_task (s : store) (u : N) : option task := st_tasks s !! u.

Definition create_task (s : store) (u : N) : bool * store :=
  match st_tasks s !! u with
  | Some _ => (false, s)
  | None => (true, set_tasks s (<[u := ∅]> (st_tasks s)))
  end.

Definition set_task (s : store) (u : N) (t : task) : store :=
  set_tasks s (<[u := t]> (st_tasks s)).

Definition delete_task (s : store) (u : N) : bool * store :=
  match st_tasks s !! u with
  | Some _ => (true, set_tasks s (delete u (st_tasks s)))
  | None => (false, s)
  end.

(** ** operations *)
Definition op_uuid (o : op) : option N :=
  match o with
  | OCreate u | ODelete u _ | OUpdate u _ _ _ _ => Some u
  | OUndoPoint => None
  end.

Definition unsynced (s : store) : list op :=
  omap (fun '(b, o) => if b : bool then None else Some o) (st_ops s).

Definition task_operations (s : store) (u : N) : list op :=
  omap (fun '(_, o) => if bool_decide (op_uuid o = Some u) then Some o else None) (st_ops s).

Definition add_operation (s : store) (o : op) : store := set_ops s (st_ops s ++ [(false, o)]).

(** the operation must be the most recent one and not yet synced *)
Definition remove_operation (s : store) (o : op) : option store :=
  match last (st_ops s) with
  | Some (false, o') =>
      if bool_decide (o' = o) then Some (set_ops s (removelast (st_ops s))) else None
  | _ => None
  end.

(** mark everything synced; drop operations whose task no longer exists *)
Definition sync_complete (s : store) : store :=
  set_ops s
    (omap (fun '(_, o) =>
             match op_uuid o with
             | Some u => match st_tasks s !! u with Some _ => Some (true, o) | None => None end
             | None => Some (true, o)
             end) (st_ops s)).

(** ** working set *)
(** trailing blanks after position 0 are not represented *)
Fixpoint strip_trailing_none (l : list (option N)) : list (option N) :=
  match l with
  | [] => []
  | x :: l' =>
      match strip_trailing_none l', x with
      | [], None => []
      | l'', _ => x :: l''
      end
  end.

Definition normalize_ws (w : list (option N)) : list (option N) :=
  match w with
  | [] => [None]
  | x :: l => x :: strip_trailing_none l
  end.

(** returns the index of the new entry: one more than the highest index in use *)
Definition add_to_working_set (s : store) (u : N) : nat * store :=
  (length (st_ws s), set_ws s (st_ws s ++ [Some u])).

(** only positions inside the current working set may be set *)
Definition set_working_set_item (s : store) (i : nat) (x : option N) : option store :=
  if (i <? length (st_ws s))%nat
  then Some (set_ws s (normalize_ws (<[i := x]> (st_ws s))))
  else None.

Definition clear_working_set (s : store) : store := set_ws s [None].

Definition pending_tasks (s : store) : list (N * task) :=
  omap (fun x => match x with
                 | Some u => match st_tasks s !! u with Some t => Some (u, t) | None => None end
                 | None => None
                 end) (st_ws s).

Definition is_empty (s : store) : bool :=
  bool_decide (st_tasks s = ∅) && bool_decide (st_ws s = [None])
  && (st_base s =? 0)%nat && match unsynced s with [] => true | _ => false end.
