(** [SyncOp::transform] (src/server/op.rs), arm by arm.

    Update/update conflicts on one property are decided by the pair
    (timestamp, value), compared lexicographically with [None < Some _] as
    Rust's [Option<String>] orders; only identical pairs are absorbed. *)
From TC Require Export Model.Ops.

Definition ov_ltb (a b : option value) : bool :=
  match a, b with
  | None, None => false
  | None, Some _ => true
  | Some _, None => false
  | Some x, Some y => N.ltb x y
  end.

Definition ov_eqb (a b : option value) : bool :=
  match a, b with
  | None, None => true
  | Some x, Some y => N.eqb x y
  | _, _ => false
  end.

(** strict lexicographic order on (timestamp, value) *)
Definition tv_ltb (t1 : Z) (v1 : option value) (t2 : Z) (v2 : option value) : bool :=
  Z.ltb t1 t2 || (Z.eqb t1 t2 && ov_ltb v1 v2).

Definition transform (a b : sop) : option sop * option sop :=
  match a, b with
  | SCreate u1, SCreate u2 => if N.eqb u1 u2 then (None, None) else (Some a, Some b)
  | SDelete u1, SDelete u2 => if N.eqb u1 u2 then (None, None) else (Some a, Some b)
  | SCreate u1, SDelete u2 => if N.eqb u1 u2 then (Some a, None) else (Some a, Some b)
  | SDelete u1, SCreate u2 => if N.eqb u1 u2 then (None, Some b) else (Some a, Some b)
  | SUpdate u1 _ _ _, SCreate u2 => if N.eqb u1 u2 then (Some a, None) else (Some a, Some b)
  | SCreate u1, SUpdate u2 _ _ _ => if N.eqb u1 u2 then (None, Some b) else (Some a, Some b)
  | SUpdate u1 _ _ _, SDelete u2 => if N.eqb u1 u2 then (None, Some b) else (Some a, Some b)
  | SDelete u1, SUpdate u2 _ _ _ => if N.eqb u1 u2 then (Some a, None) else (Some a, Some b)
  | SUpdate u1 p1 v1 t1, SUpdate u2 p2 v2 t2 =>
      if N.eqb u1 u2 && N.eqb p1 p2 then
        if ov_eqb v1 v2 && Z.eqb t1 t2 then (None, None)
        else if tv_ltb t1 v1 t2 v2 then (None, Some b)
        else (Some a, None)
      else (Some a, Some b)
  end.

(** The rule of the tree as pinned (value equality first, then timestamps,
    ties to the first argument); kept for the refutation witnesses. *)
Definition transform_pinned (a b : sop) : option sop * option sop :=
  match a, b with
  | SUpdate u1 p1 v1 t1, SUpdate u2 p2 v2 t2 =>
      if N.eqb u1 u2 && N.eqb p1 p2 then
        if ov_eqb v1 v2 then (None, None)
        else if Z.ltb t1 t2 then (None, Some b)
        else (Some a, None)
      else (Some a, Some b)
  | _, _ => transform a b
  end.
