(** The working-set table of the SQLite storage (rows id -> uuid, vector length
    MAX(id)+1) refines the specification's normalised vector, for every table
    (C16): the general proof behind [C16_working_set_table_small_scope]. *)
From TC Require Import Model.SqlStore Model.Storage.

Definition wmax (m : gmap nat N) : nat := map_fold (fun k _ acc => Nat.max k acc) 0 m.

Lemma ws_next_wmax m : ws_next m = S (wmax m).
Proof. reflexivity. Qed.

(** [wmax] is the largest id, or 0 for the empty table *)
Lemma wmax_spec m :
  (forall k, is_Some (m !! k) -> (k <= wmax m)%nat)
  /\ (wmax m = 0%nat \/ is_Some (m !! wmax m)).
Proof.
  unfold wmax. apply (map_fold_ind (fun r m => (forall k, is_Some (m !! k) -> (k <= r)%nat)
                                               /\ (r = 0%nat \/ is_Some (m !! r)))).
  - split; [|left; reflexivity]. intros k [x H]. rewrite lookup_empty in H. discriminate.
  - intros i x m0 r Hi [H1 H2]. split.
    + intros k Hk. destruct (decide (k = i)) as [->|Hne]; [lia|].
      rewrite lookup_insert_ne in Hk by congruence. apply H1 in Hk. lia.
    + destruct (Nat.max_spec i r) as [[Hlt ->]|[Hle ->]].
      * destruct H2 as [->|H2]; [lia|]. right. rewrite lookup_insert_ne by lia. exact H2.
      * right. rewrite lookup_insert. eauto.
Qed.

Lemma wmax_unique m n :
  (forall k, is_Some (m !! k) -> (k <= n)%nat) -> (n = 0%nat \/ is_Some (m !! n)) -> wmax m = n.
Proof.
  intros H1 H2. destruct (wmax_spec m) as [W1 W2].
  destruct H2 as [->|H2].
  - destruct W2 as [W2|W2]; [exact W2|]. apply H1 in W2. lia.
  - apply W1 in H2. destruct W2 as [W2|W2]; [|apply H1 in W2; lia].
    rewrite W2 in H2. lia.
Qed.

Lemma ws_vector_length m : length (ws_vector m) = S (wmax m).
Proof. unfold ws_vector. rewrite map_length, seq_length. reflexivity. Qed.

Lemma ws_vector_lookup m i : (i <= wmax m)%nat -> ws_vector m !! i = Some (m !! i).
Proof.
  intros Hi. unfold ws_vector. rewrite list_lookup_fmap, ws_next_wmax.
  rewrite lookup_seq_lt by lia. reflexivity.
Qed.

(** two vectors of the same length that agree pointwise *)
Lemma list_eq_lookup {A} (l1 l2 : list A) :
  length l1 = length l2 -> (forall i, (i < length l1)%nat -> l1 !! i = l2 !! i) -> l1 = l2.
Proof.
  intros Hlen H. apply list_eq. intros i. destruct (decide (i < length l1)%nat) as [Hi|Hi]; [auto|].
  rewrite !lookup_ge_None_2 by lia. reflexivity.
Qed.

(** add: the new row gets id MAX+1, the vector grows by one entry *)
Theorem ws_add m u :
  ws_vector (<[ws_next m := u]> m) = ws_vector m ++ [Some u].
Proof.
  destruct (wmax_spec m) as [W1 W2].
  assert (wmax (<[ws_next m := u]> m) = S (wmax m)) as Hmax.
  { apply wmax_unique.
    - intros k Hk. destruct (decide (k = ws_next m)) as [->|Hne]; [rewrite ws_next_wmax; lia|].
      rewrite lookup_insert_ne in Hk by congruence. apply W1 in Hk. lia.
    - right. rewrite <- ws_next_wmax, lookup_insert. eauto. }
  apply list_eq_lookup.
  - rewrite app_length, !ws_vector_length, Hmax. cbn. lia.
  - intros i Hi. rewrite ws_vector_length, Hmax in Hi.
    rewrite ws_vector_lookup by lia.
    destruct (decide (i = S (wmax m))) as [->|Hne].
    + rewrite lookup_app_r by (rewrite ws_vector_length; lia). rewrite ws_vector_length, Nat.sub_diag.
      cbn. rewrite <- ws_next_wmax, lookup_insert. reflexivity.
    + rewrite lookup_app_l by (rewrite ws_vector_length; lia).
      rewrite ws_vector_lookup by lia. rewrite lookup_insert_ne by (rewrite ws_next_wmax; lia). reflexivity.
Qed.

(** a list whose last element is not None has no trailing None to strip *)
Lemma strip_last_some (l : list (option N)) u : last l = Some (Some u) -> strip_trailing_none l = l.
Proof.
  induction l as [|x l IH]; [discriminate|]. intros Hl. cbn [strip_trailing_none].
  destruct l as [|y l'].
  - cbn in Hl. injection Hl as ->. reflexivity.
  - rewrite IH by exact Hl. reflexivity.
Qed.

Lemma strip_app_nones (l : list (option N)) k : strip_trailing_none (l ++ replicate k None) = strip_trailing_none l.
Proof.
  induction l as [|x l IH]; cbn [app strip_trailing_none].
  - induction k as [|k IHk]; [reflexivity|]. cbn [replicate strip_trailing_none]. rewrite IHk. reflexivity.
  - rewrite IH. reflexivity.
Qed.

Lemma strip_all_none k : strip_trailing_none (replicate k (None : option N)) = [].
Proof. induction k as [|k IH]; [reflexivity|]. cbn. rewrite IH. reflexivity. Qed.

(** the vector of a table without a row 0, seen as head :: tail *)
Lemma ws_vector_head m : m !! 0%nat = None -> exists tl, ws_vector m = None :: tl.
Proof.
  intros H0. unfold ws_vector. rewrite ws_next_wmax. cbn [seq map]. rewrite H0. eauto.
Qed.

Lemma normalize_id (l : list (option N)) tl u : l = None :: tl -> last l = Some (Some u) -> normalize_ws l = l.
Proof.
  intros -> Hl. cbn [normalize_ws]. destruct tl as [|y tl']; [discriminate|].
  rewrite (strip_last_some (y :: tl') u); [reflexivity|exact Hl].
Qed.

Lemma last_ws_vector m : last (ws_vector m) = Some (m !! wmax m).
Proof. rewrite last_lookup, ws_vector_length. cbn [pred]. apply ws_vector_lookup. lia. Qed.

(** set inside the vector: the statement on the table is the statement on the
    vector followed by the normalisation *)
Theorem ws_set m i x :
  m !! 0%nat = None -> (1 <= i)%nat -> (i < ws_next m)%nat ->
  ws_vector (match x with Some u => <[i := u]> m | None => delete i m end)
  = normalize_ws (<[i := x]> (ws_vector m)).
Proof.
  intros H0 H1 Hi. rewrite ws_next_wmax in Hi. destruct (wmax_spec m) as [W1 W2].
  destruct W2 as [W2|[uw W2]]; [lia|].
  destruct x as [u|].
  - (* insert or replace: the largest id is unchanged, nothing to strip *)
    assert (wmax (<[i := u]> m) = wmax m) as Hmax.
    { apply wmax_unique.
      - intros k Hk. destruct (decide (k = i)) as [->|Hne]; [lia|].
        rewrite lookup_insert_ne in Hk by congruence. apply W1. exact Hk.
      - right. destruct (decide (wmax m = i)) as [->|Hne]; [rewrite lookup_insert; eauto|].
        rewrite lookup_insert_ne by congruence. eauto. }
    assert (ws_vector (<[i := u]> m) = <[i := Some u]> (ws_vector m)) as Hv.
    { apply list_eq_lookup.
      - rewrite insert_length, !ws_vector_length, Hmax. reflexivity.
      - intros k Hk. rewrite ws_vector_length, Hmax in Hk. rewrite ws_vector_lookup by lia.
        destruct (decide (k = i)) as [->|Hne].
        + rewrite list_lookup_insert by (rewrite ws_vector_length; lia). rewrite lookup_insert. reflexivity.
        + rewrite list_lookup_insert_ne by congruence. rewrite ws_vector_lookup by lia.
          rewrite lookup_insert_ne by congruence. reflexivity. }
    rewrite <- Hv. destruct (ws_vector_head (<[i := u]> m)) as [tl Htl]; [rewrite lookup_insert_ne by lia; exact H0|].
    assert (exists y, last (ws_vector (<[i := u]> m)) = Some (Some y)) as [y Hy].
    { rewrite last_ws_vector, Hmax.
      destruct (decide (wmax m = i)) as [->|Hne]; [rewrite lookup_insert; eauto|].
      rewrite lookup_insert_ne by congruence. rewrite W2. eauto. }
    symmetry. exact (normalize_id _ tl y Htl Hy).
  - (* delete *)
    destruct (decide (i = wmax m)) as [->|Hne].
    2:{ (* not the last row: as above *)
      assert (wmax (delete i m) = wmax m) as Hmax.
      { apply wmax_unique.
        - intros k Hk. destruct (decide (k = i)) as [->|Hne']; [rewrite lookup_delete in Hk; destruct Hk; discriminate|].
          rewrite lookup_delete_ne in Hk by congruence. apply W1. exact Hk.
        - right. rewrite lookup_delete_ne by congruence. eauto. }
      assert (ws_vector (delete i m) = <[i := None]> (ws_vector m)) as Hv.
      { apply list_eq_lookup.
        - rewrite insert_length, !ws_vector_length, Hmax. reflexivity.
        - intros k Hk. rewrite ws_vector_length, Hmax in Hk. rewrite ws_vector_lookup by lia.
          destruct (decide (k = i)) as [->|Hne'].
          + rewrite list_lookup_insert by (rewrite ws_vector_length; lia). rewrite lookup_delete. reflexivity.
          + rewrite list_lookup_insert_ne by congruence. rewrite ws_vector_lookup by lia.
            rewrite lookup_delete_ne by congruence. reflexivity. }
      rewrite <- Hv. destruct (ws_vector_head (delete i m)) as [tl Htl]; [rewrite lookup_delete_ne by lia; exact H0|].
      assert (last (ws_vector (delete i m)) = Some (Some uw)) as Hy
        by (rewrite last_ws_vector, Hmax; rewrite lookup_delete_ne by congruence; rewrite W2; reflexivity).
      symmetry. exact (normalize_id _ tl uw Htl Hy). }
    (* the last row goes: the vector shrinks to the largest remaining id *)
    set (m' := delete (wmax m) m). set (w' := wmax m').
    destruct (wmax_spec m') as [W1' W2'].
    assert (w' < wmax m)%nat as Hlt.
    { destruct W2' as [W2'|[y W2']]; [fold w' in W2'; lia|]. fold w' in W2'.
      destruct (decide (w' = wmax m)) as [E|E]; [rewrite E in W2'; unfold m' in W2'; rewrite lookup_delete in W2'; discriminate|].
      assert (is_Some (m !! w')) as Hs by (unfold m' in W2'; rewrite lookup_delete_ne in W2' by congruence; eauto).
      apply W1 in Hs. lia. }
    (* the old vector with its last entry blanked = the new vector followed by blanks *)
    assert (<[wmax m := None]> (ws_vector m) = ws_vector m' ++ replicate (wmax m - w') None) as Hsplit.
    { apply list_eq_lookup.
      - rewrite insert_length, app_length, replicate_length, !ws_vector_length. fold w'. lia.
      - intros k Hk. rewrite insert_length, ws_vector_length in Hk.
        destruct (decide (k <= w')%nat) as [Hkw|Hkw].
        + rewrite lookup_app_l by (rewrite ws_vector_length; fold w'; lia).
          rewrite list_lookup_insert_ne by lia. rewrite !ws_vector_lookup by (try fold w'; lia).
          unfold m'. rewrite lookup_delete_ne by lia. reflexivity.
        + rewrite lookup_app_r by (rewrite ws_vector_length; fold w'; lia).
          rewrite lookup_replicate_2 by (rewrite ws_vector_length; fold w'; lia).
          destruct (decide (k = wmax m)) as [->|Hk'].
          * rewrite list_lookup_insert by (rewrite ws_vector_length; lia). reflexivity.
          * rewrite list_lookup_insert_ne by congruence. rewrite ws_vector_lookup by lia.
            destruct (m !! k) as [y|] eqn:Ek; [|reflexivity].
            assert (is_Some (m' !! k)) as Hs by (unfold m'; rewrite lookup_delete_ne by congruence; eauto).
            apply W1' in Hs. fold w' in Hs. lia. }
    rewrite Hsplit.
    destruct (ws_vector_head m') as [tl Htl]; [unfold m'; rewrite lookup_delete_ne by lia; exact H0|].
    rewrite Htl. cbn [app normalize_ws]. rewrite strip_app_nones.
    destruct W2' as [W2'|[y W2']].
    + (* nothing left: the vector is [None] *)
      fold w' in W2'. assert (tl = []) as ->.
      { assert (length (ws_vector m') = 1%nat) as Hl by (rewrite ws_vector_length; fold w'; lia).
        rewrite Htl in Hl. destruct tl; [reflexivity|cbn in Hl; lia]. }
      reflexivity.
    + fold w' in W2'. destruct tl as [|z tl'].
      * reflexivity.
      * rewrite (strip_last_some (z :: tl') y); [reflexivity|].
        assert (last (ws_vector m') = Some (Some y)) as Hl by (rewrite last_ws_vector; fold w'; rewrite W2'; reflexivity).
        rewrite Htl in Hl. exact Hl.
Qed.

(** clear *)
Theorem ws_clear : ws_vector (∅ : gmap nat N) = [None].
Proof. reflexivity. Qed.

(** ** the statements of the SQLite storage against the specification *)
Lemma absq_ws q w : absq (upd q (q_tasks q) (q_base q) (q_ops q) w) = set_ws (absq q) (ws_vector w).
Proof. reflexivity. Qed.

Theorem add_to_working_set_refines q u n q' :
  q_add_to_working_set q u = Some (n, q') ->
  add_to_working_set (absq q) u = (n, absq q') /\ (q_ws q !! 0%nat = None -> q_ws q' !! 0%nat = None).
Proof.
  unfold q_add_to_working_set, rw_guard. destruct (q_readonly q); [discriminate|]. intros [= <- <-].
  split.
  - unfold add_to_working_set. rewrite absq_ws, ws_add. f_equal.
    cbn [absq st_ws]. rewrite ws_vector_length. reflexivity.
  - intros H0. cbn. rewrite lookup_insert_ne by (rewrite ws_next_wmax; lia). exact H0.
Qed.

Theorem set_working_set_item_refines q i x q' :
  q_ws q !! 0%nat = None -> (1 <= i)%nat -> (i < length (st_ws (absq q)))%nat ->
  q_set_working_set_item q i x = Some (tt, q') ->
  set_working_set_item (absq q) i x = Some (absq q') /\ q_ws q' !! 0%nat = None.
Proof.
  intros H0 H1 Hi. unfold q_set_working_set_item, rw_guard. destruct (q_readonly q); [discriminate|]. intros [= <-].
  cbn [absq st_ws] in Hi. rewrite ws_vector_length in Hi.
  split.
  - unfold set_working_set_item. cbn [absq st_ws]. rewrite ws_vector_length.
    destruct (Nat.ltb_spec i (S (wmax (q_ws q)))) as [_|Hge]; [|lia].
    rewrite absq_ws. rewrite (ws_set (q_ws q) i x H0 H1) by (rewrite ws_next_wmax; lia). reflexivity.
  - cbn. destruct x; [rewrite lookup_insert_ne by lia|rewrite lookup_delete_ne by lia]; exact H0.
Qed.

Theorem clear_working_set_refines q q' :
  q_clear_working_set q = Some (tt, q') ->
  clear_working_set (absq q) = absq q' /\ q_ws q' !! 0%nat = None.
Proof.
  unfold q_clear_working_set, rw_guard. destruct (q_readonly q); [discriminate|]. intros [= <-].
  split; [reflexivity|]. cbn. apply lookup_empty.
Qed.
