(** Undo (C07): reversing faithful operations restores the exact earlier
    content and removes exactly those operations from the log. *)
From TC Require Import Model.TaskDb Proofs.TransformP Proofs.ApplyP.

(** an operation is faithful on [d] when it is valid there and records the
    value / task that is really there *)
Definition faithful (d : db) (o : op) : Prop :=
  match o with
  | OCreate u => d !! u = None
  | ODelete u old => d !! u = Some old
  | OUpdate u p old _ _ => exists tk, d !! u = Some tk /\ tk !! p = old
  | OUndoPoint => True
  end.

Fixpoint faithful_seq (d : db) (l : list op) : Prop :=
  match l with
  | [] => True
  | o :: l' => faithful d o /\ faithful_seq (apply_local d o) l'
  end.

Lemma faithful_seq_app d l1 l2 :
  faithful_seq d (l1 ++ l2) <-> faithful_seq d l1 /\ faithful_seq (fold_left apply_local l1 d) l2.
Proof.
  revert d; induction l1 as [|o l1 IH]; intros d; cbn; [tauto|]. rewrite IH. tauto.
Qed.

Lemma upd_task_restore tk p v : upd_task (upd_task tk p v) p (tk !! p) = tk.
Proof.
  rewrite upd_task_shadow. destruct (tk !! p) eqn:E; cbn.
  - apply insert_id. exact E.
  - apply delete_notin. exact E.
Qed.

(** re-inserting the properties of a deleted task, in any order of the list *)
Lemma fold_insert_lookup (l : list (N * N)) : forall (t0 : gmap N N) p,
  NoDup l.*1 ->
  fold_left (fun t pv => <[pv.1 := pv.2]> t) l t0 !! p =
  match (list_to_map l : gmap N N) !! p with Some v => Some v | None => t0 !! p end.
Proof.
  induction l as [|[q w] l IH]; intros t0 p Hnd; cbn [fold_left]; [cbn [list_to_map foldr]; rewrite lookup_empty; reflexivity|].
  inv Hnd. rewrite IH by assumption. rewrite list_to_map_cons. cbn [fst snd].
  destruct (decide (p = q)) as [->|Hne].
  - rewrite lookup_insert. rewrite (not_elem_of_list_to_map_1 _ _ H1), lookup_insert. reflexivity.
  - rewrite !lookup_insert_ne by congruence. reflexivity.
Qed.

Lemma same_meta_set_task s u t : same_meta s (set_task s u t).
Proof. repeat split. Qed.

Lemma apply_updates_strict u (l : list (N * N)) : forall s t0,
  st_tasks s !! u = Some t0 ->
  exists s', apply_ops_strict s (map (fun '(p, v) => SUpdate u p (Some v) 0%Z) l) = Some s'
    /\ st_tasks s' = <[u := fold_left (fun t pv => <[pv.1 := pv.2]> t) l t0]> (st_tasks s)
    /\ same_meta s s'.
Proof.
  induction l as [|[p v] l IH]; intros s t0 Hu; cbn [map apply_ops_strict fold_left].
  - exists s. split; [reflexivity|]. split; [symmetry; apply insert_id; exact Hu|apply same_meta_refl].
  - cbn [apply_op]. unfold get_task. rewrite Hu.
    destruct (IH (set_task s u (upd_task t0 p (Some v))) (<[p := v]> t0)) as (s' & A1 & A2 & A3).
    { cbn. apply lookup_insert. }
    exists s'. split; [exact A1|]. split.
    + rewrite A2. cbn. rewrite insert_insert. reflexivity.
    + eapply same_meta_trans; [apply same_meta_set_task|exact A3].
Qed.

(** reversing one faithful operation restores the tasks and nothing else changes *)
Lemma reverse_restores o s d :
  faithful d o -> st_tasks s = apply_local d o ->
  exists s', apply_ops_strict s (reverse_ops o) = Some s' /\ st_tasks s' = d /\ same_meta s s'.
Proof.
  intros Hf Ht. destruct o as [u|u old|u p old v t|]; cbn [reverse_ops faithful] in *;
    unfold apply_local in Ht; cbn [from_op apply] in Ht.
  - (* create: delete it again *)
    rewrite Hf in Ht. cbn [apply_ops_strict apply_op]. unfold delete_task.
    rewrite Ht, lookup_insert. eexists. split; [reflexivity|]. split; [|repeat split].
    cbn. apply delete_insert. exact Hf.
  - (* delete: re-create with all its properties *)
    cbn [apply_ops_strict apply_op]. unfold create_task. rewrite Ht, lookup_delete.
    set (s1 := set_tasks s (<[u := ∅]> (delete u d))).
    destruct (apply_updates_strict u (map_to_list old) s1 ∅) as (s' & A1 & A2 & A3).
    { cbn. apply lookup_insert. }
    exists s'. split; [exact A1|]. split; [|eapply same_meta_trans; [|exact A3]; repeat split].
    rewrite A2. cbn. rewrite insert_insert, insert_delete_insert.
    assert (fold_left (fun t pv => <[pv.1 := pv.2]> t) (map_to_list old) ∅ = old) as ->.
    { apply map_eq. intros p. rewrite fold_insert_lookup by apply NoDup_fst_map_to_list.
      rewrite list_to_map_to_list, lookup_empty. destruct (old !! p); reflexivity. }
    apply insert_id. exact Hf.
  - (* update: set the old value *)
    destruct Hf as (tk & Hu & Hp). rewrite Hu in Ht.
    cbn [apply_ops_strict apply_op]. unfold get_task. rewrite Ht, lookup_insert.
    eexists. split; [reflexivity|]. split; [|repeat split].
    cbn. rewrite Ht, insert_insert, <- Hp, upd_task_restore. apply insert_id. exact Hu.
  - exists s. split; [reflexivity|]. split; [exact Ht|apply same_meta_refl].
Qed.

Definition has_change (l : list op) : bool := existsb (fun o => negb (is_undo_point o)) l.

Lemma reverse_ops_nonempty o : match reverse_ops o with [] => false | _ => true end = negb (is_undo_point o).
Proof. destruct o; reflexivity. Qed.

(** reversing a faithful list, newest first, walks the tasks back to the state
    before the list and pops exactly its operations off the log *)
Lemma undo_loop_restores l : forall s d pre acc,
  faithful_seq d l ->
  st_tasks s = fold_left apply_local l d ->
  st_ops s = pre ++ map (pair false) l ->
  exists s', undo_loop s acc (rev l) = UndoDone (acc || has_change l) s'
    /\ st_tasks s' = d /\ st_ops s' = pre /\ st_base s' = st_base s /\ st_ws s' = st_ws s.
Proof.
  induction l as [|o l IH] using rev_ind; intros s d pre acc Hf Ht Hops.
  - cbn. exists s. rewrite orb_false_r, app_nil_r in *. auto.
  - rewrite rev_unit. cbn [undo_loop].
    apply faithful_seq_app in Hf. destruct Hf as [Hf1 [Hf2 _]].
    rewrite fold_left_app in Ht. cbn [fold_left] in Ht.
    destruct (reverse_restores o s _ Hf2 Ht) as (s1 & R1 & R2 & R3 & R4 & R5).
    rewrite R1.
    rewrite map_app in Hops. cbn [map] in Hops. rewrite app_assoc in Hops.
    assert (remove_operation s1 o = Some (set_ops s1 (pre ++ map (pair false) l))) as ->.
    { unfold remove_operation. rewrite R4, Hops, last_snoc.
      rewrite bool_decide_eq_true_2 by reflexivity. rewrite removelast_last. reflexivity. }
    destruct (IH (set_ops s1 (pre ++ map (pair false) l)) d pre
                 (acc || match reverse_ops o with [] => false | _ => true end) Hf1 R2 eq_refl)
      as (s' & I1 & I2 & I3 & I4 & I5).
    exists s'. rewrite I1. split.
    + f_equal. unfold has_change. rewrite existsb_app. cbn [existsb].
      rewrite reverse_ops_nonempty, orb_false_r.
      destruct acc, (existsb _ l), (negb (is_undo_point o)); reflexivity.
    + cbn in I4, I5. rewrite I4, I5, R3, R5. auto.
Qed.

(** the whole call: when the given operations are the most recent unsynced
    ones and are faithful, they are undone exactly *)
Theorem undo_spec s d pre p l :
  l <> [] ->
  st_ops s = pre ++ map (pair false) (p ++ l) -> unsynced s = p ++ l ->
  faithful_seq d l -> st_tasks s = fold_left apply_local l d ->
  exists s', commit_reversed_operations s l = UndoDone (has_change l) s'
    /\ st_tasks s' = d
    /\ st_ops s' = pre ++ map (pair false) p
    /\ st_base s' = st_base s /\ st_ws s' = st_ws s.
Proof.
  intros Hne Hops Hun Hf Ht. unfold commit_reversed_operations.
  destruct l as [|o l0] eqn:El; [congruence|]. rewrite <- El in *.
  rewrite Hun, app_length.
  assert ((length l <=? length p + length l)%nat = true) as -> by (apply Nat.leb_le; lia).
  replace (length p + length l - length l)%nat with (length p) by lia.
  rewrite drop_app. rewrite bool_decide_eq_true_2 by reflexivity. cbn [andb].
  rewrite map_app, app_assoc in Hops.
  destruct (undo_loop_restores l s d (pre ++ map (pair false) p) false Hf Ht Hops)
    as (s' & U1 & U2 & U3 & U4 & U5).
  exists s'. rewrite U1. cbn [orb]. auto.
Qed.

(** anything that is not the most recent unsynced operations is refused, and
    nothing changes (the result carries no new store) *)
Theorem undo_mismatch_refused s l :
  (l = [] \/ ~ (exists p, unsynced s = p ++ l)) -> commit_reversed_operations s l = UndoRefused.
Proof.
  intros [->|Hno]; [reflexivity|]. unfold commit_reversed_operations.
  destruct l as [|o l0] eqn:El; [reflexivity|]. rewrite <- El in *.
  destruct (length l <=? length (unsynced s))%nat eqn:E1; [|reflexivity].
  destruct (bool_decide _) eqn:E2; [|reflexivity]. exfalso. apply Hno.
  apply bool_decide_eq_true in E2. exists (take (length (unsynced s) - length l) (unsynced s)).
  rewrite <- E2 at 2. symmetry. apply take_drop.
Qed.

(** after a completed sync nothing is unsynced: nothing is offered and every
    non-empty list is refused *)
Lemma unsynced_sync_complete s : unsynced (sync_complete s) = [].
Proof.
  unfold unsynced, sync_complete; cbn. induction (st_ops s) as [|[b o] l IH]; [reflexivity|].
  cbn. destruct (op_uuid o) as [u|]; [destruct (st_tasks s !! u)|]; cbn; exact IH.
Qed.

Theorem undo_after_sync_refused s l :
  unsynced s = [] -> get_undo_operations s = [] /\ commit_reversed_operations s l = UndoRefused.
Proof.
  intros H. split; [unfold get_undo_operations; rewrite H; reflexivity|].
  apply undo_mismatch_refused. destruct l as [|o l]; [left; reflexivity|right].
  intros (p & Hp). rewrite H in Hp. destruct p; discriminate.
Qed.
