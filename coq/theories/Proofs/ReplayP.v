(** Committing the recorded updates a second time changes nothing: replaying a
    log of property updates is idempotent (C19, "repeated application"). *)
From TC Require Import Model.Task Model.TaskMut Proofs.TaskMutP.

Lemma lookup_upd (m : gmap (list N) (list N)) p v k :
  upd_map m p v !! k = if decide (k = p) then v else m !! k.
Proof.
  unfold upd_map. destruct v as [x|]; destruct (decide (k = p)) as [->|Hne].
  - apply lookup_insert. - apply lookup_insert_ne. congruence.
  - apply lookup_delete. - apply lookup_delete_ne. congruence.
Qed.

Lemma upd_upd_same (m : gmap (list N) (list N)) p v w : upd_map (upd_map m p v) p w = upd_map m p w.
Proof. apply map_eq. intros k. rewrite !lookup_upd. destruct (decide (k = p)); reflexivity. Qed.

Lemma upd_upd_comm (m : gmap (list N) (list N)) p v q w :
  p <> q -> upd_map (upd_map m p v) q w = upd_map (upd_map m q w) p v.
Proof.
  intros Hne. apply map_eq. intros k. rewrite !lookup_upd.
  destruct (decide (k = q)), (decide (k = p)); congruence.
Qed.

Lemma replay_log_cons m e l : replay_log m (e :: l) = replay_log (upd_map m e.1.1 e.2) l.
Proof. reflexivity. Qed.

Lemma replay_log_snoc m l e : replay_log m (l ++ [e]) = upd_map (replay_log m l) e.1.1 e.2.
Proof. unfold replay_log. rewrite fold_left_app. reflexivity. Qed.

Lemma replay_absorbs l : forall m p v,
  upd_map (replay_log (upd_map m p v) l) p v = upd_map (replay_log m l) p v.
Proof.
  induction l as [|[[q o] w] l IH]; intros m p v; [cbn; apply upd_upd_same|].
  rewrite !replay_log_cons. cbn [fst snd]. destruct (decide (p = q)) as [->|Hne].
  - rewrite upd_upd_same. reflexivity.
  - rewrite (upd_upd_comm m p v q w Hne). apply IH.
Qed.

Theorem replay_idempotent l : forall m, replay_log (replay_log m l) l = replay_log m l.
Proof.
  induction l as [|e l IH] using rev_ind; intros m; [reflexivity|].
  rewrite !replay_log_snoc. rewrite replay_absorbs. rewrite IH. reflexivity.
Qed.

(** committing the operations recorded by any sequence of mutator calls twice
    still leaves the stored task identical to the task the caller holds *)
Theorem repeated_application (nowstr : list N) (m0 : gmap (list N) (list N)) (um : bool) (l : list mutator) :
  let s := run_mutators nowstr {| ts_map := m0; ts_um := um; ts_log := [] |} l in
  replay_log (replay_log m0 (ts_log s)) (ts_log s) = ts_map s.
Proof.
  intros s. rewrite replay_idempotent. exact (proj1 (held_equals_stored nowstr m0 um l)).
Qed.
