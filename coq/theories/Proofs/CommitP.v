(** [commit_operations]: tasks as by one-at-a-time application, the batch is
    appended in order to the unsynced operations, the working set is only
    extended at its end (C05, C15). *)
From TC Require Import Model.TaskDb Proofs.ApplyP.

Local Arguments applyl : simpl never.

Lemma unsynced_app_false s o : unsynced (add_operation s o) = unsynced s ++ [o].
Proof. unfold unsynced, add_operation; cbn. rewrite omap_app. reflexivity. Qed.

Lemma fold_add_operation ops : forall s,
  let s' := fold_left add_operation ops s in
  unsynced s' = unsynced s ++ ops /\ st_tasks s' = st_tasks s /\ st_base s' = st_base s
  /\ st_ws s' = st_ws s /\ st_ops s' = st_ops s ++ map (pair false) ops.
Proof.
  induction ops as [|o ops IH]; intros s; cbn [fold_left].
  - rewrite !app_nil_r. auto.
  - specialize (IH (add_operation s o)). cbn zeta in IH. destruct IH as (I1 & I2 & I3 & I4 & I5).
    rewrite I1, I2, I3, I4, I5, unsynced_app_false. cbn. rewrite <- !app_assoc. auto.
Qed.

Lemma ws_add_missing_spec us : forall s,
  let s' := ws_add_missing s us in
  st_tasks s' = st_tasks s /\ st_base s' = st_base s /\ st_ops s' = st_ops s
  /\ exists added, st_ws s' = st_ws s ++ map Some added
       /\ (forall x, x ∈ added -> x ∈ us /\ Some x ∉ st_ws s)
       /\ (forall x, x ∈ us -> Some x ∈ st_ws s')
       /\ NoDup added.
Proof.
  induction us as [|u us IH]; intros s; cbn [ws_add_missing fold_left].
  - split; [reflexivity|]. split; [reflexivity|]. split; [reflexivity|].
    exists []. rewrite app_nil_r. split; [reflexivity|]. split; [|split].
    + intros y Hy. inversion Hy.
    + intros y Hy. inversion Hy.
    + constructor.
  - fold (ws_add_missing (if bool_decide (Some u ∈ st_ws s) then s else (add_to_working_set s u).2) us).
    destruct (bool_decide (Some u ∈ st_ws s)) eqn:E.
    + apply bool_decide_eq_true in E. specialize (IH s). cbn zeta in IH.
      destruct IH as (I1 & I2 & I3 & added & I4 & I5 & I6 & I7).
      split; [exact I1|]. split; [exact I2|]. split; [exact I3|].
      exists added. split; [exact I4|]. split; [|split; [|exact I7]].
      * intros x Hx. destruct (I5 x Hx). split; [right|]; assumption.
      * intros x Hx. apply elem_of_cons in Hx. destruct Hx as [->|Hx]; [|auto].
        rewrite I4. apply elem_of_app. left. exact E.
    + apply bool_decide_eq_false in E.
      specialize (IH (add_to_working_set s u).2). cbn zeta in IH.
      destruct IH as (I1 & I2 & I3 & added & I4 & I5 & I6 & I7).
      split; [exact I1|]. split; [exact I2|]. split; [exact I3|].
      exists (u :: added). split; [|split; [|split]].
      * rewrite I4. cbn. rewrite <- app_assoc. reflexivity.
      * intros x Hx. apply elem_of_cons in Hx. destruct Hx as [->|Hx].
        -- split; [left|exact E].
        -- destruct (I5 x Hx) as [H1 H2]. cbn in H2. split; [right; exact H1|].
           intros H. apply H2. apply elem_of_app. left. exact H.
      * intros x Hx. apply elem_of_cons in Hx. destruct Hx as [->|Hx]; [|auto].
        rewrite I4. cbn. apply elem_of_app. left. apply elem_of_app. right. left.
      * constructor; [|exact I7]. intros H. destruct (I5 u H) as [_ H2]. cbn in H2.
        apply H2. apply elem_of_app. right. left.
Qed.

Theorem commit_spec status is_pr s ops :
  let s' := commit_operations status is_pr s ops in
  st_tasks s' = applyl (st_tasks s) (sync_form ops)
  /\ unsynced s' = unsynced s ++ ops
  /\ st_ops s' = st_ops s ++ map (pair false) ops
  /\ st_base s' = st_base s
  /\ exists added, st_ws s' = st_ws s ++ map Some added
       /\ NoDup added
       /\ (forall u, u ∈ added -> u ∈ omap (adds_to_ws status is_pr) ops /\ Some u ∉ st_ws s)
       /\ (forall u, u ∈ omap (adds_to_ws status is_pr) ops -> Some u ∈ st_ws s').
Proof.
  unfold commit_operations. cbn zeta.
  pose proof (apply_operations_ok s ops) as (A1 & A2 & A3 & A4).
  set (s1 := apply_operations s ops) in *.
  pose proof (ws_add_missing_spec (omap (adds_to_ws status is_pr) ops) s1) as W.
  cbn zeta in W. destruct W as (W1 & W2 & W3 & added & W4 & W5 & W6 & W7).
  set (s2 := ws_add_missing s1 _) in *.
  pose proof (fold_add_operation ops s2) as F. cbn zeta in F. destruct F as (F1 & F2 & F3 & F4 & F5).
  split; [|split; [|split; [|split]]].
  - rewrite F2, W1. exact A1.
  - rewrite F1. unfold unsynced. rewrite W3, A3. reflexivity.
  - rewrite F5, W3, A3. reflexivity.
  - rewrite F3, W2, A2. reflexivity.
  - exists added. rewrite F4, W4, A4. split; [reflexivity|]. split; [exact W7|]. split.
    + intros u Hu. destruct (W5 u Hu) as [H1 H2]. rewrite A4 in H2. auto.
    + intros u Hu. rewrite <- A4, <- W4. auto.
Qed.
