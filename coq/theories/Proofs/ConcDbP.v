(** Concurrent commits on one store (C17): what the lock discipline and the
    commit specification give together. *)
From TC Require Import Model.TaskDb Model.Conc Proofs.ConcP Proofs.CommitP Proofs.RebaseP.

Section P.
Variable status : N.
Variable is_pr : N -> bool.

(** a call = one committed batch; a transaction may hold several *)
Definition cstepdb (s : store) (ops : list op) : store := commit_operations status is_pr s ops.

Definition ws_nodup (s : store) : Prop := NoDup (omap id (st_ws s)).

Lemma omap_id_map_Some (l : list N) : omap id (map Some l) = l.
Proof. induction l as [|x l IH]; cbn; [reflexivity|]. f_equal. exact IH. Qed.

Lemma commit_keeps_ws_nodup s ops : ws_nodup s -> ws_nodup (cstepdb s ops).
Proof.
  unfold ws_nodup, cstepdb. intros H.
  pose proof (commit_spec status is_pr s ops) as (_ & _ & _ & _ & added & Hws & Hnd & Hnew & _).
  rewrite Hws, omap_app, omap_id_map_Some. apply NoDup_app. split; [exact H|]. split; [|exact Hnd].
  intros u Hu Ha. apply Hnew in Ha as [_ Hn]. apply Hn.
  apply elem_of_list_omap in Hu as (x & Hx & Hid). destruct x as [u'|]; cbn in Hid; [|discriminate].
  injection Hid as ->. exact Hx.
Qed.

Definition db_inv (base : db) (s : store) : Prop :=
  st_tasks s = applyl base (sync_form (unsynced s)) /\ ws_nodup s.

Lemma commit_keeps_db_inv base s ops : db_inv base s -> db_inv base (cstepdb s ops).
Proof.
  intros [H1 H2]. split; [|apply commit_keeps_ws_nodup; exact H2].
  unfold cstepdb. pose proof (commit_spec status is_pr s ops) as (C1 & C2 & _).
  rewrite C1, C2, H1. unfold sync_form. rewrite omap_app, applyl_app. reflexivity.
Qed.

Lemma atomic_keeps_db_inv base cs : forall s, db_inv base s -> db_inv base (atomic cstepdb s cs).
Proof.
  induction cs as [|ops cs IH]; intros s H; [exact H|]. cbn. apply IH. apply commit_keeps_db_inv. exact H.
Qed.

Lemma atomic_unsynced cs : forall s, unsynced (atomic cstepdb s cs) = unsynced s ++ concat cs.
Proof.
  induction cs as [|ops cs IH]; intros s; cbn; [rewrite app_nil_r; reflexivity|].
  unfold atomic in IH. rewrite IH. unfold cstepdb.
  pose proof (commit_spec status is_pr s ops) as (_ & C2 & _). rewrite C2, <- app_assoc. reflexivity.
Qed.

(** Any schedule of any number of handles committing batches: the stored tasks
    are the replay of the recorded operations; the recorded operations are
    exactly the batches of the committed transactions, whole, once each, in
    commit order; no working-set entry is duplicated. *)
Theorem concurrent_commits base s l :
  db_inv base s ->
  let s' := cpersist (crun cstepdb {| cpersist := s; cholder := None |} l) in
  db_inv base s'
  /\ unsynced s' = unsynced s ++ concat (concat (committed None l)).
Proof.
  intros H0. cbn zeta. split.
  - apply (invariant_of_transactions cstepdb (db_inv base)); [exact H0|].
    intros cs s1 _ H1. apply atomic_keeps_db_inv. exact H1.
  - rewrite serial_equivalence. revert s H0. generalize (committed (C:=list op) None l) as txs.
    induction txs as [|cs txs IH]; intros s H0; cbn [fold_left concat]; [rewrite app_nil_r; reflexivity|].
    rewrite IH by (apply atomic_keeps_db_inv; exact H0).
    rewrite atomic_unsynced, concat_app, <- app_assoc. reflexivity.
Qed.
End P.
