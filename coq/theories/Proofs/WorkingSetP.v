(** The working-set rebuild (C15): what the new working set contains, where
    the remaining tasks sit, and that the write-back through the storage calls
    produces it. *)
From TC Require Import Model.TaskDb.

Section WithPredicate.
Variable in_ws : gmap N N -> bool.

Notation keep := (keep_entry in_ws).
Notation scan := (scan_old in_ws).

(** the working set a rebuild is meant to produce *)
Definition rebuild_spec_ws (all : list (N * gmap N N)) (s : store) (renumber : bool) : list (option N) :=
  let kept := scan s renumber (tail (st_ws s)) in
  normalize_ws (None :: kept) ++ newcomers in_ws s kept all.

Definition wanted (s : store) (u : N) : Prop :=
  exists t, st_tasks s !! u = Some t /\ in_ws t = true.

(** ** the scan of the old entries *)
Lemma scan_keeps_length s old : length (scan s false old) = length old.
Proof. induction old as [|x old IH]; cbn; [reflexivity|]. destruct (keep s x); cbn; rewrite IH; reflexivity. Qed.

(** without renumbering every position holds its old entry if that is kept, and a blank otherwise *)
Lemma scan_stable s old i :
  scan s false old !! i = (fun x => if keep s x then x else None) <$> old !! i.
Proof.
  revert i; induction old as [|x old IH]; intros i; cbn; [reflexivity|].
  destruct i as [|i]; cbn.
  - destruct (keep s x); reflexivity.
  - destruct (keep s x); cbn; apply IH.
Qed.

(** with renumbering exactly the kept entries remain, in their old order, without blanks *)
Lemma scan_compact s old : scan s true old = filter (fun x => keep s x = true) old.
Proof.
  induction old as [|x old IH]; cbn [scan_old]; [reflexivity|].
  rewrite filter_cons. destruct (keep s x) eqn:E.
  - rewrite decide_True by reflexivity. rewrite IH. reflexivity.
  - rewrite decide_False by discriminate. exact IH.
Qed.

Lemma keep_some s x : keep s x = true -> exists u, x = Some u /\ wanted s u.
Proof.
  destruct x as [u|]; cbn; [|discriminate]. unfold get_task.
  destruct (st_tasks s !! u) as [t|] eqn:E; [|discriminate]. intros H. exists u. split; [reflexivity|].
  exists t. auto.
Qed.

Lemma scan_entries s renumber old x :
  x ∈ scan s renumber old -> x = None \/ (x ∈ old /\ keep s x = true).
Proof.
  induction old as [|y old IH]; cbn; [intros H; inversion H|].
  destruct (keep s y) eqn:E.
  - intros H. apply elem_of_cons in H. destruct H as [->|H].
    + right. split; [left|exact E].
    + destruct (IH H) as [?|[? ?]]; [left; assumption|right; split; [right|]; assumption].
  - destruct renumber.
    + intros H. destruct (IH H) as [?|[? ?]]; [left; assumption|right; split; [right|]; assumption].
    + intros H. apply elem_of_cons in H. destruct H as [->|H]; [left; reflexivity|].
      destruct (IH H) as [?|[? ?]]; [left; assumption|right; split; [right|]; assumption].
Qed.

Lemma scan_has_kept s renumber old x :
  x ∈ old -> keep s x = true -> x ∈ scan s renumber old.
Proof.
  induction old as [|y old IH]; intros Hin Hk; [inversion Hin|].
  apply elem_of_cons in Hin. cbn. destruct Hin as [->|Hin].
  - rewrite Hk. left.
  - destruct (keep s y); [right; auto|]. destruct renumber; [auto|right; auto].
Qed.

(** ** exactness: the new working set lists precisely the wanted tasks *)
Lemma newcomers_entries s seen all x :
  x ∈ newcomers in_ws s seen all ->
  exists u t, x = Some u /\ (u, t) ∈ all /\ in_ws t = true /\ Some u ∉ seen.
Proof.
  unfold newcomers. intros H. apply elem_of_list_omap in H. destruct H as ((u & t) & Hin & H).
  destruct (negb (bool_decide (Some u ∈ seen)) && in_ws t) eqn:E; [|discriminate]. inv H.
  apply andb_true_iff in E. destruct E as [E1 E2]. apply negb_true_iff, bool_decide_eq_false in E1.
  exists u, t. auto.
Qed.

Lemma strip_elem l x : x ∈ strip_trailing_none l -> x ∈ l.
Proof.
  induction l as [|y l IH]; cbn; [auto|].
  destruct (strip_trailing_none l) eqn:E.
  - destruct y; [|intros H; inversion H]. intros H. apply elem_of_cons in H. destruct H as [->|H]; [left|inversion H].
  - intros H. apply elem_of_cons in H. destruct H as [->|H]; [left|right; auto].
Qed.

Lemma strip_keeps_some l u : Some u ∈ l -> Some u ∈ strip_trailing_none l.
Proof.
  induction l as [|y l IH]; intros H; [inversion H|].
  apply elem_of_cons in H. cbn. destruct H as [<-|H].
  - destruct (strip_trailing_none l); left.
  - specialize (IH H). destruct (strip_trailing_none l) eqn:E; [inversion IH|]. right. exact IH.
Qed.

Theorem ws_exact all s renumber u :
  (forall v t, (v, t) ∈ all <-> st_tasks s !! v = Some t) ->
  Some u ∈ rebuild_spec_ws all s renumber <-> wanted s u.
Proof.
  intros Hall. unfold rebuild_spec_ws. cbn zeta. set (kept := scan s renumber (tail (st_ws s))).
  split.
  - intros H. apply elem_of_app in H. destruct H as [H|H].
    + cbn in H. apply elem_of_cons in H. destruct H as [H|H]; [discriminate|].
      apply strip_elem in H. apply scan_entries in H. destruct H as [H|[_ H]]; [discriminate|].
      apply keep_some in H. destruct H as (v & Hv & W). inv Hv. exact W.
    + apply newcomers_entries in H. destruct H as (v & t & Hv & Hin & Hw & _). inv Hv.
      exists t. split; [apply Hall; exact Hin|exact Hw].
  - intros (t & Ht & Hw). apply elem_of_app.
    destruct (decide (Some u ∈ kept)) as [Hk|Hk].
    + left. cbn. right. apply strip_keeps_some. exact Hk.
    + right. unfold newcomers. apply elem_of_list_omap. exists (u, t). split; [apply Hall; exact Ht|].
      rewrite Hw. rewrite bool_decide_eq_false_2 by exact Hk. reflexivity.
Qed.

(** position 0 stays empty *)
Lemma ws_position_zero all s renumber : rebuild_spec_ws all s renumber !! 0 = Some None.
Proof. reflexivity. Qed.

(** ** stability without renumbering *)
Lemma strip_lookup_some l i u : l !! i = Some (Some u) -> strip_trailing_none l !! i = Some (Some u).
Proof.
  revert i; induction l as [|y l IH]; intros i H; [discriminate|].
  destruct i as [|i]; cbn in *.
  - inv H. destruct (strip_trailing_none l); reflexivity.
  - specialize (IH i H). destruct (strip_trailing_none l) eqn:E; [discriminate|].
    destruct y; exact IH.
Qed.

Theorem ws_stable all s i u :
  st_ws s !! S i = Some (Some u) -> wanted s u ->
  rebuild_spec_ws all s false !! S i = Some (Some u).
Proof.
  intros Hi (t & Ht & Hw). unfold rebuild_spec_ws. cbn zeta.
  apply lookup_app_l_Some. cbn [normalize_ws lookup list_lookup].
  apply strip_lookup_some. rewrite scan_stable.
  assert (tail (st_ws s) !! i = Some (Some u)) as ->.
  { destruct (st_ws s) as [|x0 w]; [discriminate|]. exact Hi. }
  cbn. unfold get_task. rewrite Ht, Hw. reflexivity.
Qed.

(** newcomers are placed after every position of the retained part *)
Theorem ws_newcomers_after all s renumber i :
  (length (normalize_ws (None :: scan s renumber (tail (st_ws s)))) <= i)%nat ->
  rebuild_spec_ws all s renumber !! i =
  newcomers in_ws s (scan s renumber (tail (st_ws s))) all
    !! (i - length (normalize_ws (None :: scan s renumber (tail (st_ws s)))))%nat.
Proof. intros H. unfold rebuild_spec_ws. cbn zeta. apply lookup_app_r. exact H. Qed.

(** ** compactness with renumbering *)
Lemma strip_no_none l : (forall x, x ∈ l -> x <> None) -> strip_trailing_none l = l.
Proof.
  induction l as [|y l IH]; intros H; [reflexivity|]. cbn.
  rewrite IH by (intros x Hx; apply H; right; exact Hx).
  destruct l; [|reflexivity]. destruct y; [reflexivity|]. exfalso. apply (H None); [left|reflexivity].
Qed.

Theorem ws_compact all s :
  rebuild_spec_ws all s true =
  None :: filter (fun x => keep s x = true) (tail (st_ws s))
       ++ newcomers in_ws s (filter (fun x => keep s x = true) (tail (st_ws s))) all
  /\ (forall x, x ∈ tail (rebuild_spec_ws all s true) -> x <> None).
Proof.
  unfold rebuild_spec_ws. cbn zeta. rewrite scan_compact. cbn [normalize_ws].
  assert (forall x, x ∈ filter (fun x => keep s x = true) (tail (st_ws s)) -> x <> None) as Hf.
  { intros x Hx. apply elem_of_list_filter in Hx. destruct Hx as [Hx _]. destruct x; [discriminate|cbn in Hx; discriminate]. }
  rewrite (strip_no_none _ Hf). split; [reflexivity|].
  cbn [tail app]. intros x Hx. apply elem_of_app in Hx. destruct Hx as [Hx|Hx]; [auto|].
  apply newcomers_entries in Hx. destruct Hx as (u & t & -> & _). discriminate.
Qed.

End WithPredicate.
