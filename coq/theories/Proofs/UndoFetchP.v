(** What [get_undo_operations] offers is exactly what [commit_reversed_operations]
    accepts: the non-empty tail of the unsynchronised operations that starts at
    the last undo point; fetching and committing the reversal therefore always
    succeeds on a faithful log, and repeating it empties the unsynchronised list (C07). *)
From TC Require Import Model.TaskDb Proofs.ApplyP Proofs.UndoP.

Lemma from_last_suffix l : exists p, l = p ++ from_last_undo_point l.
Proof.
  induction l as [|o l IH]; [exists []; reflexivity|]. cbn [from_last_undo_point].
  destruct (existsb is_undo_point l).
  - destruct IH as [p Hp]. exists (o :: p). cbn. f_equal. exact Hp.
  - exists []. reflexivity.
Qed.

Lemma from_last_nonempty l : l <> [] -> from_last_undo_point l <> [].
Proof.
  induction l as [|o l IH]; [congruence|]. intros _. cbn [from_last_undo_point].
  destruct (existsb is_undo_point l) eqn:E; [|discriminate].
  apply IH. intros ->. discriminate.
Qed.

Lemma from_last_shape l :
  match from_last_undo_point l with [] => True | _ :: r => existsb is_undo_point r = false end.
Proof.
  induction l as [|o l IH]; [exact I|]. cbn [from_last_undo_point].
  destruct (existsb is_undo_point l) eqn:E; [exact IH|exact E].
Qed.

(** the offered list is a tail of the unsynchronised operations … *)
Theorem get_undo_is_tail s : exists p, unsynced s = p ++ get_undo_operations s.
Proof.
  unfold get_undo_operations. destruct (existsb is_undo_point (unsynced s)).
  - apply from_last_suffix.
  - exists []. reflexivity.
Qed.

(** … non-empty whenever anything is unsynchronised … *)
Theorem get_undo_nonempty s : unsynced s <> [] -> get_undo_operations s <> [].
Proof.
  unfold get_undo_operations. intros H. destruct (existsb is_undo_point (unsynced s)); [|exact H].
  apply from_last_nonempty. exact H.
Qed.

(** … and reaches back exactly to the last undo point: no undo point after its first element *)
Theorem get_undo_back_to_last_point s :
  match get_undo_operations s with [] => True | _ :: r => existsb is_undo_point r = false end.
Proof.
  unfold get_undo_operations. destruct (existsb is_undo_point (unsynced s)) eqn:E.
  - apply from_last_shape.
  - destruct (unsynced s) as [|o r]; [exact I|]. cbn [existsb] in E. apply orb_false_iff in E as [_ E]. exact E.
Qed.

(** Fetch, then commit the reversal: on a log whose unsynchronised part is
    faithful from the state [d] the replica had before the offered operations,
    the call succeeds, restores [d], removes exactly the offered operations and
    leaves strictly fewer unsynchronised operations -- so repeating it reaches
    the last sync after at most [length (unsynced s)] rounds. *)
Theorem fetch_then_undo s d pre p :
  unsynced s <> [] ->
  unsynced s = p ++ get_undo_operations s ->
  st_ops s = pre ++ map (pair false) (unsynced s) ->
  faithful_seq d (get_undo_operations s) ->
  st_tasks s = fold_left apply_local (get_undo_operations s) d ->
  exists s', commit_reversed_operations s (get_undo_operations s)
               = UndoDone (has_change (get_undo_operations s)) s'
    /\ st_tasks s' = d
    /\ st_ops s' = pre ++ map (pair false) p
    /\ st_base s' = st_base s /\ st_ws s' = st_ws s
    /\ (length p < length (unsynced s))%nat.
Proof.
  intros Hne Hp Hops Hf Ht.
  pose proof (get_undo_nonempty s Hne) as Hl.
  destruct (undo_spec s d pre p (get_undo_operations s) Hl) as (s' & H1 & H2 & H3 & H4 & H5); try assumption.
  - rewrite Hops, <- Hp. reflexivity.
  - exists s'. repeat split; try assumption. pose proof (f_equal length Hp) as HL. rewrite app_length in HL.
    destruct (get_undo_operations s); [congruence|]. cbn [length] in HL. lia.
Qed.
