(** The synthetic tags follow the mutators: after [set_status] the task carries
    exactly the status tag of the status written; [start] makes it ACTIVE and
    [stop] takes ACTIVE away (C19). *)
From TC Require Import Model.Task Model.TaskMut Proofs.TaskMutP Proofs.SynthP.
From Coq Require Import Strings.String.
Local Arguments s2l : simpl never.

Section SM.
Variable nowstr : list N.
Variable ts_min ts_max now : Z.
Notation synth := (synthetic_tags ts_min ts_max now).

Lemma get_status_after_set s st :
  get_status (ts_map (set_status nowstr s st)) = status_of (status_str st).
Proof. unfold get_status, k_status. rewrite set_status_status. reflexivity. Qed.

Theorem status_tag_follows s dm u :
  (s2l "PENDING" ∈ synth (ts_map (set_status nowstr s StPending)) dm u) /\
  (s2l "COMPLETED" ∈ synth (ts_map (set_status nowstr s StCompleted)) dm u) /\
  (s2l "DELETED" ∈ synth (ts_map (set_status nowstr s StDeleted)) dm u).
Proof.
  split; [|split].
  - apply (synth_pending ts_min ts_max now). rewrite get_status_after_set. vm_compute. reflexivity.
  - apply (synth_completed ts_min ts_max now). rewrite get_status_after_set. vm_compute. reflexivity.
  - apply (synth_deleted ts_min ts_max now). rewrite get_status_after_set. vm_compute. reflexivity.
Qed.

(** … and no other status tag *)
Theorem status_tag_exclusive s dm u :
  s2l "PENDING" ∉ synth (ts_map (set_status nowstr s StCompleted)) dm u /\
  s2l "PENDING" ∉ synth (ts_map (set_status nowstr s StDeleted)) dm u /\
  s2l "COMPLETED" ∉ synth (ts_map (set_status nowstr s StPending)) dm u /\
  s2l "COMPLETED" ∉ synth (ts_map (set_status nowstr s StDeleted)) dm u /\
  s2l "DELETED" ∉ synth (ts_map (set_status nowstr s StPending)) dm u /\
  s2l "DELETED" ∉ synth (ts_map (set_status nowstr s StCompleted)) dm u.
Proof.
  repeat split; intros H;
    first [apply (synth_pending ts_min ts_max now) in H
          |apply (synth_completed ts_min ts_max now) in H
          |apply (synth_deleted ts_min ts_max now) in H];
    rewrite get_status_after_set in H; vm_compute in H; discriminate.
Qed.

Theorem start_makes_active s s' dm u :
  run_mutator nowstr s MStart = Some s' -> s2l "ACTIVE" ∈ synth (ts_map s') dm u.
Proof.
  unfold run_mutator. intros [= <-]. apply (synth_active ts_min ts_max now).
  destruct (has s (s2l "start")) eqn:E.
  - unfold has in E. apply bool_decide_eq_true in E. exact E.
  - rewrite (set_value_reads_back nowstr s (s2l "start") (Some nowstr)). eauto.
Qed.

Theorem stop_clears_active s s' dm u :
  run_mutator nowstr s MStop = Some s' -> s2l "ACTIVE" ∉ synth (ts_map s') dm u.
Proof.
  unfold run_mutator. intros [= <-] H. apply (synth_active ts_min ts_max now) in H.
  rewrite (set_value_reads_back nowstr s (s2l "start") None) in H. destruct H as [x Hx]. discriminate.
Qed.
End SM.
