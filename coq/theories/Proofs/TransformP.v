(** TP1 for [transform]: the diamond closes on every state where both
    operations are valid, and validity is preserved. *)
From TC Require Import Model.Transform.

Definition applyo (s : db) (o : option sop) : db :=
  match o with Some x => apply s x | None => s end.
Definition valido (s : db) (o : option sop) : bool :=
  match o with Some x => validb s x | None => true end.

Lemma ov_eqb_eq a b : ov_eqb a b = true <-> a = b.
Proof.
  destruct a, b; simpl; split; try congruence; intros H.
  - apply N.eqb_eq in H. congruence.
  - inv H. apply N.eqb_refl.
Qed.

Lemma upd_task_comm tk p1 v1 p2 v2 :
  p1 <> p2 -> upd_task (upd_task tk p1 v1) p2 v2 = upd_task (upd_task tk p2 v2) p1 v1.
Proof.
  intros Hne. destruct v1, v2; simpl.
  - apply insert_commute; congruence.
  - apply delete_insert_ne; congruence.
  - symmetry. apply delete_insert_ne; congruence.
  - apply delete_commute.
Qed.

Lemma upd_task_shadow tk p v1 v2 :
  upd_task (upd_task tk p v1) p v2 = upd_task tk p v2.
Proof.
  destruct v1, v2; simpl.
  - apply insert_insert.
  - apply delete_insert_delete.
  - apply insert_delete_insert.
  - apply delete_idemp.
Qed.

Ltac tp_norm :=
  repeat match goal with
  | H : (_ =? _)%N = true |- _ => apply N.eqb_eq in H; subst
  | H : (_ =? _)%N = false |- _ => apply N.eqb_neq in H
  | H : (_ && _) = true |- _ => apply andb_true_iff in H; destruct H
  | H : (_ && _) = false |- _ => apply andb_false_iff in H
  end.

Ltac look :=
  repeat (rewrite ?lookup_insert, ?lookup_delete, ?lookup_insert_ne, ?lookup_delete_ne
            by congruence);
  repeat match goal with
  | H : ?s !! ?u = _ |- context [?s !! ?u] => rewrite H
  end.

Ltac mapc :=
  first [ reflexivity
        | apply insert_commute; congruence
        | apply delete_insert_ne; congruence
        | symmetry; apply delete_insert_ne; congruence
        | apply delete_commute ].

Lemma tp1 (s : db) (a b : sop) :
  validb s a = true -> validb s b = true ->
  let '(a', b') := transform a b in
  applyo (apply s a) b' = applyo (apply s b) a'
  /\ valido (apply s a) b' = true
  /\ valido (apply s b) a' = true.
Proof.
  intros Ha Hb.
  destruct a as [u1|u1|u1 p1 v1 t1], b as [u2|u2|u2 p2 v2 t2]; cbn [transform].
  - (* create / create *)
    destruct (N.eqb u1 u2) eqn:E; tp_norm; cbn in *.
    + auto.
    + destruct (s !! u1) eqn:E1; try discriminate. destruct (s !! u2) eqn:E2; try discriminate.
      look. rewrite ?E1, ?E2. split; [mapc|auto].
  - (* create / delete *)
    destruct (N.eqb u1 u2) eqn:E; tp_norm; cbn in *.
    + destruct (s !! u2); discriminate.
    + destruct (s !! u1) eqn:E1; try discriminate. destruct (s !! u2) eqn:E2; try discriminate.
      look. rewrite ?E1, ?E2. split; [mapc|auto].
  - (* create / update *)
    destruct (N.eqb u1 u2) eqn:E; tp_norm; cbn in *.
    + destruct (s !! u2); discriminate.
    + destruct (s !! u1) eqn:E1; try discriminate. destruct (s !! u2) eqn:E2; try discriminate.
      look. rewrite ?E1, ?E2. split; [mapc|auto].
  - (* delete / create *)
    destruct (N.eqb u1 u2) eqn:E; tp_norm; cbn in *.
    + destruct (s !! u2); discriminate.
    + destruct (s !! u1) eqn:E1; try discriminate. destruct (s !! u2) eqn:E2; try discriminate.
      look. rewrite ?E1, ?E2. split; [mapc|auto].
  - (* delete / delete *)
    destruct (N.eqb u1 u2) eqn:E; tp_norm; cbn in *.
    + auto.
    + destruct (s !! u1) eqn:E1; try discriminate. destruct (s !! u2) eqn:E2; try discriminate.
      look. rewrite ?E1, ?E2. split; [mapc|auto].
  - (* delete / update *)
    destruct (N.eqb u1 u2) eqn:E; tp_norm; cbn in *.
    + destruct (s !! u2) eqn:E2; try discriminate. look.
      split; [|auto]. rewrite delete_insert_delete. reflexivity.
    + destruct (s !! u1) eqn:E1; try discriminate. destruct (s !! u2) eqn:E2; try discriminate.
      look. rewrite ?E1, ?E2. split; [mapc|auto].
  - (* update / create *)
    destruct (N.eqb u1 u2) eqn:E; tp_norm; cbn in *.
    + destruct (s !! u2); discriminate.
    + destruct (s !! u1) eqn:E1; try discriminate. destruct (s !! u2) eqn:E2; try discriminate.
      look. rewrite ?E1, ?E2. split; [mapc|auto].
  - (* update / delete *)
    destruct (N.eqb u1 u2) eqn:E; tp_norm; cbn in *.
    + destruct (s !! u2) eqn:E2; try discriminate. look.
      split; [|auto]. rewrite delete_insert_delete. reflexivity.
    + destruct (s !! u1) eqn:E1; try discriminate. destruct (s !! u2) eqn:E2; try discriminate.
      look. rewrite ?E1, ?E2. split; [mapc|auto].
  - (* update / update *)
    cbn in Ha, Hb.
    destruct (s !! u1) as [tk1|] eqn:E1; try discriminate.
    destruct (s !! u2) as [tk2|] eqn:E2; try discriminate.
    destruct (N.eqb u1 u2 && N.eqb p1 p2) eqn:E.
    + tp_norm. assert (tk1 = tk2) by congruence. subst tk2.
      destruct (ov_eqb v1 v2 && Z.eqb t1 t2) eqn:Ev.
      * tp_norm. match goal with H : ov_eqb _ _ = true |- _ => apply ov_eqb_eq in H; subst end.
        cbn. rewrite E1. auto.
      * destruct (tv_ltb t1 v1 t2 v2); cbn; look; rewrite ?E1; look;
          rewrite ?insert_insert, ?upd_task_shadow; auto.
    + cbn. look. destruct (N.eq_dec u1 u2) as [->|Hu].
      * assert (tk1 = tk2) by congruence. subst tk2.
        assert (p1 <> p2).
        { intros ->. rewrite !N.eqb_refl in E. discriminate. }
        look. rewrite !insert_insert. rewrite upd_task_comm by congruence. auto.
      * look. rewrite ?E1, ?E2. split; [mapc|auto].
Qed.
