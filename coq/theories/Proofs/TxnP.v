(** Crash atomicity of the transaction envelope (C06). *)
From TC Require Import Model.Txn.

Section P.
Context {S C : Type}.
Variable step : S -> C -> S.
Notation trun' := (trun step).

Lemma calls_keep_persistent calls : forall t,
  persistent (trun' t (map TCall calls)) = persistent t
  /\ working (trun' t (map TCall calls)) = (fun w => fold_left step calls w) <$> working t.
Proof.
  induction calls as [|c calls IH]; intros t; cbn [map trun fold_left].
  - split; [reflexivity|]. destruct (working t); reflexivity.
  - destruct (IH (tstep step t (TCall c))) as [I1 I2]. unfold trun in *. rewrite I1, I2. cbn.
    split; [reflexivity|]. destruct (working t); reflexivity.
Qed.

(** nothing done in a transaction is visible before it commits *)
Theorem uncommitted_invisible t calls :
  persistent (trun' t (TBegin :: map TCall calls)) = persistent t.
Proof.
  cbn [trun fold_left]. fold (trun' (tstep step t TBegin) (map TCall calls)).
  rewrite (proj1 (calls_keep_persistent calls _)). reflexivity.
Qed.

(** abandoning after any number of calls leaves the complete before-state *)
Theorem abandon_leaves_before_state t calls k :
  persistent (trun' t (action (take k calls) TAbandon)) = persistent t.
Proof.
  unfold action, trun. rewrite app_comm_cons, fold_left_app. cbn [fold_left tstep persistent].
  apply (uncommitted_invisible t (take k calls)).
Qed.

(** a commit installs the complete after-state *)
Theorem commit_installs_after_state t calls :
  persistent (trun' t (action calls TCommit)) = fold_left step calls (persistent t)
  /\ working (trun' t (action calls TCommit)) = None.
Proof.
  unfold action, trun. rewrite app_comm_cons, fold_left_app. cbn [fold_left].
  fold (trun' (tstep step t TBegin) (map TCall calls)).
  destruct (calls_keep_persistent calls (tstep step t TBegin)) as [H1 H2].
  set (r := trun' _ _) in *. destruct r as [rp rw]. cbn in H2 |- *. subst rw. cbn. auto.
Qed.

(** so after an action interrupted anywhere, or completed, the store holds the
    before-state or the after-state, never a mixture *)
Theorem crash_before_or_after t calls k finish :
  finish = TAbandon \/ (finish = TCommit /\ k = length calls) ->
  let p := persistent (trun' t (action (take k calls) finish)) in
  p = persistent t \/ p = fold_left step calls (persistent t).
Proof.
  intros [->|[-> ->]]; cbn zeta.
  - left. apply abandon_leaves_before_state.
  - right. rewrite firstn_all. apply commit_installs_after_state.
Qed.
End P.
