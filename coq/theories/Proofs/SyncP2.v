(** Further facts about the sync machine: what is pushed is always the
    rebased list (C02), a replica cancels its own accepted version (C04), and
    the abstract server never drives a replica out of sync (C02). *)
From TC Require Import Model.Sync Proofs.TransformP Proofs.RebaseP Proofs.SyncP.

Local Arguments cstate : simpl never.
Local Arguments applyl : simpl never.

(** ** transform only keeps or drops *)
Lemma transform_keeps a b :
  ((transform a b).1 = None \/ (transform a b).1 = Some a)
  /\ ((transform a b).2 = None \/ (transform a b).2 = Some b).
Proof.
  destruct a as [u1|u1|u1 p1 v1 t1], b as [u2|u2|u2 p2 v2 t2]; cbn [transform];
    repeat case_if; cbn; auto.
Qed.

Lemma rebase_one_sublist l : forall so, sublist (rebase_one transform so l).2 l.
Proof.
  induction l as [|lo l IH]; intros so; cbn [rebase_one].
  - cbn. constructor.
  - destruct so as [o|]; [|cbn; reflexivity].
    pose proof (transform_keeps o lo) as [_ K].
    destruct (transform o lo) as [so' lo'] eqn:ET. cbn [snd] in K.
    specialize (IH so'). destruct (rebase_one transform so' l) as [r l''] eqn:ER.
    cbn [snd] in *.
    destruct K as [->| ->].
    + apply sublist_cons. exact IH.
    + apply sublist_skip. exact IH.
Qed.

Lemma rebase_sublist v : forall l, sublist (rebase transform v l).2 l.
Proof.
  induction v as [|so v IH]; intros l; cbn [rebase].
  - cbn. reflexivity.
  - pose proof (rebase_one_sublist l (Some so)) as H1.
    destruct (rebase_one transform (Some so) l) as [r l1] eqn:E1. cbn [snd] in H1.
    specialize (IH l1). destruct (rebase transform v l1) as [vr l2] eqn:E2.
    cbn [snd] in *. etransitivity; eassumption.
Qed.

Section WithBatching.
Variable sz : sop -> N.
Variable limit : N.

(** every request of a sync leaves a sublist of the operations still to send:
    an operation dropped by a rebase (it lost a conflict, or was absorbed) is
    never sent by a later retry of the same sync *)
Lemma sync_resume_local_sublist x p :
  sublist (x_local (sync_resume sz limit x p)) (x_local x).
Proof.
  unfold sync_resume.
  destruct (x_pc x); destruct p as [[[v d]|]|v ops|  |v g|v g| ]; cbn; try reflexivity.
  - pose proof (rebase_sublist ops (x_local x)) as H.
    destruct (rebase transform ops (x_local x)); exact H.
  - destruct (x_local x) eqn:E; cbn; rewrite ?E; reflexivity.
  - apply sublist_drop.
  - destruct (x_req x) as [q|]; [destruct (q =? v)%nat|]; reflexivity.
Qed.

(** what is pushed is a prefix of the current, rebased list *)
Lemma push_is_prefix_of_rebased x b ops :
  sync_next sz limit x = inl (RAddVersion b ops) ->
  b = x_base x /\ ops `prefix_of` x_local x.
Proof.
  unfold sync_next. destruct (x_pc x); intros H; inv H.
  split; [reflexivity|]. exists (drop (length (take_batch sz limit (x_local x))) (x_local x)).
  symmetry. apply take_batch_prefix.
Qed.
End WithBatching.

(** ** a replica that pulls its own accepted version cancels it *)
Lemma transform_self a : transform a a = (None, None).
Proof.
  destruct a as [u|u|u p v t]; cbn [transform]; rewrite ?N.eqb_refl; cbn; auto.
  assert (ov_eqb v v = true) as -> by (apply ov_eqb_eq; reflexivity).
  rewrite Z.eqb_refl. reflexivity.
Qed.

Lemma rebase_one_none l : rebase_one transform None l = (None, l).
Proof. destruct l; reflexivity. Qed.

Lemma self_cancel x y : rebase transform x (x ++ y) = ([], y).
Proof.
  induction x as [|a x IH]; cbn [rebase app].
  - reflexivity.
  - cbn [rebase_one]. rewrite transform_self, rebase_one_none, IH. reflexivity.
Qed.

(** ** the abstract server never causes an out-of-sync error *)
Section NoOutOfSync.
Variable sz : sop -> N.
Variable limit : N.
Notation sync_next' := (sync_next sz limit).
Notation sync_resume' := (sync_resume sz limit).
Notation sys_step' := (sys_step sz limit).
Notation run' := (run sz limit).

Definition req_inv (c : list (list sop)) (x : sst) : Prop :=
  match x_req x with
  | Some q => q <= length c /\ (x_pc x = AtPush -> q <= x_base x)
  | None => True
  end.

Definition live_pc (x : sst) : Prop :=
  match x_pc x with Done _ => False | _ => True end.

Definition node_inv2 (c : list (list sop)) (n : node) : Prop :=
  match n_sync n with Some x => req_inv c x /\ live_pc x | None => True end.

Definition Inv2 (s : sys) : Prop :=
  Forall (node_inv2 (chain (srv s))) (nodes s)
  /\ Forall (fun ir => ir.2 = SyncOk) (results s).

Lemma req_inv_snoc c ops x : req_inv c x -> req_inv (c ++ [ops]) x.
Proof.
  unfold req_inv. destruct (x_req x); [|auto]. rewrite app_length. cbn. intros [H1 H2].
  split; [lia|exact H2].
Qed.

Lemma node_inv2_grows c c' n : chain_grows c c' -> node_inv2 c n -> node_inv2 c' n.
Proof.
  intros [->|[ops ->]] H; [exact H|]. unfold node_inv2 in *.
  destruct (n_sync n); [|exact I]. destruct H. split; [apply req_inv_snoc|]; assumption.
Qed.

(** one request: the new state satisfies [req_inv] and is either live or
    finished successfully *)
Lemma sync_step_inv2 sv x g q :
  sync_next' x = inl q -> sst_inv (chain sv) x -> req_inv (chain sv) x ->
  req_inv (chain (srv_step sv g q).2) (sync_resume' x (srv_step sv g q).1)
  /\ (live_pc (sync_resume' x (srv_step sv g q).1)
      \/ x_pc (sync_resume' x (srv_step sv g q).1) = Done SyncOk).
Proof.
  intros Hn (B1 & B2 & B3 & B4) HR.
  unfold sync_next in Hn. destruct (x_pc x) eqn:Epc; inv Hn; cbn [srv_step].
  - (* snapshot *)
    cbn [fst snd]. unfold sync_resume. rewrite Epc.
    destruct (snap sv) as [[v d]|]; unfold req_inv, live_pc, set_pc in *; cbn;
      (split; [|left; exact I]); destruct (x_req x); auto;
      destruct HR as [H1 _]; (split; [exact H1|discriminate]).
  - (* get child *)
    destruct (chain sv !! x_base x) as [ops|] eqn:Ek; cbn [fst snd];
      unfold sync_resume; rewrite Epc.
    + destruct (rebase transform ops (x_local x)) as [v' l'].
      unfold req_inv, live_pc in *; cbn. split; [|left; exact I].
      destruct (x_req x); auto. destruct HR as [H1 _]. split; [exact H1|discriminate].
    + apply lookup_ge_None in Ek.
      destruct (x_local x) eqn:El; unfold req_inv, live_pc, set_pc in *; cbn.
      * split; [|right; reflexivity]. destruct (x_req x); auto.
        destruct HR as [H1 _]. split; [exact H1|discriminate].
      * split; [|left; exact I]. destruct (x_req x); auto.
        destruct HR as [H1 _]. split; [exact H1|]. intros _. lia.
  - (* add version *)
    set (n := length (chain sv)).
    destruct ((n =? 0)%nat || (x_base x =? n)%nat) eqn:Eacc; cbn [fst snd chain];
      unfold sync_resume; rewrite Epc.
    + unfold req_inv, live_pc in *; cbn [x_req x_pc x_base]. rewrite app_length. cbn [length].
      split.
      * destruct (x_req x); auto. destruct HR as [H1 _]. fold n in H1. split; [lia|].
        destruct (drop _ _); [destruct (urg_geb _ _)|]; discriminate.
      * left. destruct (drop _ _); [destruct (urg_geb _ _)|]; exact I.
    + apply orb_false_iff in Eacc. destruct Eacc as [_ E2]. apply Nat.eqb_neq in E2.
      unfold req_inv, live_pc in *. fold n in B1.
      destruct (x_req x) as [q|] eqn:Eq.
      * destruct HR as [H1 H2]. specialize (H2 Epc).
        assert ((q =? n)%nat = false) as -> by (apply Nat.eqb_neq; lia).
        cbn. split; [|left; exact I]. split; [unfold n; lia|discriminate].
      * cbn. split; [|left; exact I]. split; [unfold n; lia|discriminate].
  - (* add snapshot *)
    assert (chain (PUnit, if match snap sv with Some (v0, _) => (x_base x <=? v0)%nat | None => false end
         then sv else {| chain := chain sv; snap := Some (x_base x, x_tasks x) |}).2 = chain sv) as ->.
    { destruct (match snap sv with Some _ => _ | None => _ end); reflexivity. }
    cbn [fst]. unfold sync_resume. rewrite Epc.
    unfold req_inv, live_pc, set_pc in *; cbn. split; [|left; exact I].
    destruct (x_req x); auto. destruct HR as [H1 _]. split; [exact H1|discriminate].
Qed.

Lemma start_sync_inv2 c r avoid wst : req_inv c (start_sync r avoid wst) /\ live_pc (start_sync r avoid wst).
Proof.
  unfold req_inv, live_pc, start_sync; cbn. split; [exact I|].
  destruct (rep_is_empty r wst); exact I.
Qed.

Lemma sys_step_inv2 s e : Inv s -> Inv2 s -> Inv2 (sys_step' s e).
Proof.
  intros [Hsrv Hn] [H2 Hres].
  destruct e as [i ops|i avoid wst|i g|i|i g|fops]; cbn [sys_step].
  - destruct (nodes s !! i) as [[r [x|]]|] eqn:Ei; try (split; assumption).
    split; [|exact Hres]. cbn [srv set_node nodes].
    apply Forall_insert; [exact H2|]. exact I.
  - destruct (nodes s !! i) as [[r [x|]]|] eqn:Ei; try (split; assumption).
    split; [|exact Hres]. cbn [srv set_node nodes].
    apply Forall_insert; [exact H2|]. apply start_sync_inv2.
  - destruct (nodes s !! i) as [[r [x|]]|] eqn:Ei; try (split; assumption).
    pose proof (Forall_lookup_1 _ _ _ _ Hn Ei) as [HR HX]. cbn in HR, HX.
    pose proof (Forall_lookup_1 _ _ _ _ H2 Ei) as [HQ HL]. 
    destruct (sync_next' x) as [q|res] eqn:En; [|split; assumption].
    pose proof (sync_step_inv sz limit (srv s) x g q En Hsrv HX) as (S1 & S2 & S3).
    pose proof (sync_step_inv2 (srv s) x g q En HX HQ) as (T1 & T2).
    destruct (srv_step (srv s) g q) as [p srv'] eqn:Es. cbn [fst snd] in *.
    assert (Forall (node_inv2 (chain srv')) (nodes s)) as H2'.
    { eapply Forall_impl; [exact H2|]. intros n. apply node_inv2_grows. exact S3. }
    destruct (x_pc (sync_resume' x p)) as [ | | | |res] eqn:Epc.
    1-4: split; [|exact Hres]; cbn [srv nodes]; apply Forall_insert; [exact H2'|];
         split; [exact T1|]; unfold live_pc; rewrite Epc; exact I.
    destruct T2 as [T2|T2]; [unfold live_pc in T2; rewrite Epc in T2; destruct T2|].
    inv T2. split; cbn [srv nodes results].
    + apply Forall_insert; [exact H2'|]. exact I.
    + constructor; [reflexivity|exact Hres].
  - destruct (nodes s !! i) as [[r [x|]]|] eqn:Ei; try (split; assumption).
    split; [|exact Hres]. cbn [srv set_node nodes].
    apply Forall_insert; [exact H2|]. exact I.
  - destruct (nodes s !! i) as [[r [x|]]|] eqn:Ei; try (split; assumption).
    pose proof (Forall_lookup_1 _ _ _ _ Hn Ei) as [HR HX]. cbn in HR, HX.
    destruct (sync_next' x) as [q|res] eqn:En; [|split; assumption].
    pose proof (sync_step_inv sz limit (srv s) x g q En Hsrv HX) as (S1 & S2 & S3).
    destruct (srv_step (srv s) g q) as [p srv'] eqn:Es. cbn [fst snd] in *.
    split; [|exact Hres]. cbn [srv nodes].
    apply Forall_insert; [|exact I].
    eapply Forall_impl; [exact H2|]. intros n. apply node_inv2_grows. exact S3.
  - split; [|exact Hres]. cbn [srv nodes chain].
    eapply Forall_impl; [exact H2|]. intros n. apply node_inv2_grows. right. eexists. reflexivity.
Qed.

Lemma Inv2_init n : Inv2 (sys0 n).
Proof. split; cbn; [apply Forall_replicate; exact I|constructor]. Qed.

Lemma run_inv2 h : forall s, Inv s -> Inv2 s -> wf_history sz limit s h = true ->
  Inv2 (run' s h).
Proof.
  induction h as [|e h IH]; intros s HI H2 Hwf; cbn [run fold_left]; [exact H2|].
  cbn [wf_history] in Hwf. apply andb_true_iff in Hwf. destruct Hwf as [He Hh].
  apply IH; [|apply sys_step_inv2; assumption|exact Hh].
  apply sys_step_inv; [exact HI|].
  destruct e; try exact I; [|exact He]. destruct (nodes s !! i) as [[r [x|]]|]; auto.
Qed.

Theorem no_out_of_sync n h i r :
  wf_history sz limit (sys0 n) h = true ->
  In (i, r) (results (run' (sys0 n) h)) -> r = SyncOk.
Proof.
  intros Hwf Hin.
  pose proof (run_inv2 h (sys0 n) (Inv_init n) (Inv2_init n) Hwf) as [_ HR].
  rewrite Forall_forall in HR. apply elem_of_list_In in Hin. exact (HR _ Hin).
Qed.

End NoOutOfSync.

(** ** an interrupted sync leaves the stored replica untouched *)
Lemma fault_keeps_replica sz limit s i g nd e :
  e = EAbandon i \/ e = ELost i g ->
  nodes s !! i = Some nd ->
  exists nd', nodes (sys_step sz limit s e) !! i = Some nd' /\ n_rep nd' = n_rep nd.
Proof.
  intros He Hi. pose proof (lookup_lt_Some _ _ _ Hi) as Hlt.
  destruct nd as [r [x|]]; destruct He as [-> | ->]; cbn [sys_step]; rewrite Hi.
  - eexists. cbn [set_node nodes]. rewrite list_lookup_insert by exact Hlt. split; reflexivity.
  - destruct (sync_next sz limit x) as [q|res].
    + destruct (srv_step (srv s) g q) as [p srv']. eexists. cbn [nodes].
      rewrite list_lookup_insert by exact Hlt. split; reflexivity.
    + eexists. split; [exact Hi|reflexivity].
  - eexists. split; [exact Hi|reflexivity].
  - eexists. split; [exact Hi|reflexivity].
Qed.

(** a step that does not finish a sync successfully leaves it untouched too *)
Lemma unfinished_step_keeps_replica sz limit s i g nd :
  nodes s !! i = Some nd ->
  results (sys_step sz limit s (EStep i g)) = results s ->
  exists nd', nodes (sys_step sz limit s (EStep i g)) !! i = Some nd' /\ n_rep nd' = n_rep nd.
Proof.
  intros Hi Hres. pose proof (lookup_lt_Some _ _ _ Hi) as Hlt.
  destruct nd as [r [x|]]; cbn [sys_step] in *; rewrite Hi in *.
  - destruct (sync_next sz limit x) as [q|res]; [|eexists; split; [exact Hi|reflexivity]].
    destruct (srv_step (srv s) g q) as [p srv'].
    destruct (x_pc (sync_resume sz limit x p)) as [ | | | |[ | | ]];
      cbn [nodes results] in *;
      try (eexists; rewrite list_lookup_insert by exact Hlt; split; reflexivity).
    all: exfalso; apply (f_equal length) in Hres; cbn in Hres; lia.
  - eexists. split; [exact Hi|reflexivity].
Qed.
