(** One version chain under concurrent clients of the object-store server (C09):
    the inductive invariant over ALL schedules.

    The system: the object store, any number of client machines (add-version,
    get-child-version, add-snapshot, get-snapshot; no cleanup, which is C10),
    and ghosts: the successive values of [latest] ([c_hist], oldest first), the
    next fresh version id, what each add-version call submitted ([c_sub]) and
    every result a call returned ([c_results]).  Events: a client starts a call
    (add-version takes the next fresh id, as a random uuid would be; its parent
    is the nil version 0 or a version that has been [latest] -- clients only
    name versions a server gave them), performs its next request, is dropped at
    any point (error, crash), or has its request performed and is then dropped
    (lost reply). *)
From TC Require Import Model.Cloud.

Record csys := {
  c_store : ostore;
  c_clients : gmap nat cpc;
  c_hist : list N;
  c_next : N;
  c_sub : gmap N (N * N);                (* id -> (parent, payload) submitted *)
  c_results : list (cpc * cres)          (* (state of the call before its last request, result) *)
}.

Inductive cev :=
| VStartAdd (i : nat) (p pl : N)
| VStartGet (i : nat) (p : N)
| VStartAddSnap (i : nat) (v pl : N)
| VStartGetSnap (i : nat)
| VStep (i : nat) (now : N)
| VDrop (i : nat)
| VFailAfter (i : nat) (now : N).

Section Chain.
Variable rank : N -> N.
Variable pagesz : nat.
Variable threshold : N.

Definition hist_after (st st' : ostore) (h : list N) : list N :=
  if bool_decide (o_latest st' = o_latest st) then h
  else match o_latest st' with Some c => h ++ [c] | None => h end.

Definition with_clients (s : csys) (m : gmap nat cpc) : csys :=
  {| c_store := c_store s; c_clients := m; c_hist := c_hist s; c_next := c_next s;
     c_sub := c_sub s; c_results := c_results s |}.

Definition cstep (s : csys) (e : cev) : csys :=
  let start i c :=
    match c_clients s !! i with
    | None => with_clients s (<[i := c]> (c_clients s))
    | Some _ => s
    end in
  match e with
  | VStartAdd i p pl =>
      match c_clients s !! i with
      | None =>
          if bool_decide (p = 0%N \/ p ∈ c_hist s) then
            {| c_store := c_store s; c_clients := <[i := A0 p (c_next s) pl]> (c_clients s);
               c_hist := c_hist s; c_next := (c_next s + 1)%N;
               c_sub := <[c_next s := (p, pl)]> (c_sub s); c_results := c_results s |}
          else s
      | Some _ => s
      end
  | VStartGet i p => start i (G0 p [] None)
  | VStartAddSnap i v pl => start i (S0 v pl)
  | VStartGetSnap i => start i T0
  | VStep i now =>
      match c_clients s !! i with
      | Some c =>
          match cl_next c with
          | inl q =>
              let '(r, st') := ostore_step rank pagesz now (c_store s) q in
              let c' := cl_resume rank threshold c r in
              {| c_store := st';
                 c_clients := match c' with CDone _ => delete i (c_clients s) | _ => <[i := c']> (c_clients s) end;
                 c_hist := hist_after (c_store s) st' (c_hist s); c_next := c_next s; c_sub := c_sub s;
                 c_results := match c' with CDone r => (c, r) :: c_results s | _ => c_results s end |}
          | inr _ => s
          end
      | None => s
      end
  | VDrop i => with_clients s (delete i (c_clients s))
  | VFailAfter i now =>
      match c_clients s !! i with
      | Some c =>
          match cl_next c with
          | inl q =>
              let '(_, st') := ostore_step rank pagesz now (c_store s) q in
              {| c_store := st'; c_clients := delete i (c_clients s);
                 c_hist := hist_after (c_store s) st' (c_hist s); c_next := c_next s; c_sub := c_sub s;
                 c_results := c_results s |}
          | inr _ => s
          end
      | None => s
      end
  end.

Definition csys0 : csys :=
  {| c_store := ostore0; c_clients := ∅; c_hist := []; c_next := 1%N; c_sub := ∅; c_results := [] |}.

(** the id an add-version machine still has to commit or withdraw *)
Definition owned (c : cpc) : option N :=
  match c with A0 _ c _ | A1 _ c _ _ | A2 _ c _ _ | A3 _ c => Some c | _ => None end.

(** what the invariant talks about: everything but the snapshots and the clients *)
Record cview := {
  v_latest : option N; v_vers : gmap (N * N) (N * N); v_hist : list N; v_next : N;
  v_sub : gmap N (N * N) }.

Definition view (s : csys) : cview :=
  {| v_latest := o_latest (c_store s); v_vers := o_vers (c_store s); v_hist := c_hist s;
     v_next := c_next s; v_sub := c_sub s |}.

Definition fresh_id (v : cview) (p c pl : N) : Prop :=
  (0 < c)%N /\ (c < v_next v)%N /\ c ∉ v_hist v /\ v_sub v !! c = Some (p, pl)
  /\ (p = 0%N \/ p ∈ v_hist v).

Definition client_ok (v : cview) (c : cpc) : Prop :=
  match c with
  | A0 p c pl => fresh_id v p c pl /\ (forall p', v_vers v !! (p', c) = None)
  | A1 p c pl l => fresh_id v p c pl /\ (forall p', v_vers v !! (p', c) = None)
                   /\ (forall l0, l = Some l0 -> l0 = p)
  | A2 p c pl l => fresh_id v p c pl
                   /\ (forall p', is_Some (v_vers v !! (p', c)) -> p' = p)
                   /\ is_Some (v_vers v !! (p, c))
                   /\ (forall l0, l = Some l0 -> l0 = p)
  | A3 p c => (c < v_next v)%N /\ c ∉ v_hist v /\ (forall p', is_Some (v_vers v !! (p', c)) -> p' = p)
  | A4 => True
  | A5 c => c ∈ v_hist v
  | G0 _ acc _ => Forall (fun c => (0 < c)%N) acc
  | G1 _ ch => Forall (fun c => (0 < c)%N) ch
  | G2 _ todo cur ne _ best =>
      Forall (fun c => (0 < c)%N) todo /\ (0 < cur)%N /\ (ne = true -> cur ∈ v_hist v)
      /\ (forall b, best = Some b -> b ∈ v_hist v)
  | G3 _ c => c ∈ v_hist v
  | S0 _ _ | T0 | T1 _ => True
  | _ => False                       (* no cleanup machine, no finished call *)
  end.

Definition result_ok (v : cview) (x : cpc * cres) : Prop :=
  match x.2 with
  | CAddOk c _ => c ∈ v_hist v
  | CVersion c pl => exists p, x.1 = G3 p c /\ c ∈ v_hist v /\ v_sub v !! c = Some (p, pl)
  | CExpected l => l = 0%N \/ l ∈ v_hist v
  | _ => True
  end.

Definition Core (v : cview) : Prop :=
  (* the ghost history tracks latest *)
  v_latest v = last (v_hist v)
  /\ NoDup (v_hist v)
  /\ (0 < v_next v)%N
  /\ (forall c, c ∈ v_hist v -> (0 < c)%N /\ (c < v_next v)%N)
  (* every version on the chain has its object; a non-first one is the child of its predecessor *)
  /\ (forall k c, v_hist v !! k = Some c ->
        exists p, is_Some (v_vers v !! (p, c)) /\ (forall k', k = S k' -> v_hist v !! k' = Some p)
                  /\ (k = 0%nat -> p = 0%N))
  (* an id names at most one object *)
  /\ (forall p p' c, is_Some (v_vers v !! (p, c)) -> is_Some (v_vers v !! (p', c)) -> p = p')
  (* objects carry ids already handed out, hang below the nil version or a version that has
     been latest, and hold what was submitted under their id *)
  /\ (forall p c x, v_vers v !! (p, c) = Some x ->
        (0 < c)%N /\ (c < v_next v)%N /\ (p = 0%N \/ p ∈ v_hist v) /\ v_sub v !! c = Some (p, x.1))
  /\ (forall c x, v_sub v !! c = Some x -> (c < v_next v)%N).

Definition CInv (s : csys) : Prop :=
  Core (view s)
  /\ (forall i c, c_clients s !! i = Some c -> client_ok (view s) c)
  /\ (forall i j c c' x, i <> j -> c_clients s !! i = Some c -> c_clients s !! j = Some c' ->
        owned c = Some x -> owned c' = Some x -> False)
  /\ Forall (result_ok (view s)) (c_results s).

(** ** listings only name stored objects *)
Lemma ins_ver_elem x y l : x ∈ ins_ver rank y l <-> x = y \/ x ∈ l.
Proof.
  induction l as [|z l IH]; cbn.
  - rewrite elem_of_list_singleton. set_solver.
  - destruct (ver_lt rank y.1 z.1).
    + rewrite !elem_of_cons. tauto.
    + rewrite !elem_of_cons, IH. tauto.
Qed.

Lemma sorted_vers_elem (m : gmap (N * N) (N * N)) x :
  x ∈ sorted_vers rank m -> exists pl, m !! x.1 = Some (pl, x.2).
Proof.
  unfold sorted_vers. generalize (map_to_list m) (fun k v => proj1 (elem_of_map_to_list m k v)).
  intros l Hl. induction l as [|[k [pl t]] l IH]; cbn.
  - intros H. inversion H.
  - rewrite ins_ver_elem. intros [->|H].
    + exists pl. apply Hl. left.
    + apply IH; [|exact H]. intros k' v' Hin. apply Hl. right. exact Hin.
Qed.

Lemma page_elem now st parent after l more x :
  (ostore_step rank pagesz now st (QListVer parent after)).1 = PVerPage l more ->
  x ∈ l ->
  (exists pl, o_vers st !! x.1 = Some (pl, x.2))
  /\ (forall p, parent = Some p -> x.1.1 = p).
Proof.
  cbn. intros H Hx. injection H as <- _.
  apply elem_of_take in Hx as (k & Hk & _). apply elem_of_list_lookup_2 in Hk.
  assert (x ∈ filter (fun x : N * N * N => match parent with Some p => N.eqb x.1.1 p | None => true end = true)
                     (sorted_vers rank (o_vers st))) as Hf.
  { destruct after; [apply elem_of_list_filter in Hk as [_ Hk]|]; exact Hk. }
  apply elem_of_list_filter in Hf as [Hp Hs]. split.
  - apply sorted_vers_elem. exact Hs.
  - intros p ->. apply N.eqb_eq. exact Hp.
Qed.
End Chain.

(** ** the four ways a step changes the view *)
Definition put_view (v : cview) (p c pl now : N) : cview :=
  {| v_latest := v_latest v; v_vers := <[(p, c) := (pl, now)]> (v_vers v); v_hist := v_hist v;
     v_next := v_next v; v_sub := v_sub v |}.
Definition cas_view (v : cview) (c : N) : cview :=
  {| v_latest := Some c; v_vers := v_vers v; v_hist := v_hist v ++ [c]; v_next := v_next v; v_sub := v_sub v |}.
Definition del_view (v : cview) (p c : N) : cview :=
  {| v_latest := v_latest v; v_vers := delete (p, c) (v_vers v); v_hist := v_hist v;
     v_next := v_next v; v_sub := v_sub v |}.
Definition start_view (v : cview) (p pl : N) : cview :=
  {| v_latest := v_latest v; v_vers := v_vers v; v_hist := v_hist v; v_next := (v_next v + 1)%N;
     v_sub := <[v_next v := (p, pl)]> (v_sub v) |}.

(** [v'] extends [v] touching only the id [x]: other ids keep their objects,
    the history only grows, by [x] at most *)
Definition touches (v v' : cview) (x : N) : Prop :=
  (forall p c, c <> x -> v_vers v' !! (p, c) = v_vers v !! (p, c))
  /\ (forall c, c ∈ v_hist v' -> c ∈ v_hist v \/ c = x)
  /\ (forall c, c ∈ v_hist v -> c ∈ v_hist v')
  /\ v_next v' = v_next v /\ v_sub v' = v_sub v.

Lemma touches_put v p c pl now : touches v (put_view v p c pl now) c.
Proof.
  repeat split; cbn; auto.
  intros p' c' Hne. apply lookup_insert_ne. intros [= _ ->]. apply Hne. reflexivity.
Qed.
Lemma touches_cas v c : touches v (cas_view v c) c.
Proof.
  repeat split; cbn; auto.
  - intros c' Hc. apply elem_of_app in Hc as [Hc|Hc]; [left; exact Hc|]. right.
    apply elem_of_list_singleton in Hc. exact Hc.
  - intros c' Hc. apply elem_of_app. left. exact Hc.
Qed.
Lemma touches_del v p c : touches v (del_view v p c) c.
Proof.
  repeat split; cbn; auto.
  intros p' c' Hne. apply lookup_delete_ne. intros [= _ ->]. apply Hne. reflexivity.
Qed.

Lemma fresh_id_other v v' x p c pl : touches v v' x -> c <> x -> fresh_id v p c pl -> fresh_id v' p c pl.
Proof.
  intros (T1 & T2 & T3 & T4 & T5) Hne (F1 & F2 & F3 & F4 & F5).
  unfold fresh_id. rewrite T4, T5. repeat split; auto.
  - intros Hin. apply T2 in Hin as [Hin| ->]; [exact (F3 Hin)|exact (Hne eq_refl)].
  - destruct F5 as [F5|F5]; [left; exact F5|right; apply T3; exact F5].
Qed.

Lemma client_ok_other v v' x c : touches v v' x -> owned c <> Some x -> client_ok v c -> client_ok v' c.
Proof.
  intros T Hown. pose proof T as (T1 & T2 & T3 & T4 & T5).
  destruct c; cbn in *; try exact (fun H => H).
  - (* A0 *) intros [F Hn]. assert (c <> x) as Hne by congruence.
    split; [eapply fresh_id_other; eauto|]. intros p'. rewrite T1 by exact Hne. apply Hn.
  - intros (F & Hn & Hl). assert (c <> x) as Hne by congruence.
    split; [eapply fresh_id_other; eauto|]. split; [|exact Hl]. intros p'. rewrite T1 by exact Hne. apply Hn.
  - intros (F & Hu & He & Hl). assert (c <> x) as Hne by congruence.
    split; [eapply fresh_id_other; eauto|]. rewrite !T1 by exact Hne.
    split; [|split; [exact He|exact Hl]]. intros p'. rewrite T1 by exact Hne. apply Hu.
  - intros (F1 & F2 & Hu). assert (c <> x) as Hne by congruence. rewrite T4.
    split; [exact F1|]. split.
    + intros Hin. apply T2 in Hin as [Hin| ->]; [exact (F2 Hin)|exact (Hne eq_refl)].
    + intros p'. rewrite T1 by exact Hne. apply Hu.
  - intros H. apply T3. exact H.
  - intros (H1 & H2 & H3 & H4). split; [exact H1|]. split; [exact H2|]. split.
    + intros Hne. apply T3. auto.
    + intros b Hb. apply T3. eauto.
  - intros H. apply T3. exact H.
Qed.

Lemma result_ok_mono v v' x r : touches v v' x -> result_ok v r -> result_ok v' r.
Proof.
  intros (T1 & T2 & T3 & T4 & T5). unfold result_ok. destruct r.2; auto.
  - intros [H|H]; [left; exact H|right; apply T3; exact H].
  - intros (p & H1 & H2 & H3). exists p. rewrite T5. auto.
Qed.

(** *** put: an add-version machine at [A1] uploads its object *)
Lemma Core_put v p c pl l now :
  Core v -> client_ok v (A1 p c pl l) -> Core (put_view v p c pl now).
Proof.
  intros (I1 & I2 & I3 & I4 & I5 & I6 & I7 & I8) ((F1 & F2 & F3 & F4 & F5) & Hn & Hl).
  unfold Core, put_view; cbn. repeat split; auto.
  - apply I4. assumption.
  - apply I4. assumption.
  - intros k c0 Hk. destruct (I5 k c0 Hk) as (p0 & Hs & Hp). exists p0. split; [|exact Hp].
    rewrite lookup_insert_ne; [exact Hs|]. intros [= _ ->]. apply F3. eapply elem_of_list_lookup_2. exact Hk.
  - intros p1 p2 c1 H1 H2. destruct (decide (c1 = c)) as [->|Hne].
    + assert (forall q, is_Some (<[(p, c) := (pl, now)]> (v_vers v) !! (q, c)) -> q = p) as Hq.
      { intros q Hq. destruct (decide (q = p)) as [|Hqp]; [assumption|].
        rewrite lookup_insert_ne in Hq by congruence. rewrite Hn in Hq. destruct Hq as [? Hq]. discriminate. }
      rewrite (Hq _ H1), (Hq _ H2). reflexivity.
    + rewrite lookup_insert_ne in H1 by congruence. rewrite lookup_insert_ne in H2 by congruence. eauto.
  - destruct (decide ((p0, c0) = (p, c))) as [[= -> ->]|Hne].
    + assumption.
    + rewrite lookup_insert_ne in H by congruence. apply (I7 _ _ _ H).
  - destruct (decide ((p0, c0) = (p, c))) as [[= -> ->]|Hne].
    + assumption.
    + rewrite lookup_insert_ne in H by congruence. apply (I7 _ _ _ H).
  - destruct (decide ((p0, c0) = (p, c))) as [[= -> ->]|Hne].
    + assumption.
    + rewrite lookup_insert_ne in H by congruence. apply (I7 _ _ _ H).
  - destruct (decide ((p0, c0) = (p, c))) as [[= -> ->]|Hne].
    + rewrite lookup_insert in H. injection H as <-. exact F4.
    + rewrite lookup_insert_ne in H by congruence. apply (I7 _ _ _ H).
Qed.

Lemma ok_after_put v p c pl l now :
  client_ok v (A1 p c pl l) -> client_ok (put_view v p c pl now) (A2 p c pl l).
Proof.
  intros (F & Hn & Hl). cbn. split; [exact F|]. split; [|split; [|exact Hl]].
  - intros q Hq. destruct (decide (q = p)) as [|Hqp]; [assumption|].
    rewrite lookup_insert_ne in Hq by congruence. rewrite Hn in Hq. destruct Hq as [? Hq]. discriminate.
  - rewrite lookup_insert. eauto.
Qed.

(** *** swap: an add-version machine at [A2] commits its version *)
Lemma Core_cas v p c pl l :
  Core v -> client_ok v (A2 p c pl l) -> v_latest v = l -> Core (cas_view v c).
Proof.
  intros (I1 & I2 & I3 & I4 & I5 & I6 & I7 & I8) ((F1 & F2 & F3 & F4 & F5) & Hu & He & Hl) Hlat.
  unfold Core, cas_view; cbn. repeat split; auto.
  - rewrite last_snoc. reflexivity.
  - apply NoDup_app. split; [exact I2|]. split; [|apply NoDup_singleton].
    intros x Hx Hx'. apply elem_of_list_singleton in Hx'. subst x. exact (F3 Hx).
  - apply elem_of_app in H as [H|H]; [apply I4; exact H|]. apply elem_of_list_singleton in H. subst. exact F1.
  - apply elem_of_app in H as [H|H]; [apply I4; exact H|]. apply elem_of_list_singleton in H. subst. exact F2.
  - intros k c0 Hk. destruct (decide (k < length (v_hist v))%nat) as [Hlt|Hge].
    + rewrite lookup_app_l in Hk by exact Hlt. destruct (I5 k c0 Hk) as (p0 & Hs & Hp & Hz).
      exists p0. split; [exact Hs|]. split; [|exact Hz]. intros k' ->. rewrite lookup_app_l by lia. apply Hp. reflexivity.
    + rewrite lookup_app_r in Hk by lia.
      destruct (k - length (v_hist v))%nat eqn:Ek; [|destruct n; discriminate].
      cbn in Hk. injection Hk as <-. exists p. split; [exact He|]. split.
      * intros k' ->. assert (k' = pred (length (v_hist v))) as -> by lia.
        rewrite lookup_app_l by lia. rewrite <- last_lookup, <- I1, Hlat.
        destruct l as [l0|].
        -- rewrite (Hl l0 eq_refl). reflexivity.
        -- exfalso. rewrite Hlat in I1. symmetry in I1. apply last_None in I1. rewrite I1 in *. cbn in *. lia.
      * intros ->. assert (v_hist v = []) as Hnil by (destruct (v_hist v); [reflexivity|cbn in *; lia]).
        rewrite Hnil in F5. destruct F5 as [F5|F5]; [exact F5|inversion F5].
  - apply (I7 _ _ _ H).
  - apply (I7 _ _ _ H).
  - destruct (I7 _ _ _ H) as (_ & _ & [Hp|Hp] & _); [left; exact Hp|right; apply elem_of_app; left; exact Hp].
  - apply (I7 _ _ _ H).
Qed.

(** *** delete: an add-version machine at [A3] withdraws its object *)
Lemma Core_del v p c :
  Core v -> client_ok v (A3 p c) -> Core (del_view v p c).
Proof.
  intros (I1 & I2 & I3 & I4 & I5 & I6 & I7 & I8) (F1 & F2 & Hu).
  unfold Core, del_view; cbn. repeat split; auto.
  - apply I4. assumption.
  - apply I4. assumption.
  - intros k c0 Hk. destruct (I5 k c0 Hk) as (p0 & Hs & Hp). exists p0. split; [|exact Hp].
    rewrite lookup_delete_ne; [exact Hs|]. intros [= _ ->]. apply F2. eapply elem_of_list_lookup_2. exact Hk.
  - intros p1 p2 c1 [x1 H1] [x2 H2]. apply lookup_delete_Some in H1 as [_ H1]. apply lookup_delete_Some in H2 as [_ H2]. eauto.
  - apply lookup_delete_Some in H as [_ H]. apply (I7 _ _ _ H).
  - apply lookup_delete_Some in H as [_ H]. apply (I7 _ _ _ H).
  - apply lookup_delete_Some in H as [_ H]. apply (I7 _ _ _ H).
  - apply lookup_delete_Some in H as [_ H]. apply (I7 _ _ _ H).
Qed.

(** *** a new add-version call takes the next id *)
Lemma Core_start v p pl : Core v -> Core (start_view v p pl).
Proof.
  intros (I1 & I2 & I3 & I4 & I5 & I6 & I7 & I8).
  unfold Core, start_view; cbn. repeat split; auto; try lia.
  - apply I4. assumption.
  - destruct (I4 _ H) as [_ H']. lia.
  - apply (I7 _ _ _ H).
  - destruct (I7 _ _ _ H) as (_ & H' & _). lia.
  - apply (I7 _ _ _ H).
  - destruct (I7 _ _ _ H) as (_ & Hlt & _ & Hs). rewrite lookup_insert_ne by lia. exact Hs.
  - intros c x Hc. destruct (decide (c = v_next v)) as [->|Hne]; [lia|].
    rewrite lookup_insert_ne in Hc by congruence. apply I8 in Hc. lia.
Qed.

Lemma client_ok_start v p pl c : Core v -> client_ok v c -> client_ok (start_view v p pl) c.
Proof.
  intros (_ & _ & _ & _ & _ & _ & _ & I8).
  assert (forall p0 c0 pl0, fresh_id v p0 c0 pl0 -> fresh_id (start_view v p pl) p0 c0 pl0) as HF.
  { intros p0 c0 pl0 (F1 & F2 & F3 & F4 & F5). unfold fresh_id; cbn. repeat split; auto; try lia.
    rewrite lookup_insert_ne by lia. exact F4. }
  destruct c; cbn; try exact (fun H => H).
  - intros [F Hn]. split; [apply HF; exact F|exact Hn].
  - intros (F & Hn & Hl). split; [apply HF; exact F|]. split; assumption.
  - intros (F & Hu & He & Hl). split; [apply HF; exact F|]. repeat split; assumption.
  - intros (F1 & F2 & Hu). repeat split; auto. lia.
Qed.

Lemma result_ok_start v p pl r : Core v -> result_ok v r -> result_ok (start_view v p pl) r.
Proof.
  intros (_ & _ & _ & _ & _ & _ & _ & I8). unfold result_ok. destruct r.2; auto.
  intros (p0 & H1 & H2 & H3). exists p0. cbn. repeat split; auto.
  rewrite lookup_insert_ne; [exact H3|]. intros <-. apply I8 in H3. lia.
Qed.

Lemma touches_refl v x : touches v v x.
Proof. repeat split; auto. Qed.

Lemma latest_in_hist v l : Core v -> v_latest v = Some l -> l ∈ v_hist v.
Proof.
  intros (I1 & _) H. rewrite I1 in H. rewrite last_lookup in H. eapply elem_of_list_lookup_2. exact H.
Qed.

(** ** one request of one client *)
Section Step.
Variable rank : N -> N.
Variable pagesz : nat.
Variable threshold : N.

Definition view_after (s : csys) (st' : ostore) : cview :=
  {| v_latest := o_latest st'; v_vers := o_vers st'; v_hist := hist_after (c_store s) st' (c_hist s);
     v_next := c_next s; v_sub := c_sub s |}.

Lemma view_after_frame s st' :
  o_latest st' = o_latest (c_store s) -> o_vers st' = o_vers (c_store s) -> view_after s st' = view s.
Proof.
  intros H1 H2. unfold view_after, view, hist_after. rewrite bool_decide_eq_true_2 by exact H1.
  rewrite H1, H2. reflexivity.
Qed.

Definition scan_post (v : cview) (X : cpc) : Prop :=
  match X with
  | CDone r0 => forall c, result_ok v (c, r0)
  | _ => client_ok v X /\ owned X = None
  end.

Lemma next_scan_ok v p todo best :
  Forall (fun c => (0 < c)%N) todo -> (forall b, best = Some b -> b ∈ v_hist v) ->
  scan_post v (next_scan p todo best).
Proof.
  intros Ht Hb. unfold scan_post, next_scan. destruct todo as [|c2 rest].
  - destruct best as [tc|]; cbn.
    + split; [apply Hb; reflexivity|reflexivity].
    + intros c. exact I.
  - inversion Ht; subst. cbn. repeat split; auto. intros Hf. discriminate.
Qed.

Lemma scan_goal v c X :
  scan_post v X ->
  match X with
  | CDone r0 => result_ok v (c, r0)
  | _ => client_ok v X /\ (forall x', owned X = Some x' -> owned c = Some x')
  end.
Proof.
  unfold scan_post. destruct X; intros H;
    try (destruct H as [H1 H2]; split; [exact H1|intros x' Hx'; rewrite H2 in Hx'; discriminate]).
  apply H.
Qed.

Lemma list_ver_resp now st parent after r st' :
  ostore_step rank pagesz now st (QListVer parent after) = (r, st') ->
  st' = st /\ exists l more, r = PVerPage l more.
Proof. cbn. intros [= <- <-]. eauto. Qed.
Lemma list_snap_resp now st after r st' :
  ostore_step rank pagesz now st (QListSnap after) = (r, st') ->
  st' = st /\ exists l more, r = PSnapPage l more.
Proof. cbn. intros [= <- <-]. eauto. Qed.

Lemma step_client s i now c :
  CInv s -> c_clients s !! i = Some c ->
  forall q, cl_next c = inl q ->
  let rs := ostore_step rank pagesz now (c_store s) q in
  let v' := view_after s rs.2 in
  let c' := cl_resume rank threshold c rs.1 in
  Core v'
  /\ (exists x, touches (view s) v' x /\ (owned c = Some x \/ (owned c = None /\ v' = view s)))
  /\ match c' with
     | CDone r0 => result_ok v' (c, r0)
     | _ => client_ok v' c' /\ (forall x', owned c' = Some x' -> owned c = Some x')
     end.
Proof.
  intros (HC & Hcl & Hown & Hres) Hi q Hq. pose proof (Hcl _ _ Hi) as Hok.
  pose proof HC as (I1 & I2 & I3 & I4 & I5 & I6 & I7 & I8).
  assert (forall st', o_latest st' = o_latest (c_store s) -> o_vers st' = o_vers (c_store s) ->
          Core (view_after s st')
          /\ (exists x, touches (view s) (view_after s st') x
                        /\ (owned c = Some x \/ (owned c = None /\ view_after s st' = view s)))) as Frame.
  { intros st' H1 H2. rewrite (view_after_frame _ _ H1 H2). split; [exact HC|].
    destruct (owned c) as [x|] eqn:Eo.
    - exists x. split; [apply touches_refl|left; reflexivity].
    - exists 0%N. split; [apply touches_refl|right; split; reflexivity]. }
  destruct c; cbn in Hq; try discriminate; try (cbn in Hok; contradiction); injection Hq as <-; cbn zeta.
  - (* A0: read latest *)
    cbn [ostore_step fst snd]. destruct (Frame (c_store s) eq_refl eq_refl) as [F1 F2].
    split; [exact F1|]. split; [exact F2|]. rewrite (view_after_frame _ _ eq_refl eq_refl).
    cbn [cl_resume]. destruct Hok as [Hf Hn].
    destruct (o_latest (c_store s)) as [l0|] eqn:El.
    + destruct (N.eqb_spec l0 p) as [->|Hne].
      * cbn. split; [|auto]. split; [exact Hf|]. split; [exact Hn|]. intros l1 [= <-]. reflexivity.
      * cbn. right. apply (latest_in_hist (view s)); [exact HC|exact El].
    + cbn. split; [|auto]. split; [exact Hf|]. split; [exact Hn|]. intros l1 Hl1. discriminate.
  - (* A1: put the object *)
    cbn [ostore_step fst snd].
    assert (view_after s {| o_latest := o_latest (c_store s);
                            o_vers := <[(p, c) := (pl, now)]> (o_vers (c_store s));
                            o_snaps := o_snaps (c_store s) |} = put_view (view s) p c pl now) as ->.
    { unfold view_after, hist_after. cbn. rewrite bool_decide_eq_true_2 by reflexivity. reflexivity. }
    split; [eapply Core_put; eauto|].
    split; [exists c; split; [apply touches_put|left; reflexivity]|].
    cbn [cl_resume]. split; [apply ok_after_put; exact Hok|]. cbn. auto.
  - (* A2: the swap *)
    cbn [ostore_step]. destruct Hok as (Hf & Hu & He & Hl). pose proof Hf as (F1 & F2 & F3 & F4 & F5).
    destruct (bool_decide (o_latest (c_store s) = l)) eqn:Eb; cbn [fst snd].
    + apply bool_decide_eq_true in Eb.
      assert (view_after s {| o_latest := Some c; o_vers := o_vers (c_store s); o_snaps := o_snaps (c_store s) |}
              = cas_view (view s) c) as ->.
      { unfold view_after, hist_after. cbn. rewrite bool_decide_eq_false_2; [reflexivity|].
        intros Heq. apply F3. apply (latest_in_hist (view s)); [exact HC|]. cbn. symmetry. exact Heq. }
      split; [apply (Core_cas (view s) p c pl l); [exact HC| |exact Eb]; cbn; auto|].
      split; [exists c; split; [apply touches_cas|left; reflexivity]|].
      cbn. split; [apply elem_of_app; right; apply elem_of_list_singleton; reflexivity|]. intros x' Hx'. discriminate.
    + destruct (Frame (c_store s) eq_refl eq_refl) as [G1' G2'].
      split; [exact G1'|]. split; [exact G2'|]. rewrite (view_after_frame _ _ eq_refl eq_refl).
      cbn. repeat split; auto.
  - (* A3: withdraw the object *)
    cbn [ostore_step fst snd].
    assert (view_after s {| o_latest := o_latest (c_store s); o_vers := delete (p, c) (o_vers (c_store s));
                            o_snaps := o_snaps (c_store s) |} = del_view (view s) p c) as ->.
    { unfold view_after, hist_after. cbn. rewrite bool_decide_eq_true_2 by reflexivity. reflexivity. }
    split; [eapply Core_del; eauto|].
    split; [exists c; split; [apply touches_del|left; reflexivity]|].
    cbn. split; [exact I|]. intros x' Hx'. discriminate.
  - (* A4: report the latest *)
    cbn [ostore_step fst snd]. destruct (Frame (c_store s) eq_refl eq_refl) as [F1 F2].
    split; [exact F1|]. split; [exact F2|]. rewrite (view_after_frame _ _ eq_refl eq_refl).
    cbn. destruct (o_latest (c_store s)) as [l0|] eqn:El; cbn.
    + right. apply (latest_in_hist (view s)); [exact HC|exact El].
    + left. reflexivity.
  - (* A5: snapshot urgency *)
    cbn [ostore_step fst snd]. destruct (Frame (c_store s) eq_refl eq_refl) as [F1 F2].
    split; [exact F1|]. split; [exact F2|]. rewrite (view_after_frame _ _ eq_refl eq_refl).
    cbn. exact Hok.
  - (* G0: list the children *)
    destruct (ostore_step rank pagesz now (c_store s) (QListVer (Some p) after)) as [r st'] eqn:E.
    destruct (list_ver_resp _ _ _ _ _ _ E) as (-> & l & more & ->).
    cbn [fst snd]. destruct (Frame (c_store s) eq_refl eq_refl) as [F1 F2].
    split; [exact F1|]. split; [exact F2|]. rewrite (view_after_frame _ _ eq_refl eq_refl).
    cbn [cl_resume].
    assert (Forall (fun c => (0 < c)%N) (acc ++ map (fun x : N * N * N => x.1.2) l)) as Hacc.
    { apply Forall_app. split; [exact Hok|]. apply Forall_forall. intros c0 Hc0.
      apply elem_of_list_fmap in Hc0 as (x & -> & Hx).
      destruct (page_elem rank pagesz threshold now (c_store s) (Some p) after l more x) as [(pl0 & Hpl) _];
        [rewrite E; reflexivity|exact Hx|].
      destruct x as [[xp xc] xt]. apply (I7 _ _ _ Hpl). }
    destruct more.
    + cbn. split; [exact Hacc|]. intros x' Hx'. discriminate.
    + destruct (acc ++ map (fun x : N * N * N => x.1.2) l) eqn:Ea.
      * exact I.
      * cbn. split; [exact Hacc|]. intros x' Hx'. discriminate.
  - (* G1: is the latest one of them? *)
    cbn [ostore_step fst snd]. destruct (Frame (c_store s) eq_refl eq_refl) as [F1 F2].
    split; [exact F1|]. split; [exact F2|]. rewrite (view_after_frame _ _ eq_refl eq_refl).
    cbn [cl_resume].
    assert (forall b : N, (None : option N) = Some b -> b ∈ v_hist (view s)) as Hb0 by (intros b Hb; discriminate).
    pose proof (scan_goal (view s) (G1 p children) _ (next_scan_ok (view s) p children None Hok Hb0)) as Hscan.
    destruct (o_latest (c_store s)) as [l0|] eqn:El; [|exact Hscan].
    destruct (bool_decide (l0 ∈ children)); [|exact Hscan].
    cbn. split; [apply (latest_in_hist (view s)); [exact HC|exact El]|]. intros x' Hx'. discriminate.
  - (* G2: does this child have children? *)
    destruct (ostore_step rank pagesz now (c_store s) (QListVer (Some cur) after)) as [r st'] eqn:E.
    destruct (list_ver_resp _ _ _ _ _ _ E) as (-> & l & more & ->).
    cbn [fst snd]. destruct (Frame (c_store s) eq_refl eq_refl) as [F1 F2].
    split; [exact F1|]. split; [exact F2|]. rewrite (view_after_frame _ _ eq_refl eq_refl).
    cbn [cl_resume]. destruct Hok as (Ht & Hcur & Hne & Hbest).
    set (ne' := nonempty || match l with [] => false | _ => true end).
    assert (ne' = true -> cur ∈ c_hist s) as Hne'.
    { unfold ne'. intros Hor. apply orb_true_iff in Hor as [Hor|Hor]; [apply Hne; exact Hor|].
      destruct l as [|x l']; [discriminate|].
      destruct (page_elem rank pagesz threshold now (c_store s) (Some cur) after (x :: l') more x) as [(pl0 & Hpl) Hp];
        [rewrite E; reflexivity|left|].
      destruct x as [[xp xc] xt]. cbn in Hp, Hpl. specialize (Hp cur eq_refl). subst xp.
      destruct (I7 _ _ _ Hpl) as (_ & _ & [H0|Hin] & _); [lia|exact Hin]. }
    destruct more.
    + cbn. split; [|intros x' Hx'; discriminate]. split; [exact Ht|]. split; [exact Hcur|]. split; [exact Hne'|exact Hbest].
    + assert (forall b, (if ne' then Some cur else best) = Some b -> b ∈ v_hist (view s)) as Hb'.
      { intros b. destruct ne'; [intros [= <-]; apply Hne'; reflexivity|apply Hbest]. }
      apply (scan_goal (view s)). apply next_scan_ok; [exact Ht|exact Hb'].
  - (* G3: fetch the version *)
    cbn [ostore_step fst snd]. destruct (Frame (c_store s) eq_refl eq_refl) as [F1 F2].
    split; [exact F1|]. split; [exact F2|]. rewrite (view_after_frame _ _ eq_refl eq_refl).
    cbn [cl_resume]. destruct (o_vers (c_store s) !! (p, c)) as [[pl t]|] eqn:Ev; cbn.
    + exists p. split; [reflexivity|]. split; [exact Hok|]. apply (I7 _ _ _ Ev).
    + exact I.
  - (* S0: store a snapshot *)
    cbn [ostore_step fst snd].
    destruct (Frame {| o_latest := o_latest (c_store s); o_vers := o_vers (c_store s);
                       o_snaps := <[v := pl]> (o_snaps (c_store s)) |} eq_refl eq_refl) as [F1 F2].
    split; [exact F1|]. split; [exact F2|]. cbn. exact I.
  - (* T0 *)
    destruct (ostore_step rank pagesz now (c_store s) (QListSnap None)) as [r st'] eqn:E.
    destruct (list_snap_resp _ _ _ _ _ E) as (-> & l & more & ->).
    cbn [fst snd]. destruct (Frame (c_store s) eq_refl eq_refl) as [F1 F2].
    split; [exact F1|]. split; [exact F2|]. rewrite (view_after_frame _ _ eq_refl eq_refl).
    destruct l; cbn; [exact I|]. split; [exact I|]. intros x' Hx'. discriminate.
  - (* T1 *)
    cbn [ostore_step fst snd]. destruct (Frame (c_store s) eq_refl eq_refl) as [F1 F2].
    split; [exact F1|]. split; [exact F2|]. rewrite (view_after_frame _ _ eq_refl eq_refl).
    cbn. destruct (o_snaps (c_store s) !! v); cbn; exact I.
Qed.
End Step.

(** ** every event preserves the invariant *)
Definition Own (m : gmap nat cpc) : Prop :=
  forall i j c c' x, i <> j -> m !! i = Some c -> m !! j = Some c' ->
    owned c = Some x -> owned c' = Some x -> False.

Lemma Own_delete m i : Own m -> Own (delete i m).
Proof.
  intros H a b c c' x Hab Ha Hb. apply lookup_delete_Some in Ha as [_ Ha]. apply lookup_delete_Some in Hb as [_ Hb].
  eapply H; eauto.
Qed.

Lemma Own_insert m i c :
  Own m -> (forall x, owned c = Some x -> forall j c2, j <> i -> m !! j = Some c2 -> owned c2 <> Some x) ->
  Own (<[i := c]> m).
Proof.
  intros H Hc a b ca cb x Hab Ha Hb Hoa Hob.
  destruct (decide (a = i)) as [->|Hai], (decide (b = i)) as [->|Hbi]; try congruence.
  - rewrite lookup_insert in Ha. injection Ha as <-. rewrite lookup_insert_ne in Hb by congruence.
    eapply Hc; eauto.
  - rewrite lookup_insert in Hb. injection Hb as <-. rewrite lookup_insert_ne in Ha by congruence.
    eapply Hc; eauto.
  - rewrite lookup_insert_ne in Ha by congruence. rewrite lookup_insert_ne in Hb by congruence.
    exact (H a b ca cb x Hab Ha Hb Hoa Hob).
Qed.

Section Run.
Variable rank : N -> N.
Variable pagesz : nat.
Variable threshold : N.
Notation cstep' := (cstep rank pagesz threshold).

Lemma CInv_init : CInv csys0.
Proof.
  unfold CInv, csys0, view, Core; cbn. repeat split; try (intros; set_solver); try lia.
  - constructor.
  - intros p p' c [x H]. rewrite lookup_empty in H. discriminate.
  - constructor.
Qed.

(** starting a call that owns nothing *)
Lemma CInv_start_plain s i c :
  CInv s -> c_clients s !! i = None -> client_ok (view s) c -> owned c = None ->
  CInv (with_clients s (<[i := c]> (c_clients s))).
Proof.
  intros (HC & Hcl & Hown & Hres) Hi Hok Ho.
  match goal with |- CInv ?s' => assert (view s' = view s) as Hv by reflexivity end.
  unfold CInv. rewrite Hv. cbn [c_clients c_results with_clients].
  split; [exact HC|]. split; [|split; [|exact Hres]].
  - intros j cj Hj. destruct (decide (j = i)) as [->|Hne].
    + rewrite lookup_insert in Hj. injection Hj as <-. exact Hok.
    + rewrite lookup_insert_ne in Hj by congruence. eauto.
  - apply Own_insert; [exact Hown|]. intros x Hx. rewrite Ho in Hx. discriminate.
Qed.

Lemma owned_lt v c x : client_ok v c -> owned c = Some x -> (x < v_next v)%N.
Proof.
  destruct c; cbn; try discriminate; intros H [= <-].
  - destruct H as [(_ & H & _) _]. exact H.
  - destruct H as [(_ & H & _) _]. exact H.
  - destruct H as [(_ & H & _) _]. exact H.
  - destruct H as [H _]. exact H.
Qed.

Theorem CInv_step s e : CInv s -> CInv (cstep' s e).
Proof.
  intros Hinv. pose proof Hinv as (HC & Hcl & Hown & Hres).
  destruct e as [i p pl|i p|i v pl|i|i now|i|i now]; cbn [cstep].
  - (* a new add-version call *)
    destruct (c_clients s !! i) eqn:Hi; [exact Hinv|].
    destruct (bool_decide (p = 0%N \/ p ∈ c_hist s)) eqn:Ep; [|exact Hinv].
    apply bool_decide_eq_true in Ep.
    pose proof HC as (I1 & I2 & I3 & I4 & I5 & I6 & I7 & I8).
    match goal with |- CInv ?s' => assert (view s' = start_view (view s) p pl) as Hv by reflexivity end.
    unfold CInv. rewrite Hv. cbn [c_clients c_results].
    split; [apply Core_start; exact HC|]. split; [|split].
    + intros j cj Hj. destruct (decide (j = i)) as [->|Hne].
      * rewrite lookup_insert in Hj. injection Hj as <-. cbn. split.
        -- unfold fresh_id; cbn. repeat split; auto; try lia.
           ++ intros Hin. apply I4 in Hin. cbn in Hin. lia.
           ++ rewrite lookup_insert. reflexivity.
        -- intros p'. destruct (o_vers (c_store s) !! (p', c_next s)) as [x|] eqn:Ev; [|reflexivity].
           destruct (I7 _ _ _ Ev) as (_ & Hlt & _). cbn in Hlt. lia.
      * rewrite lookup_insert_ne in Hj by congruence. apply client_ok_start; [exact HC|eauto].
    + apply Own_insert; [exact Hown|]. cbn. intros x [= <-] j c2 Hj Hc2 Ho.
      pose proof (owned_lt _ _ _ (Hcl _ _ Hc2) Ho) as Hlt. cbn in Hlt. lia.
    + eapply Forall_impl; [exact Hres|]. intros r Hr. apply result_ok_start; [exact HC|exact Hr].
  - destruct (c_clients s !! i) eqn:Hi; [exact Hinv|]. apply CInv_start_plain; auto. cbn. constructor.
  - destruct (c_clients s !! i) eqn:Hi; [exact Hinv|]. apply CInv_start_plain; auto. exact I.
  - destruct (c_clients s !! i) eqn:Hi; [exact Hinv|]. apply CInv_start_plain; auto. exact I.
  - (* one request *)
    destruct (c_clients s !! i) as [c|] eqn:Hi; [|exact Hinv].
    destruct (cl_next c) as [q|r0] eqn:Hq; [|exact Hinv].
    pose proof (step_client rank pagesz threshold s i now c Hinv Hi q Hq) as Hst. cbn zeta in Hst.
    destruct (ostore_step rank pagesz now (c_store s) q) as [r st'] eqn:Er. cbn [fst snd] in Hst.
    destruct Hst as (HC' & (x & Ht & Hx) & Hc').
    assert (forall j cj, j <> i -> c_clients s !! j = Some cj -> client_ok (view_after s st') cj) as Hothers.
    { intros j cj Hne Hj. destruct Hx as [Hx|[Hx Hv]].
      - eapply client_ok_other; [exact Ht| |eauto]. intros Ho. eapply (Hown i j); eauto.
      - rewrite Hv. eauto. }
    assert (Forall (result_ok (view_after s st')) (c_results s)) as Hres'.
    { eapply Forall_impl; [exact Hres|]. intros r1 Hr1. eapply result_ok_mono; eauto. }
    destruct (cl_resume rank threshold c r) eqn:Ec';
      (match goal with |- CInv ?s' => assert (view s' = view_after s st') as Hv by reflexivity end;
       unfold CInv; rewrite Hv; cbn [c_clients c_results]);
      try (destruct Hc' as [Hok' Hown'];
           split; [exact HC'|]; split; [|split; [|exact Hres']];
           [ intros j cj Hj; destruct (decide (j = i)) as [->|Hne];
             [ rewrite lookup_insert in Hj; injection Hj as <-; exact Hok'
             | rewrite lookup_insert_ne in Hj by congruence; eauto ]
           | apply Own_insert; [exact Hown|];
             intros x' Hx' j c2 Hj Hc2 Ho; apply Hown' in Hx'; eapply (Hown i j); eauto ]).
    (* the call finished *)
    split; [exact HC'|]. split; [|split].
    + intros j cj Hj. apply lookup_delete_Some in Hj as [Hne Hj]. eauto.
    + apply Own_delete. exact Hown.
    + constructor; [exact Hc'|exact Hres'].
  - (* dropped *)
    match goal with |- CInv ?s' => assert (view s' = view s) as Hv by reflexivity end.
    unfold CInv; rewrite Hv; cbn [c_clients c_results with_clients].
    split; [exact HC|]. split; [|split; [|exact Hres]].
    + intros j cj Hj. apply lookup_delete_Some in Hj as [_ Hj]. eauto.
    + apply Own_delete. exact Hown.
  - (* request performed, reply lost, client gone *)
    destruct (c_clients s !! i) as [c|] eqn:Hi; [|exact Hinv].
    destruct (cl_next c) as [q|r0] eqn:Hq; [|exact Hinv].
    pose proof (step_client rank pagesz threshold s i now c Hinv Hi q Hq) as Hst. cbn zeta in Hst.
    destruct (ostore_step rank pagesz now (c_store s) q) as [r st'] eqn:Er. cbn [fst snd] in Hst.
    destruct Hst as (HC' & (x & Ht & Hx) & _).
    match goal with |- CInv ?s' => assert (view s' = view_after s st') as Hv by reflexivity end.
    unfold CInv; rewrite Hv; cbn [c_clients c_results].
    split; [exact HC'|]. split; [|split].
    + intros j cj Hj. apply lookup_delete_Some in Hj as [Hne Hj]. destruct Hx as [Hx|[Hx Hv0]].
      * eapply client_ok_other; [exact Ht| |eauto]. intros Ho. eapply (Hown i j); eauto.
      * rewrite Hv0. eauto.
    + apply Own_delete. exact Hown.
    + eapply Forall_impl; [exact Hres|]. intros r1 Hr1. eapply result_ok_mono; eauto.
Qed.

(** The invariant holds in every state reachable by any schedule of any number
    of clients, with any failures. *)
Theorem CInv_run (evs : list cev) : CInv (fold_left cstep' evs csys0).
Proof.
  assert (forall s, CInv s -> CInv (fold_left cstep' evs s)) as H.
  { induction evs as [|e evs IH]; intros s Hs; [exact Hs|]. cbn. apply IH. apply CInv_step. exact Hs. }
  apply H. apply CInv_init.
Qed.
End Run.

(** ** what the invariant gives *)
Section Consequences.
Variable rank : N -> N.
Variable pagesz : nat.
Variable threshold : N.
Notation run evs := (fold_left (cstep rank pagesz threshold) evs csys0).

(** the history of [latest] only grows, and results are never forgotten *)
Lemma hist_after_prefix st st' h : h `prefix_of` hist_after st st' h.
Proof.
  unfold hist_after. destruct (bool_decide _); [reflexivity|].
  destruct (o_latest st'); [apply prefix_app_r; reflexivity|reflexivity].
Qed.

Lemma step_grows s e :
  c_hist s `prefix_of` c_hist (cstep rank pagesz threshold s e)
  /\ (forall x, x ∈ c_results s -> x ∈ c_results (cstep rank pagesz threshold s e)).
Proof.
  assert (c_hist s `prefix_of` c_hist s /\ (forall x, x ∈ c_results s -> x ∈ c_results s)) as Hsame
    by (split; [reflexivity|auto]).
  destruct e as [i p pl|i p|i v pl|i|i now|i|i now]; cbn [cstep].
  - destruct (c_clients s !! i); [exact Hsame|]. destruct (bool_decide _); exact Hsame.
  - destruct (c_clients s !! i); exact Hsame.
  - destruct (c_clients s !! i); exact Hsame.
  - destruct (c_clients s !! i); exact Hsame.
  - destruct (c_clients s !! i) as [c|]; [|exact Hsame].
    destruct (cl_next c); [|exact Hsame].
    destruct (ostore_step _ _ _ _ _) as [r st']. cbn. split; [apply hist_after_prefix|].
    intros x Hx. destruct (cl_resume _ _ _ _); try exact Hx. right. exact Hx.
  - exact Hsame.
  - destruct (c_clients s !! i) as [c|]; [|exact Hsame].
    destruct (cl_next c); [|exact Hsame].
    destruct (ostore_step _ _ _ _ _) as [r st']. cbn. split; [apply hist_after_prefix|auto].
Qed.

Lemma run_grows evs more :
  c_hist (run evs) `prefix_of` c_hist (run (evs ++ more))
  /\ (forall x, x ∈ c_results (run evs) -> x ∈ c_results (run (evs ++ more))).
Proof.
  rewrite fold_left_app. generalize (run evs) as s. induction more as [|e more IH]; intros s; cbn.
  - split; auto; reflexivity.
  - destruct (step_grows s e) as [H1 H2]. destruct (IH (cstep rank pagesz threshold s e)) as [H3 H4].
    split; [etrans; eauto|auto].
Qed.

(** position of a version on the chain *)
Lemma chain_position v c p :
  Core v -> c ∈ v_hist v -> is_Some (v_vers v !! (p, c)) ->
  exists k, v_hist v !! k = Some c
            /\ (forall k', k = S k' -> v_hist v !! k' = Some p) /\ (k = 0%nat -> p = 0%N).
Proof.
  intros (I1 & I2 & I3 & I4 & I5 & I6 & I7 & I8) Hc Hobj.
  apply elem_of_list_lookup in Hc as [k Hk]. exists k. split; [exact Hk|].
  destruct (I5 k c Hk) as (p0 & Hs & Hp & Hz). rewrite (I6 p p0 c Hobj Hs). auto.
Qed.

(** At most one child per parent is ever accepted: two versions on the chain
    stored under the same parent are the same version. *)
Theorem one_child_per_parent evs p c1 c2 :
  let s := run evs in
  c1 ∈ c_hist s -> c2 ∈ c_hist s ->
  is_Some (o_vers (c_store s) !! (p, c1)) -> is_Some (o_vers (c_store s) !! (p, c2)) -> c1 = c2.
Proof.
  cbn zeta. intros H1 H2 O1 O2. pose proof (CInv_run rank pagesz threshold evs) as (HC & _).
  destruct (chain_position _ _ _ HC H1 O1) as (k1 & K1 & P1 & Z1).
  destruct (chain_position _ _ _ HC H2 O2) as (k2 & K2 & P2 & Z2).
  pose proof HC as (_ & I2 & _ & I4 & _). cbn in *.
  assert (k1 = k2) as ->; [|congruence].
  destruct k1 as [|k1'], k2 as [|k2']; [reflexivity| | |].
  - specialize (Z1 eq_refl). specialize (P2 _ eq_refl). subst p.
    apply elem_of_list_lookup_2 in P2. apply I4 in P2. lia.
  - specialize (Z2 eq_refl). specialize (P1 _ eq_refl). subst p.
    apply elem_of_list_lookup_2 in P1. apply I4 in P1. lia.
  - specialize (P1 _ eq_refl). specialize (P2 _ eq_refl). f_equal.
    eapply NoDup_lookup; eauto.
Qed.

(** A client that was told its version was accepted finds it on the chain in
    every later state. *)
Theorem accepted_stays_on_chain evs more pc c u :
  (pc, CAddOk c u) ∈ c_results (run evs) -> c ∈ c_hist (run (evs ++ more)).
Proof.
  intros H. apply (run_grows evs more) in H.
  pose proof (CInv_run rank pagesz threshold (evs ++ more)) as (_ & _ & _ & Hres).
  rewrite Forall_forall in Hres. apply Hres in H. exact H.
Qed.

(** What get-child-version returns is the chain child of the requested parent
    -- never a version that lost the race -- and carries exactly the bytes that
    were submitted under that id, although its reads happen at different times. *)
Theorem served_is_chain_child evs pc c pl :
  let s := run evs in
  (pc, CVersion c pl) ∈ c_results s ->
  exists p k, pc = G3 p c /\ c_sub s !! c = Some (p, pl)
              /\ c_hist s !! k = Some c
              /\ (forall k', k = S k' -> c_hist s !! k' = Some p) /\ (k = 0%nat -> p = 0%N).
Proof.
  cbn zeta. intros H. pose proof (CInv_run rank pagesz threshold evs) as (HC & _ & _ & Hres).
  rewrite Forall_forall in Hres. apply Hres in H. destruct H as (p & Hpc & Hin & Hsub). cbn in Hpc. subst pc.
  pose proof HC as (_ & _ & _ & _ & I5 & I6 & I7 & _).
  apply elem_of_list_lookup in Hin as [k Hk]. exists p, k. cbn in *.
  split; [reflexivity|]. split; [exact Hsub|]. split; [exact Hk|].
  destruct (I5 k c Hk) as (p0 & [x Hs] & Hp & Hz).
  destruct (I7 _ _ _ Hs) as (_ & _ & _ & Hs'). rewrite Hsub in Hs'. injection Hs' as -> _. auto.
Qed.

(** A rejection names the nil version or a version that has been the latest. *)
Theorem expected_was_latest evs pc l :
  (pc, CExpected l) ∈ c_results (run evs) -> l = 0%N \/ l ∈ c_hist (run evs).
Proof.
  intros H. pose proof (CInv_run rank pagesz threshold evs) as (_ & _ & _ & Hres).
  rewrite Forall_forall in Hres. apply Hres in H. exact H.
Qed.

(** the premises are satisfiable: two clients race for the first version, one
    wins, the other is rejected naming the winner, and a reader is served the
    winner *)
Example race_example :
  let evs := [VStartAdd 0 0 7; VStartAdd 1 0 8; VStep 0 1; VStep 1 1; VStep 0 1; VStep 1 1;
              VStep 0 1; VStep 1 1; VStep 1 1; VStep 1 1; VStep 0 1;
              VStartGet 2 0; VStep 2 1; VStep 2 1; VStep 2 1] in
  let s := fold_left (cstep (fun x => x) 2 0) evs csys0 in
  c_hist s = [1%N]
  /\ map snd (c_results s) = [CVersion 1 7; CAddOk 1 true; CExpected 1].
Proof. vm_compute. split; reflexivity. Qed.
End Consequences.
