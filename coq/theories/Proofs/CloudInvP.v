(** One version chain under concurrent clients of the object-store server (C09):
    the inductive invariant over ALL schedules.

    The system: the object store, any number of client machines (add-version,
    get-child-version, add-snapshot, get-snapshot; no cleanup, which is C10),
    and ghosts: the successive values of [latest] ([c_hist], oldest first), the
    next fresh version id, what each add-version call submitted ([c_sub]) and
    every result a call returned ([c_results]).  Events: a client starts a call
    (add-version takes the next fresh id, as a random uuid would be; its parent
    is the nil version 0 or a version that has been [latest] -- clients only
    name versions a server gave them), performs its next request, is dropped at
    any point (error, crash), or has its request performed and is then dropped
    (lost reply). *)
From TC Require Import Model.Cloud.

Record csys := {
  c_store : ostore;
  c_clients : gmap nat cpc;
  c_hist : list N;
  c_next : N;
  c_sub : gmap N (N * N);                (* id -> (parent, payload) submitted *)
  c_results : list (cpc * cres)          (* (state of the call before its last request, result) *)
}.

Inductive cev :=
| VStartAdd (i : nat) (p pl : N)
| VStartGet (i : nat) (p : N)
| VStartAddSnap (i : nat) (v pl : N)
| VStartGetSnap (i : nat)
| VStep (i : nat) (now : N)
| VDrop (i : nat)
| VFailAfter (i : nat) (now : N).

Section Chain.
Variable rank : N -> N.
Variable pagesz : nat.
Variable threshold : N.

Definition hist_after (st st' : ostore) (h : list N) : list N :=
  if bool_decide (o_latest st' = o_latest st) then h
  else match o_latest st' with Some c => h ++ [c] | None => h end.

Definition with_clients (s : csys) (m : gmap nat cpc) : csys :=
  {| c_store := c_store s; c_clients := m; c_hist := c_hist s; c_next := c_next s;
     c_sub := c_sub s; c_results := c_results s |}.

Definition cstep (s : csys) (e : cev) : csys :=
  let start i c :=
    match c_clients s !! i with
    | None => with_clients s (<[i := c]> (c_clients s))
    | Some _ => s
    end in
  match e with
  | VStartAdd i p pl =>
      match c_clients s !! i with
      | None =>
          if bool_decide (p = 0%N \/ p ∈ c_hist s) then
            {| c_store := c_store s; c_clients := <[i := A0 p (c_next s) pl]> (c_clients s);
               c_hist := c_hist s; c_next := (c_next s + 1)%N;
               c_sub := <[c_next s := (p, pl)]> (c_sub s); c_results := c_results s |}
          else s
      | Some _ => s
      end
  | VStartGet i p => start i (G0 p [] None)
  | VStartAddSnap i v pl => start i (S0 v pl)
  | VStartGetSnap i => start i T0
  | VStep i now =>
      match c_clients s !! i with
      | Some c =>
          match cl_next c with
          | inl q =>
              let '(r, st') := ostore_step rank pagesz now (c_store s) q in
              let c' := cl_resume rank threshold c r in
              {| c_store := st';
                 c_clients := match c' with CDone _ => delete i (c_clients s) | _ => <[i := c']> (c_clients s) end;
                 c_hist := hist_after (c_store s) st' (c_hist s); c_next := c_next s; c_sub := c_sub s;
                 c_results := match c' with CDone r => (c, r) :: c_results s | _ => c_results s end |}
          | inr _ => s
          end
      | None => s
      end
  | VDrop i => with_clients s (delete i (c_clients s))
  | VFailAfter i now =>
      match c_clients s !! i with
      | Some c =>
          match cl_next c with
          | inl q =>
              let '(_, st') := ostore_step rank pagesz now (c_store s) q in
              {| c_store := st'; c_clients := delete i (c_clients s);
                 c_hist := hist_after (c_store s) st' (c_hist s); c_next := c_next s; c_sub := c_sub s;
                 c_results := c_results s |}
          | inr _ => s
          end
      | None => s
      end
  end.

Definition csys0 : csys :=
  {| c_store := ostore0; c_clients := ∅; c_hist := []; c_next := 1%N; c_sub := ∅; c_results := [] |}.

(** the id an add-version machine still has to commit or withdraw *)
Definition owned (c : cpc) : option N :=
  match c with A0 _ c _ | A1 _ c _ _ | A2 _ c _ _ | A3 _ c => Some c | _ => None end.

Definition vers (s : csys) := o_vers (c_store s).

Definition fresh_id (s : csys) (p c pl : N) : Prop :=
  (0 < c)%N /\ (c < c_next s)%N /\ c ∉ c_hist s /\ c_sub s !! c = Some (p, pl)
  /\ (p = 0%N \/ p ∈ c_hist s).

Definition client_ok (s : csys) (c : cpc) : Prop :=
  match c with
  | A0 p c pl => fresh_id s p c pl /\ (forall p', vers s !! (p', c) = None)
  | A1 p c pl l => fresh_id s p c pl /\ (forall p', vers s !! (p', c) = None)
                   /\ (forall l0, l = Some l0 -> l0 = p)
  | A2 p c pl l => fresh_id s p c pl
                   /\ (forall p', is_Some (vers s !! (p', c)) -> p' = p)
                   /\ is_Some (vers s !! (p, c))
                   /\ (forall l0, l = Some l0 -> l0 = p)
  | A3 p c => (c < c_next s)%N /\ c ∉ c_hist s /\ (forall p', is_Some (vers s !! (p', c)) -> p' = p)
  | A4 => True
  | A5 c => c ∈ c_hist s
  | G0 _ acc _ => Forall (fun c => (0 < c)%N) acc
  | G1 _ ch => Forall (fun c => (0 < c)%N) ch
  | G2 _ todo cur ne _ best =>
      Forall (fun c => (0 < c)%N) todo /\ (0 < cur)%N /\ (ne = true -> cur ∈ c_hist s)
      /\ (forall b, best = Some b -> b ∈ c_hist s)
  | G3 _ c => c ∈ c_hist s
  | S0 _ _ | T0 | T1 _ => True
  | _ => False                       (* no cleanup machine, no finished call *)
  end.

Definition result_ok (s : csys) (x : cpc * cres) : Prop :=
  match x.2 with
  | CAddOk c _ => c ∈ c_hist s
  | CVersion c pl => exists p, x.1 = G3 p c /\ c ∈ c_hist s /\ c_sub s !! c = Some (p, pl)
  | CExpected l => l = 0%N \/ l ∈ c_hist s
  | _ => True
  end.

Definition CInv (s : csys) : Prop :=
  (* the ghost history tracks latest *)
  o_latest (c_store s) = last (c_hist s)
  /\ NoDup (c_hist s)
  /\ (0 < c_next s)%N
  /\ (forall c, c ∈ c_hist s -> (0 < c)%N /\ (c < c_next s)%N)
  (* every version on the chain has its object; a non-first one is the child of its predecessor *)
  /\ (forall k c, c_hist s !! k = Some c ->
        exists p, is_Some (vers s !! (p, c)) /\ (forall k', k = S k' -> c_hist s !! k' = Some p))
  (* an id names at most one object *)
  /\ (forall p p' c, is_Some (vers s !! (p, c)) -> is_Some (vers s !! (p', c)) -> p = p')
  (* objects carry ids already handed out, hang below the nil version or a version that has
     been latest, and hold what was submitted under their id *)
  /\ (forall p c x, vers s !! (p, c) = Some x ->
        (0 < c)%N /\ (c < c_next s)%N /\ (p = 0%N \/ p ∈ c_hist s) /\ c_sub s !! c = Some (p, x.1))
  /\ (forall c x, c_sub s !! c = Some x -> (c < c_next s)%N)
  (* the clients *)
  /\ (forall i c, c_clients s !! i = Some c -> client_ok s c)
  /\ (forall i j c c' x, i <> j -> c_clients s !! i = Some c -> c_clients s !! j = Some c' ->
        owned c = Some x -> owned c' = Some x -> False)
  (* every result ever returned *)
  /\ Forall (result_ok s) (c_results s).

(** ** listings only name stored objects *)
Lemma ins_ver_elem x y l : x ∈ ins_ver rank y l <-> x = y \/ x ∈ l.
Proof.
  induction l as [|z l IH]; cbn.
  - rewrite elem_of_list_singleton. set_solver.
  - destruct (ver_lt rank y.1 z.1).
    + rewrite !elem_of_cons. tauto.
    + rewrite !elem_of_cons, IH. tauto.
Qed.

Lemma sorted_vers_elem (m : gmap (N * N) (N * N)) x :
  x ∈ sorted_vers rank m -> exists pl, m !! x.1 = Some (pl, x.2).
Proof.
  unfold sorted_vers. generalize (map_to_list m) (fun k v => proj1 (elem_of_map_to_list m k v)).
  intros l Hl. induction l as [|[k [pl t]] l IH]; cbn.
  - intros H. inversion H.
  - rewrite ins_ver_elem. intros [->|H].
    + exists pl. apply Hl. left.
    + apply IH; [|exact H]. intros k' v' Hin. apply Hl. right. exact Hin.
Qed.

Lemma page_elem now st parent after l more x :
  (ostore_step rank pagesz now st (QListVer parent after)).1 = PVerPage l more ->
  x ∈ l ->
  (exists pl, o_vers st !! x.1 = Some (pl, x.2))
  /\ (forall p, parent = Some p -> x.1.1 = p).
Proof.
  cbn. intros H Hx. injection H as <- _.
  apply elem_of_take in Hx as (k & Hk & _). apply elem_of_list_lookup_2 in Hk.
  assert (x ∈ filter (fun x : N * N * N => match parent with Some p => N.eqb x.1.1 p | None => true end = true)
                     (sorted_vers rank (o_vers st))) as Hf.
  { destruct after; [apply elem_of_list_filter in Hk as [_ Hk]|]; exact Hk. }
  apply elem_of_list_filter in Hf as [Hp Hs]. split.
  - apply sorted_vers_elem. exact Hs.
  - intros p ->. apply N.eqb_eq. exact Hp.
Qed.
End Chain.
