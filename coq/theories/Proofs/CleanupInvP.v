(** Cleanup of the object store interleaved with everything else (C10): the
    inductive invariant over ALL schedules of any number of clients running
    add-version, get-child-version, add-/get-snapshot AND cleanup, one
    object-store request (or list page) at a time, with drops and lost replies
    anywhere.

    Ghosts: the successive values of [latest] ([c_hist]), the next fresh id,
    what each id submitted ([c_sub]), [c_cut] -- the number of leading chain
    versions some cleanup has so far planned to delete -- and [c_best] -- the
    newest chain version for whose snapshot a cleanup has made its plan.

    The invariant says in particular: every chain version from position
    [c_cut] onward still has its object; if [c_cut > 0] the snapshot of
    [c_best] is in the store and [c_best] sits at position >= [c_cut - 1];
    what a cleanup deletes as a race loser can never join the chain, and an
    add-version whose uploaded object a cleanup removed loses its swap. *)
From TC Require Import Model.Cloud.

Record csys := {
  c_store : ostore;
  c_clients : gmap nat cpc;
  c_hist : list N;
  c_next : N;
  c_sub : gmap N (N * N);                (* id -> (parent, payload) submitted *)
  c_cut : nat;
  c_best : option N
}.

Inductive cev :=
| VStartAdd (i : nat) (p pl : N)
| VStartGet (i : nat) (p : N)
| VStartAddSnap (i : nat) (v pl : N)
| VStartGetSnap (i : nat)
| VStartCleanup (i : nat)
| VStep (i : nat) (now : N)
| VDrop (i : nat)
| VFailAfter (i : nat) (now : N).

(** position of a version in the history *)
Fixpoint pos (h : list N) (c : N) : option nat :=
  match h with
  | [] => None
  | x :: h' => if N.eqb x c then Some 0%nat else S <$> pos h' c
  end.

Section Chain.
Variable rank : N -> N.
Variable pagesz : nat.
Variable threshold : N.

Definition hist_after (st st' : ostore) (h : list N) : list N :=
  if bool_decide (o_latest st' = o_latest st) then h
  else match o_latest st' with Some c => h ++ [c] | None => h end.

Definition with_clients (s : csys) (m : gmap nat cpc) : csys :=
  {| c_store := c_store s; c_clients := m; c_hist := c_hist s; c_next := c_next s;
     c_sub := c_sub s; c_cut := c_cut s; c_best := c_best s |}.

(** the snapshot a cleanup bases its plan on, when this step completes its
    listing of snapshots *)
Definition plan_snapshot (c : cpc) (r : sresp) : option N :=
  match c, r with
  | K3 l vers acc _, PSnapPage pg false =>
      let chain := match l with Some l0 => walk_back (S (length vers)) vers l0 | None => [] end in
      latest_snapshot l chain (acc ++ pg)
  | _, _ => None
  end.

Definition ghost_after (h : list N) (cut : nat) (best : option N) (c : cpc) (r : sresp) : nat * option N :=
  match plan_snapshot c r with
  | Some s =>
      match pos h s with
      | Some ks =>
          (Nat.max cut (S ks),
           match best with
           | Some b => match pos h b with
                       | Some kb => if (kb <? ks)%nat then Some s else best
                       | None => Some s
                       end
           | None => Some s
           end)
      | None => (cut, best)
      end
  | None => (cut, best)
  end.

Definition cstep (s : csys) (e : cev) : csys :=
  let start i c :=
    match c_clients s !! i with
    | None => with_clients s (<[i := c]> (c_clients s))
    | Some _ => s
    end in
  match e with
  | VStartAdd i p pl =>
      match c_clients s !! i with
      | None =>
          if bool_decide (p = 0%N \/ p ∈ c_hist s) then
            {| c_store := c_store s; c_clients := <[i := A0 p (c_next s) pl]> (c_clients s);
               c_hist := c_hist s; c_next := (c_next s + 1)%N;
               c_sub := <[c_next s := (p, pl)]> (c_sub s); c_cut := c_cut s; c_best := c_best s |}
          else s
      | Some _ => s
      end
  | VStartGet i p => start i (G0 p [] None)
  | VStartAddSnap i v pl => start i (S0 v pl)
  | VStartGetSnap i => start i T0
  | VStartCleanup i => start i K0
  | VStep i now =>
      match c_clients s !! i with
      | Some c =>
          match cl_next c with
          | inl q =>
              let '(r, st') := ostore_step rank pagesz now (c_store s) q in
              let c' := cl_resume rank threshold c r in
              let g := ghost_after (c_hist s) (c_cut s) (c_best s) c r in
              {| c_store := st';
                 c_clients := match c' with CDone _ => delete i (c_clients s) | _ => <[i := c']> (c_clients s) end;
                 c_hist := hist_after (c_store s) st' (c_hist s); c_next := c_next s; c_sub := c_sub s;
                 c_cut := g.1; c_best := g.2 |}
          | inr _ => s
          end
      | None => s
      end
  | VDrop i => with_clients s (delete i (c_clients s))
  | VFailAfter i now =>
      match c_clients s !! i with
      | Some c =>
          match cl_next c with
          | inl q =>
              let '(_, st') := ostore_step rank pagesz now (c_store s) q in
              {| c_store := st'; c_clients := delete i (c_clients s);
                 c_hist := hist_after (c_store s) st' (c_hist s); c_next := c_next s; c_sub := c_sub s;
                 c_cut := c_cut s; c_best := c_best s |}
          | inr _ => s
          end
      | None => s
      end
  end.

Definition csys0 : csys :=
  {| c_store := ostore0; c_clients := ∅; c_hist := []; c_next := 1%N; c_sub := ∅; c_cut := 0; c_best := None |}.
End Chain.

(** the id an add-version machine still has to commit or withdraw *)
Definition owned (c : cpc) : option N :=
  match c with A0 _ c _ | A1 _ c _ _ | A2 _ c _ _ | A3 _ c => Some c | _ => None end.

(** what the invariant talks about *)
Record cview := {
  v_latest : option N; v_vers : gmap (N * N) (N * N); v_snaps : gmap N N; v_hist : list N; v_next : N;
  v_sub : gmap N (N * N); v_cut : nat; v_best : option N }.

Definition view (s : csys) : cview :=
  {| v_latest := o_latest (c_store s); v_vers := o_vers (c_store s); v_snaps := o_snaps (c_store s);
     v_hist := c_hist s; v_next := c_next s; v_sub := c_sub s; v_cut := c_cut s; v_best := c_best s |}.

Definition at_pos (v : cview) (k : nat) (c : N) : Prop := v_hist v !! k = Some c.
Definition before (v : cview) (a b : N) : Prop :=
  exists ka kb, at_pos v ka a /\ at_pos v kb b /\ (ka < kb)%nat.

Definition fresh_id (v : cview) (p c pl : N) : Prop :=
  (0 < c)%N /\ (c < v_next v)%N /\ c ∉ v_hist v /\ v_sub v !! c = Some (p, pl)
  /\ (p = 0%N \/ p ∈ v_hist v).

(** the swap of an add-version that read [l] as the latest version can no
    longer succeed *)
Definition lost (v : cview) (l : option N) : Prop :=
  match l with
  | Some p => exists k, at_pos v k p /\ (S k < length (v_hist v))%nat
  | None => v_hist v <> []
  end.

(** an object (p, c) seen in a listing: its id was handed out with that parent *)
Definition listed (v : cview) (x : N * N * N) : Prop := exists pl, v_sub v !! x.1.2 = Some (x.1.1, pl).

(** (p, c) lost the race: another child of p is on the chain *)
Definition loser (v : cview) (d : N * N) : Prop :=
  (exists pl, v_sub v !! d.2 = Some (d.1, pl))
  /\ exists c' pl', c' ∈ v_hist v /\ c' <> d.2 /\ v_sub v !! c' = Some (d.1, pl').

(** a snapshot that may be deleted: of a version that lost the race, or of a
    chain version older than [best] *)
Definition snap_del_ok (v : cview) (x : N) : Prop :=
  x = 0%N \/ (exists p, loser v (p, x)) \/ exists b, v_best v = Some b /\ before v x b.

(** a chain version below the cut *)
Definition old_ok (v : cview) (d : N * N) : Prop :=
  exists k pl, at_pos v k d.2 /\ (k < v_cut v)%nat /\ v_sub v !! d.2 = Some (d.1, pl).

Definition kl (v : cview) (l : option N) : Prop := forall l0, l = Some l0 -> l0 ∈ v_hist v.

Definition client_ok (v : cview) (c : cpc) : Prop :=
  match c with
  | A0 p c pl => fresh_id v p c pl /\ (forall p', v_vers v !! (p', c) = None)
  | A1 p c pl l => fresh_id v p c pl /\ (forall p', v_vers v !! (p', c) = None)
                   /\ (forall l0, l = Some l0 -> l0 = p /\ l0 ∈ v_hist v)
  | A2 p c pl l => fresh_id v p c pl
                   /\ (forall p', is_Some (v_vers v !! (p', c)) -> p' = p)
                   /\ (is_Some (v_vers v !! (p, c)) \/ lost v l)
                   /\ (forall l0, l = Some l0 -> l0 = p /\ l0 ∈ v_hist v)
  | A3 p c => (c < v_next v)%N /\ c ∉ v_hist v /\ (forall p', is_Some (v_vers v !! (p', c)) -> p' = p)
  | A4 => True
  | A5 c => c ∈ v_hist v
  | G0 _ acc _ => Forall (fun c => (0 < c)%N) acc
  | G1 _ ch => Forall (fun c => (0 < c)%N) ch
  | G2 _ todo cur ne _ best =>
      Forall (fun c => (0 < c)%N) todo /\ (0 < cur)%N /\ (ne = true -> cur ∈ v_hist v)
      /\ (forall b, best = Some b -> b ∈ v_hist v)
  | G3 _ c => c ∈ v_hist v
  | S0 _ _ | T0 | T1 _ => True
  | K0 => True
  | K1 l acc _ => kl v l /\ Forall (listed v) acc
  | K2 l vers dels => kl v l /\ Forall (listed v) vers /\ Forall (loser v) dels
  | K3 l vers acc _ => kl v l /\ Forall (listed v) vers
                       /\ Forall (fun x => x ∈ dom (v_snaps v) \/ snap_del_ok v x) acc
  | K4 sdels vdels => Forall (snap_del_ok v) sdels /\ Forall (old_ok v) vdels
  | K5 vdels => Forall (old_ok v) vdels
  | CDone _ => False
  end.

Definition Core (v : cview) : Prop :=
  (* the ghost history tracks latest *)
  v_latest v = last (v_hist v)
  /\ NoDup (v_hist v)
  /\ (0 < v_next v)%N
  /\ (forall c, c ∈ v_hist v -> (0 < c)%N /\ (c < v_next v)%N)
  (* every version on the chain was submitted as the child of its predecessor
     (the first one as a child of the nil version), and from the cut onward
     its object is in the store *)
  /\ (forall k c, at_pos v k c ->
        exists p pl, v_sub v !! c = Some (p, pl)
                  /\ (forall k', k = S k' -> at_pos v k' p) /\ (k = 0%nat -> p = 0%N)
                  /\ ((v_cut v <= k)%nat -> is_Some (v_vers v !! (p, c))))
  (* objects carry ids already handed out, hang below the nil version or a version that has
     been latest, and hold what was submitted under their id *)
  /\ (forall p c x, v_vers v !! (p, c) = Some x ->
        (0 < c)%N /\ (c < v_next v)%N /\ (p = 0%N \/ p ∈ v_hist v) /\ v_sub v !! c = Some (p, x.1))
  /\ (forall c x, v_sub v !! c = Some x -> (0 < c)%N /\ (c < v_next v)%N)
  (* retention *)
  /\ (v_cut v <= length (v_hist v))%nat
  /\ (forall b, v_best v = Some b -> b ∈ dom (v_snaps v) /\ b ∈ v_hist v)
  /\ ((0 < v_cut v)%nat -> exists b kb, v_best v = Some b /\ at_pos v kb b /\ (v_cut v <= S kb)%nat).

Definition Own (m : gmap nat cpc) : Prop :=
  forall i j c c' x, i <> j -> m !! i = Some c -> m !! j = Some c' ->
    owned c = Some x -> owned c' = Some x -> False.

Definition CInv (s : csys) : Prop :=
  Core (view s)
  /\ (forall i c, c_clients s !! i = Some c -> client_ok (view s) c)
  /\ Own (c_clients s).

(** ** extension: what only grows *)
Definition ext (v v' : cview) : Prop :=
  v_hist v `prefix_of` v_hist v'
  /\ (forall c x, v_sub v !! c = Some x -> v_sub v' !! c = Some x)
  /\ (v_next v <= v_next v')%N
  /\ (v_cut v <= v_cut v')%nat
  /\ (forall b, v_best v = Some b -> exists b', v_best v' = Some b' /\ (b' = b \/ before v' b b')).

Lemma ext_refl v : ext v v.
Proof. repeat split; auto; try reflexivity; try lia. intros b Hb. exists b. auto. Qed.

Lemma at_pos_ext v v' k c : ext v v' -> at_pos v k c -> at_pos v' k c.
Proof. intros (H & _) Hk. unfold at_pos in *. eapply prefix_lookup; eauto. Qed.

Lemma in_hist_ext v v' c : ext v v' -> c ∈ v_hist v -> c ∈ v_hist v'.
Proof.
  intros E Hc. apply elem_of_list_lookup in Hc as [k Hk]. eapply elem_of_list_lookup_2. eapply at_pos_ext; eauto.
Qed.

Lemma before_ext v v' a b : ext v v' -> before v a b -> before v' a b.
Proof. intros E (ka & kb & H1 & H2 & H3). exists ka, kb. eauto using at_pos_ext. Qed.

Lemma before_trans v a b c : NoDup (v_hist v) -> before v a b -> before v b c -> before v a c.
Proof.
  intros ND (ka & kb & H1 & H2 & H3) (kb' & kc & H4 & H5 & H6).
  assert (kb = kb') as -> by (eapply NoDup_lookup; eauto).
  exists ka, kc. repeat split; auto. lia.
Qed.

Lemma kl_ext v v' l : ext v v' -> kl v l -> kl v' l.
Proof. intros E H l0 Hl. eapply in_hist_ext; eauto. Qed.

Lemma listed_ext v v' x : ext v v' -> listed v x -> listed v' x.
Proof. intros (_ & E & _) [pl H]. exists pl. auto. Qed.

Lemma loser_ext v v' d : ext v v' -> loser v d -> loser v' d.
Proof.
  intros E ([pl H1] & c' & pl' & H2 & H3 & H4). pose proof E as (_ & Es & _). split; [eauto|].
  exists c', pl'. repeat split; eauto using in_hist_ext.
Qed.

Lemma lost_ext v v' l : ext v v' -> lost v l -> lost v' l.
Proof.
  intros E. pose proof E as (Hp & _). destruct l as [p|]; cbn.
  - intros (k & H1 & H2). exists k. split; [eapply at_pos_ext; eauto|].
    apply prefix_length in Hp. lia.
  - intros Hne Hnil. rewrite Hnil in Hp. apply prefix_nil_inv in Hp. contradiction.
Qed.

Lemma old_ok_ext v v' d : ext v v' -> old_ok v d -> old_ok v' d.
Proof.
  intros E (k & pl & H1 & H2 & H3). pose proof E as (_ & Es & _ & Ec & _).
  exists k, pl. repeat split; eauto using at_pos_ext. lia.
Qed.

Lemma snap_del_ok_ext v v' x : NoDup (v_hist v') -> ext v v' -> snap_del_ok v x -> snap_del_ok v' x.
Proof.
  intros ND E [->|[[p H]|(b & Hb & Hx)]].
  - left. reflexivity.
  - right. left. exists p. eapply loser_ext; eauto.
  - right. right. pose proof E as (_ & _ & _ & _ & Eb). destruct (Eb b Hb) as (b' & Hb' & [->|Hbb]).
    + exists b. split; [exact Hb'|]. eapply before_ext; eauto.
    + exists b'. split; [exact Hb'|]. eapply before_trans; eauto. eapply before_ext; eauto.
Qed.

(** ** how a step moves the view, as seen by the clients that did not make it *)
Definition moved (v v' : cview) (x : N) : Prop :=
  ext v v'
  /\ (forall p c, c <> x -> v_vers v' !! (p, c) = v_vers v !! (p, c))
  /\ (forall c, c ∈ v_hist v' -> c ∈ v_hist v \/ c = x)
  /\ (forall y, y ∈ dom (v_snaps v) -> y ∈ dom (v_snaps v') \/ snap_del_ok v' y).

Lemma fresh_id_moved v v' x p c pl : moved v v' x -> c <> x -> fresh_id v p c pl -> fresh_id v' p c pl.
Proof.
  intros (E & M1 & M2 & M3) Hne (F1 & F2 & F3 & F4 & F5). pose proof E as (_ & Es & En & _).
  unfold fresh_id. repeat split; auto.
  - lia.
  - intros Hin. apply M2 in Hin as [Hin| ->]; [exact (F3 Hin)|exact (Hne eq_refl)].
  - destruct F5 as [F5|F5]; [left; exact F5|right; eapply in_hist_ext; eauto].
Qed.

Lemma client_ok_moved v v' x c :
  NoDup (v_hist v') -> moved v v' x -> owned c <> Some x -> client_ok v c -> client_ok v' c.
Proof.
  intros ND M Hown. pose proof M as (E & M1 & M2 & M3). pose proof E as (_ & Es & En & _).
  destruct c; cbn in *; try exact (fun H => H).
  - intros [F Hn]. assert (c <> x) as Hne by congruence.
    split; [eapply fresh_id_moved; eauto|]. intros p'. rewrite M1 by exact Hne. apply Hn.
  - intros (F & Hn & Hl). assert (c <> x) as Hne by congruence.
    split; [eapply fresh_id_moved; eauto|]. split.
    + intros p'. rewrite M1 by exact Hne. apply Hn.
    + intros l0 Hl0. destruct (Hl l0 Hl0). split; [assumption|eapply in_hist_ext; eauto].
  - intros (F & Hu & He & Hl). assert (c <> x) as Hne by congruence.
    split; [eapply fresh_id_moved; eauto|]. split; [|split].
    + intros p'. rewrite M1 by exact Hne. apply Hu.
    + rewrite M1 by exact Hne. destruct He as [He|He]; [left; exact He|right; eapply lost_ext; eauto].
    + intros l0 Hl0. destruct (Hl l0 Hl0). split; [assumption|eapply in_hist_ext; eauto].
  - intros (F1 & F2 & Hu). assert (c <> x) as Hne by congruence.
    split; [lia|]. split.
    + intros Hin. apply M2 in Hin as [Hin| ->]; [exact (F2 Hin)|exact (Hne eq_refl)].
    + intros p'. rewrite M1 by exact Hne. apply Hu.
  - intros H. eapply in_hist_ext; eauto.
  - intros (H1 & H2 & H3 & H4). split; [exact H1|]. split; [exact H2|]. split.
    + intros Hne. eapply in_hist_ext; eauto.
    + intros b Hb. eapply in_hist_ext; eauto.
  - intros H. eapply in_hist_ext; eauto.
  - intros [H1 H2]. split; [eapply kl_ext; eauto|]. eapply Forall_impl; [exact H2|]. intros y. apply listed_ext. exact E.
  - intros (H1 & H2 & H3). split; [eapply kl_ext; eauto|]. split.
    + eapply Forall_impl; [exact H2|]. intros y. apply listed_ext. exact E.
    + eapply Forall_impl; [exact H3|]. intros y. apply loser_ext. exact E.
  - intros (H1 & H2 & H3). split; [eapply kl_ext; eauto|]. split.
    + eapply Forall_impl; [exact H2|]. intros y. apply listed_ext. exact E.
    + eapply Forall_impl; [exact H3|]. intros y [Hy|Hy].
      * apply M3 in Hy. exact Hy.
      * right. eapply snap_del_ok_ext; eauto.
  - intros [H1 H2]. split.
    + eapply Forall_impl; [exact H1|]. intros y. apply snap_del_ok_ext; auto.
    + eapply Forall_impl; [exact H2|]. intros y. apply old_ok_ext. exact E.
  - intros H. eapply Forall_impl; [exact H|]. intros y. apply old_ok_ext. exact E.
Qed.

(** ** facts that follow from [Core] *)
Lemma latest_in_hist v l : Core v -> v_latest v = Some l -> l ∈ v_hist v.
Proof.
  intros (I1 & _) H. rewrite I1 in H. rewrite last_lookup in H. eapply elem_of_list_lookup_2. exact H.
Qed.

Lemma parent_position v k c p pl :
  Core v -> at_pos v k c -> v_sub v !! c = Some (p, pl) ->
  (forall k', k = S k' -> at_pos v k' p) /\ (k = 0%nat -> p = 0%N).
Proof.
  intros (_ & _ & _ & _ & I5 & _) Hk Hs. destruct (I5 k c Hk) as (p0 & pl0 & Hs0 & H1 & H2 & _).
  rewrite Hs in Hs0. injection Hs0 as -> ->. auto.
Qed.

(** two chain versions submitted under the same parent are the same version *)
Lemma same_parent_same_version v c1 c2 p pl1 pl2 :
  Core v -> c1 ∈ v_hist v -> c2 ∈ v_hist v ->
  v_sub v !! c1 = Some (p, pl1) -> v_sub v !! c2 = Some (p, pl2) -> c1 = c2.
Proof.
  intros HC H1 H2 S1 S2. pose proof HC as (_ & ND & _ & I4 & _).
  apply elem_of_list_lookup in H1 as [k1 K1]. apply elem_of_list_lookup in H2 as [k2 K2].
  destruct (parent_position v k1 c1 p pl1 HC K1 S1) as [P1 Z1].
  destruct (parent_position v k2 c2 p pl2 HC K2 S2) as [P2 Z2].
  assert (k1 = k2) as ->; [|unfold at_pos in *; congruence].
  destruct k1 as [|k1'], k2 as [|k2']; [reflexivity| | |].
  - specialize (Z1 eq_refl). specialize (P2 _ eq_refl). subst p.
    apply elem_of_list_lookup_2 in P2. apply I4 in P2. lia.
  - specialize (Z2 eq_refl). specialize (P1 _ eq_refl). subst p.
    apply elem_of_list_lookup_2 in P1. apply I4 in P1. lia.
  - specialize (P1 _ eq_refl). specialize (P2 _ eq_refl). f_equal. eapply NoDup_lookup; eauto.
Qed.

(** a race loser is not on the chain (and, by stability of [loser], never will be) *)
Lemma loser_not_on_chain v d : Core v -> loser v d -> d.2 ∉ v_hist v.
Proof.
  intros HC ([pl H1] & c' & pl' & H2 & H3 & H4) Hin.
  apply H3. symmetry. eapply same_parent_same_version; eauto.
Qed.

(** whoever read [l] as latest and has [lost] cannot swap any more *)
Lemma lost_not_latest v l : Core v -> lost v l -> v_latest v <> l.
Proof.
  intros (I1 & ND & _) HL Heq. rewrite I1 in Heq. destruct l as [p|]; cbn in HL.
  - destruct HL as (k & Hk & Hlt). rewrite last_lookup in Heq.
    assert (k = pred (length (v_hist v))) by (eapply NoDup_lookup; eauto). lia.
  - apply last_None in Heq. contradiction.
Qed.

(** the loser of a race whose owner is still waiting to swap has lost *)
Lemma loser_owner_lost v p c pl l :
  Core v -> fresh_id v p c pl -> (forall l0, l = Some l0 -> l0 = p /\ l0 ∈ v_hist v) ->
  loser v (p, c) -> lost v l.
Proof.
  intros HC F Hl (_ & c' & pl' & Hin & Hne & Hs). cbn in *.
  destruct l as [l0|]; cbn.
  - destruct (Hl l0 eq_refl) as [-> Hp]. apply elem_of_list_lookup in Hin as [k' Hk'].
    destruct (parent_position v k' c' p pl' HC Hk' Hs) as [P Z].
    destruct k' as [|k''].
    + specialize (Z eq_refl). pose proof HC as (_ & _ & _ & I4 & _). apply I4 in Hp. lia.
    + exists k''. split; [apply P; reflexivity|]. apply lookup_lt_Some in Hk'. lia.
  - intros Hnil. rewrite Hnil in Hin. inversion Hin.
Qed.

(** ** the ways a step changes the view *)
Definition set_vers (v : cview) (m : gmap (N * N) (N * N)) : cview :=
  {| v_latest := v_latest v; v_vers := m; v_snaps := v_snaps v; v_hist := v_hist v; v_next := v_next v;
     v_sub := v_sub v; v_cut := v_cut v; v_best := v_best v |}.
Definition set_snaps (v : cview) (m : gmap N N) : cview :=
  {| v_latest := v_latest v; v_vers := v_vers v; v_snaps := m; v_hist := v_hist v; v_next := v_next v;
     v_sub := v_sub v; v_cut := v_cut v; v_best := v_best v |}.
Definition put_view (v : cview) (p c pl now : N) := set_vers v (<[(p, c) := (pl, now)]> (v_vers v)).
Definition del_view (v : cview) (p c : N) := set_vers v (delete (p, c) (v_vers v)).
Definition putsnap_view (v : cview) (x pl : N) := set_snaps v (<[x := pl]> (v_snaps v)).
Definition delsnap_view (v : cview) (x : N) := set_snaps v (delete x (v_snaps v)).
Definition cas_view (v : cview) (c : N) : cview :=
  {| v_latest := Some c; v_vers := v_vers v; v_snaps := v_snaps v; v_hist := v_hist v ++ [c]; v_next := v_next v;
     v_sub := v_sub v; v_cut := v_cut v; v_best := v_best v |}.
Definition plan_view (v : cview) (cut : nat) (best : option N) : cview :=
  {| v_latest := v_latest v; v_vers := v_vers v; v_snaps := v_snaps v; v_hist := v_hist v; v_next := v_next v;
     v_sub := v_sub v; v_cut := cut; v_best := best |}.
Definition start_view (v : cview) (p pl : N) : cview :=
  {| v_latest := v_latest v; v_vers := v_vers v; v_snaps := v_snaps v; v_hist := v_hist v;
     v_next := (v_next v + 1)%N; v_sub := <[v_next v := (p, pl)]> (v_sub v); v_cut := v_cut v; v_best := v_best v |}.

(** views that differ only in the stored objects extend each other *)
Lemma ext_same v v' :
  v_hist v' = v_hist v -> v_sub v' = v_sub v -> v_next v' = v_next v -> v_cut v' = v_cut v -> v_best v' = v_best v ->
  ext v v'.
Proof.
  intros H1 H2 H3 H4 H5. unfold ext. rewrite H1, H2, H3, H4, H5. repeat split; auto; try reflexivity; try lia.
  intros b Hb. exists b. auto.
Qed.

Lemma loser_same v v' d : v_hist v' = v_hist v -> v_sub v' = v_sub v -> loser v d -> loser v' d.
Proof. unfold loser. intros -> ->. auto. Qed.
Lemma before_same v v' a b : v_hist v' = v_hist v -> before v a b -> before v' a b.
Proof. unfold before, at_pos. intros ->. auto. Qed.
Lemma snap_del_ok_same v v' x :
  v_hist v' = v_hist v -> v_sub v' = v_sub v -> v_best v' = v_best v -> snap_del_ok v x -> snap_del_ok v' x.
Proof.
  intros H1 H2 H3 [->|[[p H]|(b & Hb & Hx)]].
  - left. reflexivity.
  - right. left. exists p. eapply loser_same; eauto.
  - right. right. exists b. rewrite H3. split; [exact Hb|]. eapply before_same; eauto.
Qed.

Lemma moved_put v p c pl now : moved v (put_view v p c pl now) c.
Proof.
  split; [apply ext_same; reflexivity|]. split; [|split]; cbn; auto.
  intros p' c' Hne. apply lookup_insert_ne. intros [= _ ->]. apply Hne. reflexivity.
Qed.
Lemma moved_del v p c : moved v (del_view v p c) c.
Proof.
  split; [apply ext_same; reflexivity|]. split; [|split]; cbn; auto.
  intros p' c' Hne. apply lookup_delete_ne. intros [= _ ->]. apply Hne. reflexivity.
Qed.
Lemma moved_putsnap v x pl y : moved v (putsnap_view v x pl) y.
Proof.
  split; [apply ext_same; reflexivity|]. split; [|split]; cbn; auto.
  intros z Hz. left. rewrite dom_insert. set_solver.
Qed.
Lemma moved_delsnap v x y : snap_del_ok v x -> moved v (delsnap_view v x) y.
Proof.
  intros Hx. split; [apply ext_same; reflexivity|]. split; [|split]; cbn; auto.
  intros z Hz. destruct (decide (z = x)) as [->|Hne].
  - right. eapply snap_del_ok_same; [..|exact Hx]; reflexivity.
  - left. rewrite dom_delete. set_solver.
Qed.
Lemma moved_cas v c : moved v (cas_view v c) c.
Proof.
  split; [|split; [|split]]; cbn; auto.
  - unfold ext; cbn. repeat split; auto; try lia.
    + apply prefix_app_r. reflexivity.
    + intros b Hb. exists b. auto.
  - intros c' Hc. apply elem_of_app in Hc as [Hc|Hc]; [left; exact Hc|]. right.
    apply elem_of_list_singleton in Hc. exact Hc.
Qed.
Lemma moved_start v p pl x : Core v -> moved v (start_view v p pl) x.
Proof.
  intros (_ & _ & _ & _ & _ & _ & I8 & _). split; [|split; [|split]]; cbn; auto.
  unfold ext; cbn. repeat split; auto; try reflexivity; try lia.
  - intros c y Hc. rewrite lookup_insert_ne; [exact Hc|]. intros <-. apply I8 in Hc. lia.
  - intros b Hb. exists b. auto.
Qed.

(** *** put: an add-version machine at [A1] uploads its object *)
Lemma Core_put v p c pl l now :
  Core v -> client_ok v (A1 p c pl l) -> Core (put_view v p c pl now).
Proof.
  intros (I1 & I2 & I3 & I4 & I5 & I7 & I8 & J1 & J2 & J3) ((F1 & F2 & F3 & F4 & F5) & Hn & Hl).
  unfold Core, put_view, at_pos in *; cbn. repeat split; auto; try (apply I4; assumption).
  - intros k c0 Hk. destruct (I5 k c0 Hk) as (p0 & pl0 & Hs & Hp & Hz & Ho). exists p0, pl0.
    repeat split; auto. intros Hc. rewrite lookup_insert_ne; [auto|].
    intros [= _ ->]. apply F3. eapply elem_of_list_lookup_2. exact Hk.
  - destruct (decide ((p0, c0) = (p, c))) as [[= -> ->]|Hne]; [assumption|].
    rewrite lookup_insert_ne in H by congruence. apply (I7 _ _ _ H).
  - destruct (decide ((p0, c0) = (p, c))) as [[= -> ->]|Hne]; [assumption|].
    rewrite lookup_insert_ne in H by congruence. apply (I7 _ _ _ H).
  - destruct (decide ((p0, c0) = (p, c))) as [[= -> ->]|Hne]; [assumption|].
    rewrite lookup_insert_ne in H by congruence. apply (I7 _ _ _ H).
  - destruct (decide ((p0, c0) = (p, c))) as [[= -> ->]|Hne].
    + rewrite lookup_insert in H. injection H as <-. exact F4.
    + rewrite lookup_insert_ne in H by congruence. apply (I7 _ _ _ H).
  - apply (I8 _ _ H).
  - apply (I8 _ _ H).
  - apply (J2 _ H).
  - apply (J2 _ H).
Qed.

Lemma ok_after_put v p c pl l now :
  client_ok v (A1 p c pl l) -> client_ok (put_view v p c pl now) (A2 p c pl l).
Proof.
  intros (F & Hn & Hl). cbn. split; [exact F|]. split; [|split; [|exact Hl]].
  - intros q Hq. destruct (decide (q = p)) as [|Hqp]; [assumption|].
    rewrite lookup_insert_ne in Hq by congruence. rewrite Hn in Hq. destruct Hq as [? Hq]. discriminate.
  - left. rewrite lookup_insert. eauto.
Qed.

(** *** swap: an add-version machine at [A2] commits its version *)
Lemma Core_cas v p c pl l :
  Core v -> client_ok v (A2 p c pl l) -> v_latest v = l -> Core (cas_view v c).
Proof.
  intros HC ((F1 & F2 & F3 & F4 & F5) & Hu & He & Hl) Hlat.
  assert (is_Some (v_vers v !! (p, c))) as Hobj.
  { destruct He as [He|He]; [exact He|]. exfalso. eapply lost_not_latest; eauto. }
  pose proof HC as (I1 & I2 & I3 & I4 & I5 & I7 & I8 & J1 & J2 & J3).
  unfold Core, cas_view, at_pos in *; cbn. repeat split; auto.
  - rewrite last_snoc. reflexivity.
  - apply NoDup_app. split; [exact I2|]. split; [|apply NoDup_singleton].
    intros x Hx Hx'. apply elem_of_list_singleton in Hx'. subst x. exact (F3 Hx).
  - apply elem_of_app in H as [H|H]; [apply I4; exact H|]. apply elem_of_list_singleton in H. subst. exact F1.
  - apply elem_of_app in H as [H|H]; [apply I4; exact H|]. apply elem_of_list_singleton in H. subst. exact F2.
  - intros k c0 Hk. destruct (decide (k < length (v_hist v))%nat) as [Hlt|Hge].
    + rewrite lookup_app_l in Hk by exact Hlt. destruct (I5 k c0 Hk) as (p0 & pl0 & Hs & Hp & Hz & Ho).
      exists p0, pl0. repeat split; auto. intros k' ->. rewrite lookup_app_l by lia. apply Hp. reflexivity.
    + rewrite lookup_app_r in Hk by lia.
      destruct (k - length (v_hist v))%nat eqn:Ek; [|destruct n; discriminate].
      cbn in Hk. injection Hk as <-. exists p, pl. split; [exact F4|]. split; [|split].
      * intros k' ->. assert (k' = pred (length (v_hist v))) as -> by lia.
        rewrite lookup_app_l by lia. rewrite <- last_lookup, <- I1, Hlat.
        destruct l as [l0|].
        -- destruct (Hl l0 eq_refl) as [-> _]. reflexivity.
        -- exfalso. rewrite Hlat in I1. symmetry in I1. apply last_None in I1. rewrite I1 in *. cbn in *. lia.
      * intros ->. assert (v_hist v = []) as Hnil by (destruct (v_hist v); [reflexivity|cbn in *; lia]).
        rewrite Hnil in F5. destruct F5 as [F5|F5]; [exact F5|inversion F5].
      * intros _. exact Hobj.
  - apply (I7 _ _ _ H).
  - apply (I7 _ _ _ H).
  - destruct (I7 _ _ _ H) as (_ & _ & [Hp|Hp] & _); [left; exact Hp|right; apply elem_of_app; left; exact Hp].
  - apply (I7 _ _ _ H).
  - apply (I8 _ _ H).
  - apply (I8 _ _ H).
  - rewrite app_length. cbn. lia.
  - apply (J2 _ H).
  - apply elem_of_app. left. apply (J2 _ H).
  - intros Hc. destruct (J3 Hc) as (b & kb & Hb & Hkb & Hle). exists b, kb. repeat split; auto.
    rewrite lookup_app_l; [exact Hkb|]. eapply lookup_lt_Some. exact Hkb.
Qed.

(** *** delete of a version object that is not needed on the chain *)
Lemma Core_del v p c :
  Core v -> (c ∉ v_hist v \/ old_ok v (p, c)) -> Core (del_view v p c).
Proof.
  intros (I1 & I2 & I3 & I4 & I5 & I7 & I8 & J1 & J2 & J3) Hd.
  unfold Core, del_view, at_pos in *; cbn. repeat split; auto; try (apply I4; assumption).
  - intros k c0 Hk. destruct (I5 k c0 Hk) as (p0 & pl0 & Hs & Hp & Hz & Ho). exists p0, pl0.
    repeat split; auto. intros Hc. rewrite lookup_delete_ne; [auto|].
    intros [= _ ->]. destruct Hd as [Hd|(k1 & pl1 & Hk1 & Hlt & _)].
    + apply Hd. eapply elem_of_list_lookup_2. exact Hk.
    + cbn in Hk1. unfold at_pos in Hk1. assert (k = k1) by (eapply NoDup_lookup; eauto). lia.
  - apply lookup_delete_Some in H as [_ H]. apply (I7 _ _ _ H).
  - apply lookup_delete_Some in H as [_ H]. apply (I7 _ _ _ H).
  - apply lookup_delete_Some in H as [_ H]. apply (I7 _ _ _ H).
  - apply lookup_delete_Some in H as [_ H]. apply (I7 _ _ _ H).
  - apply (I8 _ _ H).
  - apply (I8 _ _ H).
  - apply (J2 _ H).
  - apply (J2 _ H).
Qed.

(** the owner of an id whose object a cleanup deletes as a race loser *)
Lemma client_ok_loser_deleted v p c c0 :
  Core v -> client_ok v c0 -> owned c0 = Some c -> loser v (p, c) -> client_ok (del_view v p c) c0.
Proof.
  intros HC Hok Ho HL.
  assert (forall p0 c1 pl0, fresh_id v p0 c1 pl0 -> fresh_id (del_view v p c) p0 c1 pl0) as HF by (intros; assumption).
  destruct c0; cbn in Ho; try discriminate; injection Ho as ->; cbn in *.
  - destruct Hok as [F Hn]. split; [exact F|]. intros p'. apply lookup_delete_None. right. apply Hn.
  - destruct Hok as (F & Hn & Hl). split; [exact F|]. split; [|exact Hl]. intros p'. apply lookup_delete_None. right. apply Hn.
  - destruct Hok as (F & Hu & He & Hl). split; [exact F|]. split; [|split; [|exact Hl]].
    + intros p' [y Hy]. apply lookup_delete_Some in Hy as [_ Hy]. apply Hu. eauto.
    + right. assert (p = p0) as ->.
      { destruct HL as ([pl1 H1] & _). cbn in H1. destruct F as (_ & _ & _ & F4 & _). congruence. }
      assert (lost v l) as HLost by (eapply loser_owner_lost; eauto).
      destruct l as [q|]; cbn in *; exact HLost.
  - destruct Hok as (F1 & F2 & Hu). split; [exact F1|]. split; [exact F2|].
    intros p' [y Hy]. apply lookup_delete_Some in Hy as [_ Hy]. apply Hu. eauto.
Qed.

(** the owner of an id cannot be affected by the deletion of a chain object *)
Lemma owned_not_on_chain v c0 c : client_ok v c0 -> owned c0 = Some c -> c ∉ v_hist v.
Proof.
  destruct c0; cbn; try discriminate; intros H [= <-].
  - destruct H as [(_ & _ & H & _) _]. exact H.
  - destruct H as [(_ & _ & H & _) _]. exact H.
  - destruct H as [(_ & _ & H & _) _]. exact H.
  - destruct H as (_ & H & _). exact H.
Qed.

(** *** snapshots *)
Lemma Core_putsnap v x pl : Core v -> Core (putsnap_view v x pl).
Proof.
  intros (I1 & I2 & I3 & I4 & I5 & I7 & I8 & J1 & J2 & J3).
  unfold Core, putsnap_view, at_pos in *; cbn. repeat split; auto;
    try (apply I4; assumption); try (apply (I7 _ _ _ H)); try (apply (I8 _ _ H)); try (apply (J2 _ H)).
  rewrite dom_insert. apply elem_of_union. right. apply (J2 _ H).
Qed.

Lemma Core_delsnap v x : Core v -> snap_del_ok v x -> Core (delsnap_view v x).
Proof.
  intros HC Hx. pose proof HC as (I1 & I2 & I3 & I4 & I5 & I7 & I8 & J1 & J2 & J3).
  unfold Core, delsnap_view, at_pos in *; cbn. repeat split; auto;
    try (apply I4; assumption); try (apply (I7 _ _ _ H)); try (apply (I8 _ _ H)); try (apply (J2 _ H)).
  rewrite dom_delete. apply elem_of_difference. split; [apply (J2 _ H)|].
  intros Hbx. apply elem_of_singleton in Hbx. subst b.
  destruct Hx as [->|[[p HL]|(b & Hb & ka & kb & Ha & Hb' & Hlt)]].
  - destruct (J2 _ H) as [_ Hin]. apply I4 in Hin. lia.
  - apply (loser_not_on_chain v (p, x) HC HL). apply (J2 _ H).
  - rewrite H in Hb. injection Hb as <-. unfold at_pos in *.
    assert (ka = kb) by (eapply NoDup_lookup; eauto). lia.
Qed.

(** *** a new add-version call takes the next id *)
Lemma Core_start v p pl : Core v -> Core (start_view v p pl).
Proof.
  intros (I1 & I2 & I3 & I4 & I5 & I7 & I8 & J1 & J2 & J3).
  unfold Core, start_view, at_pos in *; cbn. repeat split; auto; try lia; try (apply I4; assumption).
  - destruct (I4 _ H) as [_ H']. lia.
  - intros k c0 Hk. destruct (I5 k c0 Hk) as (p0 & pl0 & Hs & Hp & Hz & Ho). exists p0, pl0.
    repeat split; auto. rewrite lookup_insert_ne; [exact Hs|]. intros <-. apply I8 in Hs. lia.
  - apply (I7 _ _ _ H).
  - destruct (I7 _ _ _ H) as (_ & H' & _). lia.
  - apply (I7 _ _ _ H).
  - destruct (I7 _ _ _ H) as (_ & Hlt & _ & Hs). rewrite lookup_insert_ne by lia. exact Hs.
  - destruct (decide (c = v_next v)) as [->|Hne]; [lia|].
    rewrite lookup_insert_ne in H by congruence. apply (I8 _ _ H).
  - destruct (decide (c = v_next v)) as [->|Hne]; [lia|].
    rewrite lookup_insert_ne in H by congruence. apply I8 in H. lia.
  - apply (J2 _ H).
  - apply (J2 _ H).
Qed.

(** ** the chain a cleanup reconstructs from its listing is the true chain *)
From TC Require Import Proofs.CloudP.

Lemma pos_Some h c k : pos h c = Some k -> h !! k = Some c.
Proof.
  revert k. induction h as [|x h IH]; intros k; cbn; [discriminate|].
  destruct (N.eqb_spec x c) as [->|Hne].
  - intros [= <-]. reflexivity.
  - destruct (pos h c) as [k0|]; cbn; [|discriminate]. intros [= <-]. cbn. apply IH. reflexivity.
Qed.

Lemma pos_None h c : pos h c = None -> c ∉ h.
Proof.
  induction h as [|x h IH]; cbn; [intros _ H; inversion H|].
  destruct (N.eqb_spec x c) as [->|Hne]; [discriminate|].
  destruct (pos h c) as [k0|]; cbn; [discriminate|]. intros _ Hin.
  apply elem_of_cons in Hin as [->|Hin]; [congruence|]. apply IH; auto.
Qed.

Lemma parent_of_listed v vers c p :
  Forall (listed v) vers -> parent_of vers c = Some p -> exists pl, v_sub v !! c = Some (p, pl).
Proof.
  intros HF H. unfold parent_of in H. destruct (find _ vers) as [x|] eqn:E; [|discriminate].
  injection H as <-. apply find_some in E as [Hin Hc]. apply N.eqb_eq in Hc.
  rewrite Forall_forall in HF. destruct (HF x) as [pl Hpl]; [apply elem_of_list_In; exact Hin|].
  rewrite Hc in Hpl. eauto.
Qed.

Fixpoint chain_ok (v : cview) (k : nat) (chain : list (N * N)) {struct chain} : Prop :=
  match chain with
  | [] => True
  | (c, p) :: rest =>
      at_pos v k c /\ (exists pl, v_sub v !! c = Some (p, pl))
      /\ match k with O => rest = [] | S k' => chain_ok v k' rest end
  end.

Lemma walk_ok v vers fuel : forall k c,
  Core v -> Forall (listed v) vers -> at_pos v k c -> chain_ok v k (walk_back fuel vers c).
Proof.
  induction fuel as [|f IH]; intros k c HC HF Hk; cbn; [exact I|].
  destruct (parent_of vers c) as [p|] eqn:Ep; [|exact I].
  destruct (parent_of_listed v vers c p HF Ep) as [pl Hs]. cbn.
  split; [exact Hk|]. split; [eauto|].
  destruct (parent_position v k c p pl HC Hk Hs) as [P Z].
  destruct k as [|k'].
  - specialize (Z eq_refl). subst p. destruct f as [|f']; [reflexivity|]. cbn.
    destruct (parent_of vers 0%N) as [q|] eqn:Eq; [|reflexivity].
    destruct (parent_of_listed v vers 0%N q HF Eq) as [pl0 Hs0].
    pose proof HC as (_ & _ & _ & _ & _ & _ & I8 & _). apply I8 in Hs0. lia.
  - apply IH; auto.
Qed.

(** the versions named by the reconstructed chain, newest first, with their positions *)
Lemma chain_versions_positions v : forall chain k c i x,
  Core v -> chain_ok v k chain -> at_pos v k c -> (c :: map snd chain) !! i = Some x ->
  (x = 0%N /\ i = S k) \/ ((i <= k)%nat /\ at_pos v (k - i) x).
Proof.
  induction chain as [|[c1 p1] rest IH]; intros k c i x HC Hok Hk Hi.
  - destruct i; cbn in Hi; [|discriminate]. injection Hi as <-. right. split; [lia|]. rewrite Nat.sub_0_r. exact Hk.
  - destruct i as [|i].
    + cbn in Hi. injection Hi as <-. right. split; [lia|]. rewrite Nat.sub_0_r. exact Hk.
    + cbn in Hi. destruct Hok as (Hk1 & [pl Hs] & Hrest).
      destruct (parent_position v k c1 p1 pl HC Hk1 Hs) as [P Z].
      destruct k as [|k'].
      * subst rest. specialize (Z eq_refl). subst p1. destruct i; cbn in Hi; [|discriminate].
        injection Hi as <-. left. auto.
      * specialize (P k' eq_refl). destruct (IH k' p1 i x HC Hrest P Hi) as [[-> ->]|[Hle Hat]]; [left; auto|].
        right. split; [lia|]. replace (S k' - S i)%nat with (k' - i)%nat by lia. exact Hat.
Qed.

Lemma drop_until_tail_index s : forall (L : list N) x,
  x ∈ tail (drop_until s L) -> exists i j, (i < j)%nat /\ L !! i = Some s /\ L !! j = Some x.
Proof.
  induction L as [|y L IH]; intros x Hx; cbn in Hx; [inversion Hx|].
  destruct (N.eqb_spec y s) as [->|Hne].
  - cbn in Hx. apply elem_of_list_lookup in Hx as [j Hj]. exists 0%nat, (S j). repeat split; auto. lia.
  - destruct (IH x Hx) as (i & j & Hlt & Hi & Hj). exists (S i), (S j). repeat split; auto. lia.
Qed.

(** entries of the reconstructed chain from the one of [s] on: at or before [s] *)
Lemma from_positions v s : forall chain k,
  Core v -> chain_ok v k chain ->
  forall e, e ∈ (fix from (xs : list (N * N)) := match xs with
                                                   | [] => []
                                                   | e :: xs' => if N.eqb e.1 s then e :: xs' else from xs'
                                                   end) chain ->
  exists ke ks pl, at_pos v ke e.1 /\ at_pos v ks s /\ (ke <= ks)%nat /\ v_sub v !! e.1 = Some (e.2, pl).
Proof.
  assert (forall chain k, chain_ok v k chain -> forall e, e ∈ chain ->
            exists ke pl, (ke <= k)%nat /\ at_pos v ke e.1 /\ v_sub v !! e.1 = Some (e.2, pl)) as All.
  { induction chain as [|[c p] rest IH]; intros k Hok e He; [inversion He|].
    destruct Hok as (Hk & [pl Hs] & Hrest). apply elem_of_cons in He as [->|He].
    - exists k, pl. cbn. auto.
    - destruct k as [|k']; [subst rest; inversion He|].
      destruct (IH k' Hrest e He) as (ke & pl' & Hle & Hat & Hsub). exists ke, pl'. split; [lia|]. split; assumption. }
  induction chain as [|[c p] rest IH]; intros k HC Hok e He; [inversion He|].
  cbn [fst] in He. destruct (N.eqb_spec c s) as [->|Hne].
  - destruct Hok as (Hk & Hs & Hrest).
    destruct (All ((s, p) :: rest) k (conj Hk (conj Hs Hrest)) e He) as (ke & pl & Hle & Hat & Hsub).
    exists ke, k, pl. auto.
  - destruct Hok as (Hk & Hs & Hrest). destruct k as [|k']; [subst rest; inversion He|].
    apply (IH k' HC Hrest e He).
Qed.

(** ** the plan of a cleanup *)
Lemma pos_in h c : c ∈ h -> exists k, pos h c = Some k.
Proof.
  intros Hin. destruct (pos h c) as [k|] eqn:E; [eauto|]. apply pos_None in E. contradiction.
Qed.

Lemma Core_plan v cut' best' :
  Core v -> (v_cut v <= cut')%nat -> (cut' <= length (v_hist v))%nat ->
  (forall b, best' = Some b -> b ∈ dom (v_snaps v) /\ b ∈ v_hist v) ->
  ((0 < cut')%nat -> exists b kb, best' = Some b /\ at_pos v kb b /\ (cut' <= S kb)%nat) ->
  Core (plan_view v cut' best').
Proof.
  intros (I1 & I2 & I3 & I4 & I5 & I7 & I8 & J1 & J2 & J3) H1 H2 H3 H4.
  unfold Core, plan_view, at_pos in *; cbn. repeat split; auto;
    try (apply I4; assumption); try (apply (I7 _ _ _ H)); try (apply (I8 _ _ H)); try (apply (H3 _ H)).
  intros k c0 Hk. destruct (I5 k c0 Hk) as (p0 & pl0 & Hs & Hp & Hz & Ho). exists p0, pl0.
  repeat split; auto. intros Hc. apply Ho. lia.
Qed.

Lemma moved_plan v cut' best' x :
  (v_cut v <= cut')%nat ->
  (forall b, v_best v = Some b -> exists b', best' = Some b' /\ (b' = b \/ before v b b')) ->
  moved v (plan_view v cut' best') x.
Proof.
  intros H1 H2. split; [|split; [|split]]; cbn; auto.
  unfold ext; cbn. repeat split; auto; try reflexivity; try lia.
Qed.

Section Plan.
Variable rank : N -> N.
Variable threshold : N.

Lemma losers_are_losers v vers k l0 fuel d :
  Core v -> Forall (listed v) vers -> at_pos v k l0 ->
  d ∈ losers rank vers (walk_back fuel vers l0) -> loser v d.
Proof.
  intros HC HF Hk Hd. destruct d as [p c].
  destruct (losers_have_lost rank vers _ p c Hd) as ([t Hin] & c' & Hcc & Hne).
  rewrite Forall_forall in HF. destruct (HF _ Hin) as [pl Hpl]. cbn in Hpl.
  split; [eauto|]. cbn.
  unfold chain_child in Hcc. destruct (find _ _) as [e|] eqn:E; [|discriminate]. injection Hcc as <-.
  apply find_some in E as [Hine He]. apply N.eqb_eq in He.
  pose proof (walk_ok v vers fuel k l0 HC (proj2 (Forall_forall _ _) HF) Hk) as Hok.
  assert (forall chain k, chain_ok v k chain -> forall e, e ∈ chain ->
            e.1 ∈ v_hist v /\ exists pl, v_sub v !! e.1 = Some (e.2, pl)) as All.
  { clear. induction chain as [|[c p] rest IH]; intros k Hok e He; [inversion He|].
    destruct Hok as (Hk & Hs & Hrest). apply elem_of_cons in He as [->|He].
    - cbn. split; [eapply elem_of_list_lookup_2; exact Hk|exact Hs].
    - destruct k as [|k']; [subst rest; inversion He|]. eapply IH; eauto. }
  destruct (All _ _ Hok e) as [H1 [pl' H2]]; [apply elem_of_list_In; exact Hine|].
  exists e.1, pl'. rewrite <- He. auto.
Qed.

(** what a step must establish about the machine it leaves behind *)
Definition kpost (w : cview) (X : cpc) : Prop :=
  match X with CDone _ => True | _ => client_ok w X /\ owned X = None end.

Lemma after_k5_ok w vdels : Forall (old_ok w) vdels -> kpost w (after_k5 vdels).
Proof. intros H. unfold after_k5, kpost. destruct vdels; cbn; [exact I|]. split; [exact H|reflexivity]. Qed.

Lemma after_k4_ok w sdels vdels :
  Forall (snap_del_ok w) sdels -> Forall (old_ok w) vdels -> kpost w (after_k4 sdels vdels).
Proof.
  intros H1 H2. unfold after_k4. destruct sdels; [apply after_k5_ok; exact H2|].
  unfold kpost. cbn. split; [split; assumption|reflexivity].
Qed.

Lemma old_versions_elem vers chain s d :
  d ∈ old_versions threshold vers chain s ->
  exists e, d = (e.2, e.1) /\
    e ∈ (fix from (xs : list (N * N)) := match xs with
                                         | [] => []
                                         | e :: xs' => if N.eqb e.1 s then e :: xs' else from xs'
                                         end) chain.
Proof.
  unfold old_versions. intros H. apply elem_of_list_omap in H as (e & He & Hd).
  exists e. split; [|exact He]. destruct (creation_of vers e.1); [|discriminate].
  destruct (_ <? _)%N; [|discriminate]. congruence.
Qed.

Lemma plan_step v l vers acc after pg :
  Core v -> client_ok v (K3 l vers acc after) -> Forall (fun x => x ∈ dom (v_snaps v)) pg ->
  let r := PSnapPage pg false in
  let g := ghost_after (v_hist v) (v_cut v) (v_best v) (K3 l vers acc after) r in
  let v' := plan_view v g.1 g.2 in
  let c' := cl_resume rank threshold (K3 l vers acc after) r in
  Core v' /\ moved v v' (v_next v) /\ kpost v' c'.
Proof.
  intros HC (Hl & HF & Hacc) Hpg. cbn zeta.
  pose proof HC as (I1 & ND & I3 & I4 & I5 & I7 & I8 & J1 & J2 & J3).
  set (chain := match l with Some l0 => walk_back (S (length vers)) vers l0 | None => [] end).
  set (acc' := acc ++ pg).
  assert (Forall (fun x => x ∈ dom (v_snaps v) \/ snap_del_ok v x) acc') as Hacc'.
  { apply Forall_app. split; [exact Hacc|]. eapply Forall_impl; [exact Hpg|]. intros; auto. }
  (* the chain the cleanup knows is the true chain *)
  assert (forall l0, l = Some l0 -> exists k0, at_pos v k0 l0 /\ chain_ok v k0 chain) as Hchain.
  { intros l0 ->. pose proof (Hl l0 eq_refl) as Hin. apply elem_of_list_lookup in Hin as [k0 Hk0].
    exists k0. split; [exact Hk0|]. apply walk_ok; auto. }
  assert (Forall (loser v) (losers rank vers chain)) as Hlos.
  { apply Forall_forall. intros d Hd. destruct l as [l0|]; subst chain.
    - destruct (Hchain l0 eq_refl) as (k0 & Hk0 & _). eapply losers_are_losers; eauto.
    - unfold losers in Hd. apply elem_of_list_omap in Hd as (x & _ & Hx). cbn in Hx. discriminate. }
  set (lsnaps := filter (fun v0 : N => bool_decide (v0 ∈ acc')) (map snd (losers rank vers chain))).
  assert (forall w, (forall d, loser v d -> loser w d) -> Forall (snap_del_ok w) lsnaps) as Hls.
  { intros w Hw. apply Forall_forall. intros x Hx. apply elem_of_list_filter in Hx as [_ Hx].
    apply elem_of_list_fmap in Hx as ([p c] & -> & Hd). right. left. exists p. apply Hw.
    rewrite Forall_forall in Hlos. apply Hlos. exact Hd. }
  unfold ghost_after, plan_snapshot. fold chain. fold acc'.
  cbn [cl_resume]. fold chain. fold acc'. fold lsnaps.
  destruct (latest_snapshot l chain acc') as [s|] eqn:Els.
  2:{ (* no snapshot on the known chain: only snapshots of race losers go *)
    cbn [fst snd].
    split; [apply Core_plan; auto; try lia|].
    split; [apply moved_plan; [lia|]; intros b Hb; exists b; auto|].
    apply after_k4_ok; [apply Hls; intros d Hd; exact Hd|constructor]. }
  destruct (latest_snapshot_on_chain l chain acc' s Els) as [Hsacc Hscv].
  rewrite Forall_forall in Hacc'. pose proof (Hacc' s Hsacc) as Hs_here.
  destruct l as [l0|]; [|inversion Hscv].
  destruct (Hchain l0 eq_refl) as (k0 & Hk0 & Hok). cbn [chain_versions] in Hscv.
  (* positions of what follows s in the known chain *)
  assert (forall ks, at_pos v ks s ->
            forall x, x ∈ tail (drop_until s (l0 :: map snd chain)) ->
            x = 0%N \/ exists kx, at_pos v kx x /\ (kx < ks)%nat) as Holder.
  { intros ks Hks x Hx. destruct (drop_until_tail_index s _ x Hx) as (i & j & Hij & Hi & Hj).
    destruct (chain_versions_positions v chain k0 l0 i s HC Hok Hk0 Hi) as [[-> ->]|[Hile Hiat]].
    - (* s would be the nil version *) apply elem_of_list_lookup_2 in Hks. apply I4 in Hks. lia.
    - destruct (chain_versions_positions v chain k0 l0 j x HC Hok Hk0 Hj) as [[-> _]|[Hjle Hjat]]; [left; reflexivity|].
      right. exists (k0 - j)%nat. split; [exact Hjat|].
      assert (ks = (k0 - i)%nat) by (unfold at_pos in *; eapply NoDup_lookup; eauto). lia. }
  destruct (pos (v_hist v) s) as [ks|] eqn:Eps; cbn [fst snd].
  2:{ (* the snapshot is of something that is not on the chain: nothing on the chain is touched *)
    apply pos_None in Eps.
    split; [apply Core_plan; auto; try lia|].
    split; [apply moved_plan; [lia|]; intros b Hb; exists b; auto|].
    apply after_k4_ok.
    - apply Forall_app. split; [apply Hls; intros d Hd; exact Hd|].
      apply Forall_forall. intros x Hx. exfalso.
      destruct (old_snapshots_are_older (Some l0) chain acc' s x Hx) as [_ Hx'].
      cbn [chain_versions] in Hx'.
      destruct (drop_until_tail_index s _ x Hx') as (i & j & Hij & Hi & Hj).
      destruct (chain_versions_positions v chain k0 l0 i s HC Hok Hk0 Hi) as [[-> ->]|[Hile Hiat]].
      + destruct (chain_versions_positions v chain k0 l0 j x HC Hok Hk0 Hj) as [[_ ->]|[Hjle _]]; lia.
      + apply Eps. eapply elem_of_list_lookup_2. exact Hiat.
    - apply Forall_forall. intros d Hd. exfalso.
      destruct (old_versions_elem vers chain s d Hd) as (e & _ & He).
      destruct (from_positions v s chain k0 HC Hok e He) as (_ & ks & _ & _ & Hks & _).
      apply Eps. eapply elem_of_list_lookup_2. exact Hks. }
  (* the snapshot is of the chain version at position ks *)
  pose proof (pos_Some _ _ _ Eps) as Hks. fold (at_pos v ks s) in Hks.
  assert (s ∈ v_hist v) as Hsin by (eapply elem_of_list_lookup_2; exact Hks).
  set (best' := match v_best v with
                | Some b => match pos (v_hist v) b with
                            | Some kb => if (kb <? ks)%nat then Some s else v_best v
                            | None => Some s
                            end
                | None => Some s
                end).
  (* the new best is s, or the old one if that is not older *)
  assert ((best' = Some s /\ s ∈ dom (v_snaps v)
           /\ (forall b, v_best v = Some b -> before v b s) /\ (v_cut v <= S ks)%nat)
          \/ (exists b kb, best' = Some b /\ v_best v = Some b /\ at_pos v kb b /\ (ks <= kb)%nat)) as Hbest.
  { unfold best'. destruct (v_best v) as [b|] eqn:Eb.
    - destruct (J2 b eq_refl) as [Hbd Hbin]. destruct (pos_in _ _ Hbin) as [kb Ekb]. rewrite Ekb.
      pose proof (pos_Some _ _ _ Ekb) as Hkb. fold (at_pos v kb b) in Hkb.
      destruct (Nat.ltb_spec kb ks) as [Hlt|Hge].
      + left. split; [reflexivity|]. split; [|split].
        * destruct Hs_here as [Hd|[->|[[p HL]|(b0 & Hb0 & ka & kb0 & Ha & Hb0' & Hlt')]]]; [exact Hd| | |].
          -- apply I4 in Hsin. lia.
          -- exfalso. apply (loser_not_on_chain v (p, s) HC HL). exact Hsin.
          -- rewrite Eb in Hb0. injection Hb0 as <-. unfold at_pos in *.
             assert (ka = ks) by (eapply NoDup_lookup; eauto). assert (kb0 = kb) by (eapply NoDup_lookup; eauto). lia.
        * intros b1 [= <-]. exists kb, ks. auto.
        * destruct (v_cut v) as [|cu] eqn:Ec; [lia|].
          destruct J3 as (b2 & kb2 & Hb2 & Hkb2 & Hle); [lia|]. injection Hb2 as <-.
          unfold at_pos in *. assert (kb2 = kb) by (eapply NoDup_lookup; eauto). lia.
      + right. exists b, kb. auto.
    - left. split; [reflexivity|]. split; [|split].
      + destruct Hs_here as [Hd|[->|[[p HL]|(b0 & Hb0 & _)]]]; [exact Hd| | |].
        * apply I4 in Hsin. lia.
        * exfalso. apply (loser_not_on_chain v (p, s) HC HL). exact Hsin.
        * rewrite Eb in Hb0. discriminate Hb0.
      + intros b Hb. discriminate.
      + destruct (v_cut v) as [|cu] eqn:Ec; [lia|]. destruct J3 as (b2 & kb2 & Hb2 & _); [lia|]. discriminate Hb2. }
  fold best'.
  set (cut' := Nat.max (v_cut v) (S ks)).
  assert (S ks <= length (v_hist v))%nat as Hlen by (apply lookup_lt_Some in Hks; lia).
  assert (Core (plan_view v cut' best')) as HC'.
  { apply Core_plan; auto; try (unfold cut'; lia).
    - intros b Hb. destruct Hbest as [(Hb' & Hd & _)|(b1 & kb & Hb' & Hb1 & _)].
      + rewrite Hb' in Hb. injection Hb as <-. auto.
      + rewrite Hb' in Hb. injection Hb as <-. apply J2. exact Hb1.
    - intros _. destruct Hbest as [(Hb' & _ & _ & Hc)|(b1 & kb & Hb' & Hb1 & Hkb & Hle)].
      + exists s, ks. split; [exact Hb'|]. split; [exact Hks|]. unfold cut'. lia.
      + exists b1, kb. split; [exact Hb'|]. split; [exact Hkb|]. unfold cut'.
        destruct (v_cut v) as [|cu] eqn:Ec; [lia|].
        destruct J3 as (b2 & kb2 & Hb2 & Hkb2 & Hle2); [lia|]. rewrite Hb1 in Hb2. injection Hb2 as <-.
        unfold at_pos in *. assert (kb2 = kb) by (eapply NoDup_lookup; eauto). lia. }
  split; [exact HC'|].
  split.
  { apply moved_plan; [unfold cut'; lia|]. intros b Hb.
    destruct Hbest as [(Hb' & _ & Hbef & _)|(b1 & kb & Hb' & Hb1 & _)].
    - exists s. split; [exact Hb'|]. right. apply Hbef. exact Hb.
    - exists b1. split; [exact Hb'|]. left. congruence. }
  apply after_k4_ok.
  - apply Forall_app. split; [apply Hls; intros d Hd; exact Hd|].
    apply Forall_forall. intros x Hx.
    destruct (old_snapshots_are_older (Some l0) chain acc' s x Hx) as [_ Hx'].
    cbn [chain_versions] in Hx'. destruct (Holder ks Hks x Hx') as [->|(kx & Hkx & Hlt)]; [left; reflexivity|].
    right. right. cbn [plan_view v_best].
    destruct Hbest as [(Hb' & _)|(b1 & kb & Hb' & _ & Hkb & Hle)].
    + exists s. split; [exact Hb'|]. exists kx, ks. auto.
    + exists b1. split; [exact Hb'|]. exists kx, kb. repeat split; auto. lia.
  - apply Forall_forall. intros d Hd.
    destruct (old_versions_elem vers chain s d Hd) as (e & -> & He).
    destruct (from_positions v s chain k0 HC Hok e He) as (ke & ks' & pl & Hke & Hks' & Hle & Hsub).
    assert (ks' = ks) as -> by (unfold at_pos in *; eapply NoDup_lookup; eauto).
    exists ke, pl. cbn. repeat split; auto. unfold cut'. lia.
Qed.
End Plan.

(** ** one request of one client *)
Lemma ins_snap_elem (rank : N -> N) x y l : x ∈ ins_snap rank y l <-> x = y \/ x ∈ l.
Proof.
  induction l as [|z l IH]; cbn.
  - rewrite elem_of_list_singleton. set_solver.
  - destruct (rank y <? rank z)%N.
    + rewrite !elem_of_cons. tauto.
    + rewrite !elem_of_cons, IH. tauto.
Qed.

Lemma sorted_snaps_elem (rank : N -> N) (m : gmap N N) x : x ∈ sorted_snaps rank m -> x ∈ dom m.
Proof.
  unfold sorted_snaps. generalize (map_to_list m) (fun k v => proj1 (elem_of_map_to_list m k v)).
  intros l Hl. induction l as [|[k pl] l IH]; cbn.
  - intros H. inversion H.
  - rewrite ins_snap_elem. intros [->|H].
    + apply elem_of_dom. exists pl. apply Hl. left.
    + apply IH; [|exact H]. intros k' v' Hin. apply Hl. right. exact Hin.
Qed.

Lemma ins_ver_elem (rank : N -> N) x y l : x ∈ ins_ver rank y l <-> x = y \/ x ∈ l.
Proof.
  induction l as [|z l IH]; cbn.
  - rewrite elem_of_list_singleton. set_solver.
  - destruct (ver_lt rank y.1 z.1).
    + rewrite !elem_of_cons. tauto.
    + rewrite !elem_of_cons, IH. tauto.
Qed.

Lemma sorted_vers_elem (rank : N -> N) (m : gmap (N * N) (N * N)) x :
  x ∈ sorted_vers rank m -> exists pl, m !! x.1 = Some (pl, x.2).
Proof.
  unfold sorted_vers. generalize (map_to_list m) (fun k v => proj1 (elem_of_map_to_list m k v)).
  intros l Hl. induction l as [|[k [pl t]] l IH]; cbn.
  - intros H. inversion H.
  - rewrite ins_ver_elem. intros [->|H].
    + exists pl. apply Hl. left.
    + apply IH; [|exact H]. intros k' v' Hin. apply Hl. right. exact Hin.
Qed.

Section Step.
Variable rank : N -> N.
Variable pagesz : nat.
Variable threshold : N.

Lemma ver_page now st parent after r st' :
  ostore_step rank pagesz now st (QListVer parent after) = (r, st') ->
  st' = st /\ exists l more, r = PVerPage l more
    /\ forall x, x ∈ l -> (exists pl, o_vers st !! x.1 = Some (pl, x.2)) /\ (forall p, parent = Some p -> x.1.1 = p).
Proof.
  cbn. intros [= <- <-]. split; [reflexivity|]. eexists _, _. split; [reflexivity|].
  intros x Hx. apply elem_of_take in Hx as (k & Hk & _). apply elem_of_list_lookup_2 in Hk.
  assert (x ∈ filter (fun x : N * N * N => match parent with Some p => N.eqb x.1.1 p | None => true end = true)
                     (sorted_vers rank (o_vers st))) as Hf.
  { destruct after; [apply elem_of_list_filter in Hk as [_ Hk]|]; exact Hk. }
  apply elem_of_list_filter in Hf as [Hp Hs]. split.
  - apply (sorted_vers_elem rank). exact Hs.
  - intros p ->. apply N.eqb_eq. exact Hp.
Qed.

Lemma snap_page now st after r st' :
  ostore_step rank pagesz now st (QListSnap after) = (r, st') ->
  st' = st /\ exists l more, r = PSnapPage l more /\ Forall (fun x => x ∈ dom (o_snaps st)) l.
Proof.
  cbn. intros [= <- <-]. split; [reflexivity|]. eexists _, _. split; [reflexivity|].
  apply Forall_forall. intros x Hx. apply elem_of_take in Hx as (k & Hk & _). apply elem_of_list_lookup_2 in Hk.
  apply (sorted_snaps_elem rank). destruct after; [apply elem_of_list_filter in Hk as [_ Hk]|]; exact Hk.
Qed.

Definition view_after (s : csys) (st' : ostore) (g : nat * option N) : cview :=
  {| v_latest := o_latest st'; v_vers := o_vers st'; v_snaps := o_snaps st';
     v_hist := hist_after (c_store s) st' (c_hist s); v_next := c_next s; v_sub := c_sub s;
     v_cut := g.1; v_best := g.2 |}.

Lemma view_after_frame s st' :
  o_latest st' = o_latest (c_store s) -> o_vers st' = o_vers (c_store s) -> o_snaps st' = o_snaps (c_store s) ->
  view_after s st' (c_cut s, c_best s) = view s.
Proof.
  intros H1 H2 H3. unfold view_after, view, hist_after. rewrite bool_decide_eq_true_2 by exact H1.
  rewrite H1, H2, H3. reflexivity.
Qed.

Definition others_ok (v v' : cview) (c : cpc) : Prop :=
  forall cj, client_ok v cj -> (forall y, owned c = Some y -> owned cj <> Some y) -> client_ok v' cj.

Definition post (v' : cview) (c c' : cpc) : Prop :=
  match c' with
  | CDone _ => True
  | _ => client_ok v' c' /\ (forall x', owned c' = Some x' -> owned c = Some x')
  end.

Lemma kpost_post v' c c' : kpost v' c' -> post v' c c'.
Proof.
  unfold kpost, post. destruct c'; auto; intros [H1 H2]; (split; [exact H1|]); intros x' Hx'; rewrite H2 in Hx'; discriminate.
Qed.

Lemma owned_lt v c x : client_ok v c -> owned c = Some x -> (x < v_next v)%N.
Proof.
  destruct c; cbn; try discriminate; intros H [= <-].
  - destruct H as [(_ & H & _) _]. exact H.
  - destruct H as [(_ & H & _) _]. exact H.
  - destruct H as [(_ & H & _) _]. exact H.
  - destruct H as [H _]. exact H.
Qed.

(** the others when nothing they can see has changed, or only grown *)
Lemma others_same v c : others_ok v v c.
Proof. intros cj H _. exact H. Qed.

Lemma others_moved v v' c x :
  NoDup (v_hist v') -> moved v v' x ->
  (forall cj, client_ok v cj -> (forall y, owned c = Some y -> owned cj <> Some y) -> owned cj <> Some x) ->
  others_ok v v' c.
Proof. intros ND M Hx cj Hok Hy. eapply client_ok_moved; eauto. Qed.

Definition scan_post (v : cview) (X : cpc) : Prop :=
  match X with
  | CDone r0 => True
  | _ => client_ok v X /\ owned X = None
  end.

Lemma next_scan_ok v p todo best :
  Forall (fun c => (0 < c)%N) todo -> (forall b, best = Some b -> b ∈ v_hist v) ->
  kpost v (next_scan p todo best).
Proof.
  intros Ht Hb. unfold kpost, next_scan. destruct todo as [|c2 rest].
  - destruct best as [tc|]; cbn; [|exact I]. split; [apply Hb; reflexivity|reflexivity].
  - inversion Ht; subst. cbn. repeat split; auto. intros Hf. discriminate.
Qed.
End Step.

Section Step2.
Variable rank : N -> N.
Variable pagesz : nat.
Variable threshold : N.

Lemma losers_nil vers : losers rank vers [] = [].
Proof.
  unfold losers. induction (by_child rank vers) as [|x l IH]; cbn; [reflexivity|]. exact IH.
Qed.

Lemma after_k2_ok v l vers dels :
  kl v l -> Forall (listed v) vers -> Forall (loser v) dels -> kpost v (after_k2 l vers dels).
Proof.
  intros H1 H2 H3. unfold after_k2, kpost. destruct dels; cbn.
  - repeat split; auto.
  - repeat split; auto.
Qed.

Lemma kpost_moved v v' x X : NoDup (v_hist v') -> moved v v' x -> kpost v X -> kpost v' X.
Proof.
  intros ND M. unfold kpost. destruct X; auto; intros [H1 H2]; (split; [|exact H2]);
    (eapply client_ok_moved; [exact ND|exact M| |exact H1]); rewrite H2; discriminate.
Qed.

Lemma step_client s i now c :
  CInv s -> c_clients s !! i = Some c ->
  forall q, cl_next c = inl q ->
  let rs := ostore_step rank pagesz now (c_store s) q in
  let g := ghost_after (c_hist s) (c_cut s) (c_best s) c rs.1 in
  let v' := view_after s rs.2 g in
  let c' := cl_resume rank threshold c rs.1 in
  Core v' /\ others_ok (view s) v' c /\ post v' c c'.
Proof.
  intros (HC & Hcl & Hown) Hi q Hq. pose proof (Hcl _ _ Hi) as Hok.
  pose proof HC as (I1 & ND & I3 & I4 & I5 & I7 & I8 & J1 & J2 & J3).
  assert (view_after s (c_store s) (c_cut s, c_best s) = view s) as Frame
    by (apply view_after_frame; reflexivity).
  assert (forall cj, client_ok (view s) cj -> owned cj <> Some (c_next s)) as Hnext.
  { intros cj Hcj Ho. pose proof (owned_lt _ _ _ Hcj Ho) as Hlt. cbn in Hlt. lia. }
  destruct c; cbn in Hq; try discriminate; try (cbn in Hok; contradiction); cbn zeta.
  - (* A0: read latest *)
    injection Hq as <-. cbn [ostore_step fst snd ghost_after plan_snapshot]. rewrite Frame.
    split; [exact HC|]. split; [apply others_same|].
    cbn [cl_resume]. destruct Hok as [Hf Hn]. unfold post.
    destruct (o_latest (c_store s)) as [l0|] eqn:El.
    + destruct (N.eqb_spec l0 p) as [->|Hne]; [|exact I].
      cbn. split; [|auto]. split; [exact Hf|]. split; [exact Hn|]. intros l1 [= <-].
      split; [reflexivity|]. apply (latest_in_hist (view s)); [exact HC|exact El].
    + cbn. split; [|auto]. split; [exact Hf|]. split; [exact Hn|]. intros l1 Hl1. discriminate.
  - (* A1: put the object *)
    injection Hq as <-. cbn [ostore_step fst snd ghost_after plan_snapshot].
    assert (view_after s {| o_latest := o_latest (c_store s);
                            o_vers := <[(p, c) := (pl, now)]> (o_vers (c_store s));
                            o_snaps := o_snaps (c_store s) |} (c_cut s, c_best s) = put_view (view s) p c pl now) as ->.
    { unfold view_after, hist_after. cbn. rewrite bool_decide_eq_true_2 by reflexivity. reflexivity. }
    split; [eapply Core_put; eauto|].
    split.
    { eapply others_moved; [exact ND|apply moved_put|]. intros cj Hcj Hy. apply Hy. reflexivity. }
    unfold post. cbn [cl_resume]. split; [apply ok_after_put; exact Hok|]. cbn. auto.
  - (* A2: the swap *)
    injection Hq as <-. cbn [ostore_step ghost_after plan_snapshot].
    pose proof Hok as (Hf & Hu & He & Hl). pose proof Hf as (F1 & F2 & F3 & F4 & F5).
    destruct (bool_decide (o_latest (c_store s) = l)) eqn:Eb; cbn [fst snd].
    + apply bool_decide_eq_true in Eb.
      assert (view_after s {| o_latest := Some c; o_vers := o_vers (c_store s); o_snaps := o_snaps (c_store s) |}
                (c_cut s, c_best s) = cas_view (view s) c) as ->.
      { unfold view_after, hist_after. cbn. rewrite bool_decide_eq_false_2; [reflexivity|].
        intros Heq. apply F3. apply (latest_in_hist (view s)); [exact HC|]. cbn. symmetry. exact Heq. }
      assert (Core (cas_view (view s) c)) as HC' by (apply (Core_cas (view s) p c pl l); auto).
      split; [exact HC'|]. split.
      { eapply others_moved; [apply HC'|apply moved_cas|]. intros cj Hcj Hy. apply Hy. reflexivity. }
      unfold post. cbn. split; [apply elem_of_app; right; apply elem_of_list_singleton; reflexivity|].
      intros x' Hx'. discriminate.
    + rewrite Frame. split; [exact HC|]. split; [apply others_same|].
      unfold post. cbn. repeat split; auto.
  - (* A3: withdraw the object *)
    injection Hq as <-. cbn [ostore_step fst snd ghost_after plan_snapshot].
    assert (view_after s {| o_latest := o_latest (c_store s); o_vers := delete (p, c) (o_vers (c_store s));
                            o_snaps := o_snaps (c_store s) |} (c_cut s, c_best s) = del_view (view s) p c) as ->.
    { unfold view_after, hist_after. cbn. rewrite bool_decide_eq_true_2 by reflexivity. reflexivity. }
    destruct Hok as (F1 & F2 & Hu).
    split; [apply Core_del; [exact HC|left; exact F2]|].
    split.
    { eapply others_moved; [exact ND|apply moved_del|]. intros cj Hcj Hy. apply Hy. reflexivity. }
    unfold post. cbn. split; [exact I|]. intros x' Hx'. discriminate.
  - (* A4 *)
    injection Hq as <-. cbn [ostore_step fst snd ghost_after plan_snapshot]. rewrite Frame.
    split; [exact HC|]. split; [apply others_same|]. unfold post. cbn. exact I.
  - (* A5 *)
    injection Hq as <-.
    destruct (ostore_step rank pagesz now (c_store s) (QListSnap None)) as [r st'] eqn:E.
    destruct (snap_page _ _ _ _ _ _ _ E) as (-> & l & more & -> & _).
    cbn [fst snd ghost_after plan_snapshot]. rewrite Frame.
    split; [exact HC|]. split; [apply others_same|]. unfold post. cbn. exact I.
  - (* G0 *)
    injection Hq as <-.
    destruct (ostore_step rank pagesz now (c_store s) (QListVer (Some p) after)) as [r st'] eqn:E.
    destruct (ver_page _ _ _ _ _ _ _ _ E) as (-> & l & more & -> & Hpage).
    cbn [fst snd ghost_after plan_snapshot]. rewrite Frame.
    split; [exact HC|]. split; [apply others_same|].
    cbn [cl_resume].
    assert (Forall (fun c => (0 < c)%N) (acc ++ map (fun x : N * N * N => x.1.2) l)) as Hacc.
    { apply Forall_app. split; [exact Hok|]. apply Forall_forall. intros c0 Hc0.
      apply elem_of_list_fmap in Hc0 as (x & -> & Hx). destruct (Hpage x Hx) as [(pl0 & Hpl) _].
      destruct x as [[xp xc] xt]. apply (I7 _ _ _ Hpl). }
    unfold post. destruct more.
    + cbn. split; [exact Hacc|]. intros x' Hx'. discriminate.
    + destruct (acc ++ map (fun x : N * N * N => x.1.2) l) eqn:Ea; [exact I|].
      cbn. split; [exact Hacc|]. intros x' Hx'. discriminate.
  - (* G1 *)
    injection Hq as <-. cbn [ostore_step fst snd ghost_after plan_snapshot]. rewrite Frame.
    split; [exact HC|]. split; [apply others_same|].
    cbn [cl_resume].
    assert (forall b : N, (None : option N) = Some b -> b ∈ v_hist (view s)) as Hb0 by (intros b Hb; discriminate).
    pose proof (kpost_post (view s) (G1 p children) _ (next_scan_ok (view s) p children None Hok Hb0)) as Hscan.
    destruct (o_latest (c_store s)) as [l0|] eqn:El; [|exact Hscan].
    destruct (bool_decide (l0 ∈ children)); [|exact Hscan].
    unfold post. cbn. split; [apply (latest_in_hist (view s)); [exact HC|exact El]|]. intros x' Hx'. discriminate.
  - (* G2 *)
    injection Hq as <-.
    destruct (ostore_step rank pagesz now (c_store s) (QListVer (Some cur) after)) as [r st'] eqn:E.
    destruct (ver_page _ _ _ _ _ _ _ _ E) as (-> & l & more & -> & Hpage).
    cbn [fst snd ghost_after plan_snapshot]. rewrite Frame.
    split; [exact HC|]. split; [apply others_same|].
    cbn [cl_resume]. destruct Hok as (Ht & Hcur & Hne & Hbest).
    set (ne' := nonempty || match l with [] => false | _ => true end).
    assert (ne' = true -> cur ∈ c_hist s) as Hne'.
    { unfold ne'. intros Hor. apply orb_true_iff in Hor as [Hor|Hor]; [apply Hne; exact Hor|].
      destruct l as [|x l']; [discriminate|].
      destruct (Hpage x) as [(pl0 & Hpl) Hp]; [left|].
      destruct x as [[xp xc] xt]. cbn in Hp, Hpl. specialize (Hp cur eq_refl). subst xp.
      destruct (I7 _ _ _ Hpl) as (_ & _ & [H0|Hin] & _); [lia|exact Hin]. }
    destruct more.
    + unfold post. cbn. split; [|intros x' Hx'; discriminate].
      split; [exact Ht|]. split; [exact Hcur|]. split; [exact Hne'|exact Hbest].
    + assert (forall b, (if ne' then Some cur else best) = Some b -> b ∈ v_hist (view s)) as Hb'.
      { intros b. destruct ne'; [intros [= <-]; apply Hne'; reflexivity|apply Hbest]. }
      apply kpost_post. apply next_scan_ok; [exact Ht|exact Hb'].
  - (* G3 *)
    injection Hq as <-. cbn [ostore_step fst snd ghost_after plan_snapshot]. rewrite Frame.
    split; [exact HC|]. split; [apply others_same|].
    unfold post. cbn [cl_resume]. destruct (o_vers (c_store s) !! (p, c)) as [[pl t]|] eqn:Ev; cbn; exact I.
  - (* S0: store a snapshot *)
    injection Hq as <-. cbn [ostore_step fst snd ghost_after plan_snapshot].
    assert (view_after s {| o_latest := o_latest (c_store s); o_vers := o_vers (c_store s);
                            o_snaps := <[v := pl]> (o_snaps (c_store s)) |} (c_cut s, c_best s)
            = putsnap_view (view s) v pl) as ->.
    { unfold view_after, hist_after. cbn. rewrite bool_decide_eq_true_2 by reflexivity. reflexivity. }
    split; [apply Core_putsnap; exact HC|].
    split.
    { eapply others_moved; [exact ND|apply (moved_putsnap _ _ _ (c_next s))|]. intros cj Hcj _. apply Hnext. exact Hcj. }
    unfold post. cbn. exact I.
  - (* T0 *)
    injection Hq as <-.
    destruct (ostore_step rank pagesz now (c_store s) (QListSnap None)) as [r st'] eqn:E.
    destruct (snap_page _ _ _ _ _ _ _ E) as (-> & l & more & -> & _).
    cbn [fst snd ghost_after plan_snapshot]. rewrite Frame.
    split; [exact HC|]. split; [apply others_same|].
    unfold post. destruct l; cbn; [exact I|]. split; [exact I|]. intros x' Hx'. discriminate.
  - (* T1 *)
    injection Hq as <-. cbn [ostore_step fst snd ghost_after plan_snapshot]. rewrite Frame.
    split; [exact HC|]. split; [apply others_same|].
    unfold post. cbn. destruct (o_snaps (c_store s) !! v); cbn; exact I.
  - (* K0: read latest *)
    injection Hq as <-. cbn [ostore_step fst snd ghost_after plan_snapshot]. rewrite Frame.
    split; [exact HC|]. split; [apply others_same|].
    unfold post. cbn. split; [|intros x' Hx'; discriminate]. split; [|constructor].
    intros l0 Hl0. apply (latest_in_hist (view s)); [exact HC|exact Hl0].
  - (* K1: list the versions *)
    injection Hq as <-.
    destruct (ostore_step rank pagesz now (c_store s) (QListVer None after)) as [r st'] eqn:E.
    destruct (ver_page _ _ _ _ _ _ _ _ E) as (-> & pg & more & -> & Hpage).
    cbn [fst snd ghost_after plan_snapshot]. rewrite Frame.
    split; [exact HC|]. split; [apply others_same|].
    destruct Hok as [Hl Hacc].
    assert (Forall (listed (view s)) (acc ++ pg)) as Hacc'.
    { apply Forall_app. split; [exact Hacc|]. apply Forall_forall. intros x Hx.
      destruct (Hpage x Hx) as [(pl0 & Hpl) _]. destruct x as [[xp xc] xt].
      destruct (I7 _ _ _ Hpl) as (_ & _ & _ & Hs). eexists. exact Hs. }
    cbn [cl_resume]. destruct more.
    + unfold post. cbn. split; [|intros x' Hx'; discriminate]. split; assumption.
    + apply kpost_post. apply after_k2_ok; [exact Hl|exact Hacc'|].
      apply Forall_forall. intros d Hd. destruct l as [l0|].
      * pose proof (Hl l0 eq_refl) as Hin. apply elem_of_list_lookup in Hin as [k0 Hk0].
        eapply losers_are_losers; eauto.
      * rewrite losers_nil in Hd. inversion Hd.
  - (* K2: delete a race loser *)
    destruct dels as [|d dels]; [discriminate|]. injection Hq as <-.
    cbn [ostore_step fst snd ghost_after plan_snapshot].
    assert (view_after s {| o_latest := o_latest (c_store s); o_vers := delete (d.1, d.2) (o_vers (c_store s));
                            o_snaps := o_snaps (c_store s) |} (c_cut s, c_best s) = del_view (view s) d.1 d.2) as ->.
    { unfold view_after, hist_after. cbn. rewrite bool_decide_eq_true_2 by reflexivity. reflexivity. }
    destruct Hok as (Hl & Hvers & Hdels). inversion Hdels as [|? ? Hd Hdels']; subst.
    assert (loser (view s) (d.1, d.2)) as Hd' by (destruct d; exact Hd).
    split; [apply Core_del; [exact HC|left; apply (loser_not_on_chain (view s) (d.1, d.2) HC Hd')]|].
    split.
    { intros cj Hcj _. destruct (decide (owned cj = Some d.2)) as [Ho|Ho].
      - apply client_ok_loser_deleted; auto.
      - eapply client_ok_moved; [exact ND|apply moved_del|exact Ho|exact Hcj]. }
    cbn [cl_resume]. apply kpost_post.
    eapply kpost_moved; [exact ND|apply moved_del|]. apply after_k2_ok; assumption.
  - (* K3: list the snapshots, then plan *)
    injection Hq as <-.
    destruct (ostore_step rank pagesz now (c_store s) (QListSnap after)) as [r st'] eqn:E.
    destruct (snap_page _ _ _ _ _ _ _ E) as (-> & pg & more & -> & Hpg).
    cbn [fst snd]. destruct more.
    + cbn [ghost_after plan_snapshot]. rewrite Frame.
      split; [exact HC|]. split; [apply others_same|].
      destruct Hok as (Hl & Hvers & Hacc). unfold post. cbn.
      split; [|intros x' Hx'; discriminate]. split; [exact Hl|]. split; [exact Hvers|].
      apply Forall_app. split; [exact Hacc|]. eapply Forall_impl; [exact Hpg|]. intros x Hx. left. exact Hx.
    + pose proof (plan_step rank threshold (view s) l vers acc after pg HC Hok Hpg) as HP. cbn zeta in HP.
      assert (view_after s (c_store s)
                (ghost_after (c_hist s) (c_cut s) (c_best s) (K3 l vers acc after) (PSnapPage pg false))
              = plan_view (view s)
                  (ghost_after (v_hist (view s)) (v_cut (view s)) (v_best (view s)) (K3 l vers acc after) (PSnapPage pg false)).1
                  (ghost_after (v_hist (view s)) (v_cut (view s)) (v_best (view s)) (K3 l vers acc after) (PSnapPage pg false)).2) as ->.
      { unfold view_after, hist_after, plan_view. cbn. rewrite bool_decide_eq_true_2 by reflexivity. reflexivity. }
      destruct HP as (HC' & HM & HK).
      split; [exact HC'|]. split.
      { eapply others_moved; [apply HC'|exact HM|]. intros cj Hcj _. apply Hnext. exact Hcj. }
      apply kpost_post. exact HK.
  - (* K4: delete a snapshot *)
    destruct dels as [|d ds]; [discriminate|]. injection Hq as <-.
    cbn [ostore_step fst snd ghost_after plan_snapshot].
    assert (view_after s {| o_latest := o_latest (c_store s); o_vers := o_vers (c_store s);
                            o_snaps := delete d (o_snaps (c_store s)) |} (c_cut s, c_best s)
            = delsnap_view (view s) d) as ->.
    { unfold view_after, hist_after. cbn. rewrite bool_decide_eq_true_2 by reflexivity. reflexivity. }
    destruct Hok as [Hs Hv]. inversion Hs as [|? ? Hd Hs']; subst.
    split; [apply Core_delsnap; assumption|].
    split.
    { eapply others_moved; [exact ND|apply (moved_delsnap _ _ (c_next s)); exact Hd|]. intros cj Hcj _. apply Hnext. exact Hcj. }
    cbn [cl_resume]. apply kpost_post.
    eapply kpost_moved; [exact ND|apply (moved_delsnap _ _ (c_next s)); exact Hd|]. apply after_k4_ok; assumption.
  - (* K5: delete an old version *)
    destruct vdels as [|d ds]; [discriminate|]. injection Hq as <-.
    cbn [ostore_step fst snd ghost_after plan_snapshot].
    assert (view_after s {| o_latest := o_latest (c_store s); o_vers := delete (d.1, d.2) (o_vers (c_store s));
                            o_snaps := o_snaps (c_store s) |} (c_cut s, c_best s) = del_view (view s) d.1 d.2) as ->.
    { unfold view_after, hist_after. cbn. rewrite bool_decide_eq_true_2 by reflexivity. reflexivity. }
    inversion Hok as [|? ? Hd Hds]; subst.
    assert (old_ok (view s) (d.1, d.2)) as Hd' by (destruct d; exact Hd).
    split; [apply Core_del; [exact HC|right; exact Hd']|].
    split.
    { eapply others_moved; [exact ND|apply moved_del|]. intros cj Hcj _ Ho.
      destruct Hd' as (k & pl & Hk & _). apply (owned_not_on_chain _ _ _ Hcj Ho).
      eapply elem_of_list_lookup_2. exact Hk. }
    cbn [cl_resume]. apply kpost_post.
    eapply kpost_moved; [exact ND|apply moved_del|]. apply after_k5_ok. exact Hds.
Qed.
End Step2.

(** ** every event preserves the invariant *)
Lemma Own_delete m i : Own m -> Own (delete i m).
Proof.
  intros H a b c c' x Hab Ha Hb. apply lookup_delete_Some in Ha as [_ Ha]. apply lookup_delete_Some in Hb as [_ Hb].
  eapply H; eauto.
Qed.

Lemma Own_insert m i c :
  Own m -> (forall x, owned c = Some x -> forall j c2, j <> i -> m !! j = Some c2 -> owned c2 <> Some x) ->
  Own (<[i := c]> m).
Proof.
  intros H Hc a b ca cb x Hab Ha Hb Hoa Hob.
  destruct (decide (a = i)) as [->|Hai], (decide (b = i)) as [->|Hbi]; try congruence.
  - rewrite lookup_insert in Ha. injection Ha as <-. rewrite lookup_insert_ne in Hb by congruence.
    eapply Hc; eauto.
  - rewrite lookup_insert in Hb. injection Hb as <-. rewrite lookup_insert_ne in Ha by congruence.
    eapply Hc; eauto.
  - rewrite lookup_insert_ne in Ha by congruence. rewrite lookup_insert_ne in Hb by congruence.
    exact (H a b ca cb x Hab Ha Hb Hoa Hob).
Qed.

Lemma ghost_after_none h cut best c r : plan_snapshot c r = None -> ghost_after h cut best c r = (cut, best).
Proof. unfold ghost_after. intros ->. reflexivity. Qed.

Lemma plan_is_k3 c r s0 : plan_snapshot c r = Some s0 -> exists l vers acc after, c = K3 l vers acc after.
Proof. destruct c; cbn; try discriminate. eauto. Qed.

Section Run.
Variable rank : N -> N.
Variable pagesz : nat.
Variable threshold : N.
Notation cstep' := (cstep rank pagesz threshold).

Lemma CInv_init : CInv csys0.
Proof.
  unfold CInv, csys0, view, Core, at_pos; cbn. split; [|split].
  - repeat split; try (intros; set_solver); try lia;
      try (intros p c x H; rewrite lookup_empty in H; discriminate);
      try (intros c x H; rewrite lookup_empty in H; discriminate);
      try (intros b H; discriminate).
    + constructor.
  - intros i c H. rewrite lookup_empty in H. discriminate.
  - intros i j c c' x _ H. rewrite lookup_empty in H. discriminate.
Qed.

Lemma CInv_start_plain s i c :
  CInv s -> c_clients s !! i = None -> client_ok (view s) c -> owned c = None ->
  CInv (with_clients s (<[i := c]> (c_clients s))).
Proof.
  intros (HC & Hcl & Hown) Hi Hok Ho.
  match goal with |- CInv ?s' => assert (view s' = view s) as Hv by reflexivity end.
  unfold CInv. rewrite Hv. cbn [c_clients with_clients].
  split; [exact HC|]. split.
  - intros j cj Hj. destruct (decide (j = i)) as [->|Hne].
    + rewrite lookup_insert in Hj. injection Hj as <-. exact Hok.
    + rewrite lookup_insert_ne in Hj by congruence. eauto.
  - apply Own_insert; [exact Hown|]. intros x Hx. rewrite Ho in Hx. discriminate.
Qed.

Theorem CInv_step s e : CInv s -> CInv (cstep' s e).
Proof.
  intros Hinv. pose proof Hinv as (HC & Hcl & Hown).
  destruct e as [i p pl|i p|i v pl|i|i|i now|i|i now]; cbn [cstep].
  - (* a new add-version call *)
    destruct (c_clients s !! i) eqn:Hi; [exact Hinv|].
    destruct (bool_decide (p = 0%N \/ p ∈ c_hist s)) eqn:Ep; [|exact Hinv].
    apply bool_decide_eq_true in Ep.
    pose proof HC as (I1 & ND & I3 & I4 & I5 & I7 & I8 & J1 & J2 & J3).
    match goal with |- CInv ?s' => assert (view s' = start_view (view s) p pl) as Hv by reflexivity end.
    unfold CInv. rewrite Hv. cbn [c_clients].
    split; [apply Core_start; exact HC|]. split.
    + intros j cj Hj. destruct (decide (j = i)) as [->|Hne].
      * rewrite lookup_insert in Hj. injection Hj as <-. cbn. split.
        -- unfold fresh_id; cbn. repeat split; auto; try lia.
           ++ intros Hin. apply I4 in Hin. cbn in Hin. lia.
           ++ rewrite lookup_insert. reflexivity.
        -- intros p'. destruct (o_vers (c_store s) !! (p', c_next s)) as [x|] eqn:Ev; [|reflexivity].
           destruct (I7 _ _ _ Ev) as (_ & Hlt & _). cbn in Hlt. lia.
      * rewrite lookup_insert_ne in Hj by congruence.
        eapply client_ok_moved; [exact ND|apply (moved_start _ _ _ (c_next s)); exact HC| |eauto].
        intros Ho. pose proof (owned_lt _ _ _ (Hcl _ _ Hj) Ho) as Hlt. cbn in Hlt. lia.
    + apply Own_insert; [exact Hown|]. cbn. intros x [= <-] j c2 Hj Hc2 Ho.
      pose proof (owned_lt _ _ _ (Hcl _ _ Hc2) Ho) as Hlt. cbn in Hlt. lia.
  - destruct (c_clients s !! i) eqn:Hi; [exact Hinv|]. apply CInv_start_plain; auto. cbn. constructor.
  - destruct (c_clients s !! i) eqn:Hi; [exact Hinv|]. apply CInv_start_plain; auto. exact I.
  - destruct (c_clients s !! i) eqn:Hi; [exact Hinv|]. apply CInv_start_plain; auto. exact I.
  - destruct (c_clients s !! i) eqn:Hi; [exact Hinv|]. apply CInv_start_plain; auto. exact I.
  - (* one request *)
    destruct (c_clients s !! i) as [c|] eqn:Hi; [|exact Hinv].
    destruct (cl_next c) as [q|r0] eqn:Hq; [|exact Hinv].
    pose proof (step_client rank pagesz threshold s i now c Hinv Hi q Hq) as Hst. cbn zeta in Hst.
    destruct (ostore_step rank pagesz now (c_store s) q) as [r st'] eqn:Er. cbn [fst snd] in Hst.
    destruct Hst as (HC' & Hoth & Hpost).
    set (g := ghost_after (c_hist s) (c_cut s) (c_best s) c r) in *.
    assert (forall j cj, j <> i -> c_clients s !! j = Some cj -> client_ok (view_after s st' g) cj) as Hothers.
    { intros j cj Hne Hj. apply Hoth; [eauto|]. intros y Hy Hyj. eapply (Hown i j); eauto. }
    unfold post in Hpost.
    destruct (cl_resume rank threshold c r) eqn:Ec';
      (match goal with |- CInv ?s' => assert (view s' = view_after s st' g) as Hv by reflexivity end;
       unfold CInv; rewrite Hv; cbn [c_clients]);
      try (destruct Hpost as [Hok' Hown'];
           split; [exact HC'|]; split;
           [ intros j cj Hj; destruct (decide (j = i)) as [->|Hne];
             [ rewrite lookup_insert in Hj; injection Hj as <-; exact Hok'
             | rewrite lookup_insert_ne in Hj by congruence; eauto ]
           | apply Own_insert; [exact Hown|];
             intros x' Hx' j c2 Hj Hc2 Ho; apply Hown' in Hx'; eapply (Hown i j); eauto ]).
    (* the call finished *)
    split; [exact HC'|]. split.
    + intros j cj Hj. apply lookup_delete_Some in Hj as [Hne Hj]. eauto.
    + apply Own_delete. exact Hown.
  - (* dropped *)
    match goal with |- CInv ?s' => assert (view s' = view s) as Hv by reflexivity end.
    unfold CInv; rewrite Hv; cbn [c_clients with_clients].
    split; [exact HC|]. split.
    + intros j cj Hj. apply lookup_delete_Some in Hj as [_ Hj]. eauto.
    + apply Own_delete. exact Hown.
  - (* request performed, reply lost, client gone *)
    destruct (c_clients s !! i) as [c|] eqn:Hi; [|exact Hinv].
    destruct (cl_next c) as [q|r0] eqn:Hq; [|exact Hinv].
    pose proof (step_client rank pagesz threshold s i now c Hinv Hi q Hq) as Hst. cbn zeta in Hst.
    destruct (ostore_step rank pagesz now (c_store s) q) as [r st'] eqn:Er. cbn [fst snd] in Hst.
    assert (Core (view_after s st' (c_cut s, c_best s)) /\ others_ok (view s) (view_after s st' (c_cut s, c_best s)) c) as [HC' Hoth].
    { destruct (plan_snapshot c r) as [s0|] eqn:Eps.
      - (* a cleanup that was about to plan: its request only read *)
        destruct (plan_is_k3 _ _ _ Eps) as (l & vers & acc & after & ->). cbn in Hq. injection Hq as <-.
        destruct (snap_page _ _ _ _ _ _ _ Er) as (-> & _).
        rewrite (view_after_frame s (c_store s)) by reflexivity. split; [exact HC|apply others_same].
      - rewrite (ghost_after_none _ _ _ _ _ Eps) in Hst. destruct Hst as (H1 & H2 & _). auto. }
    match goal with |- CInv ?s' => assert (view s' = view_after s st' (c_cut s, c_best s)) as Hv by reflexivity end.
    unfold CInv; rewrite Hv; cbn [c_clients].
    split; [exact HC'|]. split.
    + intros j cj Hj. apply lookup_delete_Some in Hj as [Hne Hj]. apply Hoth; [eauto|].
      intros y Hy Hyj. eapply (Hown i j); eauto.
    + apply Own_delete. exact Hown.
Qed.

(** The invariant holds in every state reachable by any schedule of any number
    of clients and cleanups, with any failures. *)
Theorem CInv_run (evs : list cev) : CInv (fold_left cstep' evs csys0).
Proof.
  assert (forall s, CInv s -> CInv (fold_left cstep' evs s)) as H.
  { induction evs as [|e evs IH]; intros s Hs; [exact Hs|]. cbn. apply IH. apply CInv_step. exact Hs. }
  apply H. apply CInv_init.
Qed.
End Run.

(** ** what the invariant gives *)
Section Consequences.
Variable rank : N -> N.
Variable pagesz : nat.
Variable threshold : N.
Notation run evs := (fold_left (cstep rank pagesz threshold) evs csys0).

(** Every version of the chain from position [c_cut] onward is still stored, as
    the child of its predecessor: whatever cleanups have run, however they
    interleaved with everything else and wherever they stopped. *)
Theorem retained_versions evs k c :
  let s := run evs in
  c_hist s !! k = Some c -> (c_cut s <= k)%nat ->
  exists p pl, c_sub s !! c = Some (p, pl) /\ is_Some (o_vers (c_store s) !! (p, c))
               /\ (forall k', k = S k' -> c_hist s !! k' = Some p) /\ (k = 0%nat -> p = 0%N).
Proof.
  cbn zeta. intros Hk Hc. pose proof (CInv_run rank pagesz threshold evs) as (HC & _).
  destruct HC as (_ & _ & _ & _ & I5 & _). destruct (I5 k c Hk) as (p & pl & H1 & H2 & H3 & H4).
  exists p, pl. auto.
Qed.

(** Versions are only ever cut off behind a snapshot that is still stored: if
    any chain version has been planned for deletion, then the snapshot of the
    chain version [c_best] is in the store and every version after it is kept. *)
Theorem cut_is_behind_a_stored_snapshot evs :
  let s := run evs in
  (0 < c_cut s)%nat ->
  exists b kb, c_best s = Some b /\ b ∈ dom (o_snaps (c_store s)) /\ c_hist s !! kb = Some b
               /\ (c_cut s <= S kb)%nat.
Proof.
  cbn zeta. intros Hc. pose proof (CInv_run rank pagesz threshold evs) as (HC & _).
  destruct HC as (_ & _ & _ & _ & _ & _ & _ & _ & J2 & J3). destruct (J3 Hc) as (b & kb & H1 & H2 & H3).
  exists b, kb. destruct (J2 b H1). auto.
Qed.

(** so a fresh replica can reconstruct the latest state: from that snapshot and
    the versions after it, or from the very first version when nothing has been cut *)
Corollary chain_reconstructible evs :
  let s := run evs in
  (c_cut s = 0%nat /\ forall k c, c_hist s !! k = Some c -> exists p pl, c_sub s !! c = Some (p, pl) /\ is_Some (o_vers (c_store s) !! (p, c)))
  \/ exists b kb, b ∈ dom (o_snaps (c_store s)) /\ c_hist s !! kb = Some b
       /\ forall k c, (kb < k)%nat -> c_hist s !! k = Some c ->
            exists p pl, c_sub s !! c = Some (p, pl) /\ is_Some (o_vers (c_store s) !! (p, c)).
Proof.
  cbn zeta. destruct (c_cut (run evs)) as [|cu] eqn:Ec.
  - left. split; [reflexivity|]. intros k c Hk.
    destruct (retained_versions evs k c Hk) as (p & pl & H1 & H2 & _); [lia|]. eauto.
  - right. destruct (cut_is_behind_a_stored_snapshot evs) as (b & kb & _ & Hd & Hkb & Hle); [lia|].
    exists b, kb. split; [exact Hd|]. split; [exact Hkb|]. intros k c Hlt Hk.
    destruct (retained_versions evs k c Hk) as (p & pl & H1 & H2 & _); [lia|]. eauto.
Qed.

(** a replica whose base version is the retained snapshot's version or a later
    one finds the next version: it can still synchronise *)
Corollary retained_base_finds_child evs k c c' :
  let s := run evs in
  c_hist s !! k = Some c -> c_hist s !! S k = Some c' -> (c_cut s <= S k)%nat ->
  exists pl t, o_vers (c_store s) !! (c, c') = Some (pl, t) /\ c_sub s !! c' = Some (c, pl).
Proof.
  cbn zeta. intros Hk Hk' Hc.
  destruct (retained_versions evs (S k) c' Hk' Hc) as (p & pl & H1 & [[pl' t] H2] & H3 & _).
  specialize (H3 k eq_refl). rewrite Hk in H3. injection H3 as <-.
  pose proof (CInv_run rank pagesz threshold evs) as (HC & _).
  destruct HC as (_ & _ & _ & _ & _ & I7 & _). destruct (I7 _ _ _ H2) as (_ & _ & _ & H4). cbn in H4.
  exists pl', t. split; [exact H2|exact H4].
Qed.

(** the history and the cut only grow *)
Lemma hist_after_prefix st st' h : h `prefix_of` hist_after st st' h.
Proof.
  unfold hist_after. destruct (bool_decide _); [reflexivity|].
  destruct (o_latest st'); [apply prefix_app_r; reflexivity|reflexivity].
Qed.
End Consequences.

(** the premises are met: three versions, a snapshot of the second, a cleanup
    that removes the first two as old; the third stays, behind the stored snapshot *)
Example cleanup_example :
  let evs := [VStartAdd 0 0 7; VStep 0 1; VStep 0 1; VStep 0 1; VStep 0 1;
              VStartAdd 0 1 8; VStep 0 1; VStep 0 1; VStep 0 1; VStep 0 1;
              VStartAddSnap 0 2 55; VStep 0 1;
              VStartAdd 0 2 9; VStep 0 20; VStep 0 20; VStep 0 20; VStep 0 20;
              VStartCleanup 1; VStep 1 30; VStep 1 30; VStep 1 30; VStep 1 30; VStep 1 30; VStep 1 30] in
  let s := fold_left (cstep (fun x => x) 5 10) evs csys0 in
  (c_hist s, c_cut s, c_best s, map fst (map_to_list (o_vers (c_store s))), map fst (map_to_list (o_snaps (c_store s))),
   map_to_list (c_clients s))
  = ([1; 2; 3]%N, 2%nat, Some 2%N, [(2, 3)]%N, [2%N], []).
Proof. vm_compute. reflexivity. Qed.
