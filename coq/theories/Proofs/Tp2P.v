(** TP2 for [transform] on operations valid in a common state. *)
From Coq Require Import ZifyBool ZifyN.
From TC Require Import Model.Transform Proofs.TransformP Proofs.ConflictP.

Definition tfo (x y : option sop) : option sop * option sop :=
  match x, y with Some a, Some b => transform a b | _, _ => (x, y) end.

Lemma tv_ltb_trans t1 v1 t2 v2 t3 v3 :
  tv_ltb t1 v1 t2 v2 = true -> tv_ltb t2 v2 t3 v3 = true -> tv_ltb t1 v1 t3 v3 = true.
Proof.
  unfold tv_ltb. intros H1 H2.
  apply orb_true_iff in H1. apply orb_true_iff in H2. apply orb_true_iff.
  destruct H1 as [H1|H1], H2 as [H2|H2].
  - left. lia.
  - apply andb_true_iff in H2 as [H2 _]. left. lia.
  - apply andb_true_iff in H1 as [H1 _]. left. lia.
  - apply andb_true_iff in H1 as [H1 H1']. apply andb_true_iff in H2 as [H2 H2']. right.
    apply andb_true_iff. split; [lia|].
    destruct v1 as [x1|], v2 as [x2|], v3 as [x3|]; cbn in *; try congruence; lia.
Qed.

Lemma tv_total t1 v1 t2 v2 :
  (ov_eqb v1 v2 && Z.eqb t1 t2 = true) \/ tv_ltb t1 v1 t2 v2 = true \/ tv_ltb t2 v2 t1 v1 = true.
Proof.
  unfold tv_ltb. destruct (Z.ltb_spec t1 t2); [right; left; reflexivity|].
  destruct (Z.ltb_spec t2 t1); [right; right; reflexivity|].
  assert (t1 = t2) as -> by lia. rewrite Z.eqb_refl. cbn.
  destruct v1 as [x1|], v2 as [x2|]; cbn; auto.
  destruct (N.ltb_spec x1 x2); auto. destruct (N.ltb_spec x2 x1); auto.
  left. rewrite andb_true_r. apply N.eqb_eq. lia.
Qed.

Ltac valid_contra :=
  match goal with
  | H1 : match ?s !! ?u with Some _ => false | None => true end = true,
    H2 : match ?s !! ?u with Some _ => true | None => false end = true |- _ =>
      destruct (s !! u); discriminate
  end.

Lemma tp2 s a b c :
  validb s a = true -> validb s b = true -> validb s c = true ->
  (tfo (transform c a).1 (transform b a).1).1 = (tfo (transform c b).1 (transform a b).1).1.
Proof.
  intros Ha Hb Hc.
  destruct a as [ua|ua|ua pa va ta], b as [ub|ub|ub pb vb tb], c as [uc|uc|uc pc vc tc]; cbn in Ha, Hb, Hc |- *.
  all: repeat match goal with
       | |- context [N.eqb ?x ?y] => destruct (N.eqb_spec x y); subst; cbn
       end; try reflexivity; try valid_contra; try congruence.
  all: repeat match goal with
       | |- context [N.eqb ?x ?y] => destruct (N.eqb_spec x y); subst; cbn
       | |- context [if ?b then _ else _] => destruct b eqn:?; cbn
       end; try reflexivity; try valid_contra; try congruence.
  all: try (exfalso; unfold tv_ltb, ov_ltb, ov_eqb in *;
            repeat match goal with v : option N |- _ => destruct v end; cbn in *; lia).
Qed.

(** ** lifting to lists: the residual algebra of [rebase] *)
From TC Require Import Model.Rebase Proofs.RebaseP.

(** [res l v]: the list [l] carried past the list [v] ("l after v") *)
Definition res (l v : list sop) : list sop := (rebase' v l).2.

Lemma rebase_res v l : rebase' v l = (res v l, res l v).
Proof.
  unfold res. rewrite (rebase_symmetric l v). destruct (rebase' v l) as [a b]. reflexivity.
Qed.

Lemma res_nil_r l : res l [] = l.
Proof. reflexivity. Qed.
Lemma res_nil_l v : res [] v = [].
Proof. unfold res. rewrite rebase_nil_r. reflexivity. Qed.

Lemma consopt_app o l1 l2 : consopt o l1 ++ l2 = consopt o (l1 ++ l2).
Proof. destruct o; reflexivity. Qed.

Lemma rebase_app v1 : forall v2 l,
  rebase' (v1 ++ v2) l =
  let '(v1', l1) := rebase' v1 l in
  let '(v2', l2) := rebase' v2 l1 in (v1' ++ v2', l2).
Proof.
  induction v1 as [|so v1 IH]; intros v2 l.
  - cbn. destruct (rebase' v2 l). reflexivity.
  - cbn [app rebase]. destruct (rebase_one' (Some so) l) as [r l1].
    rewrite IH. destruct (rebase' v1 l1) as [v1' l2]. destruct (rebase' v2 l2) as [v2' l3].
    change (match r with Some x => x :: v1' ++ v2' | None => v1' ++ v2' end) with (consopt r (v1' ++ v2')).
    change (match r with Some x => x :: v1' | None => v1' end) with (consopt r v1').
    rewrite consopt_app. reflexivity.
Qed.

(** the two decomposition laws *)
Lemma res_app_r l v1 v2 : res l (v1 ++ v2) = res (res l v1) v2.
Proof.
  unfold res. rewrite rebase_app. destruct (rebase' v1 l) as [a b]. cbn.
  destruct (rebase' v2 b). reflexivity.
Qed.

Lemma res_app_l v1 v2 l : res (v1 ++ v2) l = res v1 l ++ res v2 (res l v1).
Proof.
  pose proof (rebase_app v1 v2 l) as H. rewrite (rebase_res (v1 ++ v2) l), (rebase_res v1 l) in H.
  cbn beta iota in H. rewrite (rebase_res v2 (res l v1)) in H. injection H as H _. exact H.
Qed.

Lemma rebase_one_length l : forall so, length (rebase_one' so l).2 <= length l.
Proof.
  induction l as [|lo l IH]; intros so; cbn [rebase_one]; [cbn; lia|].
  destruct so as [o|]; [|cbn; lia].
  destruct (transform o lo) as [so' lo']. specialize (IH so').
  destruct (rebase_one' so' l) as [r l'']. cbn in *. destruct lo'; cbn; lia.
Qed.

Lemma res_length l v : length (res l v) <= length l.
Proof.
  unfold res. revert l. induction v as [|so v IH]; intros l; cbn [rebase]; [cbn; lia|].
  pose proof (rebase_one_length l (Some so)) as H1.
  destruct (rebase_one' (Some so) l) as [r l1]. specialize (IH l1).
  destruct (rebase' v l1) as [vr l2]. cbn in *. lia.
Qed.

(** validity of residuals, and the diamond, in terms of [res] *)
Lemma res_valid s l v :
  valid_seqb s v = true -> valid_seqb s l = true ->
  valid_seqb (applyl s v) (res l v) = true
  /\ applyl (applyl s l) (res v l) = applyl (applyl s v) (res l v).
Proof.
  intros Hv Hl. pose proof (rebase_diamond v l s Hv Hl) as D. rewrite rebase_res in D.
  destruct D as (D1 & D2 & D3). auto.
Qed.

(** single operations *)
Definition ol (o : option sop) : list sop := consopt o [].

Lemma res_single c a : res [c] [a] = ol (transform c a).1.
Proof.
  unfold res. cbn. rewrite (transform_symmetric c a). destruct (transform c a) as [x y]. cbn.
  destruct x; reflexivity.
Qed.

Lemma res_ol (x y : option sop) : res (ol x) (ol y) = ol (tfo x y).1.
Proof.
  destruct x as [c|], y as [a|]; cbn [ol consopt tfo fst].
  - apply res_single.
  - reflexivity.
  - apply res_nil_l.
  - reflexivity.
Qed.

Definition cube (x y z : list sop) : Prop := res (res z x) (res y x) = res (res z y) (res x y).

Lemma cube_single s a b c :
  validb s a = true -> validb s b = true -> validb s c = true -> cube [a] [b] [c].
Proof.
  intros Ha Hb Hc. unfold cube. rewrite !res_single, !res_ol. f_equal. apply (tp2 s); assumption.
Qed.

Lemma cube_sym x y z : cube x y z -> cube y x z.
Proof. unfold cube. intros H. symmetry. exact H. Qed.

Lemma valid_single s a : valid_seqb s [a] = validb s a.
Proof. cbn. apply andb_true_r. Qed.

Theorem cube_all n : forall s x y z,
  length x + length y + length z <= n ->
  valid_seqb s x = true -> valid_seqb s y = true -> valid_seqb s z = true ->
  cube x y z.
Proof.
  induction n as [n IH] using lt_wf_ind. intros s x y z Hn Hx Hy Hz.
  (* empty lists *)
  destruct x as [|x1 x2].
  { unfold cube. rewrite !res_nil_r, res_nil_l, res_nil_r. reflexivity. }
  destruct y as [|y1 y2].
  { unfold cube. rewrite !res_nil_r, res_nil_l, res_nil_r. reflexivity. }
  destruct z as [|z1 z2].
  { unfold cube. rewrite !res_nil_l. reflexivity. }
  assert (forall x1 x2 y z s, x2 <> [] ->
            length (x1 :: x2) + length y + length z <= n ->
            valid_seqb s (x1 :: x2) = true -> valid_seqb s y = true -> valid_seqb s z = true ->
            cube (x1 :: x2) y z) as SplitX.
  { clear - IH. intros x1 x2 y z s Hne Hn Hx Hy Hz.
    change (x1 :: x2) with ([x1] ++ x2) in *.
    rewrite valid_seqb_app in Hx. apply andb_true_iff in Hx as [Hx1 Hx2].
    destruct (res_valid s y [x1] Hx1 Hy) as [Vy _]. destruct (res_valid s z [x1] Hx1 Hz) as [Vz _].
    pose proof (res_length y [x1]). pose proof (res_length z [x1]).
    assert (length x2 >= 1) by (destruct x2; [congruence|cbn; lia]).
    rewrite app_length in Hn. cbn [length] in Hn.
    assert (cube x2 (res y [x1]) (res z [x1])) as C1.
    { eapply (IH (length x2 + length (res y [x1]) + length (res z [x1]))); [lia|lia| | |]; eassumption. }
    assert (cube [x1] y z) as C2.
    { eapply (IH (1 + length y + length z)); [lia|cbn; lia| | |]; eassumption. }
    unfold cube in *.
    rewrite !res_app_r. rewrite C1. rewrite res_app_l, res_app_r. rewrite <- C2. reflexivity. }
  destruct x2 as [|x2a x2].
  2:{ eapply SplitX; eauto; try congruence. }
  destruct y2 as [|y2a y2].
  2:{ apply cube_sym. eapply SplitX; eauto; try congruence; try (cbn in *; lia). }
  destruct z2 as [|z2a z2].
  { rewrite valid_single in *. eapply cube_single; eauto. }
  (* z has at least two operations: split it *)
  set (x := [x1]) in *. set (y := [y1]) in *. set (z2' := z2a :: z2) in *.
  change (z1 :: z2') with ([z1] ++ z2') in *.
  rewrite valid_seqb_app in Hz. apply andb_true_iff in Hz as [Hz1 Hz2].
  rewrite app_length in Hn. cbn [length] in Hn.
  assert (length z2' >= 1) by (cbn; lia).
  destruct (res_valid s x [z1] Hz1 Hx) as [Vx _]. destruct (res_valid s y [z1] Hz1 Hy) as [Vy _].
  pose proof (res_length x [z1]). pose proof (res_length y [z1]).
  assert (cube x y [z1]) as C1 by (eapply (IH (length x + length y + 1)); [cbn in *; lia|cbn; lia| | |]; eassumption).
  assert (cube x [z1] y) as C2 by (eapply (IH (length x + 1 + length y)); [cbn in *; lia|cbn; lia| | |]; eassumption).
  assert (cube y [z1] x) as C3 by (eapply (IH (length y + 1 + length x)); [cbn in *; lia|cbn; lia| | |]; eassumption).
  assert (cube (res x [z1]) (res y [z1]) z2') as C4.
  { eapply (IH (length (res x [z1]) + length (res y [z1]) + length z2')); [cbn in *; lia|lia| | |]; eassumption. }
  unfold cube in *.
  rewrite !res_app_l. rewrite C1. f_equal.
  rewrite C2, C3. exact C4.
Qed.

(** ** three replicas: every order of their syncs gives the same state *)
(** the state after replicas with pending lists [x], [y], [z] (all made from
    [s]) have synchronised in this order: the chain holds [x], then [y]
    rebased over it, then [z] rebased over both *)
Definition sync3 (s : db) (x y z : list sop) : db :=
  applyl (applyl (applyl s x) (res y x)) (res (res z x) (res y x)).

Lemma sync3_swap12 s a b c :
  valid_seqb s a = true -> valid_seqb s b = true -> valid_seqb s c = true ->
  sync3 s a b c = sync3 s b a c.
Proof.
  intros Ha Hb Hc. unfold sync3.
  destruct (res_valid s b a Ha Hb) as [_ D].
  rewrite <- D.
  rewrite (cube_all _ s a b c (le_n _) Ha Hb Hc). reflexivity.
Qed.

Lemma sync3_swap23 s a b c :
  valid_seqb s a = true -> valid_seqb s b = true -> valid_seqb s c = true ->
  sync3 s a b c = sync3 s a c b.
Proof.
  intros Ha Hb Hc. unfold sync3.
  destruct (res_valid s b a Ha Hb) as [Vb _]. destruct (res_valid s c a Ha Hc) as [Vc _].
  destruct (res_valid (applyl s a) (res c a) (res b a) Vb Vc) as [_ D]. symmetry. exact D.
Qed.

Theorem order_independent_3 s a b c :
  valid_seqb s a = true -> valid_seqb s b = true -> valid_seqb s c = true ->
  sync3 s a b c = sync3 s a c b /\ sync3 s a b c = sync3 s b a c /\ sync3 s a b c = sync3 s b c a
  /\ sync3 s a b c = sync3 s c a b /\ sync3 s a b c = sync3 s c b a.
Proof.
  intros Ha Hb Hc.
  pose proof (sync3_swap23 s a b c Ha Hb Hc) as E1.
  pose proof (sync3_swap12 s a b c Ha Hb Hc) as E2.
  pose proof (sync3_swap23 s b a c Hb Ha Hc) as E3.
  pose proof (sync3_swap12 s a c b Ha Hc Hb) as E4.
  pose proof (sync3_swap23 s c a b Hc Ha Hb) as E5.
  repeat split; congruence.
Qed.

(** in the vocabulary of [rebase]: what the statement of C03 says *)
Lemma sync3_rebase s la lb lc :
  sync3 s la lb lc =
  applyl (applyl (applyl s la) (rebase transform la lb).2)
         (rebase transform (rebase transform la lb).2 (rebase transform la lc).2).2.
Proof. reflexivity. Qed.

(** the premises are satisfiable with real conflicts *)
Definition three_writers_case :=
  let s : db := {[ 1%N := ∅ ]} in
  let a := [SUpdate 1 2 (Some 7%N) 5] in
  let b := [SUpdate 1 2 (Some 7%N) 1; SUpdate 1 3 (Some 1%N) 1; SCreate 4; SUpdate 4 2 (Some 1%N) 9] in
  let c := [SUpdate 1 2 (Some 8%N) 3; SDelete 1; SCreate 1; SCreate 4; SUpdate 4 2 (Some 2%N) 9] in
  (valid_seqb s a && valid_seqb s b && valid_seqb s c,
   bool_decide (sync3 s a b c = sync3 s c b a),
   map (fun ut : N * gmap N N => (ut.1, map_to_list ut.2)) (map_to_list (sync3 s a b c))).
Example three_writers : three_writers_case = (true, true, [(1%N, []); (4%N, [(2%N, 2%N)])]).
Proof. vm_compute. reflexivity. Qed.
