(** * Theorems about the sealed-envelope format.

    All statements hold for ARBITRARY [list N] arguments: no hypothesis that
    list elements are < 256, and no hypothesis on the length of the key or of
    the version id.  The only length hypothesis that appears anywhere is
    [length nonce = 12] (needed so that the opener splits the envelope where
    the sealer joined it). *)

From Coq Require Import List NArith ZArith Lia Bool.
From TC Require Import Model.Crypto.Bytes Model.Crypto.Chacha20
  Model.Crypto.Poly1305 Model.Crypto.Aead Model.Crypto.Envelope.
Import ListNotations.

(** ** Layout *)

Theorem aad_layout : forall vid, make_aad vid = 1%N :: vid.
Proof. reflexivity. Qed.
Print Assumptions aad_layout.

(** [length nonce = 12] is not needed for the layout itself; it is kept so
    that the statement reads as the documented format. *)
Theorem envelope_layout : forall key nonce vid payload,
  length nonce = 12 ->
  exists c t,
    seal key nonce vid payload = 1%N :: nonce ++ c ++ t /\
    length c = length payload /\ length t = 16.
Proof.
  intros key nonce vid payload _.
  exists (fst (aead_seal key nonce (make_aad vid) payload)),
         (snd (aead_seal key nonce (make_aad vid) payload)).
  split; [reflexivity|]. split.
  - apply aead_seal_fst_length.
  - apply aead_seal_snd_length.
Qed.
Print Assumptions envelope_layout.

Corollary seal_length : forall key nonce vid payload,
  length (seal key nonce vid payload) = 1 + length nonce + length payload + 16.
Proof.
  intros. unfold seal. cbn [length]. rewrite !app_length.
  rewrite aead_seal_fst_length, aead_seal_snd_length. lia.
Qed.

(** ** How [unseal] parses a well-formed envelope *)

Lemma unseal_parse key vid nonce c t :
  length nonce = 12 -> length t = 16 ->
  unseal key vid (1%N :: nonce ++ c ++ t) =
  aead_open key nonce (make_aad vid) c t.
Proof.
  intros Hn Ht. unfold unseal, NONCE_LEN, TAG_LEN, ENVELOPE_VERSION.
  cbn [length]. rewrite !app_length, Hn, Ht.
  destruct (Nat.leb_spec (S (12 + (length c + 16))) (1 + 12)) as [H|_]; [lia|].
  rewrite N.eqb_refl. cbn [negb].
  rewrite (firstn_app_exact nonce (c ++ t) 12 Hn).
  rewrite (skipn_app_exact nonce (c ++ t) 12 Hn).
  rewrite app_length, Ht.
  destruct (Nat.ltb_spec (length c + 16) 16) as [H|_]; [lia|].
  replace (length c + 16 - 16) with (length c) by lia.
  rewrite (firstn_app_exact c t (length c) eq_refl).
  rewrite (skipn_app_exact c t (length c) eq_refl).
  reflexivity.
Qed.

(** ** Round trip *)

Theorem unseal_seal : forall key nonce vid payload,
  length nonce = 12 ->
  unseal key vid (seal key nonce vid payload) = Some payload.
Proof.
  intros key nonce vid payload Hn. unfold seal, ENVELOPE_VERSION.
  rewrite unseal_parse; auto using aead_seal_snd_length.
  apply aead_open_seal.
Qed.
Print Assumptions unseal_seal.

(** ** Rejection *)

Theorem unseal_rejects_short : forall key vid s,
  (length s <= 13)%nat -> unseal key vid s = None.
Proof.
  intros key vid s H. unfold unseal, NONCE_LEN.
  destruct (Nat.leb_spec (length s) (1 + 12)) as [_|H']; [reflexivity|lia].
Qed.
Print Assumptions unseal_rejects_short.

Theorem unseal_rejects_format : forall key vid b s,
  b <> 1%N -> unseal key vid (b :: s) = None.
Proof.
  intros key vid b s Hb. unfold unseal, ENVELOPE_VERSION.
  destruct (length (b :: s) <=? 1 + NONCE_LEN)%nat; [reflexivity|].
  apply N.eqb_neq in Hb. rewrite Hb. reflexivity.
Qed.
Print Assumptions unseal_rejects_format.

(** A well-formed header followed by fewer than 16 bytes is rejected too. *)
Theorem unseal_rejects_truncated : forall key vid s,
  (length s < 1 + 12 + 16)%nat -> unseal key vid s = None.
Proof.
  intros key vid s H. unfold unseal, NONCE_LEN, TAG_LEN.
  destruct (length s <=? 1 + 12)%nat eqn:E; [reflexivity|].
  apply Nat.leb_gt in E.
  destruct s as [|v body]; [reflexivity|].
  destruct (negb (v =? ENVELOPE_VERSION)%N); [reflexivity|].
  cbn [length] in H, E.
  destruct (Nat.ltb_spec (length (skipn 12 body)) 16) as [_|H']; [reflexivity|].
  rewrite skipn_length in H'. lia.
Qed.
Print Assumptions unseal_rejects_truncated.

(** ** Soundness of acceptance

    If [unseal key vid s] accepts and returns [p], then [s] has the
    documented shape  0x01 || nonce(12) || c || t(16)  and

    - the stored tag [t] IS the Poly1305 tag recomputed under [key] and the
      stored nonce over the AAD of the CALLER'S version id [vid] and the
      stored ciphertext [c]  ([t = aead_tag key nonce (make_aad vid) c]);
    - [p] is the ChaCha20 decryption of [c];
    - equivalently, [(c, t)] is exactly what [aead_seal] outputs for [p]
      with this key, nonce and AAD -- in particular
      [t = snd (aead_seal key nonce (make_aad vid) p)].

    What this does NOT say (and what cannot be said without a computational
    assumption on Poly1305/ChaCha20) is that an envelope sealed for a
    different version id or key is rejected; it says that acceptance is
    equivalent to a tag match for THIS version id (see [unseal_Some_iff]). *)

Theorem unseal_sound : forall key vid s p,
  unseal key vid s = Some p ->
  exists nonce c t,
    s = 1%N :: nonce ++ c ++ t /\
    length nonce = 12 /\ length t = 16 /\ length c = length p /\
    t = aead_tag key nonce (make_aad vid) c /\
    p = chacha20_xor key 1 nonce c /\
    aead_seal key nonce (make_aad vid) p = (c, t) /\
    t = snd (aead_seal key nonce (make_aad vid) p).
Proof.
  intros key vid s p. unfold unseal, NONCE_LEN, TAG_LEN, ENVELOPE_VERSION.
  destruct (length s <=? 1 + 12)%nat eqn:Elen; [discriminate|].
  apply Nat.leb_gt in Elen.
  destruct s as [|v body]; [discriminate|].
  destruct (N.eqb_spec v 1%N) as [->|]; cbn [negb]; [|discriminate].
  cbn [length] in Elen.
  set (nonce := firstn 12 body). set (ct := skipn 12 body).
  destruct (Nat.ltb_spec (length ct) 16) as [|Hct]; [discriminate|].
  set (clen := length ct - 16).
  set (c := firstn clen ct). set (t := skipn clen ct).
  intros Hopen.
  assert (Hbody : body = nonce ++ c ++ t).
  { unfold c, t. rewrite firstn_skipn. unfold nonce, ct.
    rewrite firstn_skipn. reflexivity. }
  assert (Hn : length nonce = 12).
  { unfold nonce. rewrite firstn_length. lia. }
  assert (Ht : length t = 16).
  { unfold t. rewrite skipn_length. unfold clen. lia. }
  pose proof (aead_open_is_seal _ _ _ _ _ _ Hopen) as Hseal.
  apply aead_open_Some in Hopen. destruct Hopen as [Htag Hp].
  exists nonce, c, t. repeat split; auto.
  - rewrite Hbody at 1. reflexivity.
  - rewrite Hp. symmetry. apply chacha20_xor_length.
  - rewrite Hseal. reflexivity.
Qed.
Print Assumptions unseal_sound.

(** Acceptance characterised: [unseal] returns [p] exactly on the envelopes
    that [seal] produces for [p] under the same key and version id, for some
    12-byte nonce (which is then bytes 1..13 of the envelope). *)
Theorem unseal_Some_iff : forall key vid s p,
  unseal key vid s = Some p <->
  exists nonce, length nonce = 12 /\ s = seal key nonce vid p.
Proof.
  intros key vid s p. split.
  - intros H. apply unseal_sound in H.
    destruct H as (nonce & c & t & -> & Hn & _ & _ & _ & _ & Hseal & _).
    exists nonce. split; [assumption|].
    unfold seal. rewrite Hseal. reflexivity.
  - intros (nonce & Hn & ->). apply unseal_seal. assumption.
Qed.
Print Assumptions unseal_Some_iff.
