(** * Published test vectors, checked by computation.

    Every [Example] below is proved by [vm_compute; reflexivity]: the model
    functions are run inside Coq on the published inputs and the result is
    compared with the published output. *)

From Coq Require Import String.
From Coq Require Import List NArith.
From TC Require Import Model.Crypto.Bytes Model.Crypto.Sha256 Model.Crypto.Hmac
  Model.Crypto.Pbkdf2 Model.Crypto.Chacha20 Model.Crypto.Poly1305
  Model.Crypto.Aead Model.Crypto.Envelope.
Import ListNotations.
Local Open Scope string_scope.

(** ** SHA-256 (FIPS 180-4 / NIST examples) *)

Example sha256_empty :
  sha256 [] = hex "e3b0c44298fc1c149afbf4c8996fb92427ae41e4649b934ca495991b7852b855".
Proof. vm_compute. reflexivity. Qed.

Example sha256_abc :
  sha256 (bytes_of_string "abc") =
  hex "ba7816bf8f01cfea414140de5dae2223b00361a396177a9cb410ff61f20015ad".
Proof. vm_compute. reflexivity. Qed.

(** The 56-byte two-block message. *)
Example sha256_448_bits :
  sha256 (bytes_of_string "abcdbcdecdefdefgefghfghighijhijkijkljklmklmnlmnomnopnopq") =
  hex "248d6a61d20638b8e5c026930c3e6039a33ce45964ff2167f6ecedd419db06c1".
Proof. vm_compute. reflexivity. Qed.

(** 1000 x 'a' (16 blocks; value from an independent implementation). *)
Example sha256_1000_a :
  sha256 (repeat 97%N 1000) =
  hex "41edece42d63e8d9bf515a9ba6932e1c20cbc9f5a5d134645adb5db1b9737ea3".
Proof. vm_compute. reflexivity. Qed.

(** ** HMAC-SHA256 (RFC 4231) *)

Example hmac_rfc4231_case1 :
  hmac_sha256 (repeat 11%N (* 0x0b *) 20) (bytes_of_string "Hi There") =
  hex "b0344c61d8db38535ca8afceaf0bf12b881dc200c9833da726e9376c2e32cff7".
Proof. vm_compute. reflexivity. Qed.

Example hmac_rfc4231_case2 :
  hmac_sha256 (bytes_of_string "Jefe")
              (bytes_of_string "what do ya want for nothing?") =
  hex "5bdcc146bf60754e6a042426089575c75a003f089d2739839dec58b964ec3843".
Proof. vm_compute. reflexivity. Qed.

(** Case 6 exercises the "key longer than the block size is hashed" branch. *)
Example hmac_rfc4231_case6 :
  hmac_sha256 (repeat 170%N (* 0xaa *) 131)
    (bytes_of_string "Test Using Larger Than Block-Size Key - Hash Key First") =
  hex "60e431591ee0b67f0d8a26aacbf5b77f8e0bc6213728c5140546040f0ee37f54".
Proof. vm_compute. reflexivity. Qed.

(** ** PBKDF2-HMAC-SHA256 ("password" / "salt", first 32 bytes) *)

Example pbkdf2_c1 :
  pbkdf2_sha256_32 (bytes_of_string "password") (bytes_of_string "salt") 1 =
  hex "120fb6cffcf8b32c43e7225256c4f837a86548c92ccc35480805987cb70be17b".
Proof. vm_compute. reflexivity. Qed.

Example pbkdf2_c2 :
  pbkdf2_sha256_32 (bytes_of_string "password") (bytes_of_string "salt") 2 =
  hex "ae4d0c95af6b46d32d0adff928f06dd02a303f8ef3c251dfd6e2d85a95474c43".
Proof. vm_compute. reflexivity. Qed.

Example pbkdf2_c4096 :
  pbkdf2_sha256_32 (bytes_of_string "password") (bytes_of_string "salt") 4096 =
  hex "c5e478d59288c841aa530db6845c4c8d962893a001ce4e11a4963873aa98134a".
Proof. vm_compute. reflexivity. Qed.

(** The literal byte-string transcription agrees with the vectors and with
    the fast word-level loop. *)
Example pbkdf2_ref_c2 :
  pbkdf2_sha256_32_ref (bytes_of_string "password") (bytes_of_string "salt") 2 =
  hex "ae4d0c95af6b46d32d0adff928f06dd02a303f8ef3c251dfd6e2d85a95474c43".
Proof. vm_compute. reflexivity. Qed.

Example pbkdf2_ref_agrees_100 :
  pbkdf2_sha256_32_ref (bytes_of_string "a longer pass phrase") (hex "00ff10ef20df30cf") 100 =
  pbkdf2_sha256_32 (bytes_of_string "a longer pass phrase") (hex "00ff10ef20df30cf") 100.
Proof. vm_compute. reflexivity. Qed.

(** ** ChaCha20 (RFC 8439) *)

Definition rfc_key_00_1f : list N :=
  hex "000102030405060708090a0b0c0d0e0f101112131415161718191a1b1c1d1e1f".

Definition sunscreen : list N :=
  bytes_of_string "Ladies and Gentlemen of the class of '99: If I could offer you only one tip for the future, sunscreen would be it.".

(** Section 2.3.2: block function. *)
Example chacha20_block_rfc8439_2_3_2 :
  chacha20_block rfc_key_00_1f 1 (hex "000000090000004a00000000") =
  hex "10f1e7e4d13b5915500fdd1fa32071c4c7d1f4c733c068030422aa9ac3d46c4ed2826446079faa0914c2d705d98b02a2b5129cd1de164eb9cbd083e8a2503c4e".
Proof. vm_compute. reflexivity. Qed.

(** Section 2.4.2: encryption, initial counter 1. *)
Example chacha20_rfc8439_2_4_2 :
  chacha20_xor rfc_key_00_1f 1 (hex "000000000000004a00000000") sunscreen =
  hex "6e2e359a2568f98041ba0728dd0d6981e97e7aec1d4360c20a27afccfd9fae0bf91b65c5524733ab8f593dabcd62b3571639d624e65152ab8f530c359f0861d807ca0dbf500d6a6156a38e088a22b65e52bc514d16ccf806818ce91ab77937365af90bbf74a35be6b40b8eedf2785e42874d".
Proof. vm_compute. reflexivity. Qed.

(** ** Poly1305 (RFC 8439 section 2.5.2) *)

Example poly1305_rfc8439_2_5_2 :
  poly1305 (hex "85d6be7857556d337f4452fe42d506a80103808afb0db2fd4abff6af4149f51b")
           (bytes_of_string "Cryptographic Forum Research Group") =
  hex "a8061dc1305136c6c22b8baf0c0127a9".
Proof. vm_compute. reflexivity. Qed.

(** ** AEAD_CHACHA20_POLY1305 (RFC 8439 section 2.8.2) *)

Definition aead_key : list N :=
  hex "808182838485868788898a8b8c8d8e8f909192939495969798999a9b9c9d9e9f".
Definition aead_nonce : list N := hex "070000004041424344454647".
Definition aead_aad : list N := hex "50515253c0c1c2c3c4c5c6c7".
Definition aead_ct : list N :=
  hex "d31a8d34648e60db7b86afbc53ef7ec2a4aded51296e08fea9e2b5a736ee62d63dbea45e8ca9671282fafb69da92728b1a71de0a9e060b2905d6a5b67ecd3b3692ddbd7f2d778b8c9803aee328091b58fab324e4fad675945585808b4831d7bc3ff4def08e4b7a9de576d26586cec64b6116".
Definition aead_tag_expected : list N := hex "1ae10b594f09e26a7e902ecbd0600691".

(** One-time key (section 2.8.2, "Poly1305 Key"). *)
Example poly_key_rfc8439_2_8_2 :
  poly_key aead_key aead_nonce =
  hex "7bac2b252db447af09b67a55a4e955840ae1d6731075d9eb2a9375783ed553ff".
Proof. vm_compute. reflexivity. Qed.

Example aead_seal_rfc8439_2_8_2 :
  aead_seal aead_key aead_nonce aead_aad sunscreen = (aead_ct, aead_tag_expected).
Proof. vm_compute. reflexivity. Qed.

Example aead_open_rfc8439_2_8_2 :
  aead_open aead_key aead_nonce aead_aad aead_ct aead_tag_expected = Some sunscreen.
Proof. vm_compute. reflexivity. Qed.

(** A flipped tag bit, a flipped ciphertext bit and a different AAD are all
    rejected on this vector. *)
Example aead_open_rejects_bad_tag :
  aead_open aead_key aead_nonce aead_aad aead_ct
            (hex "1be10b594f09e26a7e902ecbd0600691") = None.
Proof. vm_compute. reflexivity. Qed.

Example aead_open_rejects_bad_ct :
  aead_open aead_key aead_nonce aead_aad (211%N :: 27%N :: skipn 2 aead_ct)
            aead_tag_expected = None.
Proof. vm_compute. reflexivity. Qed.

Example aead_open_rejects_bad_aad :
  aead_open aead_key aead_nonce (hex "50515253c0c1c2c3c4c5c6c8") aead_ct
            aead_tag_expected = None.
Proof. vm_compute. reflexivity. Qed.

(** ** Envelope and full-strength key derivation.

    Expected values come from an independent implementation (Python
    [hashlib.pbkdf2_hmac] and a from-scratch RFC 8439 script), not from this
    model. *)

Definition ex_key : list N :=
  hex "e20f474e7603204ff79c8caddf5e22c8d4abb733a3f9383684fea2f5fdb52bf9".
Definition ex_nonce : list N := hex "6465666768696a6b6c6d6e6f".
Definition ex_vid : list N := hex "000102030405060708090a0b0c0d0e0f".
Definition ex_sealed : list N :=
  hex "016465666768696a6b6c6d6e6f20234d580bfe27a7e42a10db25427d302bfaaf544de972a46b42b3e8a2ddbefd71".

(** One full 600000-iteration derivation (about 10 s of [vm_compute], run
    twice: once by the tactic, once by [Qed]). *)
Example derive_key_runs :
  derive_key (bytes_of_string "secret") (bytes_of_string "0123456789abcdef") = ex_key.
Proof. Time vm_compute. reflexivity. Time Qed.

Example seal_example :
  seal ex_key ex_nonce ex_vid (bytes_of_string "{""hello"":""world""}") = ex_sealed.
Proof. vm_compute. reflexivity. Qed.

Example unseal_example :
  unseal ex_key ex_vid ex_sealed = Some (bytes_of_string "{""hello"":""world""}").
Proof. vm_compute. reflexivity. Qed.

Example seal_empty_payload :
  seal ex_key ex_nonce ex_vid [] =
  hex "016465666768696a6b6c6d6e6fbec8450ad927f34178301c73e9311dcd".
Proof. vm_compute. reflexivity. Qed.

(** A 200-byte payload (four ChaCha20 blocks, counters 1..4). *)
Definition ex_payload_200 : list N :=
  hex "030a11181f262d343b424950575e656c737a81888f969da4abb2b9c0c7ced5dce3eaf1f8ff060d141b222930373e454c535a61686f767d848b9299a0a7aeb5bcc3cad1d8dfe6edf4fb020910171e252c333a41484f565d646b727980878e959ca3aab1b8bfc6cdd4dbe2e9f0f7fe050c131a21282f363d444b525960676e757c838a91989fa6adb4bbc2c9d0d7dee5ecf3fa01080f161d242b323940474e555c636a71787f868d949ba2a9b0b7bec5ccd3dae1e8eff6fd040b121920272e353c434a51585f666d74".

Example seal_200_bytes :
  seal ex_key ex_nonce ex_vid ex_payload_200 =
  hex "016465666768696a6b6c6d6e6f580b342578b465b1e54a2ee400707c7e2501dbabd83d4fdb628207a94a1bb8457bdcfcf815412b583fb82bd3a08b871173db5d9e28920563af87a7665ef63427946e9beef71bf2745205adb7faf46845958b11891ecb8df5fffce12919054fdd63b3a61eea6c38d1d263420ac392dfaeb7e968642bf2d27555729cb4f9c1478534ade751b71bc4e89deb39f8727ab95779c4f5c37ef5a70101e992c24202cffccff82a87687f0d0465059df975097b762510e15569276072fd91325282305b1d2eda30a90ee6acb44f1fc7dbe86419f0946a47d87091030c".
Proof. vm_compute. reflexivity. Qed.

(** The same envelope presented under another version id, or under another
    key, is rejected. *)
Example unseal_wrong_version_id :
  unseal ex_key (hex "000102030405060708090a0b0c0d0e10") ex_sealed = None.
Proof. vm_compute. reflexivity. Qed.

Example unseal_wrong_key :
  unseal (hex "e30f474e7603204ff79c8caddf5e22c8d4abb733a3f9383684fea2f5fdb52bf9")
         ex_vid ex_sealed = None.
Proof. vm_compute. reflexivity. Qed.
