(** User-defined attributes written through the mutators are read back by
    [Task::get_user_defined_attributes] ([udas]), removed ones are gone, every
    other attribute is untouched -- although the mutator also refreshes
    "modified", which is not an attribute -- and a reserved name never shows up
    as an attribute (C19). *)
From TC Require Import Model.Task Model.TaskMut Proofs.TaskMutP.
From Coq Require Import Strings.String.
Local Arguments s2l : simpl never.

(** what the attribute listing contains: exactly the stored pairs whose key is not reserved *)
Lemma udas_elem (m : tmap) k v :
  (k, v) ∈ udas m <-> m !! k = Some v /\ is_known_key k = false.
Proof.
  unfold udas. rewrite elem_of_list_filter, elem_of_map_to_list. cbn. tauto.
Qed.

(** each key is listed at most once *)
Lemma udas_functional (m : tmap) k v w : (k, v) ∈ udas m -> (k, w) ∈ udas m -> v = w.
Proof. rewrite !udas_elem. intros [H1 _] [H2 _]. congruence. Qed.

Lemma modified_is_known : is_known_key (s2l "modified"%string) = true.
Proof. vm_compute. reflexivity. Qed.

Lemma unknown_not_modified k : is_known_key k = false -> k <> s2l "modified"%string.
Proof. intros H ->. rewrite modified_is_known in H. discriminate. Qed.

Section Mut.
Variable nowstr : list N.

Lemma run_set_uda s k v s' :
  run_mutator nowstr s (MSetUda k v) = Some s' ->
  is_known_key k = false /\ s' = set_value nowstr s k (Some v).
Proof. unfold run_mutator. destruct (is_known_key k); [discriminate|]. intros [= <-]. split; reflexivity. Qed.

Lemma run_remove_uda s k s' :
  run_mutator nowstr s (MRemoveUda k) = Some s' ->
  is_known_key k = false /\ s' = set_value nowstr s k None.
Proof. unfold run_mutator. destruct (is_known_key k); [discriminate|]. intros [= <-]. split; reflexivity. Qed.

(** an attribute that was set is listed with the value written *)
Theorem set_uda_listed s k v s' :
  run_mutator nowstr s (MSetUda k v) = Some s' -> (k, v) ∈ udas (ts_map s').
Proof.
  intros H. apply run_set_uda in H as [Hk ->]. apply udas_elem. split; [|exact Hk].
  apply (set_value_reads_back nowstr s k (Some v)).
Qed.

(** … and with no other value *)
Theorem set_uda_only_value s k v w s' :
  run_mutator nowstr s (MSetUda k v) = Some s' -> (k, w) ∈ udas (ts_map s') -> w = v.
Proof. intros H Hw. exact (udas_functional _ _ _ _ Hw (set_uda_listed _ _ _ _ H)). Qed.

(** an attribute that was removed is not listed, whatever its value was *)
Theorem remove_uda_gone s k s' w :
  run_mutator nowstr s (MRemoveUda k) = Some s' -> (k, w) ∉ udas (ts_map s').
Proof.
  intros H. apply run_remove_uda in H as [Hk ->]. rewrite udas_elem. intros [Hm _].
  rewrite (set_value_reads_back nowstr s k None) in Hm. discriminate.
Qed.

(** setting or removing one attribute leaves every other attribute as it was
    (the refreshed "modified" is not an attribute) *)
Theorem other_udas_untouched s k v s' (set : bool) q w :
  run_mutator nowstr s (if set then MSetUda k v else MRemoveUda k) = Some s' ->
  q <> k ->
  ((q, w) ∈ udas (ts_map s') <-> (q, w) ∈ udas (ts_map s)).
Proof.
  intros Hrun Hne.
  assert (exists x, s' = set_value nowstr s k x) as [x ->].
  { destruct set; [apply run_set_uda in Hrun as [_ ->]|apply run_remove_uda in Hrun as [_ ->]]; eauto. }
  rewrite !udas_elem. split; intros [Hm Hq]; (split; [|exact Hq]).
  - rewrite set_value_other in Hm; [exact Hm|exact Hne|apply unknown_not_modified; exact Hq].
  - rewrite set_value_other; [exact Hm|exact Hne|apply unknown_not_modified; exact Hq].
Qed.

(** no mutator at all makes a reserved name show up as an attribute *)
Theorem reserved_never_listed (m : tmap) k v : is_known_key k = true -> (k, v) ∉ udas m.
Proof. rewrite udas_elem. intros H [_ H']. congruence. Qed.

(** a refused call changes nothing in a sequence of calls *)
Theorem refused_uda_is_noop s k v l :
  is_known_key k = true ->
  run_mutators nowstr s (MSetUda k v :: l) = run_mutators nowstr s l /\
  run_mutators nowstr s (MRemoveUda k :: l) = run_mutators nowstr s l.
Proof.
  intros H. destruct (reserved_uda_refused nowstr s k v H) as [H1 H2].
  unfold run_mutators. cbn [fold_left]. rewrite H1, H2. split; reflexivity.
Qed.
End Mut.

(** non-vacuity: an attribute set on a concrete task is listed next to an older one *)
Example uda_example :
  let s := {| ts_map := {[ s2l "status"%string := s2l "pending"%string; s2l "githubid"%string := s2l "17"%string ]};
              ts_um := false; ts_log := [] |} in
  exists s', run_mutator (s2l "1700000000"%string) s (MSetUda (s2l "jira"%string) (s2l "X-1"%string)) = Some s'
             /\ (s2l "jira"%string, s2l "X-1"%string) ∈ udas (ts_map s')
             /\ (s2l "githubid"%string, s2l "17"%string) ∈ udas (ts_map s').
Proof.
  eexists. split; [vm_compute; reflexivity|]. split; apply udas_elem; split; vm_compute; reflexivity.
Qed.
