(** The rebuilt working set lists every task at most once (C15, C17). *)
From TC Require Import Model.TaskDb Proofs.WorkingSetP.

Lemma sublist_elem {A} (l1 l2 : list A) x : l1 `sublist_of` l2 -> x ∈ l1 -> x ∈ l2.
Proof.
  induction 1 as [|y l1 l2 Hs IH|y l1 l2 Hs IH]; intros Hx; [exact Hx| |right; auto].
  apply elem_of_cons in Hx as [->|Hx]; [left|right; auto].
Qed.

Lemma sublist_NoDup {A} (l1 l2 : list A) : l1 `sublist_of` l2 -> NoDup l2 -> NoDup l1.
Proof.
  induction 1 as [|x l1 l2 Hs IH|x l1 l2 Hs IH]; intros ND.
  - constructor.
  - apply NoDup_cons in ND as [Hx ND]. constructor; [|auto]. intros Hin. apply Hx. eapply sublist_elem; eauto.
  - apply NoDup_cons in ND as [_ ND]. auto.
Qed.

Section WithPredicate.
Variable in_ws : gmap N N -> bool.

Lemma omap_id_strip (l : list (option N)) : omap id (strip_trailing_none l) = omap id l.
Proof.
  induction l as [|x l IH]; [reflexivity|]. cbn [strip_trailing_none].
  destruct (strip_trailing_none l) eqn:E.
  - destruct x as [u|]; cbn.
    + rewrite <- IH. reflexivity.
    + rewrite <- IH. reflexivity.
  - destruct x as [u|]; cbn in *; rewrite <- IH; reflexivity.
Qed.

Lemma scan_sublist s renumber old :
  omap id (scan_old in_ws s renumber old) `sublist_of` omap id old.
Proof.
  induction old as [|x old IH]; cbn; [constructor|].
  destruct (keep_entry in_ws s x) eqn:E.
  - destruct x as [u|]; cbn; [constructor; exact IH|exact IH].
  - destruct renumber; destruct x as [u|]; cbn; try exact IH; apply sublist_cons; exact IH.
Qed.

Lemma newcomers_nodup s seen all :
  NoDup (map fst all) ->
  NoDup (omap id (newcomers in_ws s seen all))
  /\ (forall u, u ∈ omap id (newcomers in_ws s seen all) -> Some u ∉ seen /\ u ∈ map fst all).
Proof.
  induction all as [|[u t] all IH]; cbn; intros ND; [split; [constructor|intros u H; inversion H]|].
  apply NoDup_cons in ND as [Hu ND]. destruct (IH ND) as [I1 I2].
  destruct (negb (bool_decide (Some u ∈ seen)) && in_ws t) eqn:E; cbn.
  - apply andb_true_iff in E as [E _]. apply negb_true_iff, bool_decide_eq_false in E. split.
    + constructor; [|exact I1]. intros Hin. apply I2 in Hin as [_ Hin]. contradiction.
    + intros v Hv. apply elem_of_cons in Hv as [->|Hv]; [split; [exact E|left]|].
      destruct (I2 v Hv). split; [assumption|right; assumption].
  - split; [exact I1|]. intros v Hv. destruct (I2 v Hv). split; [assumption|right; assumption].
Qed.

(** If the old working set has no duplicates, neither has the rebuilt one. *)
Theorem ws_nodup all s renumber :
  NoDup (omap id (st_ws s)) -> NoDup (map fst all) ->
  NoDup (omap id (rebuild_spec_ws in_ws all s renumber)).
Proof.
  intros Hold Hall. unfold rebuild_spec_ws. cbn zeta.
  set (kept := scan_old in_ws s renumber (tail (st_ws s))).
  rewrite omap_app. unfold normalize_ws.
  change (omap id (None :: strip_trailing_none kept)) with (omap id (strip_trailing_none kept)). rewrite omap_id_strip.
  destruct (newcomers_nodup s kept all Hall) as [N1 N2].
  assert (NoDup (omap id kept)) as Hk.
  { eapply sublist_NoDup; [apply scan_sublist|]. destruct (st_ws s) as [|x w]; [constructor|].
    cbn [tail]. cbn in Hold. destruct x; [apply NoDup_cons in Hold as [_ Hold]|]; exact Hold. }
  apply NoDup_app. split; [exact Hk|]. split; [|exact N1].
  intros u Hu Hn. apply N2 in Hn as [Hn _]. apply Hn.
  apply elem_of_list_omap in Hu as (x & Hx & Hid). destruct x as [u'|]; cbn in Hid; [|discriminate].
  injection Hid as ->. exact Hx.
Qed.
End WithPredicate.
