(** The write-back of a working-set rebuild through [set_working_set_item] and
    [add_to_working_set] produces [rebuild_spec_ws], for every store whose
    working set is in the storage's normal form (C15): the general proof behind
    [C15_writeback_small_scope]. *)
From TC Require Import Model.TaskDb Proofs.WorkingSetP Proofs.WorkingSetNoDupP.

(** ** normal form *)
Definition ends_some (l : list (option N)) : Prop := exists u, last l = Some (Some u).

Lemma strip_ends_some l : ends_some l -> strip_trailing_none l = l.
Proof.
  intros [u Hl]. induction l as [|x l IH]; [discriminate|]. cbn [strip_trailing_none].
  destruct l as [|y l'].
  - cbn in Hl. injection Hl as ->. reflexivity.
  - rewrite IH by exact Hl. reflexivity.
Qed.

Lemma strip_app_nones (l : list (option N)) k : strip_trailing_none (l ++ replicate k None) = strip_trailing_none l.
Proof.
  induction l as [|x l IH]; cbn [app strip_trailing_none].
  - induction k as [|k IHk]; [reflexivity|]. cbn [replicate strip_trailing_none]. rewrite IHk. reflexivity.
  - rewrite IH. reflexivity.
Qed.

(** every list is its stripped form followed by blanks *)
Lemma strip_decompose (l : list (option N)) : exists k, l = strip_trailing_none l ++ replicate k None.
Proof.
  induction l as [|x l [k IH]]; [exists 0%nat; reflexivity|]. cbn [strip_trailing_none].
  destruct (strip_trailing_none l) as [|y l''] eqn:E.
  - destruct x as [u|].
    + exists k. cbn. f_equal. exact IH.
    + exists (S k). cbn. f_equal. exact IH.
  - exists k. cbn [app]. f_equal. exact IH.
Qed.

Lemma strip_idem (l : list (option N)) : strip_trailing_none (strip_trailing_none l) = strip_trailing_none l.
Proof.
  destruct (strip_decompose l) as [k Hk]. rewrite Hk at 2. rewrite strip_app_nones. reflexivity.
Qed.

Lemma normalize_app_nones (l : list (option N)) k : l <> [] -> normalize_ws (l ++ replicate k None) = normalize_ws l.
Proof. destruct l as [|x l]; [congruence|]. intros _. cbn [app normalize_ws]. rewrite strip_app_nones. reflexivity. Qed.

Lemma normalize_decompose (l : list (option N)) : l <> [] -> exists k, l = normalize_ws l ++ replicate k None.
Proof.
  destruct l as [|x l]; [congruence|]. intros _. destruct (strip_decompose l) as [k Hk].
  exists k. cbn [normalize_ws app]. f_equal. exact Hk.
Qed.

Lemma normalize_ends_some (l : list (option N)) : l <> [] -> ends_some l -> normalize_ws l = l.
Proof.
  destruct l as [|x l]; [congruence|]. intros _ H. cbn [normalize_ws]. destruct l as [|y l'].
  - reflexivity.
  - rewrite strip_ends_some; [reflexivity|]. destruct H as [u Hu]. exists u. exact Hu.
Qed.

(** setting an entry inside the normal form commutes with normalisation *)
Lemma normalize_set (l : list (option N)) i x :
  (i < length (normalize_ws l))%nat -> l <> [] ->
  normalize_ws (<[i := x]> (normalize_ws l)) = normalize_ws (<[i := x]> l).
Proof.
  intros Hi Hne. destruct (normalize_decompose l Hne) as [k Hk].
  rewrite Hk at 2. rewrite insert_app_l by exact Hi.
  rewrite normalize_app_nones; [reflexivity|].
  intros Hnil. apply (f_equal length) in Hnil. rewrite insert_length in Hnil. cbn in Hnil. lia.
Qed.

(** an entry that holds a task is inside the normal form *)
Lemma normalize_lookup_some (l : list (option N)) i u :
  l !! i = Some (Some u) -> normalize_ws l !! i = Some (Some u).
Proof.
  destruct l as [|x l]; [discriminate|]. destruct i as [|i]; cbn [normalize_ws]; [auto|].
  cbn. apply strip_lookup_some.
Qed.

(** ** the three loops *)
Section Loops.
Variable in_ws : gmap N N -> bool.

Definition same_but_ws (s s' : store) : Prop :=
  st_tasks s' = st_tasks s /\ st_base s' = st_base s /\ st_ops s' = st_ops s.

Lemma same_refl s : same_but_ws s s.
Proof. repeat split. Qed.
Lemma same_trans s1 s2 s3 : same_but_ws s1 s2 -> same_but_ws s2 s3 -> same_but_ws s1 s3.
Proof. intros (A1 & A2 & A3) (B1 & B2 & B3). repeat split; congruence. Qed.

Lemma set_item_spec s i x :
  (i < length (st_ws s))%nat ->
  exists s', set_working_set_item s i x = Some s' /\ st_ws s' = normalize_ws (<[i := x]> (st_ws s)) /\ same_but_ws s s'.
Proof.
  intros Hi. unfold set_working_set_item. destruct (Nat.ltb_spec i (length (st_ws s))); [|lia].
  eexists. split; [reflexivity|]. split; [reflexivity|]. repeat split.
Qed.

(** [write_zip]: while old entries remain, the vector is the written prefix
    followed by the remaining old entries *)
Lemma write_zip_spec : forall old new s pre,
  st_ws s = normalize_ws (pre ++ old) -> length pre = 0%nat \/ pre <> [] ->
  (old = [] \/ ends_some old) -> (pre ++ old <> []) ->
  exists s', write_zip s (length pre) old new = Some s' /\ same_but_ws s s'
    /\ st_ws s' = normalize_ws (pre ++ take (length old) new ++ drop (length new) old).
Proof.
  induction old as [|o old IH]; intros new s pre Hw Hpre Hends Hne.
  - exists s. split; [destruct new; reflexivity|]. split; [apply same_refl|].
    rewrite Hw. cbn [length take drop app]. rewrite take_0, drop_nil. reflexivity.
  - destruct new as [|n new].
    + exists s. split; [reflexivity|]. split; [apply same_refl|]. rewrite Hw. cbn. reflexivity.
    + cbn [write_zip length take drop].
      assert (ends_some (o :: old)) as He by (destruct Hends as [Hd|Hd]; [discriminate|exact Hd]).
      (* the vector is exactly pre ++ o :: old *)
      assert (normalize_ws (pre ++ o :: old) = pre ++ o :: old) as Hex.
      { apply normalize_ends_some; [destruct pre; discriminate|].
        destruct He as [u Hu]. exists u. rewrite last_app. rewrite Hu. reflexivity. }
      assert (old = [] \/ ends_some old) as Hends'.
      { destruct old as [|y old']; [left; reflexivity|right]. destruct He as [u Hu]. exists u. exact Hu. }
      destruct (bool_decide (o = n)) eqn:Eon.
      * apply bool_decide_eq_true in Eon. subst n.
        destruct (IH new s (pre ++ [o])) as (s' & H1 & H2 & H3).
        { rewrite <- app_assoc. exact Hw. }
        { right. destruct pre; discriminate. }
        { exact Hends'. }
        { destruct pre; discriminate. }
        exists s'. rewrite app_length in H1. cbn [length] in H1. rewrite Nat.add_1_r in H1.
        split; [exact H1|]. split; [exact H2|]. rewrite H3, <- app_assoc. reflexivity.
      * assert (length pre < length (st_ws s))%nat as Hin.
        { rewrite Hw, Hex, app_length. cbn. lia. }
        destruct (set_item_spec s (length pre) n Hin) as (s1 & E1 & W1 & S1). rewrite E1.
        destruct (IH new s1 (pre ++ [n])) as (s' & H1 & H2 & H3).
        { rewrite W1, Hw, Hex. rewrite insert_app_r_alt by lia. rewrite Nat.sub_diag. cbn [insert list_insert].
          rewrite <- app_assoc. reflexivity. }
        { right. destruct pre; discriminate. }
        { exact Hends'. }
        { destruct pre; discriminate. }
        exists s'. rewrite app_length in H1. cbn [length] in H1. rewrite Nat.add_1_r in H1.
        split; [exact H1|]. split; [eapply same_trans; eauto|]. rewrite H3, <- app_assoc. reflexivity.
Qed.

(** [blank_rest]: the remaining old entries are blanked one by one *)
Lemma blank_rest_spec : forall rest s pre,
  st_ws s = normalize_ws (pre ++ rest) -> pre <> [] ->
  exists s', blank_rest s (length pre) rest = Some s' /\ same_but_ws s s'
    /\ st_ws s' = normalize_ws pre.
Proof.
  induction rest as [|r rest IH]; intros s pre Hw Hpre.
  - exists s. split; [reflexivity|]. split; [apply same_refl|]. rewrite Hw, app_nil_r. reflexivity.
  - cbn [blank_rest]. destruct r as [u|].
    + assert (length pre < length (st_ws s))%nat as Hin.
      { rewrite Hw. eapply lookup_lt_Some. apply (normalize_lookup_some _ _ u).
        rewrite lookup_app_r by lia. rewrite Nat.sub_diag. reflexivity. }
      destruct (set_item_spec s (length pre) None Hin) as (s1 & E1 & W1 & S1). rewrite E1.
      destruct (IH s1 (pre ++ [None])) as (s' & H1 & H2 & H3).
      { rewrite W1, Hw. rewrite normalize_set; [|rewrite <- Hw; exact Hin|destruct pre; discriminate].
        rewrite insert_app_r_alt by lia. rewrite Nat.sub_diag. cbn [insert list_insert].
        rewrite <- app_assoc. reflexivity. }
      { destruct pre; discriminate. }
      exists s'. rewrite app_length in H1. cbn [length] in H1. rewrite Nat.add_1_r in H1.
      split; [exact H1|]. split; [eapply same_trans; eauto|].
      rewrite H3. apply (normalize_app_nones pre 1). exact Hpre.
    + destruct (IH s (pre ++ [None])) as (s' & H1 & H2 & H3).
      { rewrite <- app_assoc. exact Hw. }
      { destruct pre; discriminate. }
      exists s'. rewrite app_length in H1. cbn [length] in H1. rewrite Nat.add_1_r in H1.
      split; [exact H1|]. split; [exact H2|].
      rewrite H3. apply (normalize_app_nones pre 1). exact Hpre.
Qed.

(** [append_rest]: new entries are appended at the end of the normal form *)
Lemma append_rest_spec : forall news s,
  Forall (fun x => x <> None) news ->
  exists s', append_rest s news = Some s' /\ same_but_ws s s' /\ st_ws s' = st_ws s ++ news.
Proof.
  induction news as [|x news IH]; intros s HF.
  - exists s. split; [reflexivity|]. split; [apply same_refl|]. rewrite app_nil_r. reflexivity.
  - inversion HF as [|? ? Hx HF']; subst. destruct x as [u|]; [|congruence]. cbn [append_rest].
    destruct (IH (add_to_working_set s u).2 HF') as (s' & H1 & H2 & H3).
    exists s'. split; [exact H1|]. split.
    + eapply same_trans; [|exact H2]. repeat split.
    + rewrite H3. cbn. rewrite <- app_assoc. reflexivity.
Qed.
End Loops.

(** ** the rebuild *)
Section Rebuild.
Variable in_ws : gmap N N -> bool.

(** the storage's normal form of a working set: position 0 blank, no trailing blank *)
Definition ws_normal (w : list (option N)) : Prop :=
  exists tl, w = None :: tl /\ (tl = [] \/ ends_some tl).

Lemma newcomers_all_some s seen all : Forall (fun x => x <> None) (newcomers in_ws s seen all).
Proof.
  apply Forall_forall. intros x Hx. apply (newcomers_entries in_ws) in Hx as (u & t & -> & _). discriminate.
Qed.

Lemma scan_renumber_all_some s old : Forall (fun x => x <> None) (scan_old in_ws s true old).
Proof.
  rewrite (scan_compact in_ws). apply Forall_forall. intros x Hx. apply elem_of_list_filter in Hx as [Hk _].
  destruct x; [discriminate|cbn in Hk; discriminate].
Qed.

Lemma normalize_all_some (l : list (option N)) : Forall (fun x => x <> None) l -> normalize_ws (None :: l) = None :: l.
Proof.
  intros HF. cbn [normalize_ws]. f_equal. apply strip_no_none. intros x Hx. rewrite Forall_forall in HF. auto.
Qed.

Theorem rebuild_writes_spec all s renumber :
  ws_normal (st_ws s) ->
  exists s', rebuild_with in_ws all s renumber = Some s'
    /\ st_ws s' = rebuild_spec_ws in_ws all s renumber
    /\ st_tasks s' = st_tasks s /\ st_base s' = st_base s /\ st_ops s' = st_ops s.
Proof.
  intros (told & Hold & Hn). unfold rebuild_with, rebuild_spec_ws. rewrite Hold. cbn [tail].
  set (kept := scan_old in_ws s renumber told).
  set (nc := newcomers in_ws s kept all).
  set (new := None :: kept ++ nc).
  assert (Forall (fun x => x <> None) nc) as Hnc by apply newcomers_all_some.
  (* the zip *)
  assert (exists s1, write_zip s 0 (None :: told) new = Some s1 /\ same_but_ws s s1
            /\ st_ws s1 = normalize_ws (take (S (length told)) new ++ drop (length new) (None :: told))) as (s1 & Z1 & Z2 & Z3).
  { destruct Hn as [->|He].
    - exists s. split; [unfold new; cbn; rewrite bool_decide_eq_true_2 by reflexivity; destruct (kept ++ nc); reflexivity|].
      split; [apply same_refl|]. rewrite Hold. unfold new. cbn [length take drop]. rewrite take_0, drop_nil, app_nil_r. reflexivity.
    - destruct (write_zip_spec (None :: told) new s []) as (s1 & H1 & H2 & H3).
      + cbn [app]. rewrite Hold. symmetry. apply normalize_ends_some; [discriminate|].
        destruct He as [u Hu]. exists u. destruct told; [discriminate|exact Hu].
      + left. reflexivity.
      + right. destruct He as [u Hu]. exists u. destruct told; [discriminate|exact Hu].
      + discriminate.
      + exists s1. split; [exact H1|]. split; [exact H2|exact H3]. }
  rewrite Z1. cbn [length].
  destruct Z2 as (T1 & T2 & T3).
  destruct (Nat.ltb_spec (length new) (S (length told))) as [Hlt|Hge].
  - (* the new working set is shorter: only possible when renumbering *)
    assert (renumber = true) as ->.
    { destruct renumber; [reflexivity|]. exfalso. unfold new, kept in Hlt. cbn [length] in Hlt.
      rewrite app_length, (scan_keeps_length in_ws) in Hlt. lia. }
    rewrite take_ge in Z3 by lia.
    destruct (blank_rest_spec (drop (length new) (None :: told)) s1 new) as (s' & B1 & B2 & B3).
    { exact Z3. } { discriminate. }
    exists s'. split; [exact B1|]. destruct B2 as (U1 & U2 & U3).
    split; [|repeat split; congruence].
    rewrite B3. unfold new.
    assert (Forall (fun x => x <> None) kept) as Hk by apply scan_renumber_all_some.
    rewrite (normalize_all_some (kept ++ nc)) by (apply Forall_app; split; assumption).
    rewrite (normalize_all_some kept Hk). reflexivity.
  - (* the new working set is at least as long: the rest is appended *)
    rewrite drop_ge in Z3 by (cbn [length]; lia). rewrite app_nil_r in Z3.
    assert (Forall (fun x => x <> None) (drop (S (length told)) new)) as Hdrop.
    { destruct renumber.
      - unfold new. cbn [drop]. apply Forall_drop. apply Forall_app. split; [apply scan_renumber_all_some|exact Hnc].
      - unfold new. cbn [drop]. rewrite drop_app_ge by (unfold kept; rewrite (scan_keeps_length in_ws); lia).
        apply Forall_drop. exact Hnc. }
    destruct (append_rest_spec (drop (S (length told)) new) s1 Hdrop) as (s' & A1 & A2 & A3).
    exists s'. split; [exact A1|]. destruct A2 as (U1 & U2 & U3).
    split; [|repeat split; congruence].
    rewrite A3, Z3. destruct renumber.
    + assert (Forall (fun x => x <> None) kept) as Hk by apply scan_renumber_all_some.
      assert (Forall (fun x => x <> None) (kept ++ nc)) as Hkn by (apply Forall_app; split; assumption).
      unfold new. cbn [take drop]. rewrite (normalize_all_some (take (length told) (kept ++ nc))) by (apply Forall_take; exact Hkn).
      rewrite (normalize_all_some kept Hk). cbn [app]. f_equal. apply take_drop.
    + unfold new. cbn [take drop].
      rewrite take_app_le by (unfold kept; rewrite (scan_keeps_length in_ws); lia).
      rewrite take_ge by (unfold kept; rewrite (scan_keeps_length in_ws); lia).
      rewrite drop_app_ge by (unfold kept; rewrite (scan_keeps_length in_ws); lia).
      replace (length told - length kept)%nat with 0%nat by (unfold kept; rewrite (scan_keeps_length in_ws); lia).
      rewrite drop_0. reflexivity.
Qed.
End Rebuild.

(** the result is again in normal form *)
Lemma strip_normal (l : list (option N)) : strip_trailing_none l = [] \/ ends_some (strip_trailing_none l).
Proof.
  induction l as [|x l IH]; [left; reflexivity|]. cbn [strip_trailing_none].
  destruct (strip_trailing_none l) as [|y l''] eqn:E.
  - destruct x as [u|]; [right; exists u; reflexivity|left; reflexivity].
  - right. destruct IH as [IH|[u Hu]]; [discriminate|]. exists u. exact Hu.
Qed.

Lemma rebuild_spec_normal (in_ws : gmap N N -> bool) all s renumber :
  ws_normal (rebuild_spec_ws in_ws all s renumber).
Proof.
  unfold rebuild_spec_ws. cbn zeta. set (kept := scan_old in_ws s renumber (tail (st_ws s))).
  set (nc := newcomers in_ws s kept all). cbn [normalize_ws app].
  exists (strip_trailing_none kept ++ nc). split; [reflexivity|].
  destruct nc as [|x nc'] eqn:En.
  - rewrite app_nil_r. apply strip_normal.
  - right. assert (Forall (fun x => x <> None) nc) as HF by apply newcomers_all_some.
    rewrite En in HF. destruct (last (x :: nc')) as [y|] eqn:El; [|apply last_None in El; discriminate El].
    assert (y ∈ x :: nc') as Hy by (rewrite last_lookup in El; eapply elem_of_list_lookup_2; exact El).
    rewrite Forall_forall in HF. destruct y as [u|]; [|exfalso; apply (HF None Hy); reflexivity].
    exists u. rewrite last_app, El. reflexivity.
Qed.
