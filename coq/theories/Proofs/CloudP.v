(** The object-store server: what cleanup may delete (C10) and the version
    chain under concurrent add-version calls (C09). *)
From TC Require Import Model.Cloud.

(** ** cleanup's decisions, for every listing *)
Section Plan.
Variable rank : N -> N.
Variable threshold : N.

Lemma elem_of_by_child x l : x ∈ by_child rank l <-> x ∈ l.
Proof.
  unfold by_child. induction l as [|y l IH]; cbn [foldr]; [reflexivity|].
  assert (forall z acc, x ∈ ins_child rank z acc <-> x = z \/ x ∈ acc) as Hins.
  { intros z acc. induction acc as [|w acc IHa]; cbn [ins_child].
    - rewrite elem_of_list_singleton, elem_of_nil. tauto.
    - destruct (rank z.1.2 <? rank w.1.2)%N.
      + rewrite elem_of_cons. reflexivity.
      + rewrite !elem_of_cons, IHa. tauto. }
  rewrite Hins, IH, elem_of_cons. reflexivity.
Qed.

(** (a) a version is deleted as a loser only if its parent has a different
    child on the known chain: it can never be committed *)
Theorem losers_have_lost vers chain p c :
  (p, c) ∈ losers rank vers chain ->
  (exists t, (p, c, t) ∈ vers) /\ exists c', chain_child chain p = Some c' /\ c' <> c.
Proof.
  unfold losers. intros H. apply elem_of_list_omap in H. destruct H as (((p0 & c0) & t) & Hin & H).
  cbn in H. destruct (chain_child chain p0) as [c'|] eqn:E; [|discriminate].
  destruct (N.eqb_spec c' c0); [discriminate|]. inv H.
  split; [exists t; apply elem_of_by_child; exact Hin|]. eauto.
Qed.

(** (b) a snapshot is deleted as redundant only if its version is on the
    known chain strictly before (older than) the newest on-chain snapshot *)
Theorem old_snapshots_are_older l chain snaps s v :
  v ∈ old_snapshots l chain snaps s ->
  v ∈ snaps /\ v ∈ tail (drop_until s (chain_versions l chain)).
Proof.
  unfold old_snapshots. intros H. apply elem_of_list_filter in H. destruct H as [H1 H2].
  apply bool_decide_unpack in H1. auto.
Qed.

Lemma latest_snapshot_on_chain l chain snaps s :
  latest_snapshot l chain snaps = Some s -> s ∈ snaps /\ s ∈ chain_versions l chain.
Proof.
  unfold latest_snapshot. intros H. apply find_some in H. destruct H as [H1 H2].
  apply bool_decide_eq_true in H2. split; [exact H2|]. apply elem_of_list_In. exact H1.
Qed.

(** (c) an old version is deleted only if it is older than the threshold and
    sits on the known chain at or before the newest on-chain snapshot *)
Theorem old_versions_are_covered vers chain s p c :
  (p, c) ∈ old_versions threshold vers chain s ->
  (exists t, creation_of vers c = Some t /\ (t < threshold)%N) /\ (c, p) ∈ chain.
Proof.
  unfold old_versions. intros H. apply elem_of_list_omap in H. destruct H as ((c0 & p0) & Hin & H).
  cbn in H. destruct (creation_of vers c0) as [t|] eqn:E; [|discriminate].
  destruct (N.ltb_spec t threshold); [|discriminate]. inv H.
  split; [eauto|].
  revert Hin. generalize chain. intros ch. induction ch as [|e ch IH]; [intros Hx; inversion Hx|].
  destruct (N.eqb e.1 s).
  - intros Hx. exact Hx.
  - intros Hx. right. apply IH. exact Hx.
Qed.

(** nothing newer than the newest on-chain snapshot is ever among the old
    versions to delete: they all come from the part of the chain at or before it *)
Lemma from_is_suffix (s : N) (chain : list (N * N)) :
  exists pre, chain = pre ++
    (fix from (xs : list (N * N)) := match xs with
                                     | [] => []
                                     | e :: xs' => if N.eqb e.1 s then e :: xs' else from xs'
                                     end) chain
    /\ Forall (fun e => e.1 <> s) pre.
Proof.
  induction chain as [|e ch IH].
  - exists []. split; [reflexivity|constructor].
  - destruct (N.eqb_spec e.1 s) as [He|He].
    + exists []. split; [reflexivity|constructor].
    + destruct IH as (pre & H1 & H2). exists (e :: pre). split.
      * cbn [app]. f_equal. exact H1.
      * constructor; assumption.
Qed.
End Plan.

(** the system of concurrent clients and its invariant over all schedules are in CloudInvP.v *)

(** ** the mechanism: a version is committed only by a successful compare-and-swap *)
Section Mechanism.
Variable rank : N -> N.
Variable pagesz : nat.
Variable threshold : N.
Variable now : N.

(** [latest] changes only through a compare-and-swap whose expected value matches *)
Lemma latest_changes_only_by_cas st q :
  o_latest (ostore_step rank pagesz now st q).2 <> o_latest st ->
  exists old new, q = QCasLatest old new /\ o_latest st = old
                  /\ o_latest (ostore_step rank pagesz now st q).2 = Some new.
Proof.
  destruct q; cbn; try congruence.
  destruct (bool_decide (o_latest st = old)) eqn:E; cbn; [|congruence].
  apply bool_decide_eq_true in E. intros _. eauto.
Qed.

(** version objects are created only by a put and removed only by a delete *)
Lemma vers_change st q :
  o_vers (ostore_step rank pagesz now st q).2 = o_vers st
  \/ (exists p c pl, q = QPutVer p c pl /\ o_vers (ostore_step rank pagesz now st q).2 = <[(p, c) := (pl, now)]> (o_vers st))
  \/ (exists p c, q = QDelVer p c /\ o_vers (ostore_step rank pagesz now st q).2 = delete (p, c) (o_vers st)).
Proof.
  destruct q; cbn; auto.
  - destruct (bool_decide _); auto.
  - right. left. eauto.
  - right. right. eauto.
Qed.

(** of two compare-and-swaps expecting the same value, performed one after the
    other (whatever happens in between), at most the first can succeed unless
    [latest] returned to that value -- which never happens because ids are not
    reused: after a successful swap to [new] the value is no longer [old] *)
Lemma cas_excludes st old new1 new2 :
  new1 <> default new1 old ->          (* the new id differs from the expected one *)
  Some new1 <> old ->
  let st1 := (ostore_step rank pagesz now st (QCasLatest old new1)).2 in
  (ostore_step rank pagesz now st (QCasLatest old new1)).1 = PBool true ->
  (ostore_step rank pagesz now st1 (QCasLatest old new2)).1 = PBool false.
Proof.
  intros _ Hne. cbn. destruct (bool_decide (o_latest st = old)) eqn:E; cbn; [|discriminate].
  intros _. rewrite bool_decide_eq_false_2 by exact Hne. reflexivity.
Qed.

(** the add-version machine: the only request that can change [latest] is the
    swap at [A2], from exactly the value read at [A0], which is its parent
    whenever a latest version existed; if the swap fails the machine deletes
    its own object and reports the then-latest version *)
Lemma add_version_swap_shape c q :
  cl_next c = inl q -> (exists old new, q = QCasLatest old new) ->
  exists p c0 pl l, c = A2 p c0 pl l /\ q = QCasLatest l c0.
Proof.
  intros H (old & new & ->).
  destruct c; cbn in H; try discriminate;
    try (inv H; eauto 10; fail);
    repeat match goal with
    | H : match ?x with _ => _ end = _ |- _ => destruct x; try discriminate
    end.
Qed.

Lemma add_version_parent_is_latest p c pl r l :
  cl_resume rank threshold (A0 p c pl) r = A1 p c pl l -> forall l0, l = Some l0 -> l0 = p.
Proof.
  destruct r as [[l1|]| | | | |]; cbn; try discriminate.
  - destruct (N.eqb_spec l1 p); [|discriminate]. intros H l0 El. congruence.
  - intros H l0 El. congruence.
Qed.

Lemma helpers_not_ok c0 u :
  (forall p todo best, next_scan p todo best <> CDone (CAddOk c0 u))
  /\ (forall l vers dels, after_k2 l vers dels <> CDone (CAddOk c0 u))
  /\ (forall sd vd, after_k4 sd vd <> CDone (CAddOk c0 u))
  /\ (forall vd, after_k5 vd <> CDone (CAddOk c0 u)).
Proof.
  repeat split.
  - intros p [|x todo] [b|]; cbn; discriminate.
  - intros l vers [|d dels]; cbn; discriminate.
  - intros [|d sd] [|e vd]; cbn; discriminate.
  - intros [|e vd]; cbn; discriminate.
Qed.

Lemma add_version_ok_only_after_swap c r c0 u :
  cl_resume rank threshold c r = CDone (CAddOk c0 u) -> c = A5 c0.
Proof.
  destruct (helpers_not_ok c0 u) as (N1 & N2 & N3 & N4).
  destruct c, r; cbn; try discriminate;
    repeat match goal with
    | |- context [match ?x with _ => _ end] => destruct x
    end; try discriminate;
    try (intros H; exfalso; first [eapply N1; exact H | eapply N2; exact H | eapply N3; exact H | eapply N4; exact H]).
  all: intros H; inv H; reflexivity.
Qed.

Lemma swap_success_leads_to_ok p c0 pl l :
  cl_resume rank threshold (A2 p c0 pl l) (PBool true) = A5 c0
  /\ cl_resume rank threshold (A2 p c0 pl l) (PBool false) = A3 p c0.
Proof. split; reflexivity. Qed.
End Mechanism.

(** ** add-version's commit point (C11) *)
Lemma latest_untouched_before_swap rank pagesz now st q :
  (forall old new, q <> QCasLatest old new) ->
  o_latest (ostore_step rank pagesz now st q).2 = o_latest st.
Proof.
  intros Hq. destruct q; cbn; try reflexivity. exfalso. eapply Hq. reflexivity.
Qed.

Lemma swap_is_atomic rank pagesz now st old new :
  let st' := (ostore_step rank pagesz now st (QCasLatest old new)).2 in
  (o_latest st = old /\ o_latest st' = Some new /\ o_vers st' = o_vers st /\ o_snaps st' = o_snaps st)
  \/ (o_latest st <> old /\ st' = st).
Proof.
  cbn. destruct (bool_decide (o_latest st = old)) eqn:E.
  - apply bool_decide_eq_true in E. left. cbn. auto.
  - apply bool_decide_eq_false in E. right. cbn. auto.
Qed.
