(** The conflict table of [transform], what a rebase keeps, symmetry of the
    transformation grid and independence of the order in which two replicas
    synchronise (C03). *)
From TC Require Import Model.Rebase Proofs.TransformP Proofs.RebaseP.

(** ** order on (timestamp, value) *)
Lemma ov_ltb_irrefl v : ov_ltb v v = false.
Proof. destruct v; cbn; [apply N.ltb_irrefl|reflexivity]. Qed.

Lemma ov_trichotomy a b : ov_eqb a b = false -> ov_ltb a b = negb (ov_ltb b a).
Proof.
  destruct a as [x|], b as [y|]; cbn; try reflexivity; try discriminate.
  intros H. apply N.eqb_neq in H.
  destruct (N.ltb_spec x y), (N.ltb_spec y x); cbn; try reflexivity; lia.
Qed.

Lemma tv_ltb_antisym t1 v1 t2 v2 :
  (ov_eqb v1 v2 && Z.eqb t1 t2) = false ->
  tv_ltb t2 v2 t1 v1 = negb (tv_ltb t1 v1 t2 v2).
Proof.
  unfold tv_ltb. intros H. rewrite (Z.eqb_sym t2 t1).
  destruct (Z.eqb_spec t1 t2) as [->|Hne].
  - rewrite andb_true_r in H. rewrite Z.ltb_irrefl. cbn.
    rewrite (ov_trichotomy v1 v2 H). destruct (ov_ltb v2 v1); reflexivity.
  - cbn [andb]. rewrite !orb_false_r.
    destruct (Z.ltb_spec t1 t2), (Z.ltb_spec t2 t1); cbn; try reflexivity; lia.
Qed.

Lemma ov_eqb_sym a b : ov_eqb a b = ov_eqb b a.
Proof. destruct a, b; cbn; try reflexivity. apply N.eqb_sym. Qed.

(** ** symmetry *)
Definition swap_pair {A B} (p : A * B) : B * A := (p.2, p.1).

Lemma transform_symmetric a b : transform b a = swap_pair (transform a b).
Proof.
  destruct a as [u1|u1|u1 p1 v1 t1], b as [u2|u2|u2 p2 v2 t2]; cbn [transform];
    rewrite ?(N.eqb_sym u2 u1); try (destruct (N.eqb u1 u2); reflexivity).
  rewrite (N.eqb_sym p2 p1), (ov_eqb_sym v2 v1), (Z.eqb_sym t2 t1).
  destruct (N.eqb u1 u2 && N.eqb p1 p2); [|reflexivity].
  destruct (ov_eqb v1 v2 && Z.eqb t1 t2) eqn:E; [reflexivity|].
  rewrite (tv_ltb_antisym _ _ _ _ E). destruct (tv_ltb t1 v1 t2 v2); reflexivity.
Qed.

(** ** the documented conflict table *)
(** [beats a b]: [a] wins the documented conflict against [b]: a deletion of
    the task beats an update of it; of two different updates of one property
    the one with the greater (timestamp, value) beats the other. *)
Definition beats (a b : sop) : bool :=
  match a, b with
  | SDelete u1, SUpdate u2 _ _ _ => N.eqb u1 u2
  | SUpdate u1 p1 v1 t1, SUpdate u2 p2 v2 t2 =>
      N.eqb u1 u2 && N.eqb p1 p2 && tv_ltb t2 v2 t1 v1
  | _, _ => false
  end.

(** [same_effect a b]: identical updates, two creations or two deletions of one task *)
Definition same_effect (a b : sop) : bool :=
  match a, b with
  | SCreate u1, SCreate u2 => N.eqb u1 u2
  | SDelete u1, SDelete u2 => N.eqb u1 u2
  | SUpdate u1 p1 v1 t1, SUpdate u2 p2 v2 t2 =>
      N.eqb u1 u2 && N.eqb p1 p2 && ov_eqb v1 v2 && Z.eqb t1 t2
  | _, _ => false
  end.

(** On operations valid in a common state, [transform] keeps each operation
    unless the other one has the same effect or beats it -- nothing else. *)
Lemma transform_table s a b :
  validb s a = true -> validb s b = true ->
  transform a b =
  (if same_effect a b || beats b a then None else Some a,
   if same_effect a b || beats a b then None else Some b).
Proof.
  intros Ha Hb.
  destruct a as [u1|u1|u1 p1 v1 t1], b as [u2|u2|u2 p2 v2 t2];
    cbn [transform same_effect beats orb]; rewrite ?orb_false_r.
  - destruct (N.eqb u1 u2); reflexivity.
  - destruct (N.eqb_spec u1 u2); [|reflexivity]. subst. cbn in Ha, Hb.
    destruct (s !! u2); discriminate.
  - destruct (N.eqb_spec u1 u2); [|reflexivity]. subst. cbn in Ha, Hb.
    destruct (s !! u2); discriminate.
  - destruct (N.eqb_spec u1 u2); [|reflexivity]. subst. cbn in Ha, Hb.
    destruct (s !! u2); discriminate.
  - destruct (N.eqb u1 u2); reflexivity.
  - rewrite ?(N.eqb_sym u2 u1). destruct (N.eqb u1 u2); reflexivity.
  - destruct (N.eqb_spec u1 u2); [|reflexivity]. subst. cbn in Ha, Hb.
    destruct (s !! u2); discriminate.
  - rewrite ?(N.eqb_sym u2 u1). destruct (N.eqb u1 u2); reflexivity.
  - rewrite (N.eqb_sym u2 u1), (N.eqb_sym p2 p1).
    destruct (N.eqb u1 u2 && N.eqb p1 p2) eqn:E; cbn [andb]; [|reflexivity].
    destruct (ov_eqb v1 v2 && Z.eqb t1 t2) eqn:E2; cbn [orb]; [reflexivity|].
    rewrite (tv_ltb_antisym _ _ _ _ E2). destruct (tv_ltb t1 v1 t2 v2); reflexivity.
Qed.

(** ** what a rebase keeps *)
Lemma transform_keeps_local s o lo :
  validb s o = true -> validb s lo = true ->
  same_effect o lo = false -> beats o lo = false ->
  (transform o lo).2 = Some lo.
Proof.
  intros Ho Hlo HS HB. rewrite (transform_table s o lo Ho Hlo). cbn [snd].
  rewrite HS, HB. reflexivity.
Qed.

Lemma transform_keeps_or_drops a b :
  ((transform a b).1 = None \/ (transform a b).1 = Some a)
  /\ ((transform a b).2 = None \/ (transform a b).2 = Some b).
Proof.
  destruct a as [u1|u1|u1 p1 v1 t1], b as [u2|u2|u2 p2 v2 t2]; cbn [transform];
    repeat case_if; cbn; auto.
Qed.

(** carrying one server operation through the local list keeps every local
    operation that it neither beats nor duplicates *)
Lemma rebase_one_kept l : forall s so lo,
  validb s so = true -> valid_seqb s l = true ->
  In lo l -> same_effect so lo = false -> beats so lo = false ->
  In lo (rebase_one transform (Some so) l).2.
Proof.
  induction l as [|x l IH]; intros s so lo Hso Hl Hin HS HB; [destruct Hin|].
  cbn [valid_seqb] in Hl. apply andb_true_iff in Hl. destruct Hl as [Hx Hl].
  cbn [rebase_one].
  pose proof (tp1 s so x Hso Hx) as T.
  pose proof (transform_keeps_or_drops so x) as [K1 K2].
  destruct (transform so x) as [so' x'] eqn:ET. cbn [fst snd] in *.
  destruct T as (_ & _ & T3).
  destruct Hin as [<-|Hin].
  - (* the operation itself meets the server operation here *)
    pose proof (transform_keeps_local s so x Hso Hx HS HB) as K. rewrite ET in K. cbn in K. subst x'.
    destruct (rebase_one transform so' l) as [r l'']. cbn. left. reflexivity.
  - destruct K1 as [->| ->].
    + assert (rebase_one transform None l = (None, l)) as -> by (destruct l; reflexivity).
      cbn. destruct x'; [right|]; exact Hin.
    + cbn [valido] in T3. specialize (IH (apply s x) so lo T3 Hl Hin HS HB).
      destruct (rebase_one transform (Some so) l) as [r l'']. cbn [snd] in *.
      destruct x'; [right|]; exact IH.
Qed.

(** rebasing over a whole version keeps every local operation that no
    operation of the version beats or duplicates *)
Lemma rebase_kept v : forall l s lo,
  valid_seqb s v = true -> valid_seqb s l = true ->
  In lo l ->
  (forall so, In so v -> same_effect so lo = false /\ beats so lo = false) ->
  In lo (rebase transform v l).2.
Proof.
  induction v as [|so v IH]; intros l s lo Hv Hl Hin Hno; cbn [rebase]; [exact Hin|].
  cbn [valid_seqb] in Hv. apply andb_true_iff in Hv. destruct Hv as [Hso Hv].
  destruct (Hno so (or_introl eq_refl)) as [HS HB].
  pose proof (rebase_one_kept l s so lo Hso Hl Hin HS HB) as K1.
  pose proof (rebase_one_diamond l s (Some so) Hso Hl) as D.
  destruct (rebase_one transform (Some so) l) as [r l1] eqn:E1. cbn [snd] in K1.
  destruct D as (_ & D2 & _). cbn [applyo] in D2.
  assert (forall so0, In so0 v -> same_effect so0 lo = false /\ beats so0 lo = false) as Hno'.
  { intros so0 H0. apply Hno. right. exact H0. }
  specialize (IH l1 (apply s so) lo Hv D2 K1 Hno').
  destruct (rebase transform v l1) as [vr l2]. exact IH.
Qed.

(** ** the grid is symmetric, so the order of two syncs does not matter *)
Definition tf_swap (tf : sop -> sop -> option sop * option sop) (a b : sop) := swap_pair (tf b a).

Section Grid.
Variable tf : sop -> sop -> option sop * option sop.

Lemma rebase_one_None l : rebase_one tf None l = (None, l).
Proof. destruct l; reflexivity. Qed.

(** carrying the first local operation through the server list first *)
Lemma rebase_column v : forall lo l,
  rebase tf v (lo :: l) =
  let '(lo', v1) := rebase_one (tf_swap tf) (Some lo) v in
  let '(v2, l') := rebase tf v1 l in
  (v2, consopt lo' l').
Proof.
  induction v as [|so v IH]; intros lo l.
  - cbn. reflexivity.
  - cbn [rebase rebase_one]. unfold tf_swap at 1. unfold swap_pair.
    destruct (tf so lo) as [so1 lo1] eqn:ET. cbn [fst snd].
    destruct lo1 as [lo1x|].
    + (* the local operation survives this server operation *)
      destruct (rebase_one tf so1 l) as [r l1] eqn:E1.
      rewrite (IH lo1x l1).
      destruct (rebase_one (tf_swap tf) (Some lo1x) v) as [lo' v1'] eqn:E2.
      destruct so1 as [so1x|]; cbn [consopt rebase].
      * rewrite E1. destruct (rebase tf v1' l1) as [v2 l']. reflexivity.
      * rewrite rebase_one_None in E1. inv E1. destruct (rebase tf v1' l1) as [v2 l']. reflexivity.
    + (* it was dropped: the rest of the column is untouched *)
      destruct (rebase_one tf so1 l) as [r l1] eqn:E1.
      assert (rebase_one (tf_swap tf) None v = (None, v)) as -> by (destruct v; reflexivity).
      destruct so1 as [so1x|]; cbn [consopt rebase].
      * rewrite E1. destruct (rebase tf v l1) as [v2 l']. reflexivity.
      * rewrite rebase_one_None in E1. inv E1. destruct (rebase tf v l1) as [v2 l']. reflexivity.
Qed.
End Grid.

Lemma tf_swap_transform a b : tf_swap transform a b = transform a b.
Proof. unfold tf_swap. rewrite (transform_symmetric b a). destruct (transform b a); reflexivity. Qed.

Lemma rebase_one_ext tf1 tf2 : (forall a b, tf1 a b = tf2 a b) ->
  forall l so, rebase_one tf1 so l = rebase_one tf2 so l.
Proof.
  intros H l. induction l as [|x l IH]; intros so; cbn [rebase_one]; [reflexivity|].
  destruct so; [|reflexivity]. rewrite H. destruct (tf2 s x) as [a b]. rewrite IH. reflexivity.
Qed.

Lemma rebase_nil_r tf v : rebase tf v [] = (v, []).
Proof. induction v as [|so v IH]; cbn [rebase rebase_one]; [reflexivity|]. rewrite IH. reflexivity. Qed.

Lemma rebase_symmetric l : forall v,
  rebase transform l v = swap_pair (rebase transform v l).
Proof.
  induction l as [|lo l IH]; intros v.
  - rewrite rebase_nil_r. reflexivity.
  - rewrite (rebase_column transform v lo l).
    rewrite (rebase_one_ext (tf_swap transform) transform tf_swap_transform).
    cbn [rebase].
    destruct (rebase_one transform (Some lo) v) as [r v1].
    rewrite (IH v1). destruct (rebase transform v1 l) as [v2 l']. reflexivity.
Qed.

(** Two replicas with concurrent valid lists from a common state reach the
    same state whichever of them synchronises first. *)
Theorem order_independent_2 s la lb :
  valid_seqb s la = true -> valid_seqb s lb = true ->
  (* A first: the chain holds la, then lb rebased over la;
     B first: the chain holds lb, then la rebased over lb *)
  applyl (applyl s la) (rebase transform la lb).2
  = applyl (applyl s lb) (rebase transform lb la).2.
Proof.
  intros Ha Hb.
  pose proof (rebase_diamond la lb s Ha Hb) as D.
  rewrite (rebase_symmetric lb la).
  destruct (rebase transform la lb) as [v' l']. destruct D as (D1 & _ & _).
  cbn. symmetry. exact D1.
Qed.

(** A change made after seeing another change of the same property overrides
    it whatever the two timestamps are: in chain order the later one wins. *)
Lemma sequential_override s u p va ta vb tb :
  apply (apply s (SUpdate u p va ta)) (SUpdate u p vb tb) = apply s (SUpdate u p vb tb).
Proof.
  cbn [apply]. destruct (s !! u) as [tk|] eqn:E.
  - rewrite lookup_insert, insert_insert, upd_task_shadow. reflexivity.
  - rewrite E. reflexivity.
Qed.
