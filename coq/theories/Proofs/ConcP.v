(** Serial equivalence of concurrent handles under the lock discipline (C17). *)
From TC Require Import Model.Conc Model.Txn.

Section P.
Context {S C : Type}.
Variable step : S -> C -> S.
Notation crun' := (crun step).
Notation cstep'' := (cstep' step).

(** the link between the machine state and the bookkeeping of [committed] *)
Definition agrees (st : cstate) (open : option (nat * list C)) : Prop :=
  match cholder st, open with
  | None, None => True
  | Some (h, w), Some (h', cs) => h = h' /\ w = atomic step (cpersist st) cs
  | _, _ => False
  end.

Lemma serial_equivalence_gen l : forall st open,
  agrees st open ->
  cpersist (crun' st l) = fold_left (atomic step) (committed open l) (cpersist st).
Proof.
  induction l as [|[h ev] l IH]; intros st open A; [reflexivity|].
  cbn [crun fold_left committed]. fold (crun' (cstep'' st (h, ev)) l).
  unfold agrees in A. unfold cstep', cstep.
  destruct (cholder st) as [[h' w]|] eqn:Eh, open as [[h2 cs]|]; try contradiction.
  - destruct A as [<- ->].
    destruct (h =? h')%nat eqn:E; cbn [negb].
    2:{ cbn [default]. apply IH. unfold agrees. rewrite Eh. auto. }
    apply Nat.eqb_eq in E. subst h'.
    destruct ev; cbn [default].
    + apply IH. unfold agrees. rewrite Eh. auto.
    + rewrite (IH _ (Some (h, cs ++ [c]))); [reflexivity|].
      unfold agrees. cbn. split; [reflexivity|]. unfold atomic. rewrite fold_left_app. reflexivity.
    + rewrite (IH _ None); [reflexivity | unfold agrees; cbn; trivial].
    + rewrite (IH _ None); [reflexivity | unfold agrees; cbn; trivial].
  - destruct ev; cbn [default].
    + rewrite (IH _ (Some (h, []))); [reflexivity|]. unfold agrees. cbn. auto.
    + apply IH. unfold agrees. rewrite Eh. trivial.
    + apply IH. unfold agrees. rewrite Eh. trivial.
    + apply IH. unfold agrees. rewrite Eh. trivial.
Qed.

(** Every schedule of any number of handles ends in the state obtained by
    applying the committed transactions one at a time, in commit order;
    transactions that were abandoned, and events refused because another
    handle held the lock, contribute nothing. *)
Theorem serial_equivalence s l :
  cpersist (crun' {| cpersist := s; cholder := None |} l)
  = fold_left (atomic step) (committed None l) s.
Proof. apply (serial_equivalence_gen l {| cpersist := s; cholder := None |} None). exact I. Qed.

(** the state a transaction is applied to is the state it read: between its
    begin and its commit nothing else changes the persistent state *)
Lemma persistent_frozen_while_held l : forall st h w,
  cholder st = Some (h, w) ->
  Forall (fun e => e.1 <> h) l ->
  crun' st l = st.
Proof.
  induction l as [|[h' ev] l IH]; intros st h w Hh F; [reflexivity|].
  inversion F as [|? ? Hne F']; subst. cbn in Hne.
  cbn [crun fold_left]. fold (crun' (cstep'' st (h', ev)) l).
  assert (cstep'' st (h', ev) = st) as ->.
  { unfold cstep', cstep. rewrite Hh. destruct (h' =? h)%nat eqn:E; [apply Nat.eqb_eq in E; contradiction|reflexivity]. }
  eapply IH; eauto.
Qed.

(** anything preserved by each committed transaction as a whole holds of every
    reachable persistent state *)
Theorem invariant_of_transactions (Inv : S -> Prop) s l :
  Inv s ->
  (forall cs s', cs ∈ committed None l -> Inv s' -> Inv (atomic step s' cs)) ->
  Inv (cpersist (crun' {| cpersist := s; cholder := None |} l)).
Proof.
  intros H0 Hstep. rewrite serial_equivalence.
  revert s H0 Hstep. generalize (committed None l) as txs.
  induction txs as [|cs txs IH]; intros s H0 Hstep; [exact H0|].
  cbn [fold_left]. apply IH.
  - apply Hstep; [left|exact H0].
  - intros cs' s' Hin. apply Hstep. right. exact Hin.
Qed.

(** a serial schedule is one single-handle history: the machine of C06 run on
    the events without their handle names *)
Definition forget (e : nat * @hev C) : @tev C :=
  match e.2 with HBegin => TBegin | HCall c => TCall c | HCommit => TCommit | HAbandon => TAbandon end.

Definition tagrees (st : @cstate S) (t : @tstate S) (open : option nat) : Prop :=
  cpersist st = persistent t /\
  match cholder st, open with
  | None, None => working t = None
  | Some (h, w), Some h' => h = h' /\ working t = Some w
  | _, _ => False
  end.

Lemma serial_is_single_handle l : forall st t open,
  tagrees st t open -> serial open l = true ->
  cpersist (crun' st l) = persistent (trun step t (map forget l)).
Proof.
  induction l as [|[h ev] l IH]; intros st t open [A1 A2] Hs; [exact A1|].
  cbn [crun fold_left map trun]. fold (crun' (cstep'' st (h, ev)) l).
  fold (trun step (tstep step t (forget (h, ev))) (map forget l)).
  cbn [serial] in Hs. unfold cstep', cstep.
  destruct (cholder st) as [[h' w]|] eqn:Eh, open as [h2|]; try contradiction.
  - destruct A2 as [<- Hw]. apply andb_true_iff in Hs as [E Hs]. rewrite E. cbn [negb].
    apply Nat.eqb_eq in E. subst h'.
    destruct ev; try discriminate; cbn [default forget snd].
    + apply (IH _ _ (Some h)); [|exact Hs]. split; [exact A1|]. cbn. rewrite Hw. auto.
    + apply (IH _ _ None); [|exact Hs]. split; cbn; rewrite Hw; auto.
    + apply (IH _ _ None); [|exact Hs]. split; cbn; auto.
  - destruct ev; try discriminate. cbn [default forget snd].
    apply (IH _ _ (Some h)); [|exact Hs]. split; [exact A1|]. cbn. rewrite A1. auto.
Qed.
End P.
