(** Task mutators, their recorded operations and the task model agree (C19). *)
From TC Require Import Model.TaskMut.
From Coq Require Import Strings.String.

Local Arguments s2l : simpl never.

Definition good (m0 : gmap (list N) (list N)) (s : tstate) : Prop :=
  replay_log m0 (ts_log s) = ts_map s /\ true_old_values m0 (ts_log s).

Lemma replay_log_app m0 l1 l2 : replay_log m0 (l1 ++ l2) = replay_log (replay_log m0 l1) l2.
Proof. apply fold_left_app. Qed.

Lemma true_old_values_app m0 l1 l2 :
  true_old_values m0 (l1 ++ l2) <-> true_old_values m0 l1 /\ true_old_values (replay_log m0 l1) l2.
Proof.
  revert m0; induction l1 as [|[[p old] v] l1 IH]; intros m0; cbn [app true_old_values].
  - cbn. tauto.
  - rewrite IH. cbn. tauto.
Qed.

Lemma td_update_good m0 s p v : good m0 s -> good m0 (td_update s p v).
Proof.
  intros [H1 H2]. unfold good, td_update. cbn [ts_log ts_map]. split.
  - rewrite replay_log_app, H1. reflexivity.
  - apply true_old_values_app. split; [exact H2|]. rewrite H1. cbn [true_old_values]. auto.
Qed.

Lemma set_um_good m0 s b : good m0 s -> good m0 {| ts_map := ts_map s; ts_um := b; ts_log := ts_log s |}.
Proof. intros H. exact H. Qed.

Lemma set_value_good nowstr m0 s p v : good m0 s -> good m0 (set_value nowstr s p v).
Proof.
  intros H. unfold set_value. apply td_update_good.
  destruct (negb (bool_decide (p = s2l "modified")) && negb (ts_um s)); cbn;
    [apply (td_update_good m0 s (s2l "modified") (Some nowstr) H)|exact H].
Qed.

Lemma set_status_good nowstr m0 s st : good m0 s -> good m0 (set_status nowstr s st).
Proof.
  intros H. unfold set_status. apply set_value_good.
  destruct st; try (destruct (has s _)); try apply set_value_good; exact H.
Qed.

(** every mutator keeps: replaying the recorded updates on the stored task
    gives the held task, and every recorded old value is true *)
Theorem mutator_good nowstr m0 s m s' :
  good m0 s -> run_mutator nowstr s m = Some s' -> good m0 s'.
Proof.
  intros H E. destruct m; cbn in E.
  - inv E. apply set_status_good. exact H.
  - inv E. apply set_value_good. exact H.
  - inv E. destruct (has s _); [exact H|apply set_value_good; exact H].
  - inv E. apply set_value_good. exact H.
  - destruct (parse_tag t) as [[x|x]|]; inv E. apply set_value_good. exact H.
  - destruct (parse_tag t) as [[x|x]|]; inv E. apply set_value_good. exact H.
  - inv E. apply set_value_good. exact H.
  - inv E. apply set_value_good. exact H.
  - destruct (is_known_key k); inv E. apply set_value_good. exact H.
  - destruct (is_known_key k); inv E. apply set_value_good. exact H.
  - inv E. apply set_value_good. exact H.
  - inv E. apply set_value_good. exact H.
  - inv E. apply td_update_good. exact H.
Qed.

Theorem mutators_good nowstr m0 l : forall s, good m0 s -> good m0 (run_mutators nowstr s l).
Proof.
  induction l as [|m l IH]; intros s H; cbn [run_mutators fold_left]; [exact H|].
  apply IH. destruct (run_mutator nowstr s m) eqn:E; cbn; [eapply mutator_good; eassumption|exact H].
Qed.

(** so, starting from a task as loaded ([ts_log = []]): *)
Corollary held_equals_stored nowstr m0 um l :
  let s := run_mutators nowstr {| ts_map := m0; ts_um := um; ts_log := [] |} l in
  replay_log m0 (ts_log s) = ts_map s /\ true_old_values m0 (ts_log s).
Proof. apply mutators_good. split; cbn; auto. Qed.

(** ** the modification time is refreshed once per editing session, and never
    when it is set explicitly *)
Lemma set_value_um nowstr s p v : ts_um (set_value nowstr s p v) = true.
Proof. reflexivity. Qed.

Lemma set_value_log_fresh nowstr s p v :
  ts_um s = false -> p <> s2l "modified" ->
  ts_log (set_value nowstr s p v) =
  ts_log s ++ [(s2l "modified", ts_map s !! s2l "modified", Some nowstr);
               (p, upd_map (ts_map s) (s2l "modified") (Some nowstr) !! p, v)].
Proof.
  intros Hum Hp. unfold set_value. rewrite Hum, bool_decide_eq_false_2 by exact Hp. cbn.
  rewrite <- app_assoc. reflexivity.
Qed.

Lemma set_value_log_again nowstr s p v :
  ts_um s = true -> ts_log (set_value nowstr s p v) = ts_log s ++ [(p, ts_map s !! p, v)].
Proof. intros Hum. unfold set_value. rewrite Hum, andb_false_r. reflexivity. Qed.

Lemma set_value_log_explicit nowstr s v :
  ts_log (set_value nowstr s (s2l "modified") v) = ts_log s ++ [(s2l "modified", ts_map s !! s2l "modified", v)].
Proof. unfold set_value. rewrite bool_decide_eq_true_2 by reflexivity. reflexivity. Qed.

(** ** reading back what was written *)
Lemma set_value_reads_back nowstr s p v : ts_map (set_value nowstr s p v) !! p = v.
Proof.
  unfold set_value, td_update; cbn. destruct v; cbn; [apply lookup_insert|apply lookup_delete].
Qed.

Lemma set_value_other nowstr s p v q :
  q <> p -> q <> s2l "modified" -> ts_map (set_value nowstr s p v) !! q = ts_map s !! q.
Proof.
  intros H1 H2. unfold set_value, td_update.
  destruct (negb (bool_decide (p = s2l "modified")) && negb (ts_um s)); cbn [ts_map upd_map];
    destruct v; cbn [upd_map]; rewrite ?lookup_insert_ne, ?lookup_delete_ne by congruence;
    rewrite ?lookup_insert_ne by congruence; reflexivity.
Qed.

(** ** completing or deleting sets an end time, re-opening clears it *)
Lemma set_status_status nowstr s st :
  ts_map (set_status nowstr s st) !! s2l "status" = Some (status_str st).
Proof. unfold set_status. apply set_value_reads_back. Qed.

Lemma end_set_on_close nowstr s st :
  (st = StCompleted \/ st = StDeleted) -> ts_map s !! s2l "end" = None ->
  ts_map (set_status nowstr s st) !! s2l "end" = Some nowstr.
Proof.
  intros Hst He. unfold set_status.
  assert (has s (s2l "end") = false) as Hh.
  { unfold has. apply bool_decide_eq_false_2. rewrite He. intros [x Hx]. discriminate. }
  destruct Hst as [-> | ->]; rewrite Hh;
    (rewrite set_value_other by (vm_compute; congruence)); apply set_value_reads_back.
Qed.

Lemma end_cleared_on_reopen nowstr s st :
  (st = StPending \/ st = StRecurring) ->
  ts_map (set_status nowstr s st) !! s2l "end" = None.
Proof.
  intros Hst. unfold set_status.
  destruct Hst as [-> | ->]; (rewrite set_value_other by (vm_compute; congruence));
    destruct (has s (s2l "end")) eqn:Hh;
    try apply set_value_reads_back;
    unfold has in Hh; apply bool_decide_eq_false in Hh;
    destruct (ts_map s !! s2l "end") eqn:E; try reflexivity; exfalso; apply Hh; eauto.
Qed.

(** ** reserved names are refused, and a refusal changes nothing *)
Lemma reserved_uda_refused nowstr s k v :
  is_known_key k = true -> run_mutator nowstr s (MSetUda k v) = None /\ run_mutator nowstr s (MRemoveUda k) = None.
Proof. intros H. cbn. rewrite H. auto. Qed.

Lemma synthetic_tag_refused nowstr s t x :
  parse_tag t = Some (TSynthetic x) ->
  run_mutator nowstr s (MAddTag t) = None /\ run_mutator nowstr s (MRemoveTag t) = None.
Proof. intros H. cbn. rewrite H. auto. Qed.
