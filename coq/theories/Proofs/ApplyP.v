(** [apply_operations] with its write cache equals one-at-a-time application
    (C05), for every batch, valid or not, and every order of the final flush. *)
From TC Require Import Model.TaskDb.

Local Arguments applyl : simpl never.

Definition apply_local (d : db) (o : op) : db :=
  match from_op o with Some so => apply d so | None => d end.

Lemma applyl_sync_form d ops : applyl d (sync_form ops) = fold_left apply_local ops d.
Proof.
  unfold applyl, sync_form.
  revert d; induction ops as [|o ops IH]; intros d; [reflexivity|].
  cbn [omap list_omap fold_left]. unfold apply_local at 2.
  destruct (from_op o); cbn [fold_left]; rewrite IH; reflexivity.
Qed.

Definition view (c : gmap N (option (gmap N N))) (s : store) (u : N) : option (gmap N N) :=
  match c !! u with Some e => e | None => st_tasks s !! u end.

(** the cache never claims that a task is absent while the storage has it *)
Definition cache_ok (c : gmap N (option (gmap N N))) (s : store) : Prop :=
  forall u, c !! u = Some None -> st_tasks s !! u = None.

Definition same_meta (s s' : store) : Prop :=
  st_base s' = st_base s /\ st_ops s' = st_ops s /\ st_ws s' = st_ws s.

Lemma same_meta_refl s : same_meta s s. Proof. repeat split. Qed.
Lemma same_meta_trans a b c : same_meta a b -> same_meta b c -> same_meta a c.
Proof. intros (?&?&?) (?&?&?). repeat split; congruence. Qed.

Ltac meta :=
  repeat match goal with H : same_meta _ _ |- _ => destruct H as (?&?&?) end;
  cbn; first [reflexivity | congruence].

Lemma flush_cache_view c s u0 :
  cache_ok c s ->
  let '(c', s') := flush_cache c s u0 in
  (forall u, view c' s' u = view c s u) /\ cache_ok c' s' /\ same_meta s s'
  /\ c' !! u0 = None /\ (forall u, c !! u = None -> c' !! u = None).
Proof.
  intros Hok. unfold flush_cache. destruct (c !! u0) as [[t|]|] eqn:E.
  - repeat split.
    + intros u. unfold view, set_task; cbn. destruct (decide (u = u0)) as [->|Hne].
      * rewrite lookup_delete, lookup_insert, E. reflexivity.
      * rewrite lookup_delete_ne, lookup_insert_ne by congruence. reflexivity.
    + intros u Hu. unfold set_task; cbn. destruct (decide (u = u0)) as [->|Hne].
      * rewrite lookup_delete in Hu. discriminate.
      * rewrite lookup_delete_ne in Hu by congruence. rewrite lookup_insert_ne by congruence. auto.
    + apply lookup_delete.
    + intros u Hu. destruct (decide (u = u0)) as [->|Hne];
        [apply lookup_delete|rewrite lookup_delete_ne by congruence; exact Hu].
  - repeat split.
    + intros u. unfold view. destruct (decide (u = u0)) as [->|Hne].
      * rewrite lookup_delete, E. apply Hok. exact E.
      * rewrite lookup_delete_ne by congruence. reflexivity.
    + intros u Hu. destruct (decide (u = u0)) as [->|Hne].
      * rewrite lookup_delete in Hu. discriminate.
      * rewrite lookup_delete_ne in Hu by congruence. auto.
    + apply lookup_delete.
    + intros u Hu. destruct (decide (u = u0)) as [->|Hne];
        [apply lookup_delete|rewrite lookup_delete_ne by congruence; exact Hu].
  - repeat split; auto.
Qed.

Lemma apply_cached_view c s d o :
  cache_ok c s -> (forall u, view c s u = d !! u) ->
  let '(c', s') := apply_cached (c, s) o in
  cache_ok c' s' /\ (forall u, view c' s' u = apply_local d o !! u) /\ same_meta s s'.
Proof.
  intros Hok Hv. destruct o as [u0|u0 old|u0 p old v t|]; cbn [apply_cached].
  - (* create *)
    pose proof (flush_cache_view c s u0 Hok) as F.
    destruct (flush_cache c s u0) as [c1 s1]. destruct F as (F1 & F2 & F3 & F4 & _).
    unfold apply_local; cbn [from_op apply]. unfold create_task.
    assert (st_tasks s1 !! u0 = d !! u0) as Hu0.
    { rewrite <- Hv, <- F1. unfold view. rewrite F4. reflexivity. }
    destruct (st_tasks s1 !! u0) as [tk|] eqn:E1; cbn [snd]; rewrite <- Hu0.
    + repeat split; auto; try meta; intros u; rewrite F1; apply Hv.
    + repeat split.
      * intros u Hu. cbn. destruct (decide (u = u0)) as [->|Hne]; [congruence|].
        rewrite lookup_insert_ne by congruence. auto.
      * intros u. unfold view; cbn. destruct (decide (u = u0)) as [->|Hne].
        -- rewrite F4, !lookup_insert. reflexivity.
        -- rewrite !lookup_insert_ne by congruence. rewrite <- Hv, <- F1. reflexivity.
      * meta.
      * meta.
      * meta.
  - (* delete *)
    unfold apply_local; cbn [from_op apply]. unfold delete_task.
    assert (same_meta s (if st_tasks s !! u0 then set_tasks s (delete u0 (st_tasks s)) else s)) as HM
      by (destruct (st_tasks s !! u0); repeat split).
    assert (st_tasks (match st_tasks s !! u0 with
                      | Some _ => (true, set_tasks s (delete u0 (st_tasks s)))
                      | None => (false, s) end).2 = delete u0 (st_tasks s)) as HT.
    { destruct (st_tasks s !! u0) eqn:E; cbn; [reflexivity|]. symmetry. apply delete_notin. exact E. }
    repeat split.
    + intros u Hu. rewrite HT. destruct (decide (u = u0)) as [->|Hne].
      * apply lookup_delete.
      * rewrite lookup_insert_ne in Hu by congruence. rewrite lookup_delete_ne by congruence. auto.
    + intros u. unfold view. rewrite HT. destruct (decide (u = u0)) as [->|Hne].
      * rewrite lookup_insert, lookup_delete. reflexivity.
      * rewrite lookup_insert_ne, !lookup_delete_ne by congruence. apply Hv.
    + destruct (st_tasks s !! u0); reflexivity.
    + destruct (st_tasks s !! u0); reflexivity.
    + destruct (st_tasks s !! u0); reflexivity.
  - (* update *)
    unfold apply_local; cbn [from_op apply].
    assert (match c !! u0 with Some e => e | None => get_task s u0 end = d !! u0) as He
      by (rewrite <- Hv; reflexivity).
    rewrite He. destruct (d !! u0) as [tk|] eqn:Ed.
    + repeat split.
      * intros u Hu. destruct (decide (u = u0)) as [->|Hne].
        -- rewrite lookup_insert in Hu. discriminate.
        -- rewrite lookup_insert_ne in Hu by congruence. auto.
      * intros u. unfold view. destruct (decide (u = u0)) as [->|Hne].
        -- rewrite !lookup_insert. reflexivity.
        -- rewrite !lookup_insert_ne by congruence. apply Hv.
    + repeat split.
      * intros u Hu. destruct (decide (u = u0)) as [->|Hne].
        -- specialize (Hv u0). unfold view in Hv. rewrite Ed in Hv.
           destruct (c !! u0) as [e|] eqn:Ec; [|exact Hv]. subst e. apply Hok. exact Ec.
        -- rewrite lookup_insert_ne in Hu by congruence. auto.
      * intros u. unfold view. destruct (decide (u = u0)) as [->|Hne].
        -- rewrite lookup_insert, Ed. reflexivity.
        -- rewrite lookup_insert_ne by congruence. apply Hv.
  - (* undo point *)
    unfold apply_local; cbn. repeat split; auto.
Qed.

Lemma fold_apply_cached_view ops : forall c s d,
  cache_ok c s -> (forall u, view c s u = d !! u) ->
  let cs := fold_left apply_cached ops (c, s) in
  cache_ok cs.1 cs.2 /\ (forall u, view cs.1 cs.2 u = fold_left apply_local ops d !! u)
  /\ same_meta s cs.2.
Proof.
  induction ops as [|o ops IH]; intros c s d Hok Hv; cbn [fold_left].
  - repeat split; auto.
  - pose proof (apply_cached_view c s d o Hok Hv) as A.
    destruct (apply_cached (c, s) o) as [c1 s1]. destruct A as (A1 & A2 & A3).
    specialize (IH c1 s1 (apply_local d o) A1 A2). cbn zeta in IH.
    destruct IH as (I1 & I2 & I3). repeat split; auto.
    all: destruct A3 as (?&?&?), I3 as (?&?&?); congruence.
Qed.

Lemma flush_all_view keys : forall c s,
  cache_ok c s ->
  let cs := flush_all keys (c, s) in
  (forall u, view cs.1 cs.2 u = view c s u) /\ cache_ok cs.1 cs.2 /\ same_meta s cs.2
  /\ (forall u, u ∈ keys \/ c !! u = None -> cs.1 !! u = None).
Proof.
  induction keys as [|k keys IH]; intros c s Hok; unfold flush_all; cbn [fold_left].
  - repeat split; auto. intros u [H|H]; [inversion H|exact H].
  - pose proof (flush_cache_view c s k Hok) as F.
    destruct (flush_cache c s k) as [c1 s1]. destruct F as (F1 & F2 & F3 & F4 & F5).
    specialize (IH c1 s1 F2). unfold flush_all in IH. cbn zeta in IH.
    destruct IH as (I1 & I2 & I3 & I4). repeat split; auto.
    + intros u. rewrite I1. apply F1.
    + destruct F3 as (?&?&?), I3 as (?&?&?); congruence.
    + destruct F3 as (?&?&?), I3 as (?&?&?); congruence.
    + destruct F3 as (?&?&?), I3 as (?&?&?); congruence.
    + intros u [H|H]; apply I4.
      * apply elem_of_cons in H. destruct H as [->|H]; [right; exact F4|left; exact H].
      * right. apply F5. exact H.
Qed.

(** The batch result for any flush order covering the cache: the documented
    one-at-a-time application; nothing but the tasks changes. *)
Theorem apply_operations_spec keys s ops :
  (forall u, (fold_left apply_cached ops (∅, s)).1 !! u <> None -> u ∈ keys) ->
  st_tasks (apply_operations_with keys s ops) = applyl (st_tasks s) (sync_form ops)
  /\ same_meta s (apply_operations_with keys s ops).
Proof.
  intros Hkeys. unfold apply_operations_with.
  assert (cache_ok ∅ s) as H0 by (intros u Hu; rewrite lookup_empty in Hu; discriminate).
  assert (forall u, view ∅ s u = st_tasks s !! u) as Hv0
    by (intros u; unfold view; rewrite lookup_empty; reflexivity).
  pose proof (fold_apply_cached_view ops ∅ s (st_tasks s) H0 Hv0) as (A1 & A2 & A3).
  destruct (fold_left apply_cached ops (∅, s)) as [c1 s1] eqn:E. cbn [fst snd] in *.
  pose proof (flush_all_view keys c1 s1 A1) as (B1 & B2 & B3 & B4).
  destruct (flush_all keys (c1, s1)) as [c2 s2] eqn:E2. cbn [fst snd] in *.
  split; [|eapply same_meta_trans; eassumption].
  rewrite applyl_sync_form. apply map_eq. intros u.
  rewrite <- A2, <- B1. unfold view at 1.
  assert (c2 !! u = None) as ->; [|reflexivity].
  apply B4. destruct (c1 !! u) eqn:Ec; [left|right; reflexivity].
  apply Hkeys. rewrite Ec. discriminate.
Qed.

(** the order the executable model uses is one of them *)
Corollary apply_operations_ok s ops :
  st_tasks (apply_operations s ops) = applyl (st_tasks s) (sync_form ops)
  /\ same_meta s (apply_operations s ops).
Proof.
  unfold apply_operations. apply (apply_operations_spec _ s ops).
  intros u Hu. destruct ((fold_left apply_cached ops (∅, s)).1 !! u) as [e|] eqn:E; [|congruence].
  apply elem_of_list_fmap. exists (u, e). split; [reflexivity|].
  apply elem_of_map_to_list. exact E.
Qed.
