(** Properties of the version-chain protocol itself (C08). *)
From TC Require Import Model.ChainSpec.

(** a version is accepted iff no version exists or its parent is the latest *)
Lemma accept_iff s parent newid payload :
  (chain_step s (BAddVersion parent newid payload)).1 = BOk newid
  <-> (cs_versions s = [] \/ parent = head s).
Proof.
  cbn. destruct (cs_versions s) eqn:E; cbn.
  - split; auto.
  - destruct (N.eqb_spec parent (head s)); cbn; split; auto.
    + intros H. discriminate.
    + intros [H|H]; [discriminate|contradiction].
Qed.

(** a rejection names the latest version and changes nothing *)
Lemma reject_changes_nothing s parent newid payload r :
  (chain_step s (BAddVersion parent newid payload)).1 = BExpected r ->
  r = head s /\ (chain_step s (BAddVersion parent newid payload)).2 = s.
Proof.
  cbn. destruct (cs_versions s) eqn:E; cbn; [discriminate|].
  destruct (N.eqb parent (head s)); cbn; [discriminate|]. intros H. inv H. auto.
Qed.

(** reads change nothing *)
Lemma reads_change_nothing s parent :
  (chain_step s (BGetChild parent)).2 = s /\ (chain_step s BGetSnapshot).2 = s.
Proof. cbn. destruct (child_of s parent); auto. Qed.

(** an accepted version is returned, with its payload, as the child of its parent *)
Lemma find_app_none' {A} (f : A -> bool) l1 l2 : find f l1 = None -> find f (l1 ++ l2) = find f l2.
Proof. induction l1 as [|x l1 IH]; cbn; [auto|]. destruct (f x); [discriminate|exact IH]. Qed.

Lemma accepted_is_served s parent newid payload :
  child_of s parent = None ->
  (chain_step s (BAddVersion parent newid payload)).1 = BOk newid ->
  (chain_step (chain_step s (BAddVersion parent newid payload)).2 (BGetChild parent)).1 = BVersion newid payload.
Proof.
  unfold child_of. intros Hno. cbn [chain_step].
  destruct (cs_versions s) as [|x l] eqn:E.
  - intros _. cbn. rewrite N.eqb_refl. reflexivity.
  - destruct (N.eqb parent (head s)); cbn [fst snd]; [|discriminate]. intros _.
    unfold child_of. cbn [cs_versions]. rewrite find_app_none' by exact Hno.
    cbn. rewrite N.eqb_refl. reflexivity.
Qed.

(** an unknown parent yields "no such version" *)
Lemma unknown_parent s parent :
  child_of s parent = None -> (chain_step s (BGetChild parent)).1 = BNoSuch.
Proof. cbn. intros ->. reflexivity. Qed.

(** the chain stays a chain: every version but the first has the previous one as parent *)
Fixpoint linked (prev : option N) (l : list (N * N * N)) : Prop :=
  match l with
  | [] => True
  | v :: l' => match prev with Some p => v.1.2 = p | None => True end /\ linked (Some v.1.1) l'
  end.

Lemma last_cons_some {A} (x : A) l : exists y, last (x :: l) = Some y.
Proof. revert x; induction l as [|z l IH]; intros x; [exists x; reflexivity|]. destruct (IH z) as [y Hy]. exists y. exact Hy. Qed.

Lemma linked_snoc l : forall prev v,
  linked prev l ->
  (match last l with
   | Some x => v.1.2 = x.1.1
   | None => match prev with Some p => v.1.2 = p | None => True end
   end) ->
  linked prev (l ++ [v]).
Proof.
  induction l as [|x l IH]; intros prev v H1 H2.
  - cbn in *. auto.
  - cbn [app linked] in *. destruct H1 as [Ha Hb]. split; [exact Ha|]. apply IH; [exact Hb|].
    destruct l as [|z l].
    + cbn in *. exact H2.
    + change (last (x :: z :: l)) with (last (z :: l)) in H2.
      destruct (last_cons_some z l) as [y Hy]. rewrite Hy in *. exact H2.
Qed.

Theorem chain_stays_linked s c :
  linked None (cs_versions s) -> linked None (cs_versions (chain_step s c).2).
Proof.
  intros H. destruct c; cbn [chain_step].
  - destruct (cs_versions s) as [|x l] eqn:E.
    + cbn. auto.
    + destruct (N.eqb_spec parent (head s)) as [e|e]; cbn [snd cs_versions]; [|rewrite E; exact H].
      (* accepted: appended after the latest version *)
      apply linked_snoc; [exact H|].
      unfold head in e. rewrite E in e. destruct (last_cons_some x l) as [y Hy]. rewrite Hy in *. exact e.
  - destruct (child_of s parent); exact H.
  - exact H.
  - exact H.
Qed.
