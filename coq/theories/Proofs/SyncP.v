(** The replica invariant and convergence, for every history of commits,
    interleaved sync steps, abandoned syncs and lost replies. *)
From TC Require Import Model.Sync Proofs.TransformP Proofs.RebaseP.

Local Arguments cstate : simpl never.
Local Arguments applyl : simpl never.

Section WithBatching.
Variable sz : sop -> N.
Variable limit : N.

Notation take_batch' := (take_batch sz limit).
Notation sync_next' := (sync_next sz limit).
Notation sync_resume' := (sync_resume sz limit).
Notation sys_step' := (sys_step sz limit).
Notation run' := (run sz limit).
Notation wf_history' := (wf_history sz limit).

(** ** chain states *)
Lemma cstate_snoc c ops k : k <= length c -> cstate (c ++ [ops]) k = cstate c k.
Proof. intros H. unfold cstate. rewrite take_app_le by lia. reflexivity. Qed.

Lemma cstate_S c k ops : c !! k = Some ops -> cstate c (S k) = applyl (cstate c k) ops.
Proof.
  intros H. unfold cstate. rewrite (take_S_r _ _ _ H), concat_app, applyl_app.
  cbn. rewrite app_nil_r. reflexivity.
Qed.

Lemma cstate_all c : cstate c (length c) = applyl ∅ (concat c).
Proof. unfold cstate. rewrite firstn_all. reflexivity. Qed.

Lemma chain_valid_at c k ops :
  valid_seqb ∅ (concat c) = true -> c !! k = Some ops ->
  valid_seqb (cstate c k) ops = true.
Proof.
  intros Hv Hk. rewrite <- (take_drop_middle _ _ _ Hk) in Hv.
  rewrite concat_app in Hv. cbn [concat] in Hv.
  rewrite valid_seqb_app in Hv. apply andb_true_iff in Hv. destruct Hv as [_ Hv].
  rewrite valid_seqb_app in Hv. apply andb_true_iff in Hv. destruct Hv as [Hv _].
  exact Hv.
Qed.

Lemma chain_valid_snoc c ops :
  valid_seqb ∅ (concat c) = true ->
  valid_seqb (cstate c (length c)) ops = true ->
  valid_seqb ∅ (concat (c ++ [ops])) = true.
Proof.
  intros H1 H2. rewrite concat_app, valid_seqb_app, H1. cbn [concat].
  rewrite app_nil_r, <- cstate_all. exact H2.
Qed.

(** ** batching takes a non-empty prefix *)
Lemma take_batch_aux_prefix acc first l :
  take_batch_aux sz limit acc first l ++ drop (length (take_batch_aux sz limit acc first l)) l = l.
Proof.
  revert acc first; induction l as [|o l IH]; intros acc first; cbn [take_batch_aux].
  - reflexivity.
  - destruct (first || (acc + sz o <=? limit)%N); cbn.
    + f_equal. apply IH.
    + reflexivity.
Qed.

Lemma take_batch_prefix l : take_batch' l ++ drop (length (take_batch' l)) l = l.
Proof. apply take_batch_aux_prefix. Qed.

Lemma take_batch_nonempty o l : take_batch' (o :: l) <> [].
Proof. unfold take_batch. cbn. discriminate. Qed.

(** ** invariants *)
Definition rep_inv (c : list (list sop)) (r : replica) : Prop :=
  r_base r <= length c
  /\ valid_seqb (cstate c (r_base r)) (sync_form (r_pend r)) = true
  /\ r_tasks r = applyl (cstate c (r_base r)) (sync_form (r_pend r)).

Definition sst_inv (c : list (list sop)) (x : sst) : Prop :=
  x_base x <= length c
  /\ valid_seqb (cstate c (x_base x)) (x_local x) = true
  /\ x_tasks x = applyl (cstate c (x_base x)) (x_local x)
  /\ (x_pc x = AtSnapUp \/ x_pc x = AtSnap -> x_local x = []).

Definition srv_inv (sv : server) : Prop :=
  valid_seqb ∅ (concat (chain sv)) = true
  /\ match snap sv with
     | Some (v, d) => v <= length (chain sv) /\ d = cstate (chain sv) v
     | None => True
     end.

Definition node_inv (c : list (list sop)) (n : node) : Prop :=
  rep_inv c (n_rep n)
  /\ match n_sync n with Some x => sst_inv c x | None => True end.

Definition Inv (s : sys) : Prop :=
  srv_inv (srv s) /\ Forall (node_inv (chain (srv s))) (nodes s).

Lemma rep_inv_snoc c ops r : rep_inv c r -> rep_inv (c ++ [ops]) r.
Proof.
  intros (H1 & H2 & H3). unfold rep_inv. rewrite cstate_snoc by lia.
  rewrite app_length. cbn. repeat split; auto; lia.
Qed.

Lemma sst_inv_snoc c ops x : sst_inv c x -> sst_inv (c ++ [ops]) x.
Proof.
  intros (H1 & H2 & H3 & H4). unfold sst_inv. rewrite cstate_snoc by lia.
  rewrite app_length. cbn. repeat split; auto; lia.
Qed.

Lemma node_inv_snoc c ops n : node_inv c n -> node_inv (c ++ [ops]) n.
Proof.
  intros [H1 H2]. split; [apply rep_inv_snoc; exact H1|].
  destruct (n_sync n); [apply sst_inv_snoc; exact H2|exact I].
Qed.

Lemma sync_form_app l1 l2 : sync_form (l1 ++ l2) = sync_form l1 ++ sync_form l2.
Proof. apply omap_app. Qed.

(** ** one request of one sync *)
Definition chain_grows (c c' : list (list sop)) : Prop :=
  c' = c \/ exists ops, c' = c ++ [ops].

Lemma sync_step_inv sv x g q :
  sync_next' x = inl q -> srv_inv sv -> sst_inv (chain sv) x ->
  srv_inv (srv_step sv g q).2
  /\ sst_inv (chain (srv_step sv g q).2) (sync_resume' x (srv_step sv g q).1)
  /\ chain_grows (chain sv) (chain (srv_step sv g q).2).
Proof.
  intros Hn [Hc Hs] (B1 & B2 & B3 & B4).
  unfold sync_next in Hn. destruct (x_pc x) eqn:Epc; inv Hn; cbn [srv_step].
  - (* get_snapshot *)
    cbn [fst snd]. split; [split; assumption|]. split; [|left; reflexivity].
    unfold sync_resume. rewrite Epc.
    destruct (snap sv) as [[v d]|] eqn:Es.
    + destruct Hs as [Hv Hd]. unfold sst_inv; cbn.
      rewrite (B4 (or_intror eq_refl)). repeat split; auto; try (intros [?|?]; discriminate).
    + unfold sst_inv, set_pc; cbn. repeat split; auto; try (intros [?|?]; discriminate).
  - (* get_child_version *)
    destruct (chain sv !! x_base x) as [ops|] eqn:Ek; cbn [fst snd].
    + split; [split; assumption|]. split; [|left; reflexivity].
      unfold sync_resume. rewrite Epc.
      pose proof (chain_valid_at _ _ _ Hc Ek) as Hops.
      pose proof (rebase_diamond ops (x_local x) _ Hops B2) as D.
      destruct (rebase transform ops (x_local x)) as [v' l'] eqn:ER.
      destruct D as (D1 & D2 & D3).
      unfold sst_inv; cbn. rewrite (cstate_S _ _ _ Ek).
      apply lookup_lt_Some in Ek.
      repeat split; auto; try lia.
      * rewrite B3. exact D1.
      * intros [?|?]; discriminate.
    + split; [split; assumption|]. split; [|left; reflexivity].
      unfold sync_resume. rewrite Epc.
      destruct (x_local x) eqn:El; unfold sst_inv, set_pc; cbn; rewrite ?El;
        repeat split; auto; try (intros [?|?]; discriminate).
  - (* add_version *)
    set (n := length (chain sv)).
    destruct ((n =? 0)%nat || (x_base x =? n)%nat) eqn:Eacc; cbn [fst snd chain].
    + assert (x_base x = n) as Hb.
      { apply orb_true_iff in Eacc. destruct Eacc as [E|E].
        - apply Nat.eqb_eq in E. lia.
        - apply Nat.eqb_eq in E. exact E. }
      pose proof (take_batch_prefix (x_local x)) as Hp.
      set (b := take_batch' (x_local x)) in *.
      set (rest := drop (length b) (x_local x)) in *.
      rewrite <- Hp in B2, B3.
      rewrite valid_seqb_app in B2. apply andb_true_iff in B2. destruct B2 as [V1 V2].
      rewrite applyl_app in B3.
      assert (cstate (chain sv ++ [b]) (S n) = applyl (cstate (chain sv) n) b) as Hcs.
      { rewrite (cstate_S (chain sv ++ [b]) n b).
        - rewrite cstate_snoc by (unfold n; lia). reflexivity.
        - unfold n. rewrite lookup_app_r by lia. rewrite Nat.sub_diag. reflexivity. }
      split; [|split].
      * split; cbn [chain snap].
        -- apply chain_valid_snoc; [exact Hc|]. fold n. rewrite <- Hb. exact V1.
        -- destruct (snap sv) as [[v d]|]; [|exact I]. destruct Hs as [Hv Hd].
           rewrite app_length. cbn. split; [lia|]. rewrite cstate_snoc by lia. exact Hd.
      * unfold sync_resume. rewrite Epc. fold b. fold rest.
        unfold sst_inv; cbn [x_base x_local x_tasks x_pc]. rewrite app_length. cbn [length].
        rewrite Hcs, <- Hb. repeat split; auto; try lia.
        intros [E|E]; destruct rest; auto; try discriminate;
          destruct (urg_geb g _); discriminate.
      * right. eexists. reflexivity.
    + split; [split; assumption|]. split; [|left; reflexivity].
      unfold sync_resume. rewrite Epc.
      destruct (x_req x) as [q|]; [destruct (q =? n)%nat|];
        unfold sst_inv, set_pc; cbn; repeat split; auto; try (intros [?|?]; discriminate).
  - (* add_snapshot *)
    pose proof (B4 (or_introl eq_refl)) as Hl.
    split; [|split; [|left]].
    + destruct (match snap sv with Some (v0, _) => (x_base x <=? v0)%nat | None => false end);
        cbn [snd]; [split; assumption|].
      split; cbn [chain snap]; [exact Hc|]. split; [exact B1|].
      rewrite B3, Hl. reflexivity.
    + assert (chain (PUnit, if match snap sv with Some (v0, _) => (x_base x <=? v0)%nat | None => false end
         then sv else {| chain := chain sv; snap := Some (x_base x, x_tasks x) |}).2 = chain sv) as ->.
      { destruct (match snap sv with Some _ => _ | None => _ end); reflexivity. }
      cbn [fst]. unfold sync_resume. rewrite Epc.
      unfold sst_inv, set_pc; cbn. repeat split; auto; try (intros [?|?]; discriminate).
    + destruct (match snap sv with Some _ => _ | None => _ end); reflexivity.
Qed.

(** ** the whole system *)
Lemma Forall_node_grows c c' ns :
  chain_grows c c' -> Forall (node_inv c) ns -> Forall (node_inv c') ns.
Proof.
  intros [->|[ops ->]] H; [exact H|].
  eapply Forall_impl; [exact H|]. intros n Hn. apply node_inv_snoc. exact Hn.
Qed.

Lemma Forall_insert_node c ns i n :
  Forall (node_inv c) ns -> node_inv c n -> Forall (node_inv c) (<[i := n]> ns).
Proof. intros H Hn. apply Forall_insert; assumption. Qed.

Lemma start_sync_inv c r avoid wst :
  rep_inv c r -> sst_inv c (start_sync r avoid wst).
Proof.
  intros (H1 & H2 & H3). unfold sst_inv, start_sync; cbn.
  repeat split; auto.
  unfold rep_is_empty. intros [E|E].
  - destruct (_ && _ && _ && _); discriminate.
  - destruct (r_pend r); [reflexivity|].
    rewrite andb_false_r in E. discriminate.
Qed.

Lemma finish_sync_inv c x :
  sst_inv c x -> x_local x = [] -> rep_inv c (finish_sync x).
Proof.
  intros (H1 & H2 & H3 & _) Hl. unfold rep_inv, finish_sync; cbn.
  rewrite Hl in H3. repeat split; auto.
Qed.

(** a sync only finishes successfully with nothing left to send *)
Lemma sync_resume_done_ok x p :
  x_pc (sync_resume' x p) = Done SyncOk -> x_local (sync_resume' x p) = [].
Proof.
  unfold sync_resume.
  destruct (x_pc x) eqn:Epc; destruct p as [[[v d]|]|v ops|  |v g|v g| ]; cbn;
    try discriminate.
  - destruct (rebase transform ops (x_local x)); cbn; discriminate.
  - destruct (x_local x) eqn:El; cbn; [auto|discriminate].
  - destruct (drop _ _); [destruct (urg_geb _ _)|]; cbn; discriminate.
  - destruct (x_req x) as [q|]; [destruct (q =? v)%nat|]; cbn; discriminate.
Qed.

Lemma sys_step_inv s e :
  Inv s ->
  (match e with
   | ECommit i ops =>
       match nodes s !! i with
       | Some {| n_rep := r; n_sync := None |} =>
           valid_seqb (r_tasks r) (sync_form ops) = true
       | _ => True
       end
   | EForeign ops => valid_seqb (applyl ∅ (concat (chain (srv s)))) ops = true
   | _ => True
   end) ->
  Inv (sys_step' s e).
Proof.
  intros [Hsrv Hn] Hwf. destruct e as [i ops|i avoid wst|i g|i|i g|fops]; cbn [sys_step].
  - (* commit *)
    destruct (nodes s !! i) as [[r [x|]]|] eqn:Ei; try (split; assumption).
    pose proof (Forall_lookup_1 _ _ _ _ Hn Ei) as [(R1 & R2 & R3) _]. cbn in R1, R2, R3.
    split; [exact Hsrv|]. cbn [srv set_node nodes].
    apply Forall_insert_node; [exact Hn|]. split; [|exact I].
    unfold rep_inv; cbn. rewrite sync_form_app, valid_seqb_app, applyl_app, <- R3, R2, Hwf.
    auto.
  - (* start *)
    destruct (nodes s !! i) as [[r [x|]]|] eqn:Ei; try (split; assumption).
    pose proof (Forall_lookup_1 _ _ _ _ Hn Ei) as [HR _]. cbn in HR.
    split; [exact Hsrv|]. cbn [srv set_node nodes].
    apply Forall_insert_node; [exact Hn|]. split; [exact HR|].
    cbn. apply start_sync_inv. exact HR.
  - (* step *)
    destruct (nodes s !! i) as [[r [x|]]|] eqn:Ei; try (split; assumption).
    pose proof (Forall_lookup_1 _ _ _ _ Hn Ei) as [HR HX]. cbn in HR, HX.
    destruct (sync_next' x) as [q|res] eqn:En; [|split; assumption].
    pose proof (sync_step_inv (srv s) x g q En Hsrv HX) as (S1 & S2 & S3).
    destruct (srv_step (srv s) g q) as [p srv'] eqn:Es. cbn [fst snd] in S1, S2, S3.
    pose proof (Forall_node_grows _ _ _ S3 Hn) as Hn'.
    assert (rep_inv (chain srv') r) as HR'.
    { destruct S3 as [->|[o ->]]; [exact HR|apply rep_inv_snoc; exact HR]. }
    destruct (x_pc (sync_resume' x p)) as [ | | | |res] eqn:Epc;
      try (split; [exact S1|]; cbn [srv nodes];
           apply Forall_insert_node; [exact Hn'|]; split; [exact HR'|exact S2]).
    destruct res; (split; [exact S1|]); cbn [srv nodes];
      (apply Forall_insert_node; [exact Hn'|]); (split; [|exact I]); try exact HR'.
    cbn. apply finish_sync_inv; [exact S2|].
    apply sync_resume_done_ok. exact Epc.
  - (* abandon *)
    destruct (nodes s !! i) as [[r [x|]]|] eqn:Ei; try (split; assumption).
    pose proof (Forall_lookup_1 _ _ _ _ Hn Ei) as [HR _]. cbn in HR.
    split; [exact Hsrv|]. cbn [srv set_node nodes].
    apply Forall_insert_node; [exact Hn|]. split; [exact HR|exact I].
  - (* lost reply *)
    destruct (nodes s !! i) as [[r [x|]]|] eqn:Ei; try (split; assumption).
    pose proof (Forall_lookup_1 _ _ _ _ Hn Ei) as [HR HX]. cbn in HR, HX.
    destruct (sync_next' x) as [q|res] eqn:En; [|split; assumption].
    pose proof (sync_step_inv (srv s) x g q En Hsrv HX) as (S1 & S2 & S3).
    destruct (srv_step (srv s) g q) as [p srv'] eqn:Es. cbn [fst snd] in S1, S2, S3.
    pose proof (Forall_node_grows _ _ _ S3 Hn) as Hn'.
    assert (rep_inv (chain srv') r) as HR'.
    { destruct S3 as [->|[o ->]]; [exact HR|apply rep_inv_snoc; exact HR]. }
    split; [exact S1|]. cbn [srv nodes].
    apply Forall_insert_node; [exact Hn'|]. split; [exact HR'|exact I].
  - (* a foreign version *)
    destruct Hsrv as [Hc Hs]. split; cbn [srv nodes chain snap].
    + split.
      * apply chain_valid_snoc; [exact Hc|]. rewrite cstate_all. exact Hwf.
      * destruct (snap (srv s)) as [[v d]|]; [|exact I]. destruct Hs as [Hv Hd].
        cbn [snap chain]. rewrite app_length. cbn. split; [lia|]. rewrite cstate_snoc by lia. exact Hd.
    + eapply Forall_impl; [exact Hn|]. intros n. apply node_inv_snoc.
Qed.

Lemma Inv_init n : Inv (sys0 n).
Proof.
  split; cbn.
  - split; [reflexivity|exact I].
  - apply Forall_replicate. split; [|exact I]. unfold rep_inv; cbn. repeat split; auto.
Qed.

Lemma run_inv h : forall s, Inv s -> wf_history' s h = true -> Inv (run' s h).
Proof.
  induction h as [|e h IH]; intros s HI Hwf; cbn [run fold_left].
  - exact HI.
  - cbn [wf_history] in Hwf. apply andb_true_iff in Hwf. destruct Hwf as [He Hh].
    apply IH; [|exact Hh]. apply sys_step_inv; [exact HI|].
    destruct e; try exact I; [|exact He].
    destruct (nodes s !! i) as [[r [x|]]|]; auto.
Qed.

(** ** convergence *)
Theorem converge_inv s i nd :
  Inv s -> nodes s !! i = Some nd ->
  r_pend (n_rep nd) = [] -> r_base (n_rep nd) = length (chain (srv s)) ->
  r_tasks (n_rep nd) = applyl ∅ (concat (chain (srv s))).
Proof.
  intros [_ Hn] Hi Hp Hb.
  pose proof (Forall_lookup_1 _ _ _ _ Hn Hi) as [(R1 & R2 & R3) _].
  rewrite R3, Hp, Hb, cstate_all. reflexivity.
Qed.

Theorem converge n h i nd :
  wf_history' (sys0 n) h = true ->
  nodes (run' (sys0 n) h) !! i = Some nd ->
  r_pend (n_rep nd) = [] ->
  r_base (n_rep nd) = length (chain (srv (run' (sys0 n) h))) ->
  r_tasks (n_rep nd) = applyl ∅ (concat (chain (srv (run' (sys0 n) h)))).
Proof.
  intros Hwf. apply converge_inv. apply run_inv; [apply Inv_init|exact Hwf].
Qed.

End WithBatching.
