(** The diamond for whole lists: rebasing local operations over a version. *)
From TC Require Import Model.Rebase Proofs.TransformP.

Notation rebase_one' := (rebase_one transform).
Notation rebase' := (rebase transform).

Lemma applyl_app s l1 l2 : applyl s (l1 ++ l2) = applyl (applyl s l1) l2.
Proof. apply fold_left_app. Qed.

Lemma valid_seqb_app s l1 l2 :
  valid_seqb s (l1 ++ l2) = valid_seqb s l1 && valid_seqb (applyl s l1) l2.
Proof.
  revert s; induction l1 as [|o l1 IH]; intros s; cbn [valid_seqb app applyl fold_left].
  - reflexivity.
  - fold (applyl (apply s o) l1). rewrite IH, andb_assoc. reflexivity.
Qed.

Definition consopt (o : option sop) (l : list sop) : list sop :=
  match o with Some x => x :: l | None => l end.

Lemma applyl_consopt s o l : applyl s (consopt o l) = applyl (applyo s o) l.
Proof. destruct o; reflexivity. Qed.

Lemma valid_seqb_consopt s o l :
  valid_seqb s (consopt o l) = valido s o && valid_seqb (applyo s o) l.
Proof. destruct o; reflexivity. Qed.

Lemma rebase_one_diamond l : forall s so,
  valido s so = true -> valid_seqb s l = true ->
  let '(r, l') := rebase_one' so l in
  applyo (applyl s l) r = applyl (applyo s so) l'
  /\ valid_seqb (applyo s so) l' = true
  /\ valido (applyl s l) r = true.
Proof.
  induction l as [|lo l IH]; intros s so Hso Hl; cbn [rebase_one].
  - cbn. auto.
  - destruct so as [o|].
    + cbn [valid_seqb] in Hl. apply andb_true_iff in Hl. destruct Hl as [Hlo Hl].
      cbn [valido] in Hso.
      pose proof (tp1 s o lo Hso Hlo) as T.
      destruct (transform o lo) as [so' lo'] eqn:ET.
      destruct T as (T1 & T2 & T3).
      specialize (IH (apply s lo) so' T3 Hl).
      destruct (rebase_one' so' l) as [r l''] eqn:ER.
      destruct IH as (I1 & I2 & I3).
      change (match lo' with Some x => x :: l'' | None => l'' end) with (consopt lo' l'').
      cbn [applyl fold_left applyo]. fold (applyl (apply s lo) l).
      rewrite applyl_consopt, valid_seqb_consopt, T1, T2, I1, I2. auto.
    + cbn. auto.
Qed.

Lemma rebase_diamond v : forall l s,
  valid_seqb s v = true -> valid_seqb s l = true ->
  let '(v', l') := rebase' v l in
  applyl (applyl s l) v' = applyl (applyl s v) l'
  /\ valid_seqb (applyl s v) l' = true
  /\ valid_seqb (applyl s l) v' = true.
Proof.
  induction v as [|so v IH]; intros l s Hv Hl; cbn [rebase].
  - cbn. auto.
  - cbn [valid_seqb] in Hv. apply andb_true_iff in Hv. destruct Hv as [Hso Hv].
    pose proof (rebase_one_diamond l s (Some so) Hso Hl) as R.
    destruct (rebase_one' (Some so) l) as [r l1] eqn:E1.
    destruct R as (R1 & R2 & R3). cbn [applyo] in R1, R2.
    specialize (IH l1 (apply s so) Hv R2).
    destruct (rebase' v l1) as [vr l2] eqn:E2.
    destruct IH as (I1 & I2 & I3).
    change (match r with Some x => x :: vr | None => vr end) with (consopt r vr).
    cbn [applyl fold_left]. fold (applyl (apply s so) v).
    rewrite applyl_consopt, valid_seqb_consopt, R3, R1, I1, I2, I3. auto.
Qed.
