(** Concurrent commits and working-set rebuilds on one store (C17). *)
From TC Require Import Model.TaskDb Model.Conc Proofs.ConcP Proofs.ConcDbP Proofs.CommitP Proofs.RebaseP
  Proofs.WorkingSetP Proofs.WorkingSetNoDupP Proofs.WriteBackP.

Section P.
Variable status : N.
Variable is_pr : N -> bool.

Definition in_ws_pred (t : gmap N N) : bool :=
  match t !! status with Some v => is_pr v | None => false end.

(** what a handle does inside a transaction: commit a batch, or rebuild the
    working set from the listing of the tasks it got *)
Inductive dbcall :=
| DCommit (ops : list op)
| DRebuild (all : list (N * gmap N N)) (renumber : bool).

Definition dstep (s : store) (c : dbcall) : store :=
  match c with
  | DCommit ops => commit_operations status is_pr s ops
  | DRebuild all renumber =>
      if bool_decide (NoDup (map fst all))
      then default s (rebuild_with in_ws_pred all s renumber)
      else s
  end.

Definition db_inv2 (base : db) (s : store) : Prop :=
  db_inv base s /\ ws_normal (st_ws s).

Lemma ws_normal_app w added :
  ws_normal w -> ws_normal (w ++ map Some added).
Proof.
  intros (tl & -> & Hn). destruct added as [|a added]; [rewrite app_nil_r; exists tl; auto|].
  exists (tl ++ map Some (a :: added)). split; [reflexivity|]. right.
  assert (exists u, last (map Some (a :: added)) = Some (Some u)) as [u Hu].
  { rewrite fmap_last. destruct (last (a :: added)) as [u|] eqn:El; [eauto|]. apply last_None in El. discriminate. }
  exists u. rewrite last_app, Hu. reflexivity.
Qed.

Lemma dstep_keeps base s c : db_inv2 base s -> db_inv2 base (dstep s c).
Proof.
  intros [Hd Hn]. destruct c as [ops|all renumber]; cbn [dstep].
  - split; [apply commit_keeps_db_inv; exact Hd|].
    pose proof (commit_spec status is_pr s ops) as (_ & _ & _ & _ & added & Hws & _).
    rewrite Hws. apply ws_normal_app. exact Hn.
  - destruct (bool_decide (NoDup (map fst all))) eqn:End; [|split; assumption].
    apply bool_decide_eq_true in End.
    destruct (rebuild_writes_spec in_ws_pred all s renumber Hn) as (s' & E & W & T1 & T2 & T3).
    rewrite E. cbn [default id]. change (id s') with s'. destruct Hd as [D1 D2]. split; [split|].
    + unfold unsynced in *. rewrite T1, T3. exact D1.
    + unfold ConcDbP.ws_nodup. rewrite W. apply WorkingSetNoDupP.ws_nodup; assumption.
    + rewrite W. apply rebuild_spec_normal.
Qed.

(** Any schedule of any number of handles committing batches and rebuilding the
    working set: the stored tasks are the replay of the recorded operations, no
    working-set entry is duplicated, the working set is in the storage's normal
    form. *)
Theorem concurrent_commits_and_rebuilds base s l :
  db_inv2 base s ->
  db_inv2 base (cpersist (crun dstep {| cpersist := s; cholder := None |} l)).
Proof.
  intros H0. apply (invariant_of_transactions dstep (db_inv2 base)); [exact H0|].
  intros cs s1 _ H1. unfold atomic. revert s1 H1. induction cs as [|c cs IH]; intros s1 H1; [exact H1|].
  cbn. apply IH. apply dstep_keeps. exact H1.
Qed.
End P.
