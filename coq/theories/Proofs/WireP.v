(** What is sent is the documented format only, and the reader accepts any
    field order (C14); snapshots carry the chain state (C12). *)
From TC Require Import Model.Sync Model.Json Proofs.RebaseP Proofs.SyncP Proofs.SyncP2.

Lemma str_eqb_eq a b : str_eqb a b = true <-> a = b.
Proof.
  revert b; induction a as [|x a IH]; intros [|y b]; cbn; split; try congruence; try discriminate.
  - intros H. apply andb_true_iff in H. destruct H as [H1 H2]. apply N.eqb_eq in H1. apply IH in H2. congruence.
  - intros H. inv H. rewrite N.eqb_refl. cbn. apply IH. reflexivity.
Qed.

Section Codec.
Variable enc_uuid : N -> list N.
Variable dec_uuid : list N -> option N.
Variable enc_str : N -> list N.
Variable dec_str : list N -> option N.
Variable enc_ts : Z -> list N.
Variable dec_ts : list N -> option Z.
Hypothesis uuid_rt : forall u, dec_uuid (enc_uuid u) = Some u.
Hypothesis str_rt : forall s, dec_str (enc_str s) = Some s.
Hypothesis ts_rt : forall t, dec_ts (enc_ts t) = Some t.

Notation to_json := (op_to_json enc_uuid enc_str enc_ts).
Notation of_json := (op_of_json dec_uuid dec_str dec_ts).

Lemma from_to o : of_json (to_json o) = Some o.
Proof.
  destruct o as [u|u|u p [v|] t]; vm_compute;
    repeat (rewrite ?uuid_rt, ?str_rt, ?ts_rt; vm_compute); reflexivity.
Qed.

Lemma version_from_to ops :
  version_of_json dec_uuid dec_str dec_ts (version_to_json enc_uuid enc_str enc_ts ops) = Some ops.
Proof.
  unfold version_of_json, version_to_json.
  assert (field k_operations [(k_operations, JArr (map to_json ops))] = Some (JArr (map to_json ops))) as ->
    by reflexivity.
  induction ops as [|o ops IH]; [reflexivity|].
  cbn [map mapM]. rewrite from_to. cbn [mbind option_bind]. rewrite IH. reflexivity.
Qed.

(** fields are found by name: permuting them (keys distinct) changes nothing *)
Lemma field_perm k l l' :
  NoDup l.*1 -> l ≡ₚ l' -> field k l = field k l'.
Proof.
  intros Hnd Hp. induction Hp as [|[k0 v0] l l' Hp IH|[k1 v1] [k2 v2] l|l l' l'' Hp1 IH1 Hp2 IH2].
  - reflexivity.
  - cbn. inv Hnd. rewrite IH by assumption. reflexivity.
  - cbn. inv Hnd. inv H2. destruct (str_eqb k2 k) eqn:E2, (str_eqb k1 k) eqn:E1; try reflexivity.
    apply str_eqb_eq in E1, E2. subst. exfalso. apply H1. left.
  - rewrite IH1 by assumption. apply IH2. rewrite <- Hp1. exact Hnd.
Qed.

Theorem reader_order_insensitive k body body' :
  NoDup body.*1 -> body ≡ₚ body' ->
  of_json (JObj [(k, JObj body)]) = of_json (JObj [(k, JObj body')]).
Proof.
  intros Hnd Hp. cbn.
  rewrite !(field_perm _ body body' Hnd Hp). reflexivity.
Qed.
End Codec.

(** nothing but Create / Delete / Update in sync form can be sent: every sent
    operation is the image of a committed operation under [from_op], which
    drops undo points, old values and old tasks *)
Lemma sync_form_sources l o : o ∈ sync_form l -> exists o', o' ∈ l /\ from_op o' = Some o.
Proof. unfold sync_form. intros H. apply elem_of_list_omap in H. exact H. Qed.

Lemma sync_form_order l1 l2 : sync_form (l1 ++ l2) = sync_form l1 ++ sync_form l2.
Proof. apply omap_app. Qed.

(** ** snapshots *)
Section WithBatching.
Variable sz : sop -> N.
Variable limit : N.

(** a snapshot request carries exactly the state of the version it names *)
Lemma snapshot_request_is_chain_state c x v d :
  sst_inv c x -> sync_next sz limit x = inl (RAddSnapshot v d) ->
  v = x_base x /\ d = cstate c v.
Proof.
  intros (B1 & B2 & B3 & B4) H. unfold sync_next in H. destruct (x_pc x) eqn:E; inv H.
  split; [reflexivity|]. rewrite B3, (B4 (or_introl eq_refl)). reflexivity.
Qed.

(** what the server holds as snapshot is the state of its version *)
Lemma stored_snapshot_is_chain_state s v d :
  Inv s -> snap (srv s) = Some (v, d) ->
  (v <= length (chain (srv s)))%nat /\ d = cstate (chain (srv s)) v.
Proof. intros [[_ Hs] _] E. rewrite E in Hs. exact Hs. Qed.

(** a snapshot is made iff the version was accepted, the server's urgency
    reaches the replica's threshold and nothing is left to send *)
Lemma snapshot_gate x p :
  x_pc (sync_resume sz limit x p) = AtSnapUp <->
  exists v g, x_pc x = AtPush /\ p = PAddOk v g
    /\ drop (length (take_batch sz limit (x_local x))) (x_local x) = []
    /\ urg_geb g (if x_avoid x then UHigh else ULow) = true.
Proof.
  unfold sync_resume. split.
  - destruct (x_pc x) eqn:Epc; destruct p as [[[v d]|]|v ops|  |v g|v g| ]; cbn; try discriminate.
    + destruct (rebase transform ops (x_local x)); cbn; discriminate.
    + destruct (x_local x); cbn; discriminate.
    + destruct (drop _ _) eqn:Ed; [|discriminate].
      destruct (urg_geb g _) eqn:Eg; [|discriminate]. intros _. exists v, g. auto.
    + destruct (x_req x) as [q|]; [destruct (q =? v)%nat|]; cbn; discriminate.
  - intros (v & g & Epc & -> & Ed & Eg). rewrite Epc. cbn. rewrite Ed, Eg. reflexivity.
Qed.

(** a replica that holds anything never takes the snapshot branch, and from
    then on its tasks only change by applying operations *)
Lemma nonempty_starts_pulling r avoid wst :
  rep_is_empty r wst = false -> x_pc (start_sync r avoid wst) = AtPull.
Proof. intros H. unfold start_sync; cbn. rewrite H. reflexivity. Qed.

Lemma never_replaced x p :
  x_pc x <> AtSnap ->
  x_pc (sync_resume sz limit x p) <> AtSnap
  /\ exists l, x_tasks (sync_resume sz limit x p) = applyl (x_tasks x) l.
Proof.
  intros Hpc. unfold sync_resume.
  destruct (x_pc x) eqn:Epc; [congruence| | | |];
    destruct p as [[[v d]|]|v ops|  |v g|v g| ]; cbn;
    try (split; [discriminate|exists []; reflexivity]).
  - destruct (rebase transform ops (x_local x)) as [v' l']. cbn. split; [discriminate|].
    exists v'. reflexivity.
  - destruct (x_local x); cbn; (split; [discriminate|exists []; reflexivity]).
  - split; [|exists []; reflexivity]. destruct (drop _ _); [destruct (urg_geb _ _)|]; discriminate.
  - destruct (x_req x) as [q|]; [destruct (q =? v)%nat|]; cbn; (split; [discriminate|exists []; reflexivity]).
Qed.

(** a replica is empty only if it holds no task, no pending operation and the nil base *)
Lemma empty_replica r wst :
  rep_is_empty r wst = true -> r_tasks r = ∅ /\ r_pend r = [] /\ r_base r = 0 /\ wst = true.
Proof.
  unfold rep_is_empty. intros H.
  apply andb_true_iff in H. destruct H as [H H4]. apply andb_true_iff in H. destruct H as [H H3].
  apply andb_true_iff in H. destruct H as [H1 H2].
  apply bool_decide_eq_true in H1. apply Nat.eqb_eq in H3. destruct (r_pend r); [|discriminate]. auto.
Qed.
End WithBatching.
