(** Tags, annotations and dependencies written through the mutators are read
    back by the getters, and nothing else of their kind changes (C19). *)
From TC Require Import Model.Task Model.TaskMut Proofs.TaskMutP.
From Coq Require Import Strings.String.
Local Arguments s2l : simpl never.

Lemma strip_prefix_app p x : strip_prefix p (p ++ x) = Some x.
Proof. induction p as [|c p IH]; cbn; [reflexivity|]. rewrite N.eqb_refl. exact IH. Qed.

Lemma strip_prefix_inv p : forall k x, strip_prefix p k = Some x -> k = p ++ x.
Proof.
  induction p as [|c p IH]; intros k x; cbn; [intros [= ->]; reflexivity|].
  destruct k as [|d k]; [discriminate|]. destruct (N.eqb_spec c d) as [->|]; [|discriminate].
  intros H. rewrite (IH k x H). reflexivity.
Qed.

Lemma parse_tag_user v x : parse_tag v = Some (TUser x) -> x = v.
Proof.
  unfold parse_tag. destruct (forallb is_upper v).
  - destruct (bool_decide _); discriminate.
  - destruct v as [|c rest]; [discriminate|].
    destruct (is_whitespace c || is_digit c || bool_decide (c ∈ invalid_first)); [discriminate|].
    destruct (forallb _ rest); [intros [= <-]; reflexivity|discriminate].
Qed.

(** which tags a task map carries *)
Lemma user_tags_elem (m : tmap) tg :
  tg ∈ user_tags m <-> exists x v, m !! (s2l "tag_"%string ++ x) = Some v /\ parse_tag x = Some tg.
Proof.
  unfold user_tags. rewrite elem_of_list_omap. split.
  - intros ([k v] & Hin & H). apply elem_of_map_to_list in Hin.
    destruct (strip_prefix (s2l "tag_"%string) k) as [x|] eqn:E; [|discriminate].
    apply strip_prefix_inv in E. subst k. eauto.
  - intros (x & v & Hm & Hp). exists (s2l "tag_"%string ++ x, v). split; [apply elem_of_map_to_list; exact Hm|].
    rewrite strip_prefix_app. exact Hp.
Qed.

Section Mut.
Variable nowstr : list N.

Lemma tag_key_not_modified x : s2l "tag_"%string ++ x <> s2l "modified"%string.
Proof. vm_compute. discriminate. Qed.

Lemma app_inj_prefix (p x y : list N) : p ++ x = p ++ y -> x = y.
Proof. apply app_inv_head. Qed.

(** a tag that was added is there *)
Theorem add_tag_has s t s' :
  run_mutator nowstr s (MAddTag t) = Some s' -> TUser t ∈ user_tags (ts_map s').
Proof.
  unfold run_mutator. destruct (parse_tag t) as [[x|y]|] eqn:E; try discriminate. intros H. apply (inj Some) in H. subst s'.
  pose proof (parse_tag_user t x E) as ->. apply user_tags_elem. exists t, []. split; [|exact E].
  apply (set_value_reads_back nowstr s (s2l "tag_"%string ++ t) (Some [])).
Qed.

(** a tag that was removed is gone *)
Theorem remove_tag_gone s t s' :
  run_mutator nowstr s (MRemoveTag t) = Some s' -> TUser t ∉ user_tags (ts_map s').
Proof.
  unfold run_mutator. destruct (parse_tag t) as [[x|y]|] eqn:E; try discriminate. intros H. apply (inj Some) in H. subst s'.
  pose proof (parse_tag_user t x E) as ->. intros Hin. apply user_tags_elem in Hin as (x & v & Hm & Hp).
  pose proof (parse_tag_user x t Hp) as ->.
  rewrite (set_value_reads_back nowstr s (s2l "tag_"%string ++ x) None) in Hm. discriminate.
Qed.

(** adding or removing one tag leaves every other tag as it was *)
Theorem other_tags_untouched s t s' tg (add : bool) :
  run_mutator nowstr s (if add then MAddTag t else MRemoveTag t) = Some s' ->
  tg <> TUser t ->
  (tg ∈ user_tags (ts_map s') <-> tg ∈ user_tags (ts_map s)).
Proof.
  intros Hrun Hne.
  assert (exists v, parse_tag t = Some (TUser t) /\ s' = set_value nowstr s (s2l "tag_"%string ++ t) v) as (v & E & ->).
  { destruct add; unfold run_mutator in Hrun; destruct (parse_tag t) as [[x|y]|] eqn:E; try discriminate;
      apply (inj Some) in Hrun; subst s'; pose proof (parse_tag_user t x E) as ->; eauto. }
  rewrite !user_tags_elem. split; intros (x & w & Hm & Hp); exists x, w; (split; [|exact Hp]).
  - rewrite set_value_other in Hm; [exact Hm| |apply tag_key_not_modified].
    intros Heq. apply app_inv_head in Heq. subst x. rewrite E in Hp. congruence.
  - rewrite set_value_other; [exact Hm| |apply tag_key_not_modified].
    intros Heq. apply app_inv_head in Heq. subst x. rewrite E in Hp. congruence.
Qed.

(** dependencies: added is there, removed is gone (for texts that denote a task) *)
Variable parse_uuid : list N -> option N.

Lemma dependencies_elem (m : tmap) d :
  d ∈ dependencies parse_uuid m <-> exists x v, m !! (s2l "dep_"%string ++ x) = Some v /\ parse_uuid x = Some d.
Proof.
  unfold dependencies. rewrite elem_of_list_omap. split.
  - intros ([k v] & Hin & H). apply elem_of_map_to_list in Hin.
    destruct (strip_prefix (s2l "dep_"%string) k) as [x|] eqn:E; [|discriminate].
    apply strip_prefix_inv in E. subst k. eauto.
  - intros (x & v & Hm & Hp). exists (s2l "dep_"%string ++ x, v). split; [apply elem_of_map_to_list; exact Hm|].
    rewrite strip_prefix_app. exact Hp.
Qed.

Theorem add_dependency_has s u d s' :
  run_mutator nowstr s (MAddDep u) = Some s' -> parse_uuid u = Some d ->
  d ∈ dependencies parse_uuid (ts_map s').
Proof.
  unfold run_mutator. intros H Hu. apply (inj Some) in H. subst s'. apply dependencies_elem. exists u, []. split; [|exact Hu].
  apply (set_value_reads_back nowstr s (s2l "dep_"%string ++ u) (Some [])).
Qed.

Theorem remove_dependency_gone s u s' :
  run_mutator nowstr s (MRemoveDep u) = Some s' ->
  ts_map s' !! (s2l "dep_"%string ++ u) = None.
Proof. unfold run_mutator. intros H. apply (inj Some) in H. subst s'. apply (set_value_reads_back nowstr s (s2l "dep_"%string ++ u) None). Qed.

(** annotations: the stored description is read back under its timestamp *)
Theorem add_annotation_stored s ts d s' :
  run_mutator nowstr s (MAddAnnotation ts d) = Some s' ->
  ts_map s' !! (s2l "annotation_"%string ++ ts) = Some d.
Proof. unfold run_mutator. intros H. apply (inj Some) in H. subst s'. apply (set_value_reads_back nowstr s (s2l "annotation_"%string ++ ts) (Some d)). Qed.

Theorem remove_annotation_gone s ts s' :
  run_mutator nowstr s (MRemoveAnnotation ts) = Some s' ->
  ts_map s' !! (s2l "annotation_"%string ++ ts) = None.
Proof. unfold run_mutator. intros H. apply (inj Some) in H. subst s'. apply (set_value_reads_back nowstr s (s2l "annotation_"%string ++ ts) None). Qed.
End Mut.
