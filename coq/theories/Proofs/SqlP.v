(** The SQL tables refine the storage specification (C16). *)
From TC Require Import Model.SqlStore.

(** synced rows precede unsynced rows: kept by every call (sync_complete marks
    all rows, new rows are appended unsynced) *)
Definition ops_sorted (l : list (bool * op)) : Prop :=
  exists a b, l = map (pair true) a ++ map (pair false) b.

Lemma existsb_unsynced_false a : existsb (fun '(b', _) => negb b') (map (pair true) a : list (bool * op)) = false.
Proof. induction a; cbn; auto. Qed.

Lemma remove_last_unsynced_synced a o : remove_last_unsynced (map (pair true) a) o = None.
Proof.
  induction a as [|x a IH]; cbn; [reflexivity|]. rewrite IH, existsb_unsynced_false. reflexivity.
Qed.

Lemma remove_last_unsynced_snoc l x o :
  remove_last_unsynced (l ++ [(false, x)]) o = if bool_decide (x = o) then Some l else None.
Proof.
  induction l as [|[b y] l IH]; cbn.
  - destruct (bool_decide (x = o)); reflexivity.
  - rewrite IH. destruct (bool_decide (x = o)); [reflexivity|].
    rewrite existsb_app. cbn. rewrite orb_true_r. reflexivity.
Qed.

(** removing an operation: the SQL statement (last unsynced row) and the
    specification (last row, which must be unsynced) agree on sorted logs *)
Theorem remove_operation_refines q o :
  ops_sorted (q_ops q) -> q_readonly q = false ->
  match q_remove_operation q o with
  | Some (Some (_, q')) => remove_operation (absq q) o = Some (absq q')
  | Some None => remove_operation (absq q) o = None
  | None => False
  end.
Proof.
  intros (a & b & Hl) Hro. unfold q_remove_operation, remove_operation. rewrite Hro. cbn [absq st_ops].
  rewrite Hl. destruct b as [|x b _] using rev_ind.
  - cbn [map]. rewrite app_nil_r, remove_last_unsynced_synced.
    destruct a as [|y a _] using rev_ind; [reflexivity|].
    rewrite map_app. cbn. rewrite last_snoc. reflexivity.
  - rewrite map_app, app_assoc. cbn [map]. rewrite remove_last_unsynced_snoc, last_snoc.
    destruct (bool_decide (x = o)) eqn:E; [|reflexivity].
    f_equal. unfold absq, set_ops; cbn. rewrite removelast_last. reflexivity.
Qed.

Lemma ops_sorted_add l o : ops_sorted l -> ops_sorted (l ++ [(false, o)]).
Proof. intros (a & b & ->). exists a, (b ++ [o]). rewrite map_app, app_assoc. reflexivity. Qed.

Lemma ops_sorted_all_synced (f : bool * op -> option (bool * op)) l :
  (forall x y, f x = Some y -> y.1 = true) -> ops_sorted (omap f l).
Proof.
  intros Hf. exists (map snd (omap f l)), []. cbn. rewrite app_nil_r.
  induction l as [|x l IH]; cbn; [reflexivity|].
  destruct (f x) as [[b o]|] eqn:E; cbn; [|exact IH].
  apply Hf in E. cbn in E. subst. f_equal. exact IH.
Qed.

(** the other calls on tasks, base version and the operation log commute with
    [absq] on the nose *)
Theorem tasks_and_log_refine q u t o b :
  q_readonly q = false ->
  (forall r q', q_create_task q u = Some (r, q') -> create_task (absq q) u = (r, absq q'))
  /\ (forall q', q_set_task q u t = Some (tt, q') -> set_task (absq q) u t = absq q')
  /\ (forall r q', q_delete_task q u = Some (r, q') -> delete_task (absq q) u = (r, absq q'))
  /\ (forall q', q_set_base q b = Some (tt, q') -> set_base (absq q) b = absq q')
  /\ (forall q', q_add_operation q o = Some (tt, q') -> add_operation (absq q) o = absq q')
  /\ (forall q', q_sync_complete q = Some (tt, q') -> sync_complete (absq q) = absq q').
Proof.
  intros Hro. unfold q_create_task, q_set_task, q_delete_task, q_set_base, q_add_operation,
    q_sync_complete, rw_guard. rewrite Hro.
  split; [|split; [|split; [|split; [|split]]]].
  - intros r q' H. unfold create_task. cbn. destruct (q_tasks q !! u); inv H; reflexivity.
  - intros q' H. inv H. reflexivity.
  - intros r q' H. unfold delete_task. cbn. destruct (q_tasks q !! u); inv H; reflexivity.
  - intros q' H. inv H. reflexivity.
  - intros q' H. inv H. reflexivity.
  - intros q' H. inv H. reflexivity.
Qed.

(** a read-only handle refuses every modification (and so changes nothing) *)
Theorem readonly_refuses_all q u t o b i x :
  q_readonly q = true ->
  q_create_task q u = None /\ q_set_task q u t = None /\ q_delete_task q u = None
  /\ q_set_base q b = None /\ q_add_operation q o = None /\ q_remove_operation q o = None
  /\ q_sync_complete q = None /\ q_add_to_working_set q u = None
  /\ q_set_working_set_item q i x = None /\ q_clear_working_set q = None.
Proof.
  intros H. unfold q_create_task, q_set_task, q_delete_task, q_set_base, q_add_operation,
    q_remove_operation, q_sync_complete, q_add_to_working_set, q_set_working_set_item,
    q_clear_working_set, rw_guard. rewrite H. repeat split; reflexivity.
Qed.

(** ** the working-set table: complete enumeration of a small scope *)
(** all tables with ids in 1..4 over 3 uuids; the SQL statements on the table
    and the specification on its vector agree for add, set (in range) and clear *)
Definition small_ws_tables : list (gmap nat N) :=
  let opts := [None; Some 0%N; Some 1%N; Some 2%N] in
  flat_map (fun a => flat_map (fun b => flat_map (fun c => map (fun d =>
    let add i (x : option N) (m : gmap nat N) := match x with Some u => <[i := u]> m | None => m end in
    add 1 a (add 2 b (add 3 c (add 4 d ∅)))) opts) opts) opts) opts.

Definition ws_table_ok (m : gmap nat N) : bool :=
  let s := {| st_tasks := ∅; st_base := 0; st_ops := []; st_ws := ws_vector m |} in
  (* add *)
  forallb (fun u =>
    bool_decide ((add_to_working_set s u).1 = ws_next m)
    && bool_decide (st_ws (add_to_working_set s u).2 = ws_vector (<[ws_next m := u]> m))) [0%N; 1%N]
  (* set, for every index inside the vector except 0 *)
  && forallb (fun i =>
       forallb (fun x =>
         match set_working_set_item s i x with
         | Some s' => bool_decide (st_ws s' = ws_vector (match x with Some u => <[i := u]> m | None => delete i m end))
         | None => false
         end) [None; Some 0%N; Some 2%N]) (seq 1 (length (ws_vector m) - 1))
  (* clear *)
  && bool_decide (st_ws (clear_working_set s) = ws_vector (∅ : gmap nat N)).

Lemma ws_table_small_scope : forallb ws_table_ok small_ws_tables = true.
Proof. vm_compute. reflexivity. Qed.

Lemma ws_table_small_scope_size : length small_ws_tables = 256.
Proof. vm_compute. reflexivity. Qed.
