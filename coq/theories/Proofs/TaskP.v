(** Readers are total and ignore what they cannot interpret (C18);
    expiration removes exactly the long-deleted tasks (C20). *)
From TC Require Import Model.Task.
From Coq Require Import Strings.String.

Section P.
Variable ts_min ts_max now : Z.

(** a stored value is read as a timestamp exactly when it is an integer in
    Rust's [i64] syntax that lies in the representable range; otherwise [None]:
    never a failure *)
Lemma get_timestamp_spec (t : gmap (list N) (list N)) p :
  get_timestamp ts_min ts_max t p =
  match t !! p with
  | Some v => match parse_i64 v with
              | Some z => if (Z.leb ts_min z && Z.leb z ts_max)%bool then Some z else None
              | None => None
              end
  | None => None
  end.
Proof. reflexivity. Qed.

Lemma get_timestamp_in_range t p z :
  get_timestamp ts_min ts_max t p = Some z -> (ts_min <= z <= ts_max)%Z.
Proof.
  unfold get_timestamp, timestamp_opt. destruct (t !! p); [|discriminate].
  destruct (parse_i64 l); [|discriminate].
  destruct (Z.leb_spec ts_min z0), (Z.leb_spec z0 ts_max); cbn; intros E; inv E; lia.
Qed.

Lemma parse_i64_range s z : parse_i64 s = Some z -> (-9223372036854775808 <= z <= 9223372036854775807)%Z.
Proof.
  unfold parse_i64.
  assert (forall sign l,
    match l with
    | [] => None
    | _ :: _ => match digits_val 0 l with
                | Some z0 => if (Z.leb (-9223372036854775808) (sign * z0) && Z.leb (sign * z0) 9223372036854775807)%bool
                             then Some (sign * z0)%Z else None
                | None => None
                end
    end = Some z -> (-9223372036854775808 <= z <= 9223372036854775807)%Z) as H.
  { intros sign l. destruct l; [discriminate|]. destruct (digits_val 0 (n :: l)); [|discriminate].
    destruct (Z.leb_spec (-9223372036854775808) (sign * z0)), (Z.leb_spec (sign * z0) 9223372036854775807);
      cbn; intros E; inv E; lia. }
  destruct s as [|c s]; [discriminate|].
  destruct (N.eq_dec c 43) as [->|]; [apply H|]. destruct (N.eq_dec c 45) as [->|]; [apply H|].
  intros E. apply (H 1%Z (c :: s)).
  destruct c as [|p]; [exact E|].
  repeat (destruct p as [p|p|]; try exact E; try congruence).
Qed.

(** every annotation read has an in-range timestamp *)
Lemma annotations_in_range t z d :
  (z, d) ∈ annotations ts_min ts_max t -> (ts_min <= z <= ts_max)%Z.
Proof.
  unfold annotations. intros H. apply elem_of_list_omap in H. destruct H as ((k & v) & _ & H).
  destruct (strip_prefix _ k); [|discriminate]. destruct (parse_i64 l); [|discriminate].
  unfold timestamp_opt in H.
  destruct (Z.leb_spec ts_min z0), (Z.leb_spec z0 ts_max); cbn in H; inv H; lia.
Qed.

(** unknown statuses read as [StUnknown], a missing status as pending *)
Lemma status_unknown v :
  v <> s2l "pending" -> v <> s2l "completed" -> v <> s2l "deleted" -> v <> s2l "recurring" ->
  status_of v = StUnknown v.
Proof.
  intros. unfold status_of. rewrite !bool_decide_eq_false_2 by assumption. reflexivity.
Qed.

(** ** expiration *)
Theorem expire_exact (tasks : gmap N (gmap (list N) (list N))) u :
  expire_tasks ts_min ts_max now tasks !! u =
  match tasks !! u with
  | Some t => if expires ts_min ts_max now t then None else Some t
  | None => None
  end.
Proof.
  unfold expire_tasks. destruct (tasks !! u) as [t|] eqn:E.
  - destruct (expires ts_min ts_max now t) eqn:Ex.
    + apply map_filter_lookup_None. right. intros t' Ht'. rewrite E in Ht'. inv Ht'. cbn. congruence.
    + apply map_filter_lookup_Some. split; [exact E|exact Ex].
  - apply map_filter_lookup_None. left. exact E.
Qed.

(** a task expires only if its status is deleted and its modification time is
    a readable timestamp more than 180 days in the past *)
Theorem expires_iff t :
  expires ts_min ts_max now t = true <->
  t !! k_status = Some (s2l "deleted")
  /\ exists z, get_timestamp ts_min ts_max t (s2l "modified") = Some z /\ (z < now - 180 * 86400)%Z.
Proof.
  unfold expires, get_timestamp. split.
  - intros H. apply andb_true_iff in H. destruct H as [H1 H2]. apply bool_decide_eq_true in H1.
    split; [exact H1|]. destruct (t !! s2l "modified"); [|discriminate].
    destruct (parse_i64 l); [|discriminate]. destruct (timestamp_opt ts_min ts_max z); [|discriminate].
    exists z0. split; [reflexivity|]. apply Z.ltb_lt. exact H2.
  - intros (H1 & z & H2 & H3). rewrite bool_decide_eq_true_2 by exact H1. rewrite andb_true_l.
    destruct (t !! s2l "modified"); [|discriminate]. destruct (parse_i64 l); [|discriminate].
    destruct (timestamp_opt ts_min ts_max z0) as [z1|]; inv H2. apply Z.ltb_lt. exact H3.
Qed.
End P.
