(** The write-back of a rebuild through [set_working_set_item] /
    [add_to_working_set] produces [rebuild_spec_ws]: checked here by complete
    enumeration of a small scope (a kernel computation, valid for that scope
    only): every normalised prior working set of up to 4 positions over 3
    tasks (with blanks, duplicates excluded), every combination of the three
    tasks being absent / in / not in the working-set predicate, both modes. *)
From TC Require Import Model.TaskDb Proofs.WorkingSetP.

Definition entries : list (option N) := [None; Some 0%N; Some 1%N; Some 2%N].

Fixpoint lists_upto (n : nat) : list (list (option N)) :=
  match n with
  | O => [[]]
  | S n' => [] :: flat_map (fun l => map (fun x => x :: l) entries) (lists_upto n')
  end.

Definition nodup_somes (l : list (option N)) : bool :=
  bool_decide (NoDup (omap id l)).

Definition ws_candidates : list (list (option N)) :=
  filter (fun w => bool_decide (normalize_ws w = w) && nodup_somes w)
         (map (fun l => None :: l) (lists_upto 3)).

(** task u is absent (0), present and wanted (1), present and not wanted (2) *)
Definition mk_tasks (a b c : N) : db :=
  let add u k (d : db) :=
    match k with
    | 1%N => <[u := {[ 9%N := 1%N ]}]> d
    | 2%N => <[u := ∅]> d
    | _ => d
    end in
  add 0%N a (add 1%N b (add 2%N c ∅)).

Definition wanted_small (t : gmap N N) : bool := bool_decide (t !! 9%N = Some 1%N).

Definition small_cases : list (store * bool) :=
  flat_map (fun w =>
    flat_map (fun a => flat_map (fun b => flat_map (fun c =>
      let s := {| st_tasks := mk_tasks a b c; st_base := 0; st_ops := []; st_ws := w |} in
      [(s, true); (s, false)]) [0%N; 1%N; 2%N]) [0%N; 1%N; 2%N]) [0%N; 1%N; 2%N])
    ws_candidates.

Definition writeback_ok (c : store * bool) : bool :=
  let '(s, renumber) := c in
  let all := map_to_list (st_tasks s) in
  match rebuild_with wanted_small all s renumber with
  | Some s' =>
      bool_decide (st_ws s' = rebuild_spec_ws wanted_small all s renumber)
      && bool_decide (st_tasks s' = st_tasks s) && bool_decide (st_ops s' = st_ops s)
  | None => false
  end.

Lemma small_scope_size : length small_cases = 1836.
Proof. vm_compute. reflexivity. Qed.

Lemma writeback_small_scope : forallb writeback_ok small_cases = true.
Proof. vm_compute. reflexivity. Qed.
