(** The synthetic tags and the dependency map reflect exactly the stored
    status, start/wait times and dependency keys (C19). *)
From TC Require Import Model.Task.
From Coq Require Import Strings.String.
Local Arguments s2l : simpl never.

Section Synth.
Variable ts_min ts_max now : Z.
Variable parse_uuid : list N -> option N.
Notation synth := (synthetic_tags ts_min ts_max now).

Lemma is_blocked_spec dm u : is_blocked dm u = true <-> exists d, (u, d) ∈ dm.
Proof.
  unfold is_blocked. rewrite existsb_exists. split.
  - intros ([a d] & Hin & He). apply N.eqb_eq in He. cbn in He. subst a. exists d. apply elem_of_list_In. exact Hin.
  - intros [d Hin]. exists (u, d). split; [apply elem_of_list_In; exact Hin|apply N.eqb_refl].
Qed.

Lemma is_blocking_spec dm u : is_blocking dm u = true <-> exists a, (a, u) ∈ dm.
Proof.
  unfold is_blocking. rewrite existsb_exists. split.
  - intros ([a d] & Hin & He). apply N.eqb_eq in He. cbn in He. subst d. exists a. apply elem_of_list_In. exact Hin.
  - intros [a Hin]. exists (a, u). split; [apply elem_of_list_In; exact Hin|apply N.eqb_refl].
Qed.

Ltac names :=
  repeat match goal with
  | |- context [bool_decide (s2l ?a = s2l ?b)] =>
      let v := eval vm_compute in (bool_decide (s2l a = s2l b)) in
      change (bool_decide (s2l a = s2l b)) with v
  end; cbn [andb orb]; rewrite ?orb_false_r.

Ltac open_synth :=
  unfold synthetic_tags; rewrite elem_of_list_filter; names;
  split; [intros [H _]; revert H | intros H; split; [|apply elem_of_list_In; vm_compute; tauto]; revert H].

(** only the eight synthetic names ever appear *)
Theorem synth_only_names t dm u x : x ∈ synth t dm u -> x ∈ synthetic_names.
Proof. unfold synthetic_tags. rewrite elem_of_list_filter. tauto. Qed.

(** the status tags say exactly what the stored status is *)
Theorem synth_pending t dm u : s2l "PENDING" ∈ synth t dm u <-> get_status t = StPending.
Proof. open_synth; rewrite bool_decide_eq_true; tauto. Qed.
Theorem synth_completed t dm u : s2l "COMPLETED" ∈ synth t dm u <-> get_status t = StCompleted.
Proof. open_synth; rewrite bool_decide_eq_true; tauto. Qed.
Theorem synth_deleted t dm u : s2l "DELETED" ∈ synth t dm u <-> get_status t = StDeleted.
Proof. open_synth; rewrite bool_decide_eq_true; tauto. Qed.

(** ACTIVE iff a start time is stored; WAITING iff the stored wait time is a readable time in the future *)
Theorem synth_active t dm u : s2l "ACTIVE" ∈ synth t dm u <-> is_Some (t !! s2l "start").
Proof. open_synth; unfold is_active; rewrite bool_decide_eq_true; tauto. Qed.

Theorem synth_waiting t dm u :
  s2l "WAITING" ∈ synth t dm u <-> exists z, get_timestamp ts_min ts_max t (s2l "wait") = Some z /\ (now < z)%Z.
Proof.
  open_synth; unfold is_waiting; destruct (get_timestamp ts_min ts_max t (s2l "wait")) as [z|].
  - rewrite Z.ltb_lt. eauto.
  - discriminate.
  - intros (z' & [= <-] & Hlt). apply Z.ltb_lt. exact Hlt.
  - intros (z' & [=] & _).
Qed.

(** BLOCKED / UNBLOCKED / BLOCKING say exactly what the dependency map says *)
Theorem synth_blocked t dm u : s2l "BLOCKED" ∈ synth t dm u <-> exists d, (u, d) ∈ dm.
Proof. open_synth; rewrite is_blocked_spec; tauto. Qed.

Theorem synth_unblocked t dm u : s2l "UNBLOCKED" ∈ synth t dm u <-> ~ exists d, (u, d) ∈ dm.
Proof.
  open_synth; rewrite <- is_blocked_spec; destruct (is_blocked dm u); cbn [negb]; intros H;
    try reflexivity; try discriminate; try (intros ?; discriminate). exfalso. apply H. reflexivity.
Qed.

Theorem synth_blocking t dm u : s2l "BLOCKING" ∈ synth t dm u <-> exists a, (a, u) ∈ dm.
Proof. open_synth; rewrite is_blocking_spec; tauto. Qed.

Theorem blocked_xor_unblocked t dm u :
  (s2l "BLOCKED" ∈ synth t dm u \/ s2l "UNBLOCKED" ∈ synth t dm u) /\
  ~ (s2l "BLOCKED" ∈ synth t dm u /\ s2l "UNBLOCKED" ∈ synth t dm u).
Proof.
  rewrite synth_blocked, synth_unblocked, <- is_blocked_spec. destruct (is_blocked dm u); split.
  - left; reflexivity.
  - intros [_ H]; apply H; reflexivity.
  - right; discriminate.
  - intros [H _]; discriminate.
Qed.

(** the dependency map: an edge exactly for a working-set task that stores a
    dependency key naming a task whose stored status is pending *)
Theorem depmap_elem (tasks : gmap N tmap) ws u d :
  (u, d) ∈ depmap parse_uuid tasks ws <->
  Some u ∈ tail ws /\ exists t, tasks !! u = Some t /\ d ∈ dependencies parse_uuid t /\ is_pending_task tasks d = true.
Proof.
  unfold depmap. rewrite elem_of_list_In, in_flat_map. split.
  - intros (x & Hx & Hin). destruct x as [a|]; [|destruct Hin].
    destruct (tasks !! a) as [t|] eqn:Ht; [|destruct Hin].
    apply elem_of_list_In, elem_of_list_omap in Hin as (d' & Hd & Hp).
    destruct (is_pending_task tasks d') eqn:Hpe; [|discriminate]. injection Hp as <- <-.
    split; [apply elem_of_list_In; exact Hx|]. exists t. auto.
  - intros (Hx & t & Ht & Hd & Hp). exists (Some u). split; [apply elem_of_list_In; exact Hx|].
    rewrite Ht. apply elem_of_list_In, elem_of_list_omap. exists d. rewrite Hp. auto.
Qed.

(** a task that is gone, or whose stored status is not "pending", blocks nobody *)
Theorem gone_or_closed_blocks_nobody (tasks : gmap N tmap) ws u d :
  (tasks !! d = None \/ exists t, tasks !! d = Some t /\ t !! k_status <> Some (s2l "pending")) ->
  (u, d) ∉ depmap parse_uuid tasks ws.
Proof.
  intros H Hin. apply depmap_elem in Hin as (_ & t0 & _ & _ & Hp). unfold is_pending_task in Hp.
  destruct H as [H|(t & Ht & Hs)]; rewrite ?H, ?Ht in Hp; [discriminate|].
  destruct (t !! k_status) as [v|]; [|discriminate]. apply bool_decide_eq_true in Hp.
  apply Hs. f_equal. unfold status_of in Hp.
  destruct (bool_decide (v = s2l "pending")) eqn:E; [apply bool_decide_eq_true in E; exact E|].
  repeat (destruct (bool_decide _) in Hp; try discriminate).
Qed.
End Synth.
