(** C19 — Task mutators, their recorded operations and the task model agree. *)
From TC Require Import Model.TaskMut Proofs.TaskMutP.
From Coq Require Import Strings.String.

(** For any sequence of mutator calls (refused ones change nothing) on a task
    as loaded from storage: committing the recorded updates, one at a time, to
    the stored task gives exactly the task the caller holds, and every recorded
    update carries the value the property really had before it. *)
Theorem C19_held_equals_stored : forall (nowstr : list N) (m0 : gmap (list N) (list N)) (um : bool) (l : list mutator),
  let s := run_mutators nowstr {| ts_map := m0; ts_um := um; ts_log := [] |} l in
  replay_log m0 (ts_log s) = ts_map s /\ true_old_values m0 (ts_log s).
Proof. exact held_equals_stored. Qed.

Theorem C19_mutator_keeps_agreement : forall nowstr m0 s m s',
  good m0 s -> run_mutator nowstr s m = Some s' -> good m0 s'.
Proof. exact mutator_good. Qed.

(** The modification time is refreshed by the first change of an editing
    session (one extra recorded update, before the change), not afterwards, and
    never when it is set explicitly. *)
Theorem C19_modified_once_first : forall nowstr s p v,
  ts_um s = false -> p <> s2l "modified" ->
  ts_log (set_value nowstr s p v) =
  ts_log s ++ [(s2l "modified", ts_map s !! s2l "modified", Some nowstr);
               (p, upd_map (ts_map s) (s2l "modified") (Some nowstr) !! p, v)].
Proof. exact set_value_log_fresh. Qed.

Theorem C19_modified_once_later : forall nowstr s p v,
  ts_um s = true -> ts_log (set_value nowstr s p v) = ts_log s ++ [(p, ts_map s !! p, v)].
Proof. exact set_value_log_again. Qed.

Theorem C19_modified_not_when_explicit : forall nowstr s v,
  ts_log (set_value nowstr s (s2l "modified") v) = ts_log s ++ [(s2l "modified", ts_map s !! s2l "modified", v)].
Proof. exact set_value_log_explicit. Qed.

Theorem C19_session_marked : forall nowstr s p v, ts_um (set_value nowstr s p v) = true.
Proof. exact set_value_um. Qed.

(** What is written reads back (tags, annotations, dependencies, UDAs and plain
    properties are all written through [set_value]). *)
Theorem C19_reads_back : forall nowstr s p v, ts_map (set_value nowstr s p v) !! p = v.
Proof. exact set_value_reads_back. Qed.

Theorem C19_others_untouched : forall nowstr s p v q,
  q <> p -> q <> s2l "modified" -> ts_map (set_value nowstr s p v) !! q = ts_map s !! q.
Proof. exact set_value_other. Qed.

(** Completing or deleting sets an end time; re-opening clears it. *)
Theorem C19_end_set_on_close : forall nowstr s st,
  (st = StCompleted \/ st = StDeleted) -> ts_map s !! s2l "end" = None ->
  ts_map (set_status nowstr s st) !! s2l "end" = Some nowstr.
Proof. exact end_set_on_close. Qed.

Theorem C19_end_cleared_on_reopen : forall nowstr s st,
  (st = StPending \/ st = StRecurring) -> ts_map (set_status nowstr s st) !! s2l "end" = None.
Proof. exact end_cleared_on_reopen. Qed.

Theorem C19_status_written : forall nowstr s st,
  ts_map (set_status nowstr s st) !! s2l "status" = Some (status_str st).
Proof. exact set_status_status. Qed.

(** Reserved names are rejected. *)
Theorem C19_reserved_uda_refused : forall nowstr s k v,
  is_known_key k = true ->
  run_mutator nowstr s (MSetUda k v) = None /\ run_mutator nowstr s (MRemoveUda k) = None.
Proof. exact reserved_uda_refused. Qed.

Theorem C19_synthetic_tag_refused : forall nowstr s t x,
  parse_tag t = Some (TSynthetic x) ->
  run_mutator nowstr s (MAddTag t) = None /\ run_mutator nowstr s (MRemoveTag t) = None.
Proof. exact synthetic_tag_refused. Qed.

Print Assumptions C19_held_equals_stored.
Print Assumptions C19_mutator_keeps_agreement.
Print Assumptions C19_modified_once_first.
Print Assumptions C19_modified_once_later.
Print Assumptions C19_modified_not_when_explicit.
Print Assumptions C19_session_marked.
Print Assumptions C19_reads_back.
Print Assumptions C19_others_untouched.
Print Assumptions C19_end_set_on_close.
Print Assumptions C19_end_cleared_on_reopen.
Print Assumptions C19_status_written.
Print Assumptions C19_reserved_uda_refused.
Print Assumptions C19_synthetic_tag_refused.
