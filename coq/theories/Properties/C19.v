(** C19 — Task mutators, their recorded operations and the task model agree. *)
From TC Require Import Model.Task Model.TaskMut Proofs.TaskMutP Proofs.TagsP Proofs.UdaP Proofs.SynthP Proofs.ReplayP Proofs.SynthMutP.
From Coq Require Import Strings.String.

(** For any sequence of mutator calls (refused ones change nothing) on a task
    as loaded from storage: committing the recorded updates, one at a time, to
    the stored task gives exactly the task the caller holds, and every recorded
    update carries the value the property really had before it. *)
Theorem C19_held_equals_stored : forall (nowstr : list N) (m0 : gmap (list N) (list N)) (um : bool) (l : list mutator),
  let s := run_mutators nowstr {| ts_map := m0; ts_um := um; ts_log := [] |} l in
  replay_log m0 (ts_log s) = ts_map s /\ true_old_values m0 (ts_log s).
Proof. exact held_equals_stored. Qed.

Theorem C19_mutator_keeps_agreement : forall nowstr m0 s m s',
  good m0 s -> run_mutator nowstr s m = Some s' -> good m0 s'.
Proof. exact mutator_good. Qed.

(** The modification time is refreshed by the first change of an editing
    session (one extra recorded update, before the change), not afterwards, and
    never when it is set explicitly. *)
Theorem C19_modified_once_first : forall nowstr s p v,
  ts_um s = false -> p <> s2l "modified" ->
  ts_log (set_value nowstr s p v) =
  ts_log s ++ [(s2l "modified", ts_map s !! s2l "modified", Some nowstr);
               (p, upd_map (ts_map s) (s2l "modified") (Some nowstr) !! p, v)].
Proof. exact set_value_log_fresh. Qed.

Theorem C19_modified_once_later : forall nowstr s p v,
  ts_um s = true -> ts_log (set_value nowstr s p v) = ts_log s ++ [(p, ts_map s !! p, v)].
Proof. exact set_value_log_again. Qed.

Theorem C19_modified_not_when_explicit : forall nowstr s v,
  ts_log (set_value nowstr s (s2l "modified") v) = ts_log s ++ [(s2l "modified", ts_map s !! s2l "modified", v)].
Proof. exact set_value_log_explicit. Qed.

Theorem C19_session_marked : forall nowstr s p v, ts_um (set_value nowstr s p v) = true.
Proof. exact set_value_um. Qed.

(** What is written reads back (tags, annotations, dependencies, UDAs and plain
    properties are all written through [set_value]). *)
Theorem C19_reads_back : forall nowstr s p v, ts_map (set_value nowstr s p v) !! p = v.
Proof. exact set_value_reads_back. Qed.

Theorem C19_others_untouched : forall nowstr s p v q,
  q <> p -> q <> s2l "modified" -> ts_map (set_value nowstr s p v) !! q = ts_map s !! q.
Proof. exact set_value_other. Qed.

(** Completing or deleting sets an end time; re-opening clears it. *)
Theorem C19_end_set_on_close : forall nowstr s st,
  (st = StCompleted \/ st = StDeleted) -> ts_map s !! s2l "end" = None ->
  ts_map (set_status nowstr s st) !! s2l "end" = Some nowstr.
Proof. exact end_set_on_close. Qed.

Theorem C19_end_cleared_on_reopen : forall nowstr s st,
  (st = StPending \/ st = StRecurring) -> ts_map (set_status nowstr s st) !! s2l "end" = None.
Proof. exact end_cleared_on_reopen. Qed.

Theorem C19_status_written : forall nowstr s st,
  ts_map (set_status nowstr s st) !! s2l "status" = Some (status_str st).
Proof. exact set_status_status. Qed.

(** Reserved names are rejected. *)
Theorem C19_reserved_uda_refused : forall nowstr s k v,
  is_known_key k = true ->
  run_mutator nowstr s (MSetUda k v) = None /\ run_mutator nowstr s (MRemoveUda k) = None.
Proof. exact reserved_uda_refused. Qed.

Theorem C19_synthetic_tag_refused : forall nowstr s t x,
  parse_tag t = Some (TSynthetic x) ->
  run_mutator nowstr s (MAddTag t) = None /\ run_mutator nowstr s (MRemoveTag t) = None.
Proof. exact synthetic_tag_refused. Qed.

(** Tags, dependencies and annotations written through the mutators are read
    back by the getters; adding or removing one tag leaves every other tag as
    it was. *)
Theorem C19_add_tag_has : forall nowstr s t s',
  run_mutator nowstr s (MAddTag t) = Some s' -> TUser t ∈ user_tags (ts_map s').
Proof. exact add_tag_has. Qed.

Theorem C19_remove_tag_gone : forall nowstr s t s',
  run_mutator nowstr s (MRemoveTag t) = Some s' -> TUser t ∉ user_tags (ts_map s').
Proof. exact remove_tag_gone. Qed.

Theorem C19_other_tags_untouched : forall nowstr s t s' tg (add : bool),
  run_mutator nowstr s (if add then MAddTag t else MRemoveTag t) = Some s' ->
  tg <> TUser t ->
  (tg ∈ user_tags (ts_map s') <-> tg ∈ user_tags (ts_map s)).
Proof. exact other_tags_untouched. Qed.

Theorem C19_add_dependency_has : forall nowstr (parse_uuid : list N -> option N) s u d s',
  run_mutator nowstr s (MAddDep u) = Some s' -> parse_uuid u = Some d ->
  d ∈ dependencies parse_uuid (ts_map s').
Proof. exact add_dependency_has. Qed.

Theorem C19_remove_dependency_gone : forall nowstr s u s',
  run_mutator nowstr s (MRemoveDep u) = Some s' ->
  ts_map s' !! (s2l "dep_" ++ u) = None.
Proof. exact remove_dependency_gone. Qed.

Theorem C19_add_annotation_stored : forall nowstr s ts d s',
  run_mutator nowstr s (MAddAnnotation ts d) = Some s' ->
  ts_map s' !! (s2l "annotation_" ++ ts) = Some d.
Proof. exact add_annotation_stored. Qed.

Theorem C19_remove_annotation_gone : forall nowstr s ts s',
  run_mutator nowstr s (MRemoveAnnotation ts) = Some s' ->
  ts_map s' !! (s2l "annotation_" ++ ts) = None.
Proof. exact remove_annotation_gone. Qed.

(** User-defined attributes read back as written: a set attribute is listed by
    [get_user_defined_attributes] with exactly the value written, a removed one
    is not listed, every other attribute is untouched (the refreshed "modified"
    is not an attribute), a reserved name is never listed, and a refused call
    is a no-op inside any sequence of calls. *)
Theorem C19_set_uda_listed : forall nowstr s k v s',
  run_mutator nowstr s (MSetUda k v) = Some s' -> (k, v) ∈ udas (ts_map s').
Proof. exact set_uda_listed. Qed.

Theorem C19_set_uda_only_value : forall nowstr s k v w s',
  run_mutator nowstr s (MSetUda k v) = Some s' -> (k, w) ∈ udas (ts_map s') -> w = v.
Proof. exact set_uda_only_value. Qed.

Theorem C19_remove_uda_gone : forall nowstr s k s' w,
  run_mutator nowstr s (MRemoveUda k) = Some s' -> (k, w) ∉ udas (ts_map s').
Proof. exact remove_uda_gone. Qed.

Theorem C19_other_udas_untouched : forall nowstr s k v s' (set : bool) q w,
  run_mutator nowstr s (if set then MSetUda k v else MRemoveUda k) = Some s' ->
  q <> k ->
  ((q, w) ∈ udas (ts_map s') <-> (q, w) ∈ udas (ts_map s)).
Proof. exact other_udas_untouched. Qed.

Theorem C19_reserved_never_listed : forall (m : tmap) k v,
  is_known_key k = true -> (k, v) ∉ udas m.
Proof. exact reserved_never_listed. Qed.

Theorem C19_refused_uda_is_noop : forall nowstr s k v l,
  is_known_key k = true ->
  run_mutators nowstr s (MSetUda k v :: l) = run_mutators nowstr s l /\
  run_mutators nowstr s (MRemoveUda k :: l) = run_mutators nowstr s l.
Proof. exact refused_uda_is_noop. Qed.

(** The synthetic tags and the dependency map reflect exactly the stored
    status, start/wait times and dependency keys. *)
Theorem C19_synth_status : forall ts_min ts_max now t dm u,
  (s2l "PENDING" ∈ synthetic_tags ts_min ts_max now t dm u <-> get_status t = StPending) /\
  (s2l "COMPLETED" ∈ synthetic_tags ts_min ts_max now t dm u <-> get_status t = StCompleted) /\
  (s2l "DELETED" ∈ synthetic_tags ts_min ts_max now t dm u <-> get_status t = StDeleted).
Proof. intros. split; [apply synth_pending|split; [apply synth_completed|apply synth_deleted]]. Qed.

Theorem C19_synth_active : forall ts_min ts_max now t dm u,
  s2l "ACTIVE" ∈ synthetic_tags ts_min ts_max now t dm u <-> is_Some (t !! s2l "start").
Proof. exact synth_active. Qed.

Theorem C19_synth_waiting : forall ts_min ts_max now t dm u,
  s2l "WAITING" ∈ synthetic_tags ts_min ts_max now t dm u <->
  exists z, get_timestamp ts_min ts_max t (s2l "wait") = Some z /\ (now < z)%Z.
Proof. exact synth_waiting. Qed.

Theorem C19_synth_blocked : forall ts_min ts_max now t dm u,
  (s2l "BLOCKED" ∈ synthetic_tags ts_min ts_max now t dm u <-> exists d, (u, d) ∈ dm) /\
  (s2l "UNBLOCKED" ∈ synthetic_tags ts_min ts_max now t dm u <-> ~ exists d, (u, d) ∈ dm) /\
  (s2l "BLOCKING" ∈ synthetic_tags ts_min ts_max now t dm u <-> exists a, (a, u) ∈ dm).
Proof. intros. split; [apply synth_blocked|split; [apply synth_unblocked|apply synth_blocking]]. Qed.

Theorem C19_synth_only_names : forall ts_min ts_max now t dm u x,
  x ∈ synthetic_tags ts_min ts_max now t dm u -> x ∈ synthetic_names.
Proof. intros ts_min ts_max now t dm u x. exact (synth_only_names ts_min ts_max now (fun _ => None) t dm u x). Qed.

Theorem C19_depmap_exact : forall parse_uuid (tasks : gmap N tmap) ws u d,
  (u, d) ∈ depmap parse_uuid tasks ws <->
  Some u ∈ tail ws /\ exists t, tasks !! u = Some t /\ d ∈ dependencies parse_uuid t /\ is_pending_task tasks d = true.
Proof. exact depmap_elem. Qed.

Theorem C19_gone_or_closed_blocks_nobody : forall parse_uuid (tasks : gmap N tmap) ws u d,
  (tasks !! d = None \/ exists t, tasks !! d = Some t /\ t !! k_status <> Some (s2l "pending")) ->
  (u, d) ∉ depmap parse_uuid tasks ws.
Proof. exact gone_or_closed_blocks_nobody. Qed.

(** Repeated application: replaying a log of recorded updates is idempotent
    on every stored task, so committing the operations recorded by any
    sequence of mutator calls a second time still leaves the stored task
    identical to the task the caller holds. *)
Theorem C19_replay_idempotent : forall (l : list (list N * option (list N) * option (list N))) (m : gmap (list N) (list N)),
  replay_log (replay_log m l) l = replay_log m l.
Proof. exact replay_idempotent. Qed.

Theorem C19_repeated_application : forall (nowstr : list N) (m0 : gmap (list N) (list N)) (um : bool) (l : list mutator),
  let s := run_mutators nowstr {| ts_map := m0; ts_um := um; ts_log := [] |} l in
  replay_log (replay_log m0 (ts_log s)) (ts_log s) = ts_map s.
Proof. exact repeated_application. Qed.

(** The synthetic tags follow the mutators: after [set_status] the task
    carries exactly the status tag of the status written; [start] makes it
    ACTIVE, [stop] takes ACTIVE away. *)
Theorem C19_status_tag_follows : forall nowstr ts_min ts_max now s dm u,
  (s2l "PENDING" ∈ synthetic_tags ts_min ts_max now (ts_map (set_status nowstr s StPending)) dm u) /\
  (s2l "COMPLETED" ∈ synthetic_tags ts_min ts_max now (ts_map (set_status nowstr s StCompleted)) dm u) /\
  (s2l "DELETED" ∈ synthetic_tags ts_min ts_max now (ts_map (set_status nowstr s StDeleted)) dm u).
Proof. exact status_tag_follows. Qed.

Theorem C19_status_tag_exclusive : forall nowstr ts_min ts_max now s dm u,
  s2l "PENDING" ∉ synthetic_tags ts_min ts_max now (ts_map (set_status nowstr s StCompleted)) dm u /\
  s2l "PENDING" ∉ synthetic_tags ts_min ts_max now (ts_map (set_status nowstr s StDeleted)) dm u /\
  s2l "COMPLETED" ∉ synthetic_tags ts_min ts_max now (ts_map (set_status nowstr s StPending)) dm u /\
  s2l "COMPLETED" ∉ synthetic_tags ts_min ts_max now (ts_map (set_status nowstr s StDeleted)) dm u /\
  s2l "DELETED" ∉ synthetic_tags ts_min ts_max now (ts_map (set_status nowstr s StPending)) dm u /\
  s2l "DELETED" ∉ synthetic_tags ts_min ts_max now (ts_map (set_status nowstr s StCompleted)) dm u.
Proof. exact status_tag_exclusive. Qed.

Theorem C19_start_makes_active : forall nowstr ts_min ts_max now s s' dm u,
  run_mutator nowstr s MStart = Some s' -> s2l "ACTIVE" ∈ synthetic_tags ts_min ts_max now (ts_map s') dm u.
Proof. exact start_makes_active. Qed.

Theorem C19_stop_clears_active : forall nowstr ts_min ts_max now s s' dm u,
  run_mutator nowstr s MStop = Some s' -> s2l "ACTIVE" ∉ synthetic_tags ts_min ts_max now (ts_map s') dm u.
Proof. exact stop_clears_active. Qed.

Print Assumptions C19_held_equals_stored.
Print Assumptions C19_mutator_keeps_agreement.
Print Assumptions C19_modified_once_first.
Print Assumptions C19_modified_once_later.
Print Assumptions C19_modified_not_when_explicit.
Print Assumptions C19_session_marked.
Print Assumptions C19_reads_back.
Print Assumptions C19_others_untouched.
Print Assumptions C19_end_set_on_close.
Print Assumptions C19_end_cleared_on_reopen.
Print Assumptions C19_status_written.
Print Assumptions C19_reserved_uda_refused.
Print Assumptions C19_synthetic_tag_refused.
Print Assumptions C19_add_tag_has.
Print Assumptions C19_remove_tag_gone.
Print Assumptions C19_other_tags_untouched.
Print Assumptions C19_add_dependency_has.
Print Assumptions C19_remove_dependency_gone.
Print Assumptions C19_add_annotation_stored.
Print Assumptions C19_remove_annotation_gone.
Print Assumptions C19_set_uda_listed.
Print Assumptions C19_set_uda_only_value.
Print Assumptions C19_remove_uda_gone.
Print Assumptions C19_other_udas_untouched.
Print Assumptions C19_reserved_never_listed.
Print Assumptions C19_refused_uda_is_noop.
Print Assumptions C19_synth_status.
Print Assumptions C19_synth_active.
Print Assumptions C19_synth_waiting.
Print Assumptions C19_synth_blocked.
Print Assumptions C19_synth_only_names.
Print Assumptions C19_depmap_exact.
Print Assumptions C19_gone_or_closed_blocks_nobody.
Print Assumptions C19_replay_idempotent.
Print Assumptions C19_repeated_application.
Print Assumptions C19_status_tag_follows.
Print Assumptions C19_status_tag_exclusive.
Print Assumptions C19_start_makes_active.
Print Assumptions C19_stop_clears_active.
