(** C16 — SQLite and in-memory storage are observationally equivalent and persistent.
    The specification (Model/Storage.v) is the documented contract, which the
    in-memory storage implements literally; the SQL tables refine it. *)
From TC Require Import Model.SqlStore Proofs.SqlP Proofs.SqlWsP.

(** calls on tasks, base version and the operation log commute with the
    abstraction from tables to the specification's state *)
Theorem C16_tasks_and_log_refine : forall q u t o b,
  q_readonly q = false ->
  (forall r q', q_create_task q u = Some (r, q') -> create_task (absq q) u = (r, absq q'))
  /\ (forall q', q_set_task q u t = Some (tt, q') -> set_task (absq q) u t = absq q')
  /\ (forall r q', q_delete_task q u = Some (r, q') -> delete_task (absq q) u = (r, absq q'))
  /\ (forall q', q_set_base q b = Some (tt, q') -> set_base (absq q) b = absq q')
  /\ (forall q', q_add_operation q o = Some (tt, q') -> add_operation (absq q) o = absq q')
  /\ (forall q', q_sync_complete q = Some (tt, q') -> sync_complete (absq q) = absq q').
Proof. exact tasks_and_log_refine. Qed.

(** [remove_operation]: SQLite looks at the last unsynced row, the
    specification (and the in-memory storage) at the last row; they agree
    because synced rows always precede unsynced ones *)
Theorem C16_remove_operation_refines : forall q o,
  ops_sorted (q_ops q) -> q_readonly q = false ->
  match q_remove_operation q o with
  | Some (Some (_, q')) => remove_operation (absq q) o = Some (absq q')
  | Some None => remove_operation (absq q) o = None
  | None => False
  end.
Proof. exact remove_operation_refines. Qed.

Theorem C16_log_stays_sorted : forall l o,
  ops_sorted l -> ops_sorted (l ++ [(false, o)]).
Proof. exact ops_sorted_add. Qed.

(** a read-only handle refuses every modification *)
Theorem C16_readonly_refuses_all : forall q u t o b i x,
  q_readonly q = true ->
  q_create_task q u = None /\ q_set_task q u t = None /\ q_delete_task q u = None
  /\ q_set_base q b = None /\ q_add_operation q o = None /\ q_remove_operation q o = None
  /\ q_sync_complete q = None /\ q_add_to_working_set q u = None
  /\ q_set_working_set_item q i x = None /\ q_clear_working_set q = None.
Proof. exact readonly_refuses_all. Qed.

(** the working-set table (rows id -> uuid, length MAX(id)+1) against the
    specification's normalised vector: add returns the same index, set inside
    the vector and clear give the same vector -- by complete enumeration of all
    256 tables with ids 1..4 over three uuids (a kernel computation, valid for
    that scope; beyond it, the correspondence check) *)
Theorem C16_working_set_table_small_scope : forallb ws_table_ok small_ws_tables = true.
Proof. exact ws_table_small_scope. Qed.

(** The working-set table in general (any table without a row 0, which the
    statements preserve): the SQL statements refine the specification's
    normalised vector -- add returns MAX(id)+1 and appends; set inside the vector
    (INSERT OR REPLACE / DELETE) is the update followed by normalisation, also
    when the last row goes and the vector shrinks to the largest remaining id;
    clear gives the empty vector. *)
Theorem C16_add_to_working_set_refines : forall q u n q',
  q_add_to_working_set q u = Some (n, q') ->
  add_to_working_set (absq q) u = (n, absq q') /\ (q_ws q !! 0%nat = None -> q_ws q' !! 0%nat = None).
Proof. exact add_to_working_set_refines. Qed.

Theorem C16_set_working_set_item_refines : forall q i x q',
  q_ws q !! 0%nat = None -> (1 <= i)%nat -> (i < length (st_ws (absq q)))%nat ->
  q_set_working_set_item q i x = Some (tt, q') ->
  set_working_set_item (absq q) i x = Some (absq q') /\ q_ws q' !! 0%nat = None.
Proof. exact set_working_set_item_refines. Qed.

Theorem C16_clear_working_set_refines : forall q q',
  q_clear_working_set q = Some (tt, q') ->
  clear_working_set (absq q) = absq q' /\ q_ws q' !! 0%nat = None.
Proof. exact clear_working_set_refines. Qed.

Print Assumptions C16_tasks_and_log_refine.
Print Assumptions C16_remove_operation_refines.
Print Assumptions C16_log_stays_sorted.
Print Assumptions C16_readonly_refuses_all.
Print Assumptions C16_working_set_table_small_scope.
Print Assumptions C16_add_to_working_set_refines.
Print Assumptions C16_set_working_set_item_refines.
Print Assumptions C16_clear_working_set_refines.
