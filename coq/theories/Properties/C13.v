(** C13 — Data leaving the host is sealed, version-bound and tamper-evident.
    An independent Gallina implementation of the documented scheme
    (Model/Crypto: SHA-256, HMAC, PBKDF2, ChaCha20, Poly1305, the RFC 8439
    AEAD, the envelope), validated against the RFC test vectors
    (Proofs/Crypto/Vectors.v), and tied to the code byte for byte by the
    correspondence check.  Secrecy and unforgeability are computational claims
    and are not theorems here (DESIGN.md section 9). *)
From Coq Require Import List NArith.
From TC Require Import Model.Crypto.Bytes Model.Crypto.Chacha20 Model.Crypto.Poly1305
  Model.Crypto.Aead Model.Crypto.Envelope Proofs.Crypto.EnvelopeP.
Import ListNotations.

(** The sealed form: format byte 1, the 12-byte nonce, ciphertext of the
    payload's length, a 16-byte tag. *)
Theorem C13_envelope_layout : forall key nonce vid payload,
  length nonce = 12 ->
  exists c t, seal key nonce vid payload = 1%N :: nonce ++ c ++ t
              /\ length c = length payload /\ length t = 16.
Proof. exact envelope_layout. Qed.

(** The authenticated data: application id 1 followed by the version id. *)
Theorem C13_aad_layout : forall vid, make_aad vid = 1%N :: vid.
Proof. exact aad_layout. Qed.

(** Opening with the same key and version id yields the original bytes, for
    all keys, nonces, ids and payloads. *)
Theorem C13_unseal_seal : forall key nonce vid payload,
  length nonce = 12 -> unseal key vid (seal key nonce vid payload) = Some payload.
Proof. exact unseal_seal. Qed.

(** Too short, or not format 1: rejected. *)
Theorem C13_unseal_rejects_short : forall key vid s, (length s <= 13)%nat -> unseal key vid s = None.
Proof. exact unseal_rejects_short. Qed.

Theorem C13_unseal_rejects_format : forall key vid b s, b <> 1%N -> unseal key vid (b :: s) = None.
Proof. exact unseal_rejects_format. Qed.

(** Acceptance is exactly a tag match for THIS version id's authenticated data,
    this ciphertext and this key: a value is opened iff it is what [seal]
    produces for the returned payload under the same key and version id.  A
    re-labelled, modified or foreign value is therefore accepted only on a
    Poly1305 tag collision. *)
Theorem C13_unseal_sound : forall key vid s p,
  unseal key vid s = Some p <-> exists nonce, length nonce = 12 /\ s = seal key nonce vid p.
Proof. exact unseal_Some_iff. Qed.

Print Assumptions C13_envelope_layout.
Print Assumptions C13_aad_layout.
Print Assumptions C13_unseal_seal.
Print Assumptions C13_unseal_rejects_short.
Print Assumptions C13_unseal_rejects_format.
Print Assumptions C13_unseal_sound.
