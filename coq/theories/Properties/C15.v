(** C15 — The working set lists exactly the pending tasks, with stable numbering. *)
From TC Require Import Model.TaskDb Proofs.ApplyP Proofs.CommitP Proofs.WorkingSetP Proofs.WorkingSetSmall Proofs.WorkingSetNoDupP Proofs.WriteBackP.

(** [rebuild_spec_ws] is the working set a rebuild produces (see
    [C15_writeback_small_scope] and the correspondence check for the write-back).
    It lists precisely the tasks satisfying the predicate (status pending or
    recurring) ... *)
Theorem C15_ws_exact : forall (in_ws : gmap N N -> bool) all (s : store) (renumber : bool) (u : N),
  (forall v t, (v, t) ∈ all <-> st_tasks s !! v = Some t) ->
  Some u ∈ rebuild_spec_ws in_ws all s renumber <-> wanted in_ws s u.
Proof. exact ws_exact. Qed.

(** ... position 0 is empty ... *)
Theorem C15_position_zero : forall in_ws all s renumber,
  rebuild_spec_ws in_ws all s renumber !! 0 = Some None.
Proof. exact ws_position_zero. Qed.

(** ... without renumbering every remaining task keeps its number ... *)
Theorem C15_ws_stable : forall in_ws all (s : store) (i : nat) (u : N),
  st_ws s !! S i = Some (Some u) -> wanted in_ws s u ->
  rebuild_spec_ws in_ws all s false !! S i = Some (Some u).
Proof. exact ws_stable. Qed.

(** ... newcomers come after the retained part (hence after all numbers in use) ... *)
Theorem C15_newcomers_after : forall in_ws all (s : store) (renumber : bool) (i : nat),
  (length (normalize_ws (None :: scan_old in_ws s renumber (tail (st_ws s)))) <= i)%nat ->
  rebuild_spec_ws in_ws all s renumber !! i =
  newcomers in_ws s (scan_old in_ws s renumber (tail (st_ws s))) all
    !! (i - length (normalize_ws (None :: scan_old in_ws s renumber (tail (st_ws s)))))%nat.
Proof. exact ws_newcomers_after. Qed.

(** ... and with renumbering the remaining tasks, in their old relative order,
    followed by the newcomers, occupy 1..n without gaps. *)
Theorem C15_ws_compact : forall in_ws all (s : store),
  rebuild_spec_ws in_ws all s true =
  None :: filter (fun x => keep_entry in_ws s x = true) (tail (st_ws s))
       ++ newcomers in_ws s (filter (fun x => keep_entry in_ws s x = true) (tail (st_ws s))) all
  /\ (forall x, x ∈ tail (rebuild_spec_ws in_ws all s true) -> x <> None).
Proof. exact ws_compact. Qed.

(** A commit only appends to the working set: existing numbers are undisturbed. *)
Theorem C15_commit_appends : forall (status : N) (is_pr : N -> bool) (s : store) (ops : list op),
  exists added, st_ws (commit_operations status is_pr s ops) = st_ws s ++ map Some added
    /\ NoDup added
    /\ (forall u, u ∈ added -> u ∈ omap (adds_to_ws status is_pr) ops /\ Some u ∉ st_ws s)
    /\ (forall u, u ∈ omap (adds_to_ws status is_pr) ops ->
                  Some u ∈ st_ws (commit_operations status is_pr s ops)).
Proof. intros. pose proof (commit_spec status is_pr s ops) as (_ & _ & _ & _ & H). exact H. Qed.

(** The write-back of [rebuild] through the storage calls produces
    [rebuild_spec_ws] and touches neither tasks nor the operation log: by
    complete enumeration of the small scope described in
    Proofs/WorkingSetSmall.v (1836 cases); beyond it, by the correspondence check. *)
Theorem C15_writeback_small_scope : forallb writeback_ok small_cases = true.
Proof. exact writeback_small_scope. Qed.

(** ... each of them once: a rebuild of a duplicate-free working set is
    duplicate-free (the tasks listed by [all_tasks] are distinct). *)
Theorem C15_ws_no_duplicates : forall (in_ws : gmap N N -> bool) all s renumber,
  NoDup (omap id (st_ws s)) -> NoDup (map fst all) ->
  NoDup (omap id (rebuild_spec_ws in_ws all s renumber)).
Proof. exact ws_nodup. Qed.

(** The write-back of [rebuild] through the storage calls -- the zip over old
    and new entries with [set_working_set_item] (whose vector is re-normalised
    after every call), then blanking or appending the rest -- succeeds and
    produces [rebuild_spec_ws], touching nothing else, for EVERY store whose
    working set is in the storage's normal form (position 0 blank, no trailing
    blank), every listing order and both modes; and the result is again in
    normal form.  (The enumeration above is kept as an independent check.) *)
Theorem C15_rebuild_writes_spec : forall (in_ws : gmap N N -> bool) all s renumber,
  ws_normal (st_ws s) ->
  exists s', rebuild_with in_ws all s renumber = Some s'
    /\ st_ws s' = rebuild_spec_ws in_ws all s renumber
    /\ st_tasks s' = st_tasks s /\ st_base s' = st_base s /\ st_ops s' = st_ops s.
Proof. exact rebuild_writes_spec. Qed.

Theorem C15_rebuild_result_is_normal : forall (in_ws : gmap N N -> bool) all s renumber,
  ws_normal (rebuild_spec_ws in_ws all s renumber).
Proof. exact rebuild_spec_normal. Qed.

Print Assumptions C15_ws_exact.
Print Assumptions C15_position_zero.
Print Assumptions C15_ws_stable.
Print Assumptions C15_newcomers_after.
Print Assumptions C15_ws_compact.
Print Assumptions C15_commit_appends.
Print Assumptions C15_writeback_small_scope.
Print Assumptions C15_ws_no_duplicates.
Print Assumptions C15_rebuild_writes_spec.
Print Assumptions C15_rebuild_result_is_normal.
