(** C14 — What is sent to the server is the documented operation format only. *)
From TC Require Import Model.Sync Model.Json Proofs.RebaseP Proofs.SyncP Proofs.SyncP2 Proofs.WireP.

(** Everything a sync pushes is a prefix of its rebased list ... *)
Theorem C14_pushed_is_prefix : forall (sz : sop -> N) (limit : N) (x : sst) b ops,
  sync_next sz limit x = inl (RAddVersion b ops) -> ops `prefix_of` x_local x.
Proof. intros. eapply push_is_prefix_of_rebased. eassumption. Qed.

(** ... which starts as the sync form of the unsynchronised operations, in
    order, and only ever loses elements ... *)
Theorem C14_starts_as_sync_form : forall (r : replica) (avoid wst : bool),
  x_local (start_sync r avoid wst) = sync_form (r_pend r).
Proof. reflexivity. Qed.

Theorem C14_only_loses : forall (sz : sop -> N) (limit : N) (x : sst) (p : resp),
  sublist (x_local (sync_resume sz limit x p)) (x_local x).
Proof. exact sync_resume_local_sublist. Qed.

(** ... and the sync form contains only images of committed operations under
    [from_op]: Create, Delete, Update with task id, property, new value and
    timestamp; undo points, old values and old tasks have no representation. *)
Theorem C14_sync_form_sources : forall (l : list op) (o : sop),
  o ∈ sync_form l -> exists o', o' ∈ l /\ from_op o' = Some o.
Proof. exact sync_form_sources. Qed.

Theorem C14_sync_form_keeps_order : forall l1 l2, sync_form (l1 ++ l2) = sync_form l1 ++ sync_form l2.
Proof. exact sync_form_order. Qed.

(** The documented JSON form round-trips through the tolerant reader, given
    that the text forms of uuids, strings and timestamps do ... *)
Theorem C14_from_to :
  forall (enc_uuid : N -> list N) dec_uuid (enc_str : N -> list N) dec_str (enc_ts : Z -> list N) dec_ts,
  (forall u, dec_uuid (enc_uuid u) = Some u) ->
  (forall s, dec_str (enc_str s) = Some s) ->
  (forall t, dec_ts (enc_ts t) = Some t) ->
  forall ops,
  version_of_json dec_uuid dec_str dec_ts (version_to_json enc_uuid enc_str enc_ts ops) = Some ops.
Proof. exact version_from_to. Qed.

(** ... and the reader does not depend on the order of the fields. *)
Theorem C14_reader_order_insensitive :
  forall dec_uuid dec_str dec_ts k body body',
  NoDup body.*1 -> body ≡ₚ body' ->
  op_of_json dec_uuid dec_str dec_ts (JObj [(k, JObj body)])
  = op_of_json dec_uuid dec_str dec_ts (JObj [(k, JObj body')]).
Proof. exact reader_order_insensitive. Qed.

(** A version written by another implementation, valid on the latest state, is
    applied like any other: the invariant and convergence hold for histories
    containing [EForeign] events. *)
Theorem C14_foreign_version_applied :
  forall (sz : sop -> N) (limit : N) (n : nat) (h : list event),
  wf_history sz limit (sys0 n) h = true -> Inv (run sz limit (sys0 n) h).
Proof. intros. apply run_inv; [apply Inv_init|assumption]. Qed.

Print Assumptions C14_pushed_is_prefix.
Print Assumptions C14_starts_as_sync_form.
Print Assumptions C14_only_loses.
Print Assumptions C14_sync_form_sources.
Print Assumptions C14_sync_form_keeps_order.
Print Assumptions C14_from_to.
Print Assumptions C14_reader_order_insensitive.
Print Assumptions C14_foreign_version_applied.
