(** C07 — Undo restores the exact prior state and withdraws the changes from sync. *)
From TC Require Import Model.TaskDb Proofs.ApplyP Proofs.UndoP Proofs.UndoFetchP.

(** Reversing one faithful operation (valid where it was applied, recording the
    value / the task that was really there) restores the tasks exactly --
    a deleted task comes back with all its properties -- and touches nothing else. *)
Theorem C07_reverse_restores : forall (o : op) (s : store) (d : db),
  faithful d o -> st_tasks s = apply_local d o ->
  exists s', apply_ops_strict s (reverse_ops o) = Some s' /\ st_tasks s' = d /\ same_meta s s'.
Proof. exact reverse_restores. Qed.

(** The whole call, for any faithful list [l] that is the tail of the
    unsynchronised operations ([pre] = older log entries, [p] = earlier
    unsynchronised ones): the tasks return to their content before [l], exactly
    [l] is removed from the log, base version and working set are untouched,
    and success is reported iff [l] contains a change. *)
Theorem C07_undo_spec : forall (s : store) (d : db) (pre : list (bool * op)) (p l : list op),
  l <> [] ->
  st_ops s = pre ++ map (pair false) (p ++ l) -> unsynced s = p ++ l ->
  faithful_seq d l -> st_tasks s = fold_left apply_local l d ->
  exists s', commit_reversed_operations s l = UndoDone (has_change l) s'
    /\ st_tasks s' = d
    /\ st_ops s' = pre ++ map (pair false) p
    /\ st_base s' = st_base s /\ st_ws s' = st_ws s.
Proof. exact undo_spec. Qed.

(** Operations that are not the most recent unsynchronised ones (a stale list
    fetched before a later commit, a list with an element missing, an empty
    list) are refused and nothing changes. *)
Theorem C07_undo_mismatch_refused : forall (s : store) (l : list op),
  (l = [] \/ ~ (exists p, unsynced s = p ++ l)) -> commit_reversed_operations s l = UndoRefused.
Proof. exact undo_mismatch_refused. Qed.

(** Once everything has been synchronised nothing is offered for undo and
    every list is refused. *)
Theorem C07_undo_after_sync_refused : forall (s : store) (l : list op),
  unsynced s = [] -> get_undo_operations s = [] /\ commit_reversed_operations s l = UndoRefused.
Proof. exact undo_after_sync_refused. Qed.

Theorem C07_sync_complete_leaves_nothing_unsynced : forall s, unsynced (sync_complete s) = [].
Proof. exact unsynced_sync_complete. Qed.

(** What [get_undo_operations] offers is what [commit_reversed_operations]
    accepts: a tail of the unsynchronised operations, non-empty whenever
    anything is unsynchronised, reaching back exactly to the last undo point. *)
Theorem C07_get_undo_is_tail : forall s, exists p, unsynced s = p ++ get_undo_operations s.
Proof. exact get_undo_is_tail. Qed.

Theorem C07_get_undo_nonempty : forall s, unsynced s <> [] -> get_undo_operations s <> [].
Proof. exact get_undo_nonempty. Qed.

Theorem C07_get_undo_back_to_last_point : forall s,
  match get_undo_operations s with [] => True | _ :: r => existsb is_undo_point r = false end.
Proof. exact get_undo_back_to_last_point. Qed.

(** Fetch, then commit the reversal, on a faithful log: success, the earlier
    content is back, exactly the offered operations leave the log, and strictly
    fewer operations remain unsynchronised -- repeated undo reaches the last sync. *)
Theorem C07_fetch_then_undo : forall (s : store) (d : db) (pre : list (bool * op)) (p : list op),
  unsynced s <> [] ->
  unsynced s = p ++ get_undo_operations s ->
  st_ops s = pre ++ map (pair false) (unsynced s) ->
  faithful_seq d (get_undo_operations s) ->
  st_tasks s = fold_left apply_local (get_undo_operations s) d ->
  exists s', commit_reversed_operations s (get_undo_operations s)
               = UndoDone (has_change (get_undo_operations s)) s'
    /\ st_tasks s' = d
    /\ st_ops s' = pre ++ map (pair false) p
    /\ st_base s' = st_base s /\ st_ws s' = st_ws s
    /\ (length p < length (unsynced s))%nat.
Proof. exact fetch_then_undo. Qed.

Print Assumptions C07_reverse_restores.
Print Assumptions C07_undo_spec.
Print Assumptions C07_undo_mismatch_refused.
Print Assumptions C07_undo_after_sync_refused.
Print Assumptions C07_sync_complete_leaves_nothing_unsynced.
Print Assumptions C07_get_undo_is_tail.
Print Assumptions C07_get_undo_nonempty.
Print Assumptions C07_get_undo_back_to_last_point.
Print Assumptions C07_fetch_then_undo.
