(** C17 — Concurrent handles on one SQLite replica serialise without loss.
    Proved, for any number of handles and every schedule of their events under
    the lock discipline of the SQLite storage (a transaction holds the write
    lock from its begin to its end; a begin without the lock is refused): the
    stored state is the one-at-a-time application of the committed
    transactions in commit order, abandoned and refused work contributes
    nothing, and for batches committed through TaskDb the recorded operations
    are the committed batches whole and once each, replay to the stored tasks,
    and no working-set entry is duplicated.  That SQLite enforces the lock
    between threads and processes is a runtime fact, sampled by the check. *)
From TC Require Import Model.TaskDb Model.Conc Model.Txn Proofs.ConcP Proofs.ConcDbP Proofs.ConcDb2P Proofs.WriteBackP.

Theorem C17_serial_equivalence : forall (S C : Type) (step : S -> C -> S) s l,
  cpersist (crun step {| cpersist := s; cholder := None |} l)
  = fold_left (atomic step) (committed None l) s.
Proof. exact @serial_equivalence. Qed.

Theorem C17_invariant_of_transactions : forall (S C : Type) (step : S -> C -> S) (Inv : S -> Prop) s l,
  Inv s ->
  (forall cs s', cs ∈ committed None l -> Inv s' -> Inv (atomic step s' cs)) ->
  Inv (cpersist (crun step {| cpersist := s; cholder := None |} l)).
Proof. exact @invariant_of_transactions. Qed.

Theorem C17_nothing_moves_under_a_held_lock : forall (S C : Type) (step : S -> C -> S) l st h w,
  cholder st = Some (h, w) -> Forall (fun e => e.1 <> h) l -> crun step st l = st.
Proof. exact @persistent_frozen_while_held. Qed.

Theorem C17_serial_is_single_handle : forall (S C : Type) (step : S -> C -> S) l st t open,
  tagrees st t open -> serial open l = true ->
  cpersist (crun step st l) = persistent (trun step t (map forget l)).
Proof. exact @serial_is_single_handle. Qed.

Theorem C17_concurrent_commits : forall (status : N) (is_pr : N -> bool) (base : db) (s : store) l,
  db_inv base s ->
  let s' := cpersist (crun (cstepdb status is_pr) {| cpersist := s; cholder := None |} l) in
  db_inv base s'
  /\ unsynced s' = unsynced s ++ concat (concat (committed None l)).
Proof. exact concurrent_commits. Qed.

(** The same with working-set rebuilds among the committed calls (a rebuild is
    given the listing of the tasks its transaction read): tasks = replay of the
    recorded operations, no working-set entry twice, the working set in the
    storage's normal form -- in every state reachable by any schedule. *)
Theorem C17_concurrent_commits_and_rebuilds : forall (status : N) (is_pr : N -> bool) (base : db) (s : store) l,
  db_inv2 base s ->
  db_inv2 base (cpersist (crun (dstep status is_pr) {| cpersist := s; cholder := None |} l)).
Proof. exact concurrent_commits_and_rebuilds. Qed.

Print Assumptions C17_serial_equivalence.
Print Assumptions C17_invariant_of_transactions.
Print Assumptions C17_nothing_moves_under_a_held_lock.
Print Assumptions C17_serial_is_single_handle.
Print Assumptions C17_concurrent_commits.
Print Assumptions C17_concurrent_commits_and_rebuilds.
