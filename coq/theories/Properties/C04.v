(** C04 — An interrupted sync loses nothing and can simply be repeated. *)
From TC Require Import Model.Sync Proofs.TransformP Proofs.RebaseP Proofs.SyncP Proofs.SyncP2.

(** An error before the effect, a process stop ([EAbandon]) or a lost reply
    ([ELost]) at any request leaves the stored replica exactly as it was. *)
Theorem C04_fault_leaves_before_state :
  forall (sz : sop -> N) (limit : N) (s : sys) i g nd e,
  e = EAbandon i \/ e = ELost i g ->
  nodes s !! i = Some nd ->
  exists nd', nodes (sys_step sz limit s e) !! i = Some nd' /\ n_rep nd' = n_rep nd.
Proof. exact fault_keeps_replica. Qed.

(** So does every request of a sync that has not (yet) finished successfully:
    the stored replica changes only at the final commit. *)
Theorem C04_uncommitted_invisible :
  forall (sz : sop -> N) (limit : N) (s : sys) i g nd,
  nodes s !! i = Some nd ->
  results (sys_step sz limit s (EStep i g)) = results s ->
  exists nd', nodes (sys_step sz limit s (EStep i g)) !! i = Some nd' /\ n_rep nd' = n_rep nd.
Proof. exact unfinished_step_keeps_replica. Qed.

(** The replica invariant holds after any history with any number of faults
    at any points (the chain may have grown by a version whose reply was lost). *)
Theorem C04_invariant_with_faults :
  forall (sz : sop -> N) (limit : N) (n : nat) (h : list event),
  wf_history sz limit (sys0 n) h = true -> Inv (run sz limit (sys0 n) h).
Proof. intros. apply run_inv; [apply Inv_init|assumption]. Qed.

(** A replica that pulls a version made of the first part of its own pending
    operations consumes exactly that part and applies nothing: the accepted
    batch is not sent or applied a second time. *)
Theorem C04_self_cancel : forall (x y : list sop),
  rebase transform x (x ++ y) = ([], y).
Proof. exact self_cancel. Qed.

(** After faults, syncing again never gets stuck, and reaches the replay of
    the chain. *)
Theorem C04_never_stuck :
  forall (sz : sop -> N) (limit : N) (n : nat) (h : list event) i r,
  wf_history sz limit (sys0 n) h = true ->
  In (i, r) (results (run sz limit (sys0 n) h)) -> r = SyncOk.
Proof. exact no_out_of_sync. Qed.

Theorem C04_resync_converges :
  forall (sz : sop -> N) (limit : N) (n : nat) (h : list event) i nd,
  wf_history sz limit (sys0 n) h = true ->
  nodes (run sz limit (sys0 n) h) !! i = Some nd ->
  r_pend (n_rep nd) = [] ->
  r_base (n_rep nd) = length (chain (srv (run sz limit (sys0 n) h))) ->
  r_tasks (n_rep nd) = applyl ∅ (concat (chain (srv (run sz limit (sys0 n) h)))).
Proof. exact converge. Qed.

Print Assumptions C04_fault_leaves_before_state.
Print Assumptions C04_uncommitted_invisible.
Print Assumptions C04_invariant_with_faults.
Print Assumptions C04_self_cancel.
Print Assumptions C04_never_stuck.
Print Assumptions C04_resync_converges.
