(** C08 — Every server backend implements the version-chain protocol exactly.
    The theorems are about the protocol specification the backends are compared
    with (Model/ChainSpec.v); the backends themselves -- SQLite, git, the
    object store, HTTP -- are tied to it by the correspondence check (and the
    object-store server additionally by the request-level model of C09/C10). *)
From TC Require Import Model.ChainSpec Proofs.ChainSpecP.

(** A version is accepted iff no version exists yet or its parent is the latest. *)
Theorem C08_accept_iff : forall s parent newid payload,
  (chain_step s (BAddVersion parent newid payload)).1 = BOk newid
  <-> (cs_versions s = [] \/ parent = head s).
Proof. exact accept_iff. Qed.

(** A rejection names the latest version and changes nothing. *)
Theorem C08_reject_changes_nothing : forall s parent newid payload r,
  (chain_step s (BAddVersion parent newid payload)).1 = BExpected r ->
  r = head s /\ (chain_step s (BAddVersion parent newid payload)).2 = s.
Proof. exact reject_changes_nothing. Qed.

(** An accepted version is returned with its bytes as the child of its parent. *)
Theorem C08_accepted_is_served : forall s parent newid payload,
  child_of s parent = None ->
  (chain_step s (BAddVersion parent newid payload)).1 = BOk newid ->
  (chain_step (chain_step s (BAddVersion parent newid payload)).2 (BGetChild parent)).1 = BVersion newid payload.
Proof. exact accepted_is_served. Qed.

(** An unknown parent yields "no such version"; reads change nothing. *)
Theorem C08_unknown_parent : forall s parent,
  child_of s parent = None -> (chain_step s (BGetChild parent)).1 = BNoSuch.
Proof. exact unknown_parent. Qed.

Theorem C08_reads_change_nothing : forall s parent,
  (chain_step s (BGetChild parent)).2 = s /\ (chain_step s BGetSnapshot).2 = s.
Proof. exact reads_change_nothing. Qed.

(** The versions always form one chain: each but the first is a child of the previous one. *)
Theorem C08_chain_stays_linked : forall s c,
  linked None (cs_versions s) -> linked None (cs_versions (chain_step s c).2).
Proof. exact chain_stays_linked. Qed.

Print Assumptions C08_accept_iff.
Print Assumptions C08_reject_changes_nothing.
Print Assumptions C08_accepted_is_served.
Print Assumptions C08_unknown_parent.
Print Assumptions C08_reads_change_nothing.
Print Assumptions C08_chain_stays_linked.
