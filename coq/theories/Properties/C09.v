(** C09 — Object-store server keeps one version chain under concurrent clients.

    Proved here (for all store states, schedules do not matter to them): the
    mechanism the property rests on.  The full inductive invariant over all
    interleavings ([GInv], stated in Proofs/CloudP.v) is NOT proved in this
    development (see DESIGN.md): its statement is kept below, and every
    generated schedule is checked against the model and against a direct audit
    by the correspondence check. *)
From TC Require Import Model.Cloud Proofs.CloudP.

(** [latest] changes only by a compare-and-swap whose expected value is the
    current one; so a version is committed only by a successful swap. *)
Theorem C09_latest_changes_only_by_cas : forall rank pagesz now st q,
  o_latest (ostore_step rank pagesz now st q).2 <> o_latest st ->
  exists old new, q = QCasLatest old new /\ o_latest st = old
                  /\ o_latest (ostore_step rank pagesz now st q).2 = Some new.
Proof. exact latest_changes_only_by_cas. Qed.

(** Once a swap from [old] has succeeded, any other swap expecting [old] fails:
    at most one child per parent is accepted. *)
Theorem C09_one_swap_per_parent : forall rank pagesz now st old new1 new2,
  new1 <> default new1 old -> Some new1 <> old ->
  (ostore_step rank pagesz now st (QCasLatest old new1)).1 = PBool true ->
  (ostore_step rank pagesz now (ostore_step rank pagesz now st (QCasLatest old new1)).2
               (QCasLatest old new2)).1 = PBool false.
Proof. exact cas_excludes. Qed.

(** The add-version routine swaps only at one point, from exactly the value it
    read first, which is its parent whenever a latest version existed ... *)
Theorem C09_swap_shape : forall (c : cpc) q,
  cl_next c = inl q -> (exists old new, q = QCasLatest old new) ->
  exists p c0 pl l, c = A2 p c0 pl l /\ q = QCasLatest l c0.
Proof. exact add_version_swap_shape. Qed.

Theorem C09_parent_is_latest : forall rank threshold p c pl r l,
  cl_resume rank threshold (A0 p c pl) r = A1 p c pl l -> forall l0, l = Some l0 -> l0 = p.
Proof. exact add_version_parent_is_latest. Qed.

(** ... reports success only after that swap succeeded, and after a failed swap
    goes on to delete its own object. *)
Theorem C09_ok_only_after_swap : forall rank threshold c r c0 u,
  cl_resume rank threshold c r = CDone (CAddOk c0 u) -> c = A5 c0.
Proof. exact add_version_ok_only_after_swap. Qed.

Theorem C09_swap_outcomes : forall rank threshold p c0 pl l,
  cl_resume rank threshold (A2 p c0 pl l) (PBool true) = A5 c0
  /\ cl_resume rank threshold (A2 p c0 pl l) (PBool false) = A3 p c0.
Proof. exact swap_success_leads_to_ok. Qed.

(** Version objects appear only by a put and disappear only by a delete. *)
Theorem C09_objects_change_only_by_put_and_delete : forall rank pagesz now st q,
  o_vers (ostore_step rank pagesz now st q).2 = o_vers st
  \/ (exists p c pl, q = QPutVer p c pl /\ o_vers (ostore_step rank pagesz now st q).2 = <[(p, c) := (pl, now)]> (o_vers st))
  \/ (exists p c, q = QDelVer p c /\ o_vers (ostore_step rank pagesz now st q).2 = delete (p, c) (o_vers st)).
Proof. exact vers_change. Qed.

(** Statement kept visible, not proved: the invariant holds in every state
    reachable by any schedule of any number of clients. *)
Definition C09_invariant_every_schedule_statement : Prop :=
  forall rank pagesz threshold (evs : list gev),
    GInv (fold_left (gstep rank pagesz threshold) evs gsys0).

Print Assumptions C09_latest_changes_only_by_cas.
Print Assumptions C09_one_swap_per_parent.
Print Assumptions C09_swap_shape.
Print Assumptions C09_parent_is_latest.
Print Assumptions C09_ok_only_after_swap.
Print Assumptions C09_swap_outcomes.
Print Assumptions C09_objects_change_only_by_put_and_delete.
